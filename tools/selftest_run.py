#!/usr/bin/env python3
"""selftest_run.py [Cnn ...] [--tier quick] [--jobs 3] [--tests]

Runs every deliberate property-breaking change under /verif/selftest/<Cnn>/*.patch
(and every confirmed independent change under /verif/seeded/<id>/patch.diff)
against the property's check, each in a scratch copy of /repo (tools/mutate.sh;
/repo itself is never touched), and writes /verif/selftest/RESULTS.json:
for each change the exit code (1 = detected) and the signatures reported.
With --tests the repository's own test suite is run on the changed copy too
(a change that fails it is not a valid self-test).
"""
import json, os, subprocess, sys, glob, concurrent.futures, re

def run(job):
    kind, prop, path, tier, tests = job
    env = dict(os.environ, GOFLAGS='-mod=mod', GOPROXY='off')
    if tests:
        env['MUTATE_RUN_TESTS'] = '1'
    try:
        p = subprocess.run(['/verif/tools/mutate.sh', path, prop, '--tier', tier], cwd='/verif', env=env,
                           capture_output=True, text=True, timeout=3600)
        out = p.stdout + p.stderr
    except subprocess.TimeoutExpired:
        out = 'EXIT=timeout'
    sigs = sorted(set(l.strip().replace('signature: ', '') for l in out.splitlines() if l.strip().startswith('signature:')))
    ex = [l for l in out.splitlines() if l.startswith('EXIT=')]
    r = {'kind': kind, 'property': prop, 'change': os.path.relpath(path, '/verif'), 'tier': tier,
         'exit': ex[-1][5:] if ex else '?', 'detected': bool(ex) and ex[-1] == 'EXIT=1', 'signatures': sigs[:6]}
    if tests:
        m = re.search(r'(?s)(.*)repo tests done', out)
        fails = [l for l in (m.group(1) if m else '').splitlines() if l.startswith('FAIL') or l.startswith('--- FAIL')]
        r['repo_tests_fail'] = fails[:4]
    print(('DETECTED ' if r['detected'] else 'MISSED   ') + r['change'], r['exit'], sigs[:1], flush=True)
    return r

def main():
    args = [a for a in sys.argv[1:] if not a.startswith('--')]
    opts = {a.split('=')[0]: (a.split('=')[1] if '=' in a else True) for a in sys.argv[1:] if a.startswith('--')}
    tier = opts.get('--tier', 'quick')
    jobs = []
    for d in sorted(glob.glob('/verif/selftest/C*')):
        prop = os.path.basename(d)
        if args and prop not in args:
            continue
        for p in sorted(glob.glob(d + '/*.patch')):
            jobs.append(('own', prop, p, tier, bool(opts.get('--tests'))))
    for d in sorted(glob.glob('/verif/seeded/C*')):
        prop = os.path.basename(d)[:3]
        if args and prop not in args:
            continue
        jobs.append(('independent', prop, d + '/patch.diff', tier, bool(opts.get('--tests'))))
    with concurrent.futures.ThreadPoolExecutor(int(opts.get('--jobs', 3))) as ex:
        res = list(ex.map(run, jobs))
    path = '/verif/selftest/RESULTS.json'
    old = []
    if args and os.path.exists(path):
        old = [r for r in json.load(open(path)) if r['property'] not in args]
    res = sorted(old + res, key=lambda r: (r['property'], r['kind'], r['change']))
    json.dump(res, open(path, 'w'), indent=1)
    missed = [r['change'] for r in res if not r['detected']]
    print(f'{len(res)} changes, {len(res) - len(missed)} detected; missed: {missed}')

if __name__ == '__main__':
    main()

#!/bin/bash
# usage: mutate.sh <patch> <check-id> [args...]
# Runs a check against a scratch copy of /repo with <patch> applied.  /repo is
# never touched; evidence/replays of the run go to /verif/.build/out-<hash>/.
# Prints EXIT=<code> (1 = violation detected, 0 = not detected, 3 = fault).
set -u
P="$(readlink -f "$1")"; shift
D=$(mktemp -d /tmp/mut.XXXXXX)
T=$(echo -n "$D" | sha1sum | cut -c1-8)
trap 'rm -rf "$D" /verif/.build/bin-$T /verif/.build/ov-$T /verif/.build/overlay-$T.json' EXIT
git -C /repo archive HEAD | tar -x -C "$D"
# uncommitted changes of /repo are part of "the current tree"
git -C /repo diff HEAD | (cd "$D" && git apply --allow-empty 2>/dev/null || true)
if ! (cd "$D" && git apply "$P" 2>/dev/null || patch -p1 -F0 -s < "$P"); then echo "patch failed"; echo "EXIT=9"; exit 9; fi
if [ "${MUTATE_RUN_TESTS:-0}" = 1 ]; then
  (cd "$D" && GOFLAGS=-mod=mod GOPROXY=off go test -vet=off -count=1 ./... 2>&1 | grep -v "^ok\|no test files" | head -20; echo "repo tests done")
fi
cd /verif
VERIF_REPO="$D" ./bin/check "$@"
rc=$?
echo "EXIT=$rc"

#!/bin/bash
# usage: mutate.sh <patch-or-sed-script> <check> [args...]
# Applies a patch to /repo, runs ./bin/check <check> args, reverts. Prints exit code.
set -u
P="$1"; shift
cd /repo || exit 9
if [ -n "$(git status --porcelain)" ]; then echo "repo dirty"; exit 9; fi
if ! git apply "$P"; then echo "patch failed"; exit 9; fi
cd /verif
./bin/check "$@"
rc=$?
git -C /repo checkout -- .
echo "EXIT=$rc"

#!/bin/bash
# Processes every delivered seed under /tmp/seed/*.out that has no result yet (3 at a time).
cd /verif
jobs=()
for d in /tmp/seed/C*.out; do
  id=$(basename $d .out)
  for suf in "" 2; do
    [ -f "$d/meta$suf.json" ] && [ -f "$d/patch$suf.diff" ] || continue
    r=/tmp/sv_${id}${suf:+-$suf}.json
    [ -f "$r" ] && continue
    echo "pending" > $r
    jobs+=("$id $suf")
  done
done
printf '%s\n' "${jobs[@]}" | xargs -P 3 -I{} bash -c 'set -- {}; id=$1; suf=$2; python3 tools/seed_verify.py $id $suf > /tmp/sv_${id}${suf:+-$suf}.json.tmp 2>&1; mv /tmp/sv_${id}${suf:+-$suf}.json.tmp /tmp/sv_${id}${suf:+-$suf}.json'

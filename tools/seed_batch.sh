#!/bin/bash
# usage: seed_batch.sh [dir=/tmp/seed] [tag=] [jobs=3]
# Processes every delivered seed under <dir>/*.out that has no result yet.
DIR=${1:-/tmp/seed}; TAG=${2:-}; JOBS=${3:-3}
R=/tmp/sv${TAG:+_$TAG}
cd /verif
jobs=()
for d in $DIR/C*.out; do
  id=$(basename $d .out)
  for suf in "" 2; do
    [ -f "$d/meta$suf.json" ] && [ -f "$d/patch$suf.diff" ] || continue
    r=${R}_${id}${suf:+-$suf}.json
    [ -f "$r" ] && continue
    echo "pending" > $r
    jobs+=("$id $suf")
  done
done
[ ${#jobs[@]} -eq 0 ] && exit 0
printf '%s\n' "${jobs[@]}" | xargs -P $JOBS -I{} bash -c 'set -- {}; id=$1; suf=$2; r='$R'_${id}${suf:+-$suf}.json; python3 tools/seed_verify.py $id $suf --dir='$DIR' '${TAG:+--tag=$TAG}' > $r.tmp 2>&1; mv $r.tmp $r'

#!/usr/bin/env python3
"""Generates /verif/MANIFEST.json from the table below (kept valid at all times)."""
import json, os, sys

props = [json.loads(l) for l in open('/verif/properties.jsonl')]
ids = [p['id'] for p in props]

# id -> (engine, technique, level text, level note, design ref)
claimed = {
 'C01': ('A', 'explicit-state BFS over arrival histories on the real rtpDownTrack.Write / packetmap.Map vs extended-position reference',
   'Exhaustive BFS (canonical-state dedup, cloning checkpoints for long runs) over all arrival histories (in-order, above-layer, lost, late, duplicate, bursts up to 65530, 130 alternations) up to the stated depth, for start seqnos around every 16-bit boundary, through the real rtpDownTrack.Write bound to a recording write stream and through packetmap.Map alone; every forwarded number compared with source minus withheld-before, uniqueness, duplicates, withheld-never-forwarded.',
   'Layer state pinned so that withheld == VP8 TID>0 accepted by Drop; in order = immediate successor; resync jumps >8192 outside the quantifier; bounds as reported in evidence.', 'DESIGN.md §3 C01'),
 'C02': ('A+B', 'explicit-state BFS over whole-frame arrival/withhold histories and retransmissions through the real Write for every descriptor-shape configuration; independent pion parsers as oracle; preemption-bounded schedule enumeration of concurrent rewriting Writes sharing the buffer pool',
   'For every configuration (VP8 descriptor shapes, VP9 flexible/non-flexible with two spatial layers, opaque codecs; CSRC count; header extension; picture-id width and start; start seqno) all in-order histories of frames of 1-3 packets, each forwarded or withheld, are run through the real rtpDownTrack.Write; each output packet is compared with its source (length, timestamp, CSRCs, extension, marker rule, payload bytes outside the picture id, expected picture id = source minus withheld frames), and the source buffer must be untouched; a forwarded packet written again (as gotNACK does) must leave with the same payload; plus every schedule (<=2/3 preemptions) of two or three down tracks rewriting one packet each, with the buffer pool modelled as a deterministic free list and the write stream as a scheduling point: each receiver must get its own packet.',
   'In-order arrival and whole-frame withholding as in the quantifier; layer state pinned; retransmissions are re-Writes of the cached source packet.', 'DESIGN.md §3 C02'),
 'C03': ('A+B', 'explicit-state BFS over forwarding histories interleaved with NACKs delivered as RTCP to the real rtcpDownListener; byte comparison with the first transmission; preemption-bounded schedule enumeration with vector-clock race monitor of gotNACK against the publisher storing/forwarding at the eviction boundary',
   'BFS over forward/withhold/loss/late/cache-resize/layer-request histories interleaved with NACKs for recent, never-sent, neighbouring and evicted numbers; retransmissions go through the real gotNACK/Reverse/GetPacket/cache/Write path and must be byte-identical to the first transmission or absent; plus a deeper pure Map/Drop/Reverse exploration with long runs (Reverse inverts Map, never names a withheld packet); plus every schedule (<=2/3 preemptions) of the real gotNACK answering for the packets at the cache eviction boundary while the publisher stores and forwards new packets (and resizes the cache), with all cache fields monitored for happens-before races and every packet leaving twice under one number compared byte for byte.',
   'Packets enter the cache as readLoop stores them; cache capacity 4 so eviction is reachable; VP9 layer requests set through an accessor mirroring adjustLayer.', 'DESIGN.md §3 C03'),
 'C04': ('A+B', 'explicit-state BFS over packet/feedback/request interleavings on the real rtpDownTrack with before/after monitors; preemption-bounded schedule enumeration of Write, adjustLayer, replaceTracks and a NACK retransmission as concurrent threads with every store to the layer word attributed to its thread and packet',
   'BFS over every VP8/VP9 flag pattern (tid, sid, start, keyframe, up-switch, non-reference), one late packet, REMB and receiver reports (real RTCP through the real rtcpDownListener), feedback timeout, load changes on the virtual clock and low-quality requests (real replaceTracks), from the initial and two non-initial layer states, for start seqno classes; monitors check withholding above the selection, legality of every spatial/temporal switch, selection <= layers seen, steering to sid 0 after a low-quality request, and the loss ceiling bounds.',
   'Canonical key abstracts the sequence map to "next packet is in order" (argument in DESIGN.md); in order = immediate successor; first packet of a stream exempt from the withholding rule; VP9 packets without layer indices included; the concurrent sub-check reports the lost updates on the layer word as known findings (see known_findings.jsonl).', 'DESIGN.md §3 C04'),
 'C05': ('A+B',
   'explicit-state BFS over store/get/getAt/resize sequences on the real cache + preemption-bounded schedule enumeration with vector-clock race monitor',
   'Exhaustive BFS (canonical-state dedup) of all operation sequences over a colliding seqno/size/capacity alphabet up to the stated depth on the real packetcache.Cache, compared step by step with a bounded-FIFO reference; plus every schedule with <=2 (thorough: 3) preemptions of one writer and two readers with all Cache/entry fields monitored for happens-before races, and of a reader of packets that stay retained while the wrapped cache is grown, written and shrunk (each lookup must return the packet).',
   'Packet contents are opaque to the cache; result buffers are BufSize long; bounds: depth, alphabet and preemption bound as reported in evidence.',
   'DESIGN.md §3 C05'),
 'C06': ('A', 'explicit-state BFS over arrival histories through the real readLoop with NACK capture and statistics sampling; full enumeration for ToBitmap and nackWriter',
   'BFS over arrival histories (in order, gaps of 1/2/17/33, late, duplicate, bursts up to 255/65536, backward restarts, forward jumps) fed to the real readLoop through a pion TrackRemote shell in three packet-rate regimes, for start seqnos around the wrap and the 32768 horizon; every upstream NACK is compared with the reference set of received positions (never received, never at/beyond the newest, never twice, holes in a steady stream are requested); statistics sampled with/without reset through the real sendUpRTCP (received<=expected, fraction, total lost, monotone extended seqno); all subsets of an 18/22-element window through ToBitmap; nackWriter filtering over hole sets x keyframe positions x all subsets of requested numbers.',
   'Rate regime fixed per configuration on the virtual clock; liveness demanded only in steady streams; downstream-triggered NACKs checked for what the mechanism promises (see DESIGN.md C06 scoping).', 'DESIGN.md §3 C06'),
 'C07': ('D', 'explicit-state BFS over signalling sequences with real PeerConnections through the real push/subscribe path; per-message and quiescence oracles against a reference selection',
   'BFS from the empty state and three non-initial presets (a fully published audio+simulcast stream with subscribers holding different requests in one or two groups) over join/request/requestStream/offer/replace/track/close/abort/answer/leave/kick/unpresent and delayed-push task firings; every offer (recipient membership and group, origin, label, requested kinds) and close (justification) is checked when written; at quiescence each subscriber holds exactly the reference tracks of every live stream and nothing of ended ones; one subscriber\'s abort/request never affects another.',
   'Tracks appear through the real OnTrack closure with synthetic remote tracks (no media); answers come from a standard pion client; queues drained after every message.', 'DESIGN.md §3 C07'),
 'C10': ('B+D', 'schedule enumeration with preemption bounding of concurrent join/leave/lock/reload on the real group layer with the admission decision observed under the group lock; BFS of the protocol-visible admission',
   'For 11 group configurations (locked, max-clients 1/2/3, inside/before/after the window, autolock, autokick, both) all pairs and selected triples of 9 thread bodies (joins of users/operator/duplicate id, leaves, lock, unlock, reload) under every schedule with <=2/3 preemptions; the Joined(join) callback, invoked while AddClient holds the group lock, records the lock flag, membership and operator count the decision was based on; plus BFS depth 6/8 of join/leave/disconnect/lock/unlock through the real websocket handlers per configuration (joined{join|fail}, user{add}, lock state, membership) and the redirect case.',
   'Clients are recording fakes whose callbacks do not block; kicked fakes stay members (their loop never runs).', 'DESIGN.md §3 C10'),
 'C13': ('B', 'stateless schedule enumeration with iterative preemption bounding under a cooperative scheduler; vector-clock happens-before race monitor; deadlock = no enabled thread',
   '21 programs of 1-3 threads with 1-3 real lifecycle calls each (AddClient, DelClient, SetLocked, reload, GetDescription, stats.GetGroups, group.Update, group.Delete, WhipClient.Close/Permissions, disk-writer Kick, Shutdown, data/history/status readers) plus two action-queue programs (two producers and the clientLoop consumer pattern), every schedule with <=3 (thorough 5) preemptions; deadlocks, unsynchronised accesses to the monitored Group/registry/configuration/queue fields, membership consistency, exactly-once and per-producer order of queued items; plus four programs with real rtpconn web clients under the scheduler (history replay vs posting, statistics and kick vs a client opening or closing a stream: lock order between the client lock and the group lock).',
   'Scheduling points at mutex, atomic, file and unbounded channel operations of the instrumented packages; happens-before through raw channels only for spawn/join.', 'DESIGN.md §3 C13'),
 'C20': ('A', 'exhaustive enumeration of delivery histories (bounded permutations, duplications, gaps with/without cache recovery, sender-report positions, sizes, pre-rolls) through the real disk writer; files parsed back with ebml-go',
   'For 205 stream configurations (VP8/VP9/H264/opus, 3-6 frames of 1-3 packets, payload sizes, timestamp and seqno wrap) every permutation with displacement <=2/3, every single duplication, every choice of one or two undelivered packets present or absent in the real packet cache, a sender report at every position, Close vs publisher departure, pre-rolls that put the sample builder ring just before its wrap, and a pre-roll whose first keyframe is lost for good (the file has to start at a later keyframe); each history is one execution of the real diskwriter through its public API; the recorded blocks are compared with independently depacketised frames (byte identity, no repeats, order, timestamps, completeness after the first keyframe, container well-formedness, shared origin — within arrival jitter, and within 2 ms once sender reports for both tracks precede the creation of the file —, flush on stop).',
   'Recoverable = in the cache when the gap is first noticed; exemptions before the first keyframe as stated in evidence; multi-NAL H264 access units not in the alphabet.', 'DESIGN.md §3 C20'),
 'C08': ('A+D', 'full product enumeration of descriptions x credentials through readDescription/GetPermission/AddClient/handleClientMessage vs an independent reference; BFS over moderation histories; tool round trip',
   'Full Cartesian products of group descriptions (password encodings, roles, wildcard user, flags) x credentials through the real readDescription + GetPermission, group.AddClient with harness clients, and the real websocket join handler; BFS over moderation-action histories followed by fresh logins (role table aliasing); enumeration of galenectl makePassword parameters round-tripped through Password.Match.',
   'Second user of the map fixed; pbkdf2 trailing-NUL and 1-byte keys are inherent to the primitive (stated in evidence).', 'DESIGN.md §3 C08'),
 'C09': ('A', 'full product enumeration of stateful and signed tokens x groups x instants x key sets x audiences vs an independent reference (only-if oracle)',
   'Full products over group/token-group path alphabets, validity instants around the exact boundaries on the virtual clock, usernames, permission lists (stateful, through Check, Parse and GetPermission) and over 69 signers x 17 key sets x audiences x hosts x claims for JWTs (including alg none, HMAC-with-public-key confusion, foreign keys, kid variants), plus checkGlobalAdminToken.',
   'JWT time claims keep >=60 s margins because the JWT library reads the real clock; signature and claims dimensions explored as two full products sharing the common dimensions.', 'DESIGN.md §3 C09'),
 'C11': ('D', 'full product enumeration role x membership state x message kind through the real signalling handlers with a side-effect oracle; enumeration of revocation interleaving points',
   'Full product of 8 roles x 11 membership states (never joined, refused for each cause, joined, left, kicked, other group, revoked-and-notified) x 28 privileged message kinds x unrestricted-tokens, each executed on real webClients through the real handleClientMessage/handleAction; any effect other than a refusal to the sender requires membership and the permission; installed permissions vs reference; token delegation product; edit/list token scope; revocation interleaving points.',
   'Trusted mirror: clientLoop dispatch (one message or one action batch at a time; Exit on error); WHIP ingest credentials only through the HTTP product of C12 (no live sessions).', 'DESIGN.md §3 C11'),
 'C12': ('A+D', 'bounded exhaustive enumeration of client inputs (RTP/RTCP shape grammars, HTTP request product, sdpfrag line sequences, ill-typed signalling messages in every membership state) with a no-panic/response oracle',
   'Every byte string of stated RTP/RTCP shape grammars (all 65536 descriptor prefixes, header shapes, AV1/H264 aggregation headers, every truncation) through the real classifiers, RewritePacket, rtpDownTrack.Write, readLoop and both RTCP listeners; full product of HTTP method x path shape x credential x content-type x body x precondition through the real handlers; an AV1 OBU grammar (element lengths, OBU types, extension flag); receiver reports whose delay lies around the time elapsed since the sender report, followed by the real statistics computation; every string of <=5/7 characters over {W / \" x * , space} as If-Match/If-None-Match value through checkPreconditions; all sdpfrag line sequences; every signalling message type with each field absent/ill-typed/empty/unknown/huge in 13 membership states, singly and in pairs.',
   'Inputs outside the grammars; no live WebRTC session; net/http wire parsing and /ws upgrade not covered; shards that die are reported from their progress file.', 'DESIGN.md §3 C12'),
 'C19': ('A', 'exhaustive enumeration of all strings up to a length bound over a path-relevant alphabet through validators, group layer, HTTP handlers (three wire forms) and the disk writer, with a file-system operation log and sentinel files',
   'Every string of <=4 (thorough: 6) symbols over {a,b,.,/,\\,%,NUL,e-acute,space} is used as group name, username, token, recordings path, static path and delete-form filename through the real group layer, the routes registered by the real webserver.Serve (plain, percent-encoded and double-encoded forms) and the real diskwriter; every file-system operation of the instrumented packages must stay inside the directory of its category, sentinels outside stay untouched and unserved, nothing is served for a name the reference predicate rejects; validGroupName/validUsername agree with the predicate on all strings of <=7/8 symbols.',
   'Linux path semantics, no symlinks in the sandbox; os.Root operations trusted and cross-checked by sentinels; WHIP POST and the websocket upgrade not driven.', 'DESIGN.md §3 C19'),
 'C14': ('D+B', 'explicit-state BFS over membership/moderation/setdata sequences and detached-task firings through the real handlers; views rebuilt with protocol.js semantics; preemption-bounded schedule enumeration of the same worlds with every client loop and detached goroutine as a controlled thread',
   'BFS over join/leave/disconnect/kick/op/unop/present/unpresent/setdata by three clients in two groups, a WHIP session joining and going away (reference membership from the history), with lazy variants (message handled while queues are non-empty) and explicit firing of detached goroutines; per-message oracles (no event from another group, one delete per departure) and, at quiescence, every member view == Group.GetClients with usernames, permissions and data; plus race programs (sig.RaceProgram) in which joins, leaves, moderation and setdata of different clients run as concurrently scheduled threads (<=2/3 preemptions) with the same quiescence oracle.',
   'Trusted mirror: clientLoop dispatch; per-message bookkeeping only on histories without lazy steps.', 'DESIGN.md §3 C14'),
 'C15': ('D+B', 'explicit-state BFS over chat/usermessage/clearchat/join/leave/tick sequences through the real handleClientMessage vs a reference chat model; preemption-bounded schedule enumeration of a joiner replaying a full history against posts and clears',
   'BFS over chat and usermessage variants (claimed source/username, dest, noecho, kinds, ids), clearchat variants, joins of late clients, a 49-message macro and clock ticks around the configured history age, by three clients with different roles in two groups; every message written to every client is checked for authenticity, privileged flag, recipients, spoof rejection and the history replay (order, bound 50, age, clears); plus race programs in which a client joins (history replay) while others post to a full history or clear it, under every schedule with <=2/3 preemptions.',
   'Queued actions handled to quiescence after every message; client k logs in as the k-th user.', 'DESIGN.md §3 C15'),
 'C16': ('A+B+C', 'explicit-state BFS over token operation sequences (library and HTTP) vs fresh reload; preemption-bounded schedule enumeration of conditional editors; crash-point and fault enumeration over every file-system step',
   'BFS over create/update/delete with current, stale and empty tags, expire, clock ticks, list, get and external file edits, through the library and the HTTP route, comparing the running server with a freshly loaded state after every step; all schedules (<=2/3 preemptions) of 2-3 editors holding tags, through the library and (GET for the entity tag, then PUT/DELETE with If-Match) through the real HTTP handlers; a crash before and after every vos step of five write histories followed by a restart that deletes every token in turn (shrinking rewrites) and creates one, and one injected I/O error at every step.',
   'Process-crash model (no fsync is claimed or demanded for the token file); one Write per Encode granularity; signalling commands reach the store only through the library calls driven here.', 'DESIGN.md §3 C16'),
 'C17': ('A+B', 'full product enumeration method x endpoint shape x credential x body through the real apiHandler; BFS over valid update sequences vs a reference model of the description; preemption-bounded schedule enumeration of a definition update against concurrent user, password and key updates',
   'Full product of 7 methods x 199 paths (every router shape) x 23 credentials x content-types executed in-process: insufficient credentials must get 401/404 with byte-identical trees and no data; no response ever contains a secret marker; BFS over valid admin updates checks that nothing unaddressed is lost or altered on disk; every schedule (<=2/3 preemptions, file-system steps are scheduling points) of UpdateDescription against UpdateUser/SetUserPassword/DeleteUser/SetKeys on the same group: every acknowledged update is in the file at the end.',
   'Requests bypass net/http path cleaning; JWT credentials issued around the real clock.', 'DESIGN.md §3 C17'),
 'C18': ('A+B+C', 'full enumeration of precondition header strings vs RFC 7232 reference; preemption-bounded schedule enumeration of concurrent API requests with a linearisation oracle; crash-point enumeration under process-crash and power-failure models',
   'All header strings of <=3/4 tokens through etagMatch/checkPreconditions; all schedules (<=2/3 preemptions) of 31 pairs and 5 triples of conditional GET/PUT/DELETE requests through the real apiHandler with a linearisation search (exclusivity, lost updates, conditional reads, complete definitions); a crash before/after every file-system step of rewriteDescriptionFile histories, with unsynced files materialised as empty/synced-prefix; an I/O error returned by every file-system step of the histories of <=4 operations (the operation fails leaving a complete definition, or is acknowledged with the complete new one).',
   'Directory-entry durability of rename assumed; file reads are not scheduling points (one Write is one step).', 'DESIGN.md §3 C18'),
}

not_applicable_reason = {}

checks = []
for i in ids:
    if i not in claimed:
        continue
    eng, tech, text, note, ref = claimed[i]
    checks.append({
        'property_id': i,
        'quick_cmd': f'./bin/check {i} --tier quick',
        'thorough_cmd': f'./bin/check {i} --tier thorough',
        'evidence_file': f'/verif/evidence/{i}.json',
        'replay_cmd_template': './bin/check replay {path}',
        'engine': eng,
        'level_claimed': {'category': 'model_checking', 'text': text, 'design_ref': ref},
        'level_note': note,
        'technique': tech,
    })

na = []
for i in ids:
    if i in claimed:
        continue
    na.append({'property_id': i, 'reason': not_applicable_reason.get(i, 'check not built yet in this revision of /verif (work in progress; see DESIGN.md §3 for the plan) — not decided by any other technique')})

manifest = {
 'version': 1,
 'setup_cmd': 'bash /verif/tools/setup.sh',
 'hooks': {
   'guard': 'verif',
   'enable': 'go build -tags verif -overlay /verif/.build/overlay.json (generated by verif/instr from the current /repo working tree: added in-package accessor files + mechanically rewritten copies; /repo itself is never modified)',
   'baseline_off_cmd': 'cd /repo && go test -vet=off -count=1 ./...',
   'source_commits': [],
   'add_only': True,
 },
 'engines': [
   {'name': 'A', 'path': '/verif/seqx', 'serves_properties': [], 'kind_free_text': 'explicit-state BFS over operation sequences / full product enumeration on the real objects, canonical-state dedup, reference-model oracle'},
   {'name': 'B', 'path': '/verif/vrt', 'serves_properties': [], 'kind_free_text': 'cooperative controlled scheduler over shimmed sync/atomic/os operations, stateless DFS with iterative preemption bounding, vector-clock race monitor, deadlock detection'},
   {'name': 'C', 'path': '/verif/vos', 'serves_properties': [], 'kind_free_text': 'crash-point and fault enumeration over every file-system step of a write history'},
   {'name': 'D', 'path': '/verif/harness/sig', 'serves_properties': [], 'kind_free_text': 'explicit-state exploration of the many-client signalling state machine whose transition function is the real handleClientMessage/handleAction'},
 ],
 'checks': checks,
 'not_applicable': na,
 'notes': 'All checks are bounded exhaustive explorations of the real galene code (no abstract model); see DESIGN.md. Exit 3 = harness fault (never a verdict).',
}
for e in manifest['engines']:
    e['serves_properties'] = [c['property_id'] for c in checks if e['name'] in c['engine']]
json.dump(manifest, open('/verif/MANIFEST.json', 'w'), indent=1)
print('claimed', [c['property_id'] for c in checks])

#!/usr/bin/env python3
"""seed_verify.py <ID> [suffix] [--checks C01,C03] [--tier quick]

Verifies one independently written property-breaking change (from
/tmp/seed/<ID>.out/, files patch<suffix>.diff, meta<suffix>.json and the
demonstration) in scratch copies of /repo (never /repo itself):
  1. the demonstration passes on the unchanged tree,
  2. the change applies, the project builds, the existing tests pass,
  3. the demonstration fails with the change,
then runs our check(s) against the change (tools/mutate.sh) and, if all of
1-3 hold, stores it as /verif/seeded/<ID><suffix>/ with a meta.json recording
what was run and which checks caught it.
"""
import json, os, shutil, subprocess, sys, tempfile, glob

ENV = dict(os.environ, GOFLAGS='-mod=mod', GOPROXY='off')

def sh(cmd, cwd=None, timeout=1200):
    p = subprocess.run(cmd, shell=True, cwd=cwd, env=ENV, capture_output=True, text=True, timeout=timeout)
    return p.returncode, (p.stdout + p.stderr)

def scratch():
    d = tempfile.mkdtemp(prefix='seedv.')
    sh(f'git -C /repo archive HEAD | tar -x -C {d}')
    return d

def main():
    args = [a for a in sys.argv[1:] if not a.startswith('--')]
    opts = {a.split('=')[0]: (a.split('=')[1] if '=' in a else True) for a in sys.argv[1:] if a.startswith('--')}
    pid = args[0]
    suf = args[1] if len(args) > 1 else ''
    base = opts.get('--dir', '/tmp/seed')
    tag = opts.get('--tag', '')
    out = f'{base}/{pid}.out'
    patch = f'{out}/patch{suf}.diff'
    meta = json.load(open(f'{out}/meta{suf}.json'))
    demo = meta.get('demo', {})
    kind = demo.get('kind', 'test')
    pkgdir = demo.get('package_dir', '').strip('./')
    result = {'property': pid, 'suffix': suf, 'title': meta.get('title'), 'needs_to_manifest': meta.get('needs_to_manifest'),
              'what_breaks': meta.get('what_breaks')}
    # locate demo files
    if kind == 'test':
        cands = [f'{out}/demo{suf}_test.go']
        demofiles = [c for c in cands if os.path.exists(c)]
    else:
        demofiles = glob.glob(f'{out}/demo{suf}/*.go')
    if not demofiles:
        print('no demonstration found', kind, out); result['error'] = 'no demo'; print(json.dumps(result)); return 1

    def place(d):
        if kind == 'test':
            dst = os.path.join(d, pkgdir)
            for f in demofiles:
                shutil.copy(f, os.path.join(dst, 'zz_' + os.path.basename(f)))
            run = meta['demo'].get('run') or f'go test -count=1 ./{pkgdir}/'
            # run only the demo tests if we can tell their names
            names = []
            for f in demofiles:
                for l in open(f):
                    if l.startswith('func Test'):
                        names.append(l.split('(')[0].split()[1])
            cmd = f"go test -count=1 -run '^({'|'.join(names)})$' ./{pkgdir}/" if names else f'go test -count=1 ./{pkgdir}/'
            return cmd
        else:
            dst = os.path.join(d, 'zz_demo' + suf)
            os.makedirs(dst, exist_ok=True)
            for f in demofiles:
                shutil.copy(f, dst)
            return f'go run ./zz_demo{suf}/'

    # 1. demo on unchanged tree
    d0 = scratch()
    cmd = place(d0)
    rc0, o0 = sh(cmd, cwd=d0, timeout=900)
    result['demo_cmd'] = cmd
    result['demo_passes_without_change'] = (rc0 == 0)
    shutil.rmtree(d0, ignore_errors=True)
    # 2. change applies, builds, tests pass
    d1 = scratch()
    rc, o = sh(f'git apply {patch}', cwd=d1)
    if rc != 0:
        rc, o = sh(f'patch -p1 -F0 < {patch}', cwd=d1)
    result['applies'] = (rc == 0)
    rcb, ob = sh('go build ./...', cwd=d1)
    result['builds'] = (rcb == 0)
    rct, ot = sh('go test -vet=off -count=1 ./... 2>&1 | grep -v "no test files"', cwd=d1, timeout=1500)
    failed = [l for l in ot.splitlines() if l.startswith('FAIL\t') or l.startswith('--- FAIL')]
    if failed and all('rtptime' in l or 'TestTime' in l for l in failed):
        rct2, ot2 = sh('go test -count=1 ./rtptime/', cwd=d1)
        if rct2 == 0:
            failed = []
    result['existing_tests_pass'] = (len(failed) == 0)
    result['existing_tests_failures'] = failed[:5]
    # 3. demo with change
    cmd = place(d1)
    rc1, o1 = sh(cmd, cwd=d1, timeout=900)
    result['demo_fails_with_change'] = (rc1 != 0)
    result['demo_output_tail'] = o1[-600:]
    shutil.rmtree(d1, ignore_errors=True)
    ok = all(result.get(k) for k in ['demo_passes_without_change', 'applies', 'builds', 'existing_tests_pass', 'demo_fails_with_change'])
    result['confirmed'] = ok
    # 4. our checks
    checks = opts.get('--checks', pid).split(',')
    tier = opts.get('--tier', 'quick')
    result['checks'] = {}
    for c in checks:
        rc, o = sh(f'/verif/tools/mutate.sh {patch} {c} --tier {tier}', cwd='/verif', timeout=3000)
        sigs = [l.strip().replace('signature: ', '') for l in o.splitlines() if 'signature:' in l]
        exitl = [l for l in o.splitlines() if l.startswith('EXIT=')]
        result['checks'][c] = {'tier': tier, 'exit': exitl[-1] if exitl else 'EXIT=?', 'signatures': sigs[:8],
                               'fault': [l for l in o.splitlines() if 'HARNESS-FAULT' in l][:2]}
    if ok:
        dst = f'/verif/seeded/{pid}{("-" + tag) if tag else ""}{("-" + suf) if suf else ""}'
        os.makedirs(dst, exist_ok=True)
        shutil.copy(patch, f'{dst}/patch.diff')
        for f in demofiles:
            shutil.copy(f, dst)
        m = {'property': pid, 'title': meta.get('title'), 'what_breaks': meta.get('what_breaks'),
             'needs_to_manifest': meta.get('needs_to_manifest'), 'files_changed': meta.get('files_changed'),
             'demo': {'kind': kind, 'package_dir': pkgdir, 'run': result['demo_cmd']},
             'confirmed_by_us': {k: result[k] for k in ['demo_passes_without_change', 'applies', 'builds', 'existing_tests_pass', 'demo_fails_with_change']},
             'what_we_ran': ['scratch copy of /repo HEAD (git archive); demo on the unchanged copy; git apply patch; go build ./...; go test -vet=off -count=1 ./...; demo on the changed copy; tools/mutate.sh patch <check> --tier ' + tier],
             'our_checks': result['checks']}
        json.dump(m, open(f'{dst}/meta.json', 'w'), indent=1)
    print(json.dumps(result, indent=1))
    return 0

if __name__ == '__main__':
    sys.exit(main())

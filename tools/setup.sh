#!/bin/bash
# setup_cmd: build the driver and pre-build every harness, offline, from files on disk.
set -e
cd /verif
unset GOFLAGS GOTOOLCHAIN GOSUMDB GODEBUG
export GOPROXY=off
GOROOT124=$(cd /repo && GOFLAGS=-mod=mod go env GOROOT)
GO="$GOROOT124/bin/go"
[ -x "$GO" ] || GO=go
export GOFLAGS=-mod=mod GOTOOLCHAIN=local GOSUMDB=off GODEBUG=goindex=0 CGO_ENABLED=0
cp -f /repo/go.sum /verif/go.sum 2>/dev/null || true
mkdir -p bin .build evidence replays
"$GO" build -o bin/check ./cmd/check
./bin/check build

#!/bin/bash
# usage: mkpatch.sh <CNN/name> <file> <old> <new>  -- creates /verif/selftest/<CNN/name>.patch from a scratch copy
set -e
D=$(mktemp -d); trap 'rm -rf $D' EXIT
git -C /repo archive HEAD | tar -x -C $D; cd $D; git init -q; git add -A; git commit -qm base >/dev/null
python3 - "$1" "$2" "$3" "$4" <<'PY'
import sys,subprocess
name,f,old,new=sys.argv[1:5]
s=open(f).read()
if old not in s:
    print(name,'PATTERN NOT FOUND'); sys.exit(1)
s=s.replace(old,new,1)
open(f,'w').write(s)
d=subprocess.run(['git','diff'],capture_output=True,text=True).stdout
open('/verif/selftest/'+name+'.patch','w').write(d)
print(name,'ok')
PY
(cd $D && GOFLAGS=-mod=mod GOPROXY=off go build ./... ) || echo "$1 DOES NOT COMPILE"

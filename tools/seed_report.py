#!/usr/bin/env python3
import json, glob, os
for f in sorted(glob.glob('/tmp/sv_C*.json')):
    try:
        txt = open(f).read()
        r = json.loads(txt[txt.index('{'):])
        ch = {c: (v['exit'], v['signatures'][:2], v['fault'][:1]) for c, v in r['checks'].items()}
        print(os.path.basename(f)[3:-5], 'confirmed' if r['confirmed'] else 'UNCONFIRMED %s' % {k: r.get(k) for k in ['demo_passes_without_change','applies','builds','existing_tests_pass','demo_fails_with_change']}, ch, '|', (r.get('title') or '')[:70])
    except Exception as e:
        print(os.path.basename(f), 'not ready', str(e)[:60])

#!/usr/bin/env python3
"""seed_report.py [prefix=/tmp/sv] : one line per processed seed."""
import json, sys, glob
pre = sys.argv[1] if len(sys.argv) > 1 else '/tmp/sv'
for f in sorted(glob.glob(pre + '_C*.json')):
    t = open(f).read()
    try:
        d = json.loads(t[t.find('{'):])
        print(f.split('_')[-1][:-5], 'confirmed' if d.get('confirmed') else 'UNCONFIRMED',
              {c: (v['exit'], v['signatures'][:1], v['fault'][:1]) for c, v in d['checks'].items()}, d.get('existing_tests_failures') or '')
    except Exception as e:
        print(f, 'pending/err', str(e)[:40])

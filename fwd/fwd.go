// Package fwd builds the forwarding world shared by C01–C04 and C06: a real
// rtpUpTrack (real packet cache, pion TrackRemote shell fed by the harness)
// and a real rtpDownTrack bound to a recording write stream.
package fwd

import (
	"sync"

	"github.com/pion/webrtc/v4"

	"github.com/jech/galene/rtpconn"
	"github.com/jech/galene/rtptime"

	"verif/media"
	"verif/vrt"
	"verif/vtime"
)

var initOnce sync.Once

// Init puts the process in Tasks mode with a virtual clock.
func Init() {
	initOnce.Do(func() {
		vrt.SetMode(vrt.Tasks)
		vtime.SetVirtual(true)
	})
}

var (
	VP8 = webrtc.RTPCodecParameters{RTPCodecCapability: webrtc.RTPCodecCapability{
		MimeType: "video/VP8", ClockRate: 90000,
		RTCPFeedback: []webrtc.RTCPFeedback{{Type: "goog-remb"}, {Type: "nack"}, {Type: "nack", Parameter: "pli"}, {Type: "ccm", Parameter: "fir"}},
	}, PayloadType: 96}
	VP9 = webrtc.RTPCodecParameters{RTPCodecCapability: webrtc.RTPCodecCapability{
		MimeType: "video/VP9", ClockRate: 90000, SDPFmtpLine: "profile-id=0",
		RTCPFeedback: []webrtc.RTCPFeedback{{Type: "goog-remb"}, {Type: "nack"}, {Type: "nack", Parameter: "pli"}, {Type: "ccm", Parameter: "fir"}},
	}, PayloadType: 98}
	H264 = webrtc.RTPCodecParameters{RTPCodecCapability: webrtc.RTPCodecCapability{
		MimeType: "video/H264", ClockRate: 90000,
		SDPFmtpLine:  "level-asymmetry-allowed=1;packetization-mode=1;profile-level-id=42e01f",
		RTCPFeedback: []webrtc.RTCPFeedback{{Type: "nack"}, {Type: "nack", Parameter: "pli"}},
	}, PayloadType: 102}
	Opus = webrtc.RTPCodecParameters{RTPCodecCapability: webrtc.RTPCodecCapability{
		MimeType: "audio/opus", ClockRate: 48000, Channels: 2,
	}, PayloadType: 111}
)

const UpSSRC = 0x11223344
const DownSSRC = 0x55667788

// World is one publisher track and one subscriber track.
type World struct {
	Codec   webrtc.RTPCodecParameters
	Up      *rtpconn.VerifUp
	Down    *rtpconn.VerifDown
	Rec     *media.Recorder
	UpRTCP  *media.RTCPSink // RTCP the server sends to the publisher
	DnRTCP  *media.RTCPSink // RTCP the server sends to the subscriber
	RTPIn   *media.ScriptReader
	UpCtl   *media.ScriptReader // RTCP from the publisher
	DownCtl *media.ScriptReader // RTCP from the subscriber
	Recv    *webrtc.RTPReceiver
}

// New builds a fresh world.  cacheSize 0 = galene's default for the kind.
func New(codec webrtc.RTPCodecParameters, cacheSize int) *World {
	Init()
	vtime.SetVirtual(true)
	rtptime.VerifSetEpoch(vtime.Base.Add(-1000 * 3600 * 1e9))
	vrt.ResetTasks()
	w := &World{Codec: codec}
	w.UpRTCP, w.DnRTCP = &media.RTCPSink{}, &media.RTCPSink{}
	w.RTPIn, w.UpCtl, w.DownCtl = media.NewScriptReader(), media.NewScriptReader(), media.NewScriptReader()
	kind := webrtc.RTPCodecTypeVideo
	if codec.MimeType == "audio/opus" {
		kind = webrtc.RTPCodecTypeAudio
	}
	tr, recv := webrtc.VerifNewTrackRemote(kind, UpSSRC, "t0", "s0", "", codec, w.RTPIn, w.UpCtl)
	w.Recv = recv
	upPC := webrtc.VerifNewPeerConnection(w.UpRTCP)
	w.Up = rtpconn.VerifNewUpTrack(tr, recv, upPC, cacheSize)
	w.Rec = media.NewRecorder(codec, DownSSRC)
	sender := webrtc.VerifNewRTPSender(w.DownCtl)
	dnPC := webrtc.VerifNewPeerConnection(w.DnRTCP)
	d, err := rtpconn.VerifNewDownTrack(w.Up.UpTrack(), w.Rec, sender, dnPC)
	if err != nil {
		panic(err)
	}
	w.Down = d
	return w
}

// Close ends whatever loops were started.
func (w *World) Close() {
	w.RTPIn.Close()
	w.UpCtl.Close()
	w.DownCtl.Close()
	webrtc.VerifCloseReceiver(w.Recv)
}

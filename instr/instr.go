// Package instr generates the build overlay that binds the harnesses to the
// current working tree of /repo without modifying it:
//
//   - files under /verif/exports/<pkg>/ are *added* to galene package <pkg>
//     (in-package accessors, build tag verif);
//   - selected galene packages are replaced by mechanically rewritten copies:
//     imports of sync, sync/atomic, time and os are redirected to the verif
//     shims, `go` statements become vrt.GoR calls, channel operations get
//     yield points, and accesses to monitored struct fields are wrapped in
//     vrt.R / vrt.W for the vector-clock race monitor.
//
// All rewrites are byte splices computed from the AST, so line numbers are
// preserved.
package instr

import (
	"bytes"
	"encoding/json"
	"fmt"
	"go/ast"
	"go/parser"
	"go/token"
	"os"
	"os/exec"
	"path/filepath"
	"regexp"
	"sort"
	"strconv"
	"strings"
)

type pkgConf struct {
	imports  map[string]string // std path -> shim path
	goStmts  bool
	chanPts  bool
	monitors []string // field names
	// sortedMaps: `range x.f` over these (map-typed) fields iterates in
	// sorted key order, so that executions do not depend on Go's randomised
	// map iteration (the order is unspecified, so this is a legal behaviour)
	sortedMaps []string
}

var shimAll = map[string]string{
	"sync":        "verif/vsync",
	"sync/atomic": "verif/vatomic",
	"time":        "verif/vtime",
	"os":          "verif/vos",
}

var conf = map[string]pkgConf{
	"group": {imports: shimAll, goStmts: true,
		monitors:   []string{"clients", "locked", "description", "history", "timestamp", "data", "groups", "configuration"},
		sortedMaps: []string{"clients", "groups"}},
	"unbounded":   {imports: shimAll, chanPts: true, monitors: []string{"queue"}},
	"token":       {imports: shimAll, monitors: []string{"tokens", "fileSize", "modTime"}, sortedMaps: []string{"tokens"}},
	"packetcache": {imports: shimAll, monitors: []string{"entries", "tail", "last", "lastValid", "cycle", "expected", "received", "totalExpected", "totalReceived", "keyframe", "keyframeValid", "seqno", "lengthAndMarker", "timestamp", "buf", "bitmap", "first", "valid"}},
	"packetmap":   {imports: shimAll},
	"rtpconn":     {imports: shimAll, goStmts: true, chanPts: true, sortedMaps: []string{"up", "down"}},
	"diskwriter":  {imports: shimAll},
	"webserver":   {imports: shimAll, goStmts: true},
	"estimator":   {imports: shimAll},
	"rtptime":     {imports: shimAll},
	"jitter":      {imports: shimAll},
	"stats":       {imports: shimAll},
}

type edit struct {
	off, del int
	ins      string
	seq      int
}

// Generate writes the overlay for the source tree src under verif/.build and
// returns the path of the overlay JSON.  The overlay keys are paths under
// repo (the directory the harness module's replace directive points to); src
// is normally the same directory, but may be a scratch copy (mutation runs),
// in which case every file of src that differs from repo is mapped too, so
// that the build sees exactly the scratch tree.
func Generate(src, repo, verif, tag string) (string, error) {
	build := filepath.Join(verif, ".build")
	ovdir := filepath.Join(build, "ov"+tag)
	replace := map[string]string{}
	if src != repo {
		if err := mapTree(src, repo, replace); err != nil {
			return "", err
		}
	}

	// 1. rewritten copies
	pkgs := make([]string, 0, len(conf))
	for p := range conf {
		pkgs = append(pkgs, p)
	}
	sort.Strings(pkgs)
	for _, p := range pkgs {
		files, _ := filepath.Glob(filepath.Join(src, p, "*.go"))
		for _, f := range files {
			if strings.HasSuffix(f, "_test.go") {
				continue
			}
			data, err := os.ReadFile(f)
			if err != nil {
				return "", err
			}
			key := filepath.Join(repo, p, filepath.Base(f))
			out, changed, err := Rewrite(key, data, p, conf[p])
			if err != nil {
				return "", fmt.Errorf("%s: %w", f, err)
			}
			if !changed {
				continue
			}
			dst := filepath.Join(ovdir, p, filepath.Base(f))
			if err := writeIfChanged(dst, out); err != nil {
				return "", err
			}
			replace[key] = dst
		}
	}

	// 2. added accessor files
	ents, _ := os.ReadDir(filepath.Join(verif, "exports"))
	for _, e := range ents {
		if !e.IsDir() {
			continue
		}
		name := e.Name()
		var target string
		if strings.HasPrefix(name, "_mod_") {
			// exports/_mod_<escaped module path>: added to a module-cache package
			t, err := moduleDir(repo, strings.ReplaceAll(strings.TrimPrefix(name, "_mod_"), "__", "/"))
			if err != nil {
				return "", err
			}
			target = t
		} else {
			target = filepath.Join(repo, strings.ReplaceAll(name, "__", "/"))
		}
		files, _ := filepath.Glob(filepath.Join(verif, "exports", name, "*.go"))
		for _, f := range files {
			replace[filepath.Join(target, "zz_verif_"+filepath.Base(f))] = f
		}
	}

	b, _ := json.MarshalIndent(map[string]any{"Replace": replace}, "", " ")
	ov := filepath.Join(build, "overlay"+tag+".json")
	if err := writeIfChanged(ov, b); err != nil {
		return "", err
	}
	return ov, nil
}

// mapTree maps every .go file (and go.mod is left alone) of src that is new
// or differs from repo, and marks files deleted in src as deleted.
func mapTree(src, repo string, replace map[string]string) error {
	seen := map[string]bool{}
	err := filepath.Walk(src, func(path string, info os.FileInfo, err error) error {
		if err != nil {
			return nil
		}
		if info.IsDir() {
			if n := info.Name(); n == ".git" || n == "static" {
				return filepath.SkipDir
			}
			return nil
		}
		if !strings.HasSuffix(path, ".go") || strings.HasSuffix(path, "_test.go") {
			return nil
		}
		rel, _ := filepath.Rel(src, path)
		seen[rel] = true
		a, _ := os.ReadFile(path)
		b, err := os.ReadFile(filepath.Join(repo, rel))
		if err != nil || !bytes.Equal(a, b) {
			replace[filepath.Join(repo, rel)] = path
		}
		return nil
	})
	if err != nil {
		return err
	}
	return filepath.Walk(repo, func(path string, info os.FileInfo, err error) error {
		if err != nil {
			return nil
		}
		if info.IsDir() {
			if n := info.Name(); n == ".git" || n == "static" {
				return filepath.SkipDir
			}
			return nil
		}
		if !strings.HasSuffix(path, ".go") || strings.HasSuffix(path, "_test.go") {
			return nil
		}
		rel, _ := filepath.Rel(repo, path)
		if !seen[rel] {
			replace[path] = ""
		}
		return nil
	})
}

var modDirCache = map[string]string{}

func moduleDir(repo, mod string) (string, error) {
	if d, ok := modDirCache[mod]; ok {
		return d, nil
	}
	gomod, err := os.ReadFile(filepath.Join(repo, "go.mod"))
	if err != nil {
		return "", err
	}
	re := regexp.MustCompile(`(?m)^\s*` + regexp.QuoteMeta(mod) + `\s+(v\S+)`)
	m := re.FindSubmatch(gomod)
	if m == nil {
		return "", fmt.Errorf("module %s not in go.mod", mod)
	}
	cache := os.Getenv("GOMODCACHE")
	if cache == "" {
		out, err := exec.Command("go", "env", "GOMODCACHE").Output()
		if err == nil {
			cache = strings.TrimSpace(string(out))
		}
	}
	if cache == "" {
		cache = "/root/go/pkg/mod"
	}
	// module path escaping: upper-case letters become !lower
	var esc strings.Builder
	for _, r := range mod {
		if r >= 'A' && r <= 'Z' {
			esc.WriteByte('!')
			esc.WriteRune(r + 32)
		} else {
			esc.WriteRune(r)
		}
	}
	d := filepath.Join(cache, esc.String()+"@"+string(m[1]))
	if _, err := os.Stat(d); err != nil {
		return "", err
	}
	modDirCache[mod] = d
	return d, nil
}

func writeIfChanged(path string, data []byte) error {
	old, err := os.ReadFile(path)
	if err == nil && bytes.Equal(old, data) {
		return nil
	}
	if err := os.MkdirAll(filepath.Dir(path), 0755); err != nil {
		return err
	}
	tmp := fmt.Sprintf("%s.%d.tmp", path, os.Getpid())
	if err := os.WriteFile(tmp, data, 0644); err != nil {
		return err
	}
	return os.Rename(tmp, path)
}

// Rewrite applies the configured rewrites to one source file.
func Rewrite(filename string, src []byte, pkg string, c pkgConf) ([]byte, bool, error) {
	fset := token.NewFileSet()
	f, err := parser.ParseFile(fset, filename, src, parser.ParseComments)
	if err != nil {
		return nil, false, err
	}
	off := func(p token.Pos) int { return fset.Position(p).Offset }
	// enclosing function of a position (for stable, line-independent names)
	type frange struct {
		from, to token.Pos
		name     string
	}
	var funcs []frange
	for _, d := range f.Decls {
		if fd, ok := d.(*ast.FuncDecl); ok {
			name := fd.Name.Name
			if fd.Recv != nil && len(fd.Recv.List) > 0 {
				t := fd.Recv.List[0].Type
				if st, ok := t.(*ast.StarExpr); ok {
					t = st.X
				}
				if ix, ok := t.(*ast.IndexExpr); ok {
					t = ix.X
				}
				if id, ok := t.(*ast.Ident); ok {
					name = id.Name + "." + name
				}
			}
			funcs = append(funcs, frange{fd.Pos(), fd.End(), name})
		}
	}
	short := func(p token.Pos) string {
		ps := fset.Position(p)
		fn := ""
		for _, fr := range funcs {
			if p >= fr.from && p < fr.to {
				fn = "(" + fr.name + ")"
			}
		}
		return pkg + "/" + filepath.Base(ps.Filename) + ":" + strconv.Itoa(ps.Line) + fn
	}
	var edits []edit
	add := func(o, d int, ins string) {
		edits = append(edits, edit{o, d, ins, len(edits)})
	}

	// imports
	importNames := map[string]bool{}
	needVrt := false
	for _, im := range f.Imports {
		path, _ := strconv.Unquote(im.Path.Value)
		name := filepath.Base(path)
		if im.Name != nil {
			name = im.Name.Name
		}
		importNames[name] = true
		if shim, ok := c.imports[path]; ok {
			o := off(im.Path.Pos())
			if im.Name == nil {
				add(o, len(im.Path.Value), filepath.Base(path)+" "+strconv.Quote(shim))
			} else {
				add(o, len(im.Path.Value), strconv.Quote(shim))
			}
		}
	}

	mon := map[string]bool{}
	for _, m := range c.monitors {
		mon[m] = true
	}

	// writes: set of selector nodes that are written
	writes := map[*ast.SelectorExpr]bool{}
	calls := map[*ast.SelectorExpr]bool{}
	var base func(e ast.Expr) *ast.SelectorExpr
	base = func(e ast.Expr) *ast.SelectorExpr {
		switch e := e.(type) {
		case *ast.ParenExpr:
			return base(e.X)
		case *ast.IndexExpr:
			return base(e.X)
		case *ast.SliceExpr:
			return base(e.X)
		case *ast.SelectorExpr:
			return e
		}
		return nil
	}
	if len(mon) > 0 {
		ast.Inspect(f, func(n ast.Node) bool {
			switch n := n.(type) {
			case *ast.AssignStmt:
				for _, l := range n.Lhs {
					if s := base(l); s != nil {
						writes[s] = true
					}
				}
			case *ast.IncDecStmt:
				if s := base(n.X); s != nil {
					writes[s] = true
				}
			case *ast.CallExpr:
				if id, ok := n.Fun.(*ast.Ident); ok && len(n.Args) > 0 {
					switch id.Name {
					case "delete", "copy", "clear":
						if s := base(n.Args[0]); s != nil {
							writes[s] = true
						}
					}
				}
				if s, ok := n.Fun.(*ast.SelectorExpr); ok {
					calls[s] = true
				}
			case *ast.RangeStmt:
				if n.Tok == token.ASSIGN {
					for _, e := range []ast.Expr{n.Key, n.Value} {
						if e != nil {
							if s := base(e); s != nil {
								writes[s] = true
							}
						}
					}
				}
			}
			return true
		})
	}

	stmtLists := func(n ast.Node) []ast.Stmt {
		switch n := n.(type) {
		case *ast.BlockStmt:
			return n.List
		case *ast.CaseClause:
			return n.Body
		case *ast.CommClause:
			return n.Body
		}
		return nil
	}
	hasRecv := func(e ast.Expr) bool {
		found := false
		ast.Inspect(e, func(n ast.Node) bool {
			if _, ok := n.(*ast.FuncLit); ok {
				return false
			}
			if u, ok := n.(*ast.UnaryExpr); ok && u.Op == token.ARROW {
				found = true
			}
			return true
		})
		return found
	}

	sorted := map[string]bool{}
	for _, m := range c.sortedMaps {
		sorted[m] = true
	}

	ast.Inspect(f, func(n ast.Node) bool {
		switch n := n.(type) {
		case *ast.RangeStmt:
			x := n.X
			for {
				if p, ok := x.(*ast.ParenExpr); ok {
					x = p.X
					continue
				}
				break
			}
			if sel, ok := x.(*ast.SelectorExpr); ok && sorted[sel.Sel.Name] {
				needVrt = true
				add(off(n.X.Pos()), 0, "vrt.SortedMap(")
				add(off(n.X.End()), 0, ")")
			}
		case *ast.GoStmt:
			if !c.goStmts {
				return true
			}
			call := n.Call
			if call.Ellipsis.IsValid() {
				return true // f(xs...) is left alone
			}
			needVrt = true
			add(off(n.Go), 2, "vrt.GoR("+strconv.Quote(short(n.Pos()))+",")
			if len(call.Args) > 0 {
				add(off(call.Lparen), 1, ", ")
			} else {
				add(off(call.Lparen), 1, "")
			}
		case *ast.SelectorExpr:
			if !mon[n.Sel.Name] || calls[n] {
				return true
			}
			if id, ok := n.X.(*ast.Ident); ok && importNames[id.Name] && id.Obj == nil {
				return true // qualified identifier
			}
			needVrt = true
			fn := "R"
			if writes[n] {
				fn = "W"
			}
			add(off(n.Pos()), 0, "(*vrt."+fn+"(&")
			add(off(n.End()), 0, ", "+strconv.Quote(short(n.Pos()))+"))")
		}
		if c.chanPts {
			for _, s := range stmtLists(n) {
				inner := s
				for {
					if l, ok := inner.(*ast.LabeledStmt); ok {
						inner = l.Stmt
						continue
					}
					break
				}
				yes := false
				switch st := inner.(type) {
				case *ast.SelectStmt, *ast.SendStmt:
					yes = true
				case *ast.ExprStmt:
					yes = hasRecv(st.X)
				case *ast.AssignStmt:
					for _, r := range st.Rhs {
						if hasRecv(r) {
							yes = true
						}
					}
				}
				if yes {
					needVrt = true
					add(off(s.Pos()), 0, "vrt.Yield("+strconv.Quote("chan@"+short(s.Pos()))+"); ")
				}
			}
		}
		return true
	})

	if needVrt {
		// add the vrt import right after the package clause (same line)
		add(off(f.Name.End()), 0, "; import vrt \"verif/vrt\"")
	}
	if len(edits) == 0 {
		return src, false, nil
	}
	// Apply: sort by offset; at equal offsets, closing wrappers (inserted at
	// an End) must come before opening wrappers (inserted at a Pos), and
	// nested openers keep outer-first order.
	sort.SliceStable(edits, func(i, j int) bool {
		if edits[i].off != edits[j].off {
			return edits[i].off < edits[j].off
		}
		ci := strings.HasPrefix(edits[i].ins, ", \"") // closer
		cj := strings.HasPrefix(edits[j].ins, ", \"")
		if ci != cj {
			return ci
		}
		if ci && cj {
			// inner closers first: later-registered openers are inner ... the
			// closer of an inner node was registered right after its opener,
			// i.e. later than the outer one's; inner must close first.
			return edits[i].seq > edits[j].seq
		}
		return edits[i].seq < edits[j].seq
	})
	var out bytes.Buffer
	pos := 0
	for _, e := range edits {
		if e.off < pos {
			return nil, false, fmt.Errorf("overlapping edits at offset %d", e.off)
		}
		out.Write(src[pos:e.off])
		out.WriteString(e.ins)
		pos = e.off + e.del
	}
	out.Write(src[pos:])
	return out.Bytes(), true, nil
}

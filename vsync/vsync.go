// Package vsync is the drop-in replacement for "sync" in instrumented galene
// packages.  In Passthrough/Tasks mode Mutex is a real mutex; in Scheduled
// mode Lock/Unlock are scheduling points of vrt and the mutex is a model the
// scheduler can inspect (enabled sets, deadlock detection, vector clocks).
package vsync

import (
	"runtime"
	stdsync "sync"

	"verif/vrt"
)

type Mutex struct {
	mu stdsync.Mutex
	m  vrt.MutexModel
}

func caller() string {
	pc, file, line, ok := runtime.Caller(2)
	if !ok {
		return "?"
	}
	fn := ""
	if f := runtime.FuncForPC(pc); f != nil {
		fn = f.Name()
		for i := len(fn) - 1; i >= 0; i-- {
			if fn[i] == '/' {
				fn = fn[i+1:]
				break
			}
		}
		fn = "(" + fn + ")"
	}
	// keep the last two path elements
	n := 0
	for i := len(file) - 1; i >= 0; i-- {
		if file[i] == '/' {
			n++
			if n == 2 {
				file = file[i+1:]
				break
			}
		}
	}
	return file + ":" + itoa(line) + fn
}

func itoa(n int) string {
	if n == 0 {
		return "0"
	}
	var b [12]byte
	i := len(b)
	for n > 0 {
		i--
		b[i] = byte('0' + n%10)
		n /= 10
	}
	return string(b[i:])
}

func (m *Mutex) Lock() {
	if vrt.GetMode() != vrt.Scheduled {
		m.mu.Lock()
		return
	}
	vrt.Lock(&m.m, "Lock@"+caller())
}

func (m *Mutex) TryLock() bool {
	if vrt.GetMode() != vrt.Scheduled {
		return m.mu.TryLock()
	}
	return vrt.TryLock(&m.m, "TryLock@"+caller())
}

func (m *Mutex) Unlock() {
	if vrt.GetMode() != vrt.Scheduled {
		m.mu.Unlock()
		return
	}
	vrt.Unlock(&m.m, "Unlock@"+caller())
}

// Locker is sync.Locker.
type Locker = stdsync.Locker

func OnceValue[T any](f func() T) func() T { return stdsync.OnceValue(f) }

func OnceValues[T1, T2 any](f func() (T1, T2)) func() (T1, T2) { return stdsync.OnceValues(f) }

// Pool replaces sync.Pool.  The real pool is per-P and hands out objects in
// an order no harness controls; here it is a plain LIFO free list (the most
// recently returned object is handed out first, which is also what the real
// pool does on one P), so that under the scheduler the same schedule always
// sees the same objects, and an object returned too early is observably
// reused by the next Get.  Get and Put are scheduling points.
type Pool struct {
	New func() any

	mu   stdsync.Mutex
	free []any
}

func (p *Pool) Get() any {
	if vrt.GetMode() == vrt.Scheduled {
		vrt.Yield("Pool.Get")
	}
	p.mu.Lock()
	if n := len(p.free); n > 0 {
		x := p.free[n-1]
		p.free = p.free[:n-1]
		p.mu.Unlock()
		return x
	}
	p.mu.Unlock()
	if p.New != nil {
		return p.New()
	}
	return nil
}

func (p *Pool) Put(x any) {
	if x == nil {
		return
	}
	if vrt.GetMode() == vrt.Scheduled {
		vrt.Yield("Pool.Put")
	}
	p.mu.Lock()
	if len(p.free) < 64 {
		p.free = append(p.free, x)
	}
	p.mu.Unlock()
}

// RWMutex: the real one outside the scheduler, vrt.RWModel under it.
type RWMutex struct {
	mu stdsync.RWMutex
	m  vrt.RWModel
}

func (m *RWMutex) Lock() {
	if vrt.GetMode() != vrt.Scheduled {
		m.mu.Lock()
		return
	}
	vrt.WLock(&m.m, "Lock@"+caller())
}

func (m *RWMutex) Unlock() {
	if vrt.GetMode() != vrt.Scheduled {
		m.mu.Unlock()
		return
	}
	vrt.WUnlock(&m.m, "Unlock@"+caller())
}

func (m *RWMutex) RLock() {
	if vrt.GetMode() != vrt.Scheduled {
		m.mu.RLock()
		return
	}
	vrt.RLock(&m.m, "RLock@"+caller())
}

func (m *RWMutex) RUnlock() {
	if vrt.GetMode() != vrt.Scheduled {
		m.mu.RUnlock()
		return
	}
	vrt.RUnlock(&m.m, "RUnlock@"+caller())
}

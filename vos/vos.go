// Package vos is the drop-in replacement for "os" in instrumented galene
// packages.  Every file-system operation goes through Step, which (when a
// hook is installed) numbers it, logs the resolved path, may inject an error
// and may "crash the process": the hook panics with Crash, after which every
// further operation is a no-op returning ErrCrashed, so that deferred
// clean-ups (which a dead process would not run) leave the disk untouched.
// With no hook installed vos is the real os.
package vos

import (
	"errors"
	"io/fs"
	stdos "os"
	"path/filepath"
	"sync"
	"time"

	"verif/vrt"
)

// Crash is the panic value that simulates process death.
type Crash struct{ Step int }

var ErrCrashed = errors.New("vos: process crashed (simulated)")

// StepInfo describes one file-system operation.
type StepInfo struct {
	N    int    `json:"n"`
	Op   string `json:"op"`
	Path string `json:"path"`
	Arg  string `json:"arg,omitempty"`
}

var (
	mu   sync.Mutex
	hook func(s StepInfo) error
	dead bool
	n    int
	log  []StepInfo
	// logical mtimes
	logical bool
	tick    int64
)

// SetHook installs h (nil removes it) and resets the step counter and log.
func SetHook(h func(s StepInfo) error) {
	mu.Lock()
	hook, dead, n, log = h, false, 0, nil
	mu.Unlock()
}

// Log returns the operations seen since SetHook.
func Log() []StepInfo {
	mu.Lock()
	defer mu.Unlock()
	return append([]StepInfo(nil), log...)
}

// Steps returns the number of steps since SetHook.
func Steps() int {
	mu.Lock()
	defer mu.Unlock()
	return n
}

// Dead reports whether a simulated crash has happened.
func Dead() bool {
	mu.Lock()
	defer mu.Unlock()
	return dead
}

// Revive clears the crashed state (the "restart").
func Revive() {
	mu.Lock()
	dead = false
	mu.Unlock()
}

// SetLogicalMtime makes every mutating operation stamp the file with a fresh,
// strictly increasing modification time (successive versions of a file are
// told apart by size and mtime; the properties assume they differ).
func SetLogicalMtime(on bool) {
	mu.Lock()
	logical = on
	tick = 0
	mu.Unlock()
}

// LogicalTick is the distance between two logical mtimes.  It is deliberately
// smaller than a second: versions are told apart by size and modification
// time, and a tag that only had second granularity must not go unnoticed.
var LogicalTick = time.Millisecond

// LogicalBase is the mtime of tick 0.
var LogicalBase = time.Date(2029, 1, 1, 0, 0, 0, 0, time.UTC)

func stamp(path string) {
	mu.Lock()
	on := logical
	if on {
		tick++
	}
	t := LogicalBase.Add(time.Duration(tick) * LogicalTick)
	mu.Unlock()
	if on && path != "" {
		stdos.Chtimes(path, t, t)
	}
}

// Stamp gives path the next logical mtime (used by harnesses that edit files
// behind the server's back).
func Stamp(path string) { stamp(path) }

func abs(p string) string {
	if a, err := filepath.Abs(p); err == nil {
		return a
	}
	return p
}

// step runs the hook for one operation; it returns an error to inject.
func step(op, path, arg string) error {
	if vrt.GetMode() == vrt.Scheduled {
		vrt.Yield("os." + op)
	}
	mu.Lock()
	if dead {
		mu.Unlock()
		return ErrCrashed
	}
	h := hook
	if h == nil {
		mu.Unlock()
		return nil
	}
	n++
	s := StepInfo{N: n, Op: op, Path: path, Arg: arg}
	log = append(log, s)
	mu.Unlock()
	defer func() {
		if r := recover(); r != nil {
			if _, ok := r.(Crash); ok {
				mu.Lock()
				dead = true
				mu.Unlock()
			}
			panic(r)
		}
	}()
	return h(s)
}

// ---- File

type File struct {
	*stdos.File
	path    string
	written bool
}

func wrap(f *stdos.File, err error, path string) (*File, error) {
	if err != nil {
		return nil, err
	}
	return &File{File: f, path: path}, nil
}

func (f *File) Write(b []byte) (int, error) {
	if err := step("write", f.path, ""); err != nil {
		return 0, err
	}
	n, err := f.File.Write(b)
	f.written = true
	stamp(f.path)
	return n, err
}

func (f *File) WriteString(s string) (int, error) { return f.Write([]byte(s)) }

func (f *File) Sync() error {
	if err := step("sync", f.path, ""); err != nil {
		return err
	}
	return f.File.Sync()
}

func (f *File) Close() error {
	if f == nil {
		return stdos.ErrInvalid
	}
	if err := step("close", f.path, ""); err != nil {
		// the descriptor is still released so tests do not leak fds
		f.File.Close()
		return err
	}
	return f.File.Close()
}

func (f *File) Truncate(size int64) error {
	if err := step("truncate", f.path, ""); err != nil {
		return err
	}
	err := f.File.Truncate(size)
	stamp(f.path)
	return err
}

// ---- package-level functions

func Open(name string) (*File, error) {
	if err := step("open", abs(name), ""); err != nil {
		return nil, err
	}
	f, err := stdos.Open(name)
	return wrap(f, err, abs(name))
}

func Create(name string) (*File, error) {
	if err := step("create", abs(name), ""); err != nil {
		return nil, err
	}
	f, err := stdos.Create(name)
	stamp(abs(name))
	return wrap(f, err, abs(name))
}

func OpenFile(name string, flag int, perm FileMode) (*File, error) {
	if err := step("openfile", abs(name), flagString(flag)); err != nil {
		return nil, err
	}
	f, err := stdos.OpenFile(name, flag, perm)
	return wrap(f, err, abs(name))
}

func flagString(flag int) string {
	s := ""
	if flag&stdos.O_CREATE != 0 {
		s += "C"
	}
	if flag&stdos.O_TRUNC != 0 {
		s += "T"
	}
	if flag&stdos.O_APPEND != 0 {
		s += "A"
	}
	if flag&stdos.O_EXCL != 0 {
		s += "X"
	}
	if flag&(stdos.O_WRONLY|stdos.O_RDWR) != 0 {
		s += "W"
	}
	return s
}

func CreateTemp(dir, pattern string) (*File, error) {
	if err := step("createtemp", abs(dir), pattern); err != nil {
		return nil, err
	}
	f, err := stdos.CreateTemp(dir, pattern)
	if err != nil {
		return nil, err
	}
	return wrap(f, nil, abs(f.Name()))
}

func Stat(name string) (FileInfo, error) {
	if err := step("stat", abs(name), ""); err != nil {
		return nil, err
	}
	return stdos.Stat(name)
}

func Lstat(name string) (FileInfo, error) {
	if err := step("lstat", abs(name), ""); err != nil {
		return nil, err
	}
	return stdos.Lstat(name)
}

func Remove(name string) error {
	if err := step("remove", abs(name), ""); err != nil {
		return err
	}
	return stdos.Remove(name)
}

func RemoveAll(name string) error {
	if err := step("removeall", abs(name), ""); err != nil {
		return err
	}
	return stdos.RemoveAll(name)
}

func Rename(oldpath, newpath string) error {
	if err := step("rename", abs(newpath), abs(oldpath)); err != nil {
		return err
	}
	return stdos.Rename(oldpath, newpath)
}

func Mkdir(name string, perm FileMode) error {
	if err := step("mkdir", abs(name), ""); err != nil {
		return err
	}
	return stdos.Mkdir(name, perm)
}

func MkdirAll(name string, perm FileMode) error {
	if err := step("mkdirall", abs(name), ""); err != nil {
		return err
	}
	return stdos.MkdirAll(name, perm)
}

func ReadFile(name string) ([]byte, error) {
	if err := step("readfile", abs(name), ""); err != nil {
		return nil, err
	}
	return stdos.ReadFile(name)
}

func WriteFile(name string, data []byte, perm FileMode) error {
	if err := step("writefile", abs(name), ""); err != nil {
		return err
	}
	err := stdos.WriteFile(name, data, perm)
	stamp(abs(name))
	return err
}

func ReadDir(name string) ([]DirEntry, error) {
	if err := step("readdir", abs(name), ""); err != nil {
		return nil, err
	}
	return stdos.ReadDir(name)
}

func Chtimes(name string, atime, mtime time.Time) error {
	if err := step("chtimes", abs(name), ""); err != nil {
		return err
	}
	return stdos.Chtimes(name, atime, mtime)
}

// ---- Root

type Root struct {
	*stdos.Root
	base string
}

func OpenRoot(name string) (*Root, error) {
	if err := step("openroot", abs(name), ""); err != nil {
		return nil, err
	}
	r, err := stdos.OpenRoot(name)
	if err != nil {
		return nil, err
	}
	return &Root{Root: r, base: abs(name)}, nil
}

func (r *Root) p(name string) string { return r.base + "//" + name }

func (r *Root) Open(name string) (*File, error) {
	if err := step("root.open", r.p(name), ""); err != nil {
		return nil, err
	}
	f, err := r.Root.Open(name)
	return wrap(f, err, r.p(name))
}

func (r *Root) Create(name string) (*File, error) {
	if err := step("root.create", r.p(name), ""); err != nil {
		return nil, err
	}
	f, err := r.Root.Create(name)
	return wrap(f, err, r.p(name))
}

func (r *Root) OpenFile(name string, flag int, perm FileMode) (*File, error) {
	if err := step("root.openfile", r.p(name), flagString(flag)); err != nil {
		return nil, err
	}
	f, err := r.Root.OpenFile(name, flag, perm)
	return wrap(f, err, r.p(name))
}

func (r *Root) Remove(name string) error {
	if err := step("root.remove", r.p(name), ""); err != nil {
		return err
	}
	return r.Root.Remove(name)
}

func (r *Root) Mkdir(name string, perm FileMode) error {
	if err := step("root.mkdir", r.p(name), ""); err != nil {
		return err
	}
	return r.Root.Mkdir(name, perm)
}

func (r *Root) Stat(name string) (FileInfo, error) {
	if err := step("root.stat", r.p(name), ""); err != nil {
		return nil, err
	}
	return r.Root.Stat(name)
}

func (r *Root) Lstat(name string) (FileInfo, error) {
	if err := step("root.lstat", r.p(name), ""); err != nil {
		return nil, err
	}
	return r.Root.Lstat(name)
}

func (r *Root) OpenRoot(name string) (*Root, error) {
	if err := step("root.openroot", r.p(name), ""); err != nil {
		return nil, err
	}
	rr, err := r.Root.OpenRoot(name)
	if err != nil {
		return nil, err
	}
	return &Root{Root: rr, base: r.p(name)}, nil
}

func (r *Root) Close() error {
	if r == nil || r.Root == nil {
		return stdos.ErrInvalid
	}
	return r.Root.Close()
}

func (r *Root) FS() fs.FS { return r.Root.FS() }

type FileMode = stdos.FileMode
type FileInfo = stdos.FileInfo
type DirEntry = stdos.DirEntry

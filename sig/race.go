package sig

import (
	"verif/core"
	"verif/vrt"
)

// RaceProgram is a closed concurrent scenario on an Engine D world: after a
// sequential set-up, each thread body runs the message handling of one client
// (Send / Drain on the real handlers) as a controlled thread, so that
// handlers of different clients interleave at every lock operation.
type RaceProgram struct {
	Name    string
	Groups  map[string]string
	Clients int
	Setup   func(w *World)
	Threads []func(w *World)
	Names   []string
	// Final is evaluated after every execution, once all queues have been
	// drained sequentially.
	Final      func(w *World) (string, *core.Violation)
	MaxPreempt int
}

// Program converts p for vrt.Explore.  The process must run with
// sig.Scheduled = true.
func (p RaceProgram) Program(prefix string) vrt.Program {
	return vrt.Program{
		Name: p.Name, MaxPreempt: p.MaxPreempt, MaxSteps: 50000,
		Setup: func() ([]func(), []string, func() (string, *core.Violation)) {
			w := NewWorld(p.Groups, p.Clients)
			if p.Setup != nil {
				p.Setup(w)
			}
			w.Settle(nil)
			bodies := make([]func(), len(p.Threads))
			for i, t := range p.Threads {
				t := t
				bodies[i] = func() { t(w) }
			}
			final := func() (string, *core.Violation) {
				if pn := w.Settle(nil); pn != "" {
					return "", &core.Violation{Signature: prefix + "/panic/" + PanicSite(pn), What: pn}
				}
				if w.LastPanic != "" {
					return "", &core.Violation{Signature: prefix + "/panic/" + PanicSite(w.LastPanic), What: w.LastPanic}
				}
				out, v := p.Final(w)
				w.Close()
				return out, v
			}
			return bodies, p.Names, final
		},
		Classify: func(kind, info string) string { return prefix + "/" + kind + "/" + p.Name },
	}
}

// Package sig is Engine D: the many-client signalling state machine explored
// over the real handlers.  A World holds real *webClient objects (built by an
// in-package accessor exactly as StartClient builds them) joined to real
// groups read from a temp directory; its transitions call the real
// handleClientMessage / handleAction / leaveGroup; detached goroutines of the
// instrumented packages are pending tasks the explorer fires.
//
// The only hand-copied logic (trusted mirror) is clientLoop's dispatch: one
// message or one batch of actions at a time, and on a handler error the
// deferred leaveGroup + error/close messages (rtpconn.VerifClient.Exit).
package sig

import (
	"encoding/json"
	"fmt"
	"net"
	"os"
	"path/filepath"
	"runtime/debug"
	"sort"
	"strings"
	"sync"

	"github.com/jech/galene/diskwriter"
	"github.com/jech/galene/group"
	"github.com/jech/galene/rtpconn"
	"github.com/jech/galene/rtptime"
	"github.com/jech/galene/token"

	"verif/vrt"
	"verif/vtime"
)

type Msg = map[string]any

// Obs is what one transition produced.
type Obs struct {
	// New[i] are the messages written to client i by this transition.
	New [][]Msg
	// Err is the handler error of the acting client (connection closed).
	Err   string
	Panic string // non-empty: a panic escaped the real code
}

type UserView struct {
	Username    string
	Permissions []string
	Data        string
}

type Client struct {
	V    *rtpconn.VerifClient
	ID   string
	Out  []Msg               // everything written so far
	View map[string]UserView // built with the semantics of static/protocol.js
	// Joined is the group the client believes it is in ("" = none)
	Joined string
}

type World struct {
	Dir     string
	Clients []*Client
	Tick    int // virtual time steps taken
	Dead    bool
	// LastPanic is the description of the last panic that escaped the real
	// code in any transition.
	LastPanic string
}

var (
	once       sync.Once
	baseDir    string
	lastGroups map[string]string
)

// GroupsDirty must be called by harnesses that modify group files behind
// NewWorld's back (it forces the next world to rewrite them).
func GroupsDirty() { lastGroups = nil }

// QueuedGo lists the goroutines that become explorable tasks; every other
// `go` statement of the instrumented packages is dropped in Engine D (RTCP
// loops, readLoop, websocket reader/writer: no media or sockets are modelled).
var QueuedGo = []string{
	"rtpconn.pushConn.func1",           // the 200 ms delayed push of a stream
	"rtpconn.handleAction.func1",       // `change` broadcast after a permission change
	"rtpconn.handleClientMessage.func", // `change` broadcast after setdata
	"group.autoLockKick.func1",         // autokick kicker
}

// Scheduled makes the process run Engine D worlds under the cooperative
// scheduler of Engine B (call before the first NewWorld): message handlers
// of different clients then run as controlled threads and interleave at
// every lock operation of the instrumented packages.
var Scheduled bool

func initProcess() {
	once.Do(func() {
		if Scheduled {
			vrt.SetMode(vrt.Scheduled)
			blockICE()
		} else {
			vrt.SetMode(vrt.Tasks)
		}
		vrt.TaskPolicy = func(pos string) vrt.Policy {
			for _, q := range QueuedGo {
				if strings.Contains(pos, q) {
					return vrt.Queue
				}
			}
			return vrt.Drop
		}
		d, err := os.MkdirTemp("", "vsig")
		if err != nil {
			panic(err)
		}
		baseDir = d
	})
}

// blockICE keeps server-side PeerConnections from gathering any candidate:
// the scheduler owns every goroutine that runs instrumented code, and a
// candidate found by pion's own goroutines would call back into
// rtpconn (sendICE -> webClient.write) from outside it.  The server is told
// to use a single UDP port that the harness has already bound, so gathering
// completes with no candidate and the callback returns at once.
var iceBlockers []net.PacketConn

func blockICE() {
	for _, network := range []string{"udp4", "udp6"} {
		pc, err := net.ListenPacket(network, ":0")
		if err != nil {
			continue
		}
		port := pc.LocalAddr().(*net.UDPAddr).Port
		iceBlockers = append(iceBlockers, pc)
		if network == "udp4" {
			if pc6, err := net.ListenPacket("udp6", fmt.Sprintf(":%d", port)); err == nil {
				iceBlockers = append(iceBlockers, pc6)
			}
			group.UDPMin, group.UDPMax = uint16(port), uint16(port)
			return
		}
	}
}

// BaseDir returns the per-process sandbox (remove it at exit).
func BaseDir() string { initProcess(); return baseDir }

// Cleanup removes the sandbox.
func Cleanup() {
	if baseDir != "" {
		os.RemoveAll(baseDir)
	}
}

// RoleTableCorruption is set by NewWorld when the previous world left the
// package-level role table modified (it is restored).
var RoleTableCorruption string

// NewWorld builds a fresh world: empty registry, the given group files,
// n clients (ids c0, c1, ...), virtual clock at Base.
func NewWorld(groups map[string]string, n int) *World {
	initProcess()
	vtime.SetVirtual(true)
	rtptime.VerifSetEpoch(vtime.Base.Add(-1000 * 3600 * 1e9))
	vrt.ResetTasks()
	if s := group.VerifReset(); s != "" {
		RoleTableCorruption = s
	}
	gd := filepath.Join(baseDir, "groups")
	same := len(groups) == len(lastGroups)
	for k, v := range groups {
		if lastGroups[k] != v {
			same = false
		}
	}
	if !same {
		os.RemoveAll(gd)
		for name, js := range groups {
			p := filepath.Join(gd, name+".json")
			os.MkdirAll(filepath.Dir(p), 0700)
			if err := os.WriteFile(p, []byte(js), 0600); err != nil {
				panic(err)
			}
		}
		lastGroups = map[string]string{}
		for k, v := range groups {
			lastGroups[k] = v
		}
	}
	for _, d := range []string{"data", "rec"} {
		p := filepath.Join(baseDir, d)
		if ents, err := os.ReadDir(p); err != nil || len(ents) > 0 {
			os.RemoveAll(p)
			os.MkdirAll(p, 0700)
		}
	}
	group.Directory = gd
	group.DataDirectory = filepath.Join(baseDir, "data")
	diskwriter.Directory = filepath.Join(baseDir, "rec")
	token.SetStatefulFilename(filepath.Join(baseDir, "data", "tokens.jsonl"))
	w := &World{Dir: baseDir}
	for i := 0; i < n; i++ {
		id := fmt.Sprintf("c%d", i)
		w.Clients = append(w.Clients, &Client{V: rtpconn.VerifNewClient(id), ID: id, View: map[string]UserView{}})
	}
	return w
}

// Close releases PeerConnections.
func (w *World) Close() {
	for _, c := range w.Clients {
		c.V.CloseAll()
	}
}

func (w *World) collect(o *Obs) {
	o.New = make([][]Msg, len(w.Clients))
	for i, c := range w.Clients {
		for _, raw := range c.V.Written() {
			var m Msg
			if err := json.Unmarshal(raw, &m); err != nil {
				m = Msg{"type": "__undecodable", "raw": string(raw)}
			}
			if m["type"] == "ice" {
				continue // candidates from pion's own goroutines
			}
			o.New[i] = append(o.New[i], m)
			c.Out = append(c.Out, m)
			c.apply(m)
		}
	}
}

func str(v any) string {
	s, _ := v.(string)
	return s
}

func strs(v any) []string {
	a, _ := v.([]any)
	var r []string
	for _, x := range a {
		r = append(r, str(x))
	}
	sort.Strings(r)
	return r
}

// apply updates the client's view exactly as static/protocol.js does.
func (c *Client) apply(m Msg) {
	switch m["type"] {
	case "joined":
		switch m["kind"] {
		case "leave", "fail":
			c.View = map[string]UserView{}
			if m["kind"] == "leave" {
				c.Joined = ""
			}
		case "join":
			c.Joined = str(m["group"])
		}
	case "user":
		d, _ := json.Marshal(m["data"])
		if m["data"] == nil {
			d = []byte("{}")
		}
		uv := UserView{str(m["username"]), strs(m["permissions"]), string(d)}
		switch m["kind"] {
		case "add":
			c.View[str(m["id"])] = uv
		case "change":
			c.View[str(m["id"])] = uv
		case "delete":
			delete(c.View, str(m["id"]))
		}
	}
}

func (w *World) guard(o *Obs, f func()) {
	defer func() {
		if r := recover(); r != nil {
			if vrt.IsAbort(r) {
				panic(r)
			}
			st := string(debug.Stack())
			if i := strings.Index(st, "panic("); i >= 0 {
				st = st[i:]
			}
			if len(st) > 2500 {
				st = st[:2500]
			}
			o.Panic = fmt.Sprintf("%v\n%s", r, st)
			w.LastPanic = o.Panic
			w.Dead = true
		}
	}()
	f()
}

// PanicSite extracts the first galene frame of a panic description.
func PanicSite(p string) string {
	for _, l := range strings.Split(p, "\n") {
		l = strings.TrimSpace(l)
		if strings.HasPrefix(l, "github.com/jech/galene/") && !strings.Contains(l, "Verif") {
			l = strings.TrimPrefix(l, "github.com/jech/galene/")
			if i := strings.Index(l, "("); i > 0 {
				l = l[:i]
			}
			return l
		}
	}
	return "unknown"
}

// Send makes client i handle one message (the `case m := <-read` arm).
func (w *World) Send(i int, m Msg) Obs {
	var o Obs
	c := w.Clients[i]
	if c.V.Closed || w.Dead {
		w.collect(&o)
		return o
	}
	// a client that announced another id than its slot's (see the
	// duplicate-id scenario) signs its messages with the id it announced
	if s, ok := m["source"].(string); ok && s == fmt.Sprintf("c%d", i) && c.ID != s {
		m2 := Msg{}
		for k, v := range m {
			m2[k] = v
		}
		m2["source"] = c.ID
		m = m2
	}
	raw, err := json.Marshal(m)
	if err != nil {
		panic(err)
	}
	return w.SendRaw(i, raw)
}

// SendRaw is Send with the exact bytes on the wire.
func (w *World) SendRaw(i int, raw []byte) Obs {
	var o Obs
	c := w.Clients[i]
	if c.V.Closed || w.Dead {
		w.collect(&o)
		return o
	}
	w.guard(&o, func() {
		if err := c.V.Handle(raw); err != nil {
			o.Err = err.Error()
			c.V.Exit(err)
		}
	})
	w.collect(&o)
	return o
}

// Drain makes client i handle its queued actions (the `case <-c.actions.Ch`
// arm), stopping at the first error as clientLoop does.
func (w *World) Drain(i int) Obs {
	var o Obs
	c := w.Clients[i]
	if c.V.Closed || w.Dead {
		w.collect(&o)
		return o
	}
	w.guard(&o, func() {
		if _, err := c.V.Drain(); err != nil {
			o.Err = err.Error()
			c.V.Exit(err)
		}
	})
	w.collect(&o)
	return o
}

// Do runs f (an event that is not a client message: a WHIP session joining
// or going away, an administrative call) under the panic guard and collects
// what it made the server write.
func (w *World) Do(f func()) Obs {
	var o Obs
	if w.Dead {
		w.collect(&o)
		return o
	}
	w.guard(&o, f)
	w.collect(&o)
	return o
}

// Disconnect is the websocket going away (reader error).
func (w *World) Disconnect(i int) Obs {
	var o Obs
	c := w.Clients[i]
	if c.V.Closed || w.Dead {
		w.collect(&o)
		return o
	}
	w.guard(&o, func() {
		c.V.Exit(fmt.Errorf("reader died"))
		o.Err = "reader died"
	})
	w.collect(&o)
	return o
}

// WriterDies kills client i's websocket writer (see VerifClient.WriterDies).
func (w *World) WriterDies(i int) { w.Clients[i].V.WriterDies() }

// Tasks lists the pending detached goroutines.
func (w *World) Tasks() []string {
	var s []string
	for _, t := range vrt.Pending() {
		s = append(s, t.Pos)
	}
	return s
}

// RunTask fires pending task k.
func (w *World) RunTask(k int) Obs {
	var o Obs
	if w.Dead {
		w.collect(&o)
		return o
	}
	t := vrt.TakeTask(k)
	w.guard(&o, t.Fn)
	w.collect(&o)
	return o
}

// Enabled drains: clients whose action channel is signalled.
func (w *World) Signalled() []int {
	var s []int
	for i, c := range w.Clients {
		if !c.V.Closed && c.V.Signalled() {
			s = append(s, i)
		}
	}
	return s
}

// Quiescent: no signalled client and no pending task.
func (w *World) Quiescent() bool {
	return len(w.Signalled()) == 0 && len(vrt.Pending()) == 0
}

// Settle runs drains and tasks (lowest index first) until quiescence; it
// returns the merged observation.  Used by quiescence oracles.
func (w *World) Settle(f func(kind string, i int, o Obs)) (panicked string) {
	for n := 0; n < 1000 && !w.Dead; n++ {
		if s := w.Signalled(); len(s) > 0 {
			o := w.Drain(s[0])
			if f != nil {
				f("drain", s[0], o)
			}
			if o.Panic != "" {
				return o.Panic
			}
			continue
		}
		if len(vrt.Pending()) > 0 {
			o := w.RunTask(0)
			if f != nil {
				f("task", 0, o)
			}
			if o.Panic != "" {
				return o.Panic
			}
			continue
		}
		return ""
	}
	return ""
}

// Canon is the canonical key of the world: every client's private state,
// every group's state, the pending tasks and the clock.
func (w *World) Canon() string {
	var b strings.Builder
	for _, c := range w.Clients {
		b.WriteString(c.V.Snapshot())
		b.WriteString("\n")
	}
	for _, g := range group.VerifGroups() {
		b.WriteString(g.VerifState())
		b.WriteString("\n")
	}
	fmt.Fprintf(&b, "tasks=%v t=%d", taskNames(), w.Tick)
	return b.String()
}

func taskNames() []string {
	var s []string
	for _, t := range vrt.Pending() {
		p := t.Pos
		if i := strings.Index(p, " "); i >= 0 {
			p = p[i+1:]
		}
		s = append(s, p)
	}
	return s
}

// ViewsCanon renders the clients' views (for oracles that keep them in the key).
func (w *World) ViewsCanon() string {
	var b strings.Builder
	for _, c := range w.Clients {
		ids := make([]string, 0, len(c.View))
		for id := range c.View {
			ids = append(ids, id)
		}
		sort.Strings(ids)
		fmt.Fprintf(&b, "%s[", c.ID)
		for _, id := range ids {
			v := c.View[id]
			fmt.Fprintf(&b, "%s=%s/%v/%s;", id, v.Username, v.Permissions, v.Data)
		}
		b.WriteString("]")
	}
	return b.String()
}

// Members returns the ids of the real members of a group.
func Members(name string) []string {
	g := group.Get(name)
	if g == nil {
		return nil
	}
	var ids []string
	for _, c := range g.GetClients(nil) {
		ids = append(ids, c.Id())
	}
	sort.Strings(ids)
	return ids
}

// Join builds a join message.
func Join(groupname, username, password string) Msg {
	return Msg{"type": "join", "kind": "join", "group": groupname, "username": username, "password": password}
}

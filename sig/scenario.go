package sig

import (
	"encoding/json"
	"fmt"
	"github.com/jech/galene/rtpconn"
	"sync"
	"time"

	"github.com/pion/webrtc/v4"

	"github.com/jech/galene/token"

	"verif/vtime"
)

// Scenario support shared by C11 and C12: a standard two-group fixture, the
// roles an actor can log in with, and the membership states ("prefixes") an
// actor can be put in before the message under test is sent.
//
// Clients: c0 = the actor under test, c1 = alice (operator, helper),
// c2 = bob (presenter, bystander/target).

// FixtureAutoSubgroups adds "auto-subgroups": true to group g of the fixture.
var FixtureAutoSubgroups bool

func FixtureGroups(unrestrictedTokens bool, maxClients int) map[string]string {
	g := map[string]any{
		"allow-recording":     true,
		"unrestricted-tokens": unrestrictedTokens,
		"users": map[string]any{
			"alice":    map[string]any{"password": "pa", "permissions": "op"},
			"bob":      map[string]any{"password": "pb", "permissions": "present"},
			"observer": map[string]any{"password": "p", "permissions": "observe"},
			"talker":   map[string]any{"password": "p", "permissions": "message"},
			"speaker":  map[string]any{"password": "p", "permissions": "present"},
			"captions": map[string]any{"password": "p", "permissions": "caption"},
			"oper":     map[string]any{"password": "p", "permissions": "op"},
			"rawop":    map[string]any{"password": "p", "permissions": []string{"op"}},
			"rawtoken": map[string]any{"password": "p", "permissions": []string{"token", "message"}},
			"rawrec":   map[string]any{"password": "p", "permissions": []string{"record"}},
			// an explicit list that names permissions twice
			"dupes": map[string]any{"password": "p", "permissions": []string{"present", "message", "present", "message"}},
		},
	}
	if maxClients > 0 {
		g["max-clients"] = maxClients
	}
	if FixtureAutoSubgroups {
		g["auto-subgroups"] = true
	}
	gj, _ := json.Marshal(g)
	h := `{"users":{"alice":{"password":"pa","permissions":"op"},"oper":{"password":"p","permissions":"op"},"speaker":{"password":"p","permissions":"present"},"dupes":{"password":"p","permissions":["present","message","present","message"]}}}`
	return map[string]string{"g": string(gj), "h": h}
}

// Roles the actor can log in with (usernames of the fixture).
var Roles = []string{"observer", "talker", "speaker", "captions", "oper", "rawop", "rawtoken", "rawrec"}

// RolePerms is the reference permission set of each role in group g
// (allow-recording on; token for presenters only with unrestricted tokens).
func RolePerms(role string, unrestricted bool) map[string]bool {
	m := map[string]bool{}
	add := func(p ...string) {
		for _, x := range p {
			m[x] = true
		}
	}
	switch role {
	case "observer":
	case "talker":
		add("message")
	case "speaker":
		add("present", "message")
		if unrestricted {
			add("token")
		}
	case "captions":
		add("caption")
	case "oper":
		add("op", "present", "message", "caption", "token", "record")
	case "rawop":
		add("op")
	case "rawtoken":
		add("token", "message")
	case "rawrec":
		add("record")
	}
	return m
}

// Prefixes are the membership states of the actor.
var Prefixes = []string{
	"never-joined",
	"refused-password",
	"refused-locked",
	"refused-full",
	"refused-duplicate-id",
	"joined",
	"left",
	"kicked",
	"joined-other-group",
	"unpresent-notified",
	"shutup-notified",
	"unop-notified",
}

// PrefixMember reports whether the actor (logging in with role) is a current
// member of g after prefix p: operators are exempt from lock and capacity.
func PrefixMember(p, role string) bool {
	switch p {
	case "joined", "unpresent-notified", "shutup-notified", "unop-notified":
		return true
	case "refused-locked", "refused-full":
		return RolePerms(role, false)["op"]
	}
	return false
}

// Setup builds the world for (role, prefix).  It returns the world and the
// panic description if the set-up itself made the real code panic.
func Setup(role, prefix string, unrestricted bool) (*World, string) {
	max := 0
	if prefix == "refused-full" {
		max = 2
	}
	w := NewWorld(FixtureGroups(unrestricted, max), 3)
	// tokens that exist in both groups (for edittoken/listtokens)
	exp := vtime.Now().Add(time.Hour)
	token.Update(&token.Stateful{Token: "tok-g", Group: "g", Permissions: []string{"present"}, Expires: &exp}, "")
	token.Update(&token.Stateful{Token: "tok-h", Group: "h", Permissions: []string{"present"}, Expires: &exp}, "")
	var pan string
	do := func(o Obs) {
		if o.Panic != "" && pan == "" {
			pan = o.Panic
		}
		if p := w.Settle(nil); p != "" && pan == "" {
			pan = p
		}
	}
	do(w.Send(1, Join("g", "alice", "pa")))
	do(w.Send(2, Join("g", "bob", "pb")))
	lock := Msg{"type": "groupaction", "kind": "lock", "source": "c1", "username": "alice", "value": "closed"}
	mod := func(kind string) Msg {
		return Msg{"type": "useraction", "kind": kind, "source": "c1", "username": "alice", "dest": "c0", "value": "out"}
	}
	switch prefix {
	case "never-joined":
	case "refused-password":
		do(w.Send(0, Join("g", role, "wrong")))
	case "refused-locked":
		do(w.Send(1, lock))
		do(w.Send(0, Join("g", role, "p")))
	case "refused-full":
		do(w.Send(0, Join("g", role, "p")))
	case "refused-duplicate-id":
		// the actor's connection announced the id of a member (bob, c2):
		// valid credentials, refused after the credential checks
		w.Clients[0] = &Client{V: rtpconn.VerifNewClient("c2"), ID: "c2", View: map[string]UserView{}}
		do(w.Send(0, Join("g", role, "p")))
	case "joined":
		do(w.Send(0, Join("g", role, "p")))
	case "left":
		do(w.Send(0, Join("g", role, "p")))
		do(w.Send(0, Msg{"type": "join", "kind": "leave", "group": "g"}))
	case "kicked":
		do(w.Send(0, Join("g", role, "p")))
		do(w.Send(1, mod("kick")))
	case "joined-other-group":
		r := role
		if r != "oper" && r != "speaker" {
			r = "speaker"
		}
		do(w.Send(0, Join("h", r, "p")))
	case "unpresent-notified":
		do(w.Send(0, Join("g", role, "p")))
		do(w.Send(1, mod("unpresent")))
	case "shutup-notified":
		do(w.Send(0, Join("g", role, "p")))
		do(w.Send(1, mod("shutup")))
	case "unop-notified":
		do(w.Send(0, Join("g", role, "p")))
		do(w.Send(1, mod("unop")))
	default:
		panic("unknown prefix " + prefix)
	}
	return w, pan
}

// EffectivePerms is the reference permission set of the actor after the
// prefix (revocations applied).
func EffectivePerms(role, prefix string, unrestricted bool) map[string]bool {
	if !PrefixMember(prefix, role) {
		return map[string]bool{}
	}
	m := RolePerms(role, unrestricted)
	switch prefix {
	case "unpresent-notified":
		delete(m, "present")
	case "shutup-notified":
		delete(m, "message")
	case "unop-notified":
		delete(m, "op")
		delete(m, "record")
	}
	return m
}

func (w *World) String() string { return fmt.Sprintf("world(%d clients)", len(w.Clients)) }

var offerOnce struct {
	once sync.Once
	sdp  map[string]string
}

// OfferSDP returns a syntactically valid SDP offer with the given media
// kinds ("a", "v", "av"), produced once per process by a real client-side
// PeerConnection.
func OfferSDP(kinds string) string {
	offerOnce.once.Do(func() {
		offerOnce.sdp = map[string]string{}
		for _, k := range []string{"a", "v", "av"} {
			pc, err := webrtc.NewPeerConnection(webrtc.Configuration{})
			if err != nil {
				panic(err)
			}
			for _, c := range k {
				kind := webrtc.RTPCodecTypeAudio
				if c == 'v' {
					kind = webrtc.RTPCodecTypeVideo
				}
				if _, err := pc.AddTransceiverFromKind(kind, webrtc.RTPTransceiverInit{Direction: webrtc.RTPTransceiverDirectionSendonly}); err != nil {
					panic(err)
				}
			}
			o, err := pc.CreateOffer(nil)
			if err != nil {
				panic(err)
			}
			offerOnce.sdp[k] = o.SDP
			pc.Close()
		}
	})
	return offerOnce.sdp[kinds]
}

// Package seqx is the explicit-state explorer for operation sequences
// (Engine A of DESIGN.md): breadth-first search over the sequences of an
// alphabet applied to *real* objects, deduplicated on a canonical key of the
// complete object state.  Real objects are not cloned: a successor is
// obtained by replaying the shortest path on a fresh world plus one operation.
package seqx

import (
	"crypto/md5"
	"encoding/json"
	"fmt"
	"runtime/debug"
	"strings"
	"sync"
	"sync/atomic"
	"time"

	"verif/core"
)

// Op is one letter of the alphabet; it must marshal to JSON (replay files).
type Op any

// World is one instance of the system under exploration together with its
// reference model and monitors.
type World interface {
	// Ops lists the operations enabled in the current state, simplest first.
	Ops() []Op
	// Apply runs op on the real code and on the reference model and compares
	// every observable.  A non-nil result is a violation; the state is then
	// not expanded further.
	Apply(op Op) *core.Violation
	// Canon is the canonical key: the complete private state of the real
	// object(s) plus whatever of the history the oracle still needs.
	Canon() string
}

// Cloner is implemented by worlds that can be copied; Checkpoint reports
// whether the current state is expensive to reach (e.g. right after a macro
// operation) and should be kept so that replays can start from a copy of it.
type Cloner interface {
	Clone() World
	Checkpoint() bool
}

// Closer is implemented by worlds that hold resources.
type Closer interface{ Close() }

// Outcomer lets a world describe the observable outcome of its last Apply,
// for the distinct-outcomes count (vacuity guard).
type Outcomer interface{ Outcome() string }

type Config struct {
	Name      string
	Fresh     func() World
	MaxDepth  int
	MaxStates int64 // 0 = unlimited
	Parallel  int   // goroutines; 1 for worlds with global state
	// Prefix, if set, is a fixed initial operation sequence: the search
	// starts from the state it reaches (used to shard one BFS by first op).
	Prefix []Op
	// Final, if set, is evaluated on every distinct state reached (e.g.
	// quiescence oracles that are too costly for every transition).
	Final func(w World) *core.Violation
}

type node struct {
	path []Op
}

type key [16]byte

// Explore runs the BFS and returns its coverage.  Violations go to res.
func Explore(cfg Config, res *core.Result) core.Sub {
	start := time.Now()
	if cfg.Parallel <= 0 {
		cfg.Parallel = 1
	}
	if cfg.MaxStates == 0 {
		// memory safety net (the sandbox has no memory limit): a search that
		// gets here ends with exhaustive=false and the depth it completed
		cfg.MaxStates = 20_000_000
	}
	seen := map[key]struct{}{}
	var seenMu sync.Mutex
	var outcomes core.Outcomes
	var transitions, execs int64
	var samples []any
	capped := false

	w0, v0 := replay(cfg, cfg.Prefix)
	if v0 != nil {
		if v0.Sub == "" {
			v0.Sub = cfg.Name
		}
		if v0.Replay == nil {
			v0.Replay = map[string]any{"config": cfg.Name, "ops": cfg.Prefix}
		}
		res.Violate(*v0)
		closeWorld(w0)
		return core.Sub{Name: cfg.Name, States: 1, Transitions: int64(len(cfg.Prefix)), Executions: 1, Outcomes: 1,
			Exhaustive: true, Bound: fmt.Sprintf("depth<=%d", cfg.MaxDepth)}
	}
	k0 := md5.Sum([]byte(w0.Canon()))
	closeWorld(w0)
	seen[k0] = struct{}{}
	frontier := []node{{path: append([]Op{}, cfg.Prefix...)}}
	depth := len(cfg.Prefix)

	for len(frontier) > 0 && depth < cfg.MaxDepth {
		if !core.TimeLeft() {
			capped = true
			break
		}
		if cfg.MaxStates > 0 && int64(len(seen)) >= cfg.MaxStates {
			capped = true
			break
		}
		var next []node
		var nextMu sync.Mutex
		var idx int64 = -1
		var wg sync.WaitGroup
		var stop atomic.Bool
		for g := 0; g < cfg.Parallel; g++ {
			wg.Add(1)
			go func() {
				defer wg.Done()
				for {
					i := int(atomic.AddInt64(&idx, 1))
					if i >= len(frontier) || stop.Load() {
						return
					}
					if i%64 == 0 && !core.TimeLeft() {
						stop.Store(true)
						return
					}
					n := frontier[i]
					// Determine the enabled ops in this state.
					w, v := replay(cfg, n.path)
					if v != nil {
						// cannot happen: the path was clean when enqueued
						res.Violate(*v)
						closeWorld(w)
						continue
					}
					ops := w.Ops()
					closeWorld(w)
					for _, op := range ops {
						w, v := replay(cfg, n.path)
						if v != nil {
							res.Violate(core.Violation{
								Signature: cfg.Name + "/nondeterministic-replay",
								What:      "replaying a clean prefix produced a violation: " + v.What,
								Sub:       cfg.Name, Replay: n.path,
							})
							closeWorld(w)
							break
						}
						v = safeApply(w, op)
						atomic.AddInt64(&transitions, 1)
						atomic.AddInt64(&execs, 1)
						path := append(append([]Op{}, n.path...), op)
						if v != nil {
							if v.Sub == "" {
								v.Sub = cfg.Name
							}
							if v.Replay == nil {
								v.Replay = map[string]any{"config": cfg.Name, "ops": path}
							}
							res.Violate(*v)
							closeWorld(w)
							continue
						}
						if o, ok := w.(Outcomer); ok {
							outcomes.Add(o.Outcome())
						}
						c := w.Canon()
						k := md5.Sum([]byte(c))
						seenMu.Lock()
						_, dup := seen[k]
						if !dup {
							seen[k] = struct{}{}
							if len(samples) < 3 && len(path) >= 2 {
								samples = append(samples, jsonable(path))
							}
						}
						seenMu.Unlock()
						if !dup {
							if cfg.Final != nil {
								if v := cfg.Final(w); v != nil {
									if v.Sub == "" {
										v.Sub = cfg.Name
									}
									if v.Replay == nil {
										v.Replay = map[string]any{"config": cfg.Name, "ops": path}
									}
									res.Violate(*v)
								}
							}
							nextMu.Lock()
							next = append(next, node{path})
							nextMu.Unlock()
						}
						closeWorld(w)
					}
				}
			}()
		}
		wg.Wait()
		if stop.Load() {
			capped = true
			break
		}
		frontier = next
		depth++
	}
	ckpts.Delete(cfg.Name)
	exhaustive := !capped && len(frontier) == 0
	bound := fmt.Sprintf("depth<=%d", cfg.MaxDepth)
	note := ""
	if !capped && len(frontier) > 0 {
		note = fmt.Sprintf("depth bound reached with %d frontier states; all sequences up to the bound were explored", len(frontier))
		exhaustive = true // exhaustive below the stated bound
	}
	if capped {
		note = fmt.Sprintf("time/state cap hit at depth %d; complete below that depth", depth)
	}
	nOut := outcomes.N()
	if nOut == 0 {
		nOut = int64(len(seen))
	}
	return core.Sub{
		Name: cfg.Name, States: int64(len(seen)), Transitions: transitions,
		Executions: execs, Outcomes: nOut, MaxDepth: depth, Bound: bound,
		Exhaustive: exhaustive, Note: note, Samples: samples,
		WallS: time.Since(start).Seconds(),
	}
}

func jsonable(path []Op) any {
	b, err := json.Marshal(path)
	if err != nil {
		return fmt.Sprint(path)
	}
	var v any
	json.Unmarshal(b, &v)
	return v
}

func closeWorld(w World) {
	if c, ok := w.(Closer); ok && c != nil {
		c.Close()
	}
}

type ckpt struct {
	mu sync.Mutex
	m  map[string]World
}

var ckpts sync.Map // config name -> *ckpt

func pathKey(path []Op) string {
	b, _ := json.Marshal(path)
	return string(b)
}

func replay(cfg Config, path []Op) (World, *core.Violation) {
	var w World
	from := 0
	var cp *ckpt
	if c, ok := ckpts.Load(cfg.Name); ok {
		cp = c.(*ckpt)
		cp.mu.Lock()
		for n := len(path); n > 0; n-- {
			if n > 3 {
				n = 3
			}
			if base, ok := cp.m[pathKey(path[:n])]; ok {
				w = base.(Cloner).Clone()
				from = n
				break
			}
		}
		cp.mu.Unlock()
	}
	if w == nil {
		w = cfg.Fresh()
	}
	for i := from; i < len(path); i++ {
		if v := safeApply(w, path[i]); v != nil {
			return w, v
		}
		if c, ok := w.(Cloner); ok && i < 3 && c.Checkpoint() {
			if cp == nil {
				x, _ := ckpts.LoadOrStore(cfg.Name, &ckpt{m: map[string]World{}})
				cp = x.(*ckpt)
			}
			k := pathKey(path[:i+1])
			cp.mu.Lock()
			if _, ok := cp.m[k]; !ok && len(cp.m) < 64 {
				cp.m[k] = c.Clone()
			}
			cp.mu.Unlock()
		}
	}
	return w, nil
}

// Replay re-executes a path on a fresh world (used by `check replay`).
func Replay(cfg Config, path []Op) *core.Violation {
	w, v := replay(cfg, path)
	closeWorld(w)
	return v
}

// harnessPanic reports whether a recovered panic originated in harness or
// framework code (first frame after the panic machinery is in main/verif)
// rather than in the code under test.
func harnessPanic(stack string) bool {
	i := strings.Index(stack, "panic(")
	if i < 0 {
		return false
	}
	for _, l := range strings.Split(stack[i:], "\n") {
		if strings.HasPrefix(l, "\t") || strings.HasPrefix(l, "panic(") || strings.HasPrefix(l, "runtime.") || l == "" {
			continue
		}
		return strings.HasPrefix(l, "main.") || strings.HasPrefix(l, "verif/")
	}
	return false
}

func safeApply(w World, op Op) (v *core.Violation) {
	defer func() {
		if r := recover(); r != nil {
			if st := string(debug.Stack()); harnessPanic(st) {
				v = &core.Violation{Signature: "HARNESS-FAULT", What: fmt.Sprintf("panic in harness code: %v\n%s", r, trimStack([]byte(st)))}
				return
			}
			v = &core.Violation{
				Signature: fmt.Sprintf("panic/%v", firstLine(fmt.Sprint(r))),
				What:      fmt.Sprintf("panic in real code: %v\n%s", r, trimStack(debug.Stack())),
			}
		}
	}()
	return w.Apply(op)
}

func firstLine(s string) string {
	for i, c := range s {
		if c == '\n' {
			return s[:i]
		}
	}
	return s
}

func trimStack(b []byte) string {
	if len(b) > 2500 {
		b = b[:2500]
	}
	return string(b)
}

// Product enumerates the full Cartesian product of dims (sizes), calling f
// with each index vector; f returns false to stop.  It returns the number of
// points visited and whether the enumeration was complete.
func Product(dims []int, f func(ix []int) bool) (int64, bool) {
	ix := make([]int, len(dims))
	for _, d := range dims {
		if d == 0 {
			return 0, true
		}
	}
	var n int64
	for {
		n++
		if !f(ix) {
			return n, false
		}
		i := len(dims) - 1
		for i >= 0 {
			ix[i]++
			if ix[i] < dims[i] {
				break
			}
			ix[i] = 0
			i--
		}
		if i < 0 {
			return n, true
		}
	}
}

// Determinism replays every operation sequence up to depth twice on fresh
// worlds and compares the canonical keys; it returns a description of the
// first divergence ("" if none).  Harnesses use it as a guard against
// uncaptured nondeterminism.
func Determinism(cfg Config, depth int, limit int) string {
	n := 0
	var rec func(path []Op, d int) string
	rec = func(path []Op, d int) string {
		if limit > 0 && n >= limit {
			return ""
		}
		n++
		w1, v1 := replay(cfg, path)
		c1 := w1.Canon()
		ops := w1.Ops()
		closeWorld(w1)
		w2, v2 := replay(cfg, path)
		c2 := w2.Canon()
		closeWorld(w2)
		if c1 != c2 || (v1 == nil) != (v2 == nil) {
			b, _ := json.Marshal(path)
			return fmt.Sprintf("path %s:\n--- first\n%s\n--- second\n%s", b, c1, c2)
		}
		if d == 0 || v1 != nil {
			return ""
		}
		for _, op := range ops {
			if s := rec(append(append([]Op{}, path...), op), d-1); s != "" {
				return s
			}
		}
		return ""
	}
	return rec(append([]Op{}, cfg.Prefix...), depth)
}

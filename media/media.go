// Package media holds the harness side of the media seams: RTP packet
// builders (VP8, VP9, opaque), the recording write stream a down track is
// bound to, scripted interceptor readers for the pion shells, and an RTCP
// sink.  Nothing here is galene code.
package media

import (
	"verif/vrt"

	"io"
	"sync"

	"github.com/pion/interceptor"
	"github.com/pion/rtcp"
	"github.com/pion/rtp"
	"github.com/pion/webrtc/v4"
)

// ---------------------------------------------------------------------------
// packet builders

type Hdr struct {
	Seq     uint16
	TS      uint32
	Marker  bool
	PT      uint8
	SSRC    uint32
	CSRC    int  // number of CSRCs
	Ext     bool // one-byte header extension present
	Padding int  // padding bytes (P bit)
}

func (h Hdr) Bytes() []byte {
	b := make([]byte, 12, 64)
	b[0] = 0x80 | byte(h.CSRC&0xF)
	if h.Ext {
		b[0] |= 0x10
	}
	if h.Padding > 0 {
		b[0] |= 0x20
	}
	b[1] = h.PT & 0x7F
	if h.Marker {
		b[1] |= 0x80
	}
	b[2], b[3] = byte(h.Seq>>8), byte(h.Seq)
	b[4], b[5], b[6], b[7] = byte(h.TS>>24), byte(h.TS>>16), byte(h.TS>>8), byte(h.TS)
	b[8], b[9], b[10], b[11] = byte(h.SSRC>>24), byte(h.SSRC>>16), byte(h.SSRC>>8), byte(h.SSRC)
	for i := 0; i < h.CSRC; i++ {
		b = append(b, 0xC0, byte(i), 0x5A, byte(0xA0+i))
	}
	if h.Ext {
		// RFC 8285 one-byte profile, 1 word: id=1 len=1 (2 bytes) + pad
		b = append(b, 0xBE, 0xDE, 0x00, 0x01, 0x11, 0xAB, 0xCD, 0x00)
	}
	return b
}

func finish(b []byte, padding int) []byte {
	if padding > 0 {
		for i := 0; i < padding-1; i++ {
			b = append(b, 0)
		}
		b = append(b, byte(padding))
	}
	return b
}

// VP8 describes a VP8 RTP payload descriptor.
type VP8 struct {
	Hdr
	X, I, L, T, K bool
	M             bool // 15-bit picture id
	PictureID     uint16
	TL0           uint8
	TID           uint8
	Y             bool
	KeyIdx        uint8
	N             bool
	S             bool  // start of partition
	PartID        uint8 // 3 bits
	Keyframe      bool  // P bit of the payload header inverted
	Body          []byte
}

func (p VP8) Bytes() []byte {
	b := p.Hdr.Bytes()
	d := p.PartID & 7
	if p.X {
		d |= 0x80
	}
	if p.N {
		d |= 0x20
	}
	if p.S {
		d |= 0x10
	}
	b = append(b, d)
	if p.X {
		var e byte
		if p.I {
			e |= 0x80
		}
		if p.L {
			e |= 0x40
		}
		if p.T {
			e |= 0x20
		}
		if p.K {
			e |= 0x10
		}
		b = append(b, e)
		if p.I {
			if p.M {
				b = append(b, 0x80|byte((p.PictureID>>8)&0x7F), byte(p.PictureID))
			} else {
				b = append(b, byte(p.PictureID&0x7F))
			}
		}
		if p.L {
			b = append(b, p.TL0)
		}
		if p.T || p.K {
			t := (p.TID & 3) << 6
			if p.Y {
				t |= 0x20
			}
			t |= p.KeyIdx & 0x1F
			b = append(b, t)
		}
	}
	// VP8 payload header: first byte bit0 = P (inverse key frame)
	h0 := byte(0x10)
	if !p.Keyframe {
		h0 |= 1
	}
	b = append(b, h0)
	if p.Keyframe && p.S && p.PartID == 0 {
		// frame tag (3) + start code (3) + 14-bit width/height
		b = append(b, 0x00, 0x00, 0x9d, 0x01, 0x2a, 0x80, 0x02, 0xe0, 0x01)
	}
	b = append(b, p.Body...)
	return finish(b, p.Padding)
}

// VP9 describes a VP9 RTP payload descriptor (flexible or non-flexible).
type VP9 struct {
	Hdr
	I, P, L, F, B, E, V, Z bool
	M                      bool
	PictureID              uint16
	TID                    uint8
	U                      bool
	SID                    uint8
	D                      bool
	TL0                    uint8
	PDiff                  []uint8
	Keyframe               bool // only meaningful with B
	Body                   []byte
}

func (p VP9) Bytes() []byte {
	b := p.Hdr.Bytes()
	var d byte
	for i, f := range []bool{p.I, p.P, p.L, p.F, p.B, p.E, p.V, p.Z} {
		if f {
			d |= 0x80 >> uint(i)
		}
	}
	b = append(b, d)
	if p.I {
		if p.M {
			b = append(b, 0x80|byte((p.PictureID>>8)&0x7F), byte(p.PictureID))
		} else {
			b = append(b, byte(p.PictureID&0x7F))
		}
	}
	if p.L {
		l := (p.TID & 7) << 5
		if p.U {
			l |= 0x10
		}
		l |= (p.SID & 7) << 1
		if p.D {
			l |= 1
		}
		b = append(b, l)
		if !p.F {
			b = append(b, p.TL0)
		}
	}
	if p.F && p.P {
		for i, pd := range p.PDiff {
			x := pd << 1
			if i < len(p.PDiff)-1 {
				x |= 1
			}
			b = append(b, x)
		}
	}
	if p.V {
		// N_S=0, Y=1, G=0; one width/height
		b = append(b, 0x10, 0x02, 0x80, 0x01, 0xe0)
	}
	// VP9 uncompressed header first byte: frame marker 0b10, profile 0,
	// show_existing_frame=0, frame_type (0=key), ...
	h0 := byte(0x80)
	if !p.Keyframe {
		h0 |= 0x04
	}
	b = append(b, h0)
	b = append(b, p.Body...)
	return finish(b, p.Padding)
}

// Opaque is a packet of a codec galene does not parse.
type Opaque struct {
	Hdr
	Body []byte
}

func (p Opaque) Bytes() []byte {
	b := p.Hdr.Bytes()
	b = append(b, p.Body...)
	return finish(b, p.Padding)
}

// ---------------------------------------------------------------------------
// recorder: the write stream a down track is bound to

type Sent struct {
	Header  rtp.Header
	Payload []byte
}

type Recorder struct {
	mu     sync.Mutex
	Codec  webrtc.RTPCodecParameters
	Ssrc   webrtc.SSRC
	sent   []Sent
	Reader interceptor.RTCPReader
}

func NewRecorder(codec webrtc.RTPCodecParameters, ssrc uint32) *Recorder {
	return &Recorder{Codec: codec, Ssrc: webrtc.SSRC(ssrc)}
}

func (r *Recorder) CodecParameters() []webrtc.RTPCodecParameters {
	return []webrtc.RTPCodecParameters{r.Codec}
}
func (r *Recorder) HeaderExtensions() []webrtc.RTPHeaderExtensionParameter { return nil }
func (r *Recorder) SSRC() webrtc.SSRC                                      { return r.Ssrc }
func (r *Recorder) SSRCRetransmission() webrtc.SSRC                        { return 0 }
func (r *Recorder) SSRCForwardErrorCorrection() webrtc.SSRC                { return 0 }
func (r *Recorder) WriteStream() webrtc.TrackLocalWriter                   { return r }
func (r *Recorder) ID() string                                             { return "recorder" }
func (r *Recorder) RTCPReader() interceptor.RTCPReader                     { return r.Reader }

func (r *Recorder) WriteRTP(h *rtp.Header, payload []byte) (int, error) {
	// handing a packet to the network takes time (encryption, socket
	// write): under the scheduler this is a point where other threads run
	// while the payload still lives in the caller's buffer
	if vrt.Controlled() {
		vrt.Yield("writeStream.WriteRTP")
	}
	r.mu.Lock()
	defer r.mu.Unlock()
	hc := h.Clone()
	r.sent = append(r.sent, Sent{hc, append([]byte(nil), payload...)})
	return len(payload), nil
}

func (r *Recorder) Write(b []byte) (int, error) {
	var p rtp.Packet
	if err := p.Unmarshal(b); err != nil {
		return 0, err
	}
	return r.WriteRTP(&p.Header, p.Payload)
}

// Take returns and clears what was written since the last call.
func (r *Recorder) Take() []Sent {
	r.mu.Lock()
	defer r.mu.Unlock()
	s := r.sent
	r.sent = nil
	return s
}

// ---------------------------------------------------------------------------
// scripted interceptor reader: the harness pushes one datagram and waits
// until the consuming loop asks for the next one, so each datagram is one
// atomic, deterministic transition.

type ScriptReader struct {
	in   chan []byte
	idle chan struct{}
	once sync.Once
	eof  chan struct{}
}

func NewScriptReader() *ScriptReader {
	return &ScriptReader{in: make(chan []byte), idle: make(chan struct{}, 1), eof: make(chan struct{})}
}

func (s *ScriptReader) Read(b []byte, a interceptor.Attributes) (int, interceptor.Attributes, error) {
	select {
	case s.idle <- struct{}{}:
	default:
	}
	select {
	case d := <-s.in:
		n := copy(b, d)
		return n, a, nil
	case <-s.eof:
		return 0, a, io.EOF
	}
}

// Feed delivers one datagram and returns when the loop is back in Read.
func (s *ScriptReader) Feed(d []byte) {
	// make sure the loop is waiting
	s.WaitIdle()
	s.in <- d
	s.WaitIdle()
	// leave the token for the next Feed
	select {
	case s.idle <- struct{}{}:
	default:
	}
}

func (s *ScriptReader) WaitIdle() { <-s.idle }

// Close makes the next Read return io.EOF.
func (s *ScriptReader) Close() { s.once.Do(func() { close(s.eof) }) }

// ---------------------------------------------------------------------------
// RTCP sink

type RTCPSink struct {
	mu   sync.Mutex
	pkts []rtcp.Packet
	Err  error
}

func (s *RTCPSink) Write(pkts []rtcp.Packet, a interceptor.Attributes) (int, error) {
	s.mu.Lock()
	defer s.mu.Unlock()
	if s.Err != nil {
		return 0, s.Err
	}
	s.pkts = append(s.pkts, pkts...)
	return len(pkts), nil
}

func (s *RTCPSink) Take() []rtcp.Packet {
	s.mu.Lock()
	defer s.mu.Unlock()
	p := s.pkts
	s.pkts = nil
	return p
}

//go:build verif

package rtptime

import "time"

// VerifSetEpoch sets the origin of jiffies (the package initialises it from
// the wall clock at start-up; harnesses on a virtual clock pin it).
func VerifSetEpoch(t time.Time) { epoch = t }

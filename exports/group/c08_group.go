//go:build verif

package group

import (
	"sort"
	"unsafe"
)

// VerifC08RoleTable returns a deep copy of the package-level role table
// (permissionsMap), so that a harness can compare it with a pristine copy.
func VerifC08RoleTable() map[string][]string {
	m := make(map[string][]string, len(permissionsMap))
	for k, v := range permissionsMap {
		m[k] = append([]string{}, v...)
	}
	return m
}

// VerifC08RestoreRoleTable replaces the role table by a deep copy of m (fresh
// backing arrays).  Harnesses call it only AFTER their oracle has compared the
// table with the pristine copy.
func VerifC08RestoreRoleTable(m map[string][]string) {
	for k := range permissionsMap {
		if _, ok := m[k]; !ok {
			delete(permissionsMap, k)
		}
	}
	for k, v := range m {
		permissionsMap[k] = append(make([]string, 0, len(v)), v...)
	}
}

func verifC08Overlap(a, b []string) bool {
	if cap(a) == 0 || cap(b) == 0 {
		return false
	}
	const sz = unsafe.Sizeof("")
	a0 := uintptr(unsafe.Pointer(unsafe.SliceData(a)))
	b0 := uintptr(unsafe.Pointer(unsafe.SliceData(b)))
	a1 := a0 + uintptr(cap(a))*sz
	b1 := b0 + uintptr(cap(b))*sz
	return a0 < b1 && b0 < a1
}

// VerifC08AliasRole names the role whose table slice shares memory with
// perms ("" if none): a client holding such a slice edits the role table
// when it edits its own permissions in place.
func VerifC08AliasRole(perms []string) string {
	var names []string
	for k, v := range permissionsMap {
		if verifC08Overlap(perms, v) {
			names = append(names, k)
		}
	}
	sort.Strings(names)
	if len(names) == 0 {
		return ""
	}
	return names[0]
}

// VerifC08AliasUser names the user entry of desc ("*" for the wildcard user)
// whose raw permission array shares memory with perms ("" if none).
func VerifC08AliasUser(desc *Description, perms []string) string {
	if desc == nil {
		return ""
	}
	var names []string
	for k, u := range desc.Users {
		if verifC08Overlap(perms, u.Permissions.permissions) {
			names = append(names, "user:"+k)
		}
	}
	if desc.WildcardUser != nil &&
		verifC08Overlap(perms, desc.WildcardUser.Permissions.permissions) {
		names = append(names, "wildcard-user")
	}
	sort.Strings(names)
	if len(names) == 0 {
		return ""
	}
	return names[0]
}

// VerifC08ResetGroups empties the group registry (fresh world).
func VerifC08ResetGroups() {
	groups.mu.Lock()
	groups.groups = nil
	groups.mu.Unlock()
}

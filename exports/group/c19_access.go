//go:build verif

package group

// Accessors for the C19 harness (path confinement).

// VerifC19ValidGroupName exposes the group-layer name validator.
func VerifC19ValidGroupName(name string) bool { return validGroupName(name) }

// VerifC19ValidUsername exposes the username validator.
func VerifC19ValidUsername(name string) bool { return validUsername(name) }

// VerifC19ResetGroups empties the package-level group registry so that
// successive enumerated inputs do not see each other's groups.
func VerifC19ResetGroups() {
	groups.mu.Lock()
	groups.groups = nil
	groups.mu.Unlock()
}

//go:build verif

package group

import (
	"verif/vsync"
)

// VerifC18Reset is the "restart": it empties the in-memory group registry
// and the configuration cache and replaces the two package-level mutexes by
// fresh ones (so that neither a lock state nor the scheduler's vector clock
// of a previous execution leaks into the next one).
func VerifC18Reset() {
	groups.mu = vsync.Mutex{}
	groups.groups = nil
	configuration.mu = vsync.Mutex{}
	configuration.configuration = nil
}

// VerifC18RewriteDescriptionFile exposes rewriteDescriptionFile.
func VerifC18RewriteDescriptionFile(filename string, desc *Description) error {
	return rewriteDescriptionFile(filename, desc)
}

// VerifC18ReadDescription exposes readDescription (always from disk).
func VerifC18ReadDescription(name string, allowSubgroups bool) (*Description, error) {
	return readDescription(name, allowSubgroups)
}

// VerifC18Tag is the entity tag the server derives for desc.
func VerifC18Tag(desc *Description) string {
	return makeETag(desc.fileSize, desc.modTime)
}

// VerifC18PermName returns the name of a named permission set ("" if the
// permissions are given as an explicit list).
func VerifC18PermName(p Permissions) string {
	return p.name
}

//go:build verif

package group

import (
	"encoding/json"
	"fmt"
	"sort"
	"strings"
	"time"
)

var verifPristinePerms = func() map[string][]string {
	m := map[string][]string{}
	for k, v := range permissionsMap {
		m[k] = append([]string{}, v...)
	}
	return m
}()

// VerifReset empties the group registry and the configuration cache and
// returns a description of any corruption of the package-level role table
// (which is then restored).
func VerifReset() string {
	groups.mu.Lock()
	groups.groups = nil
	groups.mu.Unlock()
	configuration.mu.Lock()
	configuration.configuration = nil
	configuration.mu.Unlock()
	return VerifCheckRoleTable(true)
}

// VerifCheckRoleTable compares the role table with its pristine copy.
func VerifCheckRoleTable(restore bool) string {
	var bad []string
	for k, v := range verifPristinePerms {
		if fmt.Sprint(permissionsMap[k]) != fmt.Sprint(v) {
			bad = append(bad, fmt.Sprintf("%s: %v (was %v)", k, permissionsMap[k], v))
			if restore {
				permissionsMap[k] = append([]string{}, v...)
			}
		}
	}
	sort.Strings(bad)
	return strings.Join(bad, "; ")
}

// VerifState summarises the complete mutable state of a group.
func (g *Group) VerifState() string {
	g.mu.Lock()
	defer g.mu.Unlock()
	var b strings.Builder
	fmt.Fprintf(&b, "%s locked=", g.name)
	if g.locked != nil {
		b.WriteString("1:" + *g.locked)
	} else {
		b.WriteString("0")
	}
	ids := make([]string, 0, len(g.clients))
	for id := range g.clients {
		ids = append(ids, id)
	}
	sort.Strings(ids)
	fmt.Fprintf(&b, " members=%v hist=[", ids)
	for _, h := range g.history {
		u := ""
		if h.User != nil {
			u = *h.User
		}
		v, _ := json.Marshal(h.Value)
		fmt.Fprintf(&b, "%s/%s/%s/%s/%s;", h.Id, h.Source, u, h.Kind, v)
	}
	d, _ := json.Marshal(g.data)
	fmt.Fprintf(&b, "] data=%s", d)
	return b.String()
}

// VerifHistoryTimes returns the timestamps of the chat history entries.
func (g *Group) VerifHistory() []ChatHistoryEntry {
	g.mu.Lock()
	defer g.mu.Unlock()
	return append([]ChatHistoryEntry(nil), g.history...)
}

// VerifGroups lists the registered groups.
func VerifGroups() []*Group {
	groups.mu.Lock()
	defer groups.mu.Unlock()
	var gs []*Group
	for _, g := range groups.groups {
		gs = append(gs, g)
	}
	sort.Slice(gs, func(i, j int) bool { return gs[i].name < gs[j].name })
	return gs
}

// VerifPeek reads the admission-relevant state WITHOUT taking g.mu; it is
// meant to be called from client callbacks that AddClient invokes while it
// holds the lock (so the view is the one the admission decision was based on).
func (g *Group) VerifPeek() (locked bool, members []string, ops int, max int, autolock, autokick bool) {
	locked = g.locked != nil
	for id, c := range g.clients {
		members = append(members, id)
		for _, p := range c.Permissions() {
			if p == "op" {
				ops++
			}
		}
	}
	sort.Strings(members)
	if g.description != nil {
		max, autolock, autokick = g.description.MaxClients, g.description.Autolock, g.description.Autokick
	}
	return
}

// VerifGetUnlocked looks a group up WITHOUT taking the registry lock (for
// callbacks that run while other locks are held under the cooperative
// scheduler, where only one thread runs at a time).
func VerifGetUnlocked(name string) *Group {
	return groups.groups[name]
}

// VerifInForce returns the admission-relevant fields of the description the
// group holds right now, WITHOUT taking the lock (same use as VerifPeek).
func (g *Group) VerifInForce() (max int, notBefore, expires *time.Time, autokick bool) {
	d := g.description
	if d == nil {
		return
	}
	return d.MaxClients, d.NotBefore, d.Expires, d.Autokick
}

// VerifDescFile returns the file the description in force was read from.
func (g *Group) VerifDescFile() string {
	if g.description == nil {
		return ""
	}
	return g.description.FileName
}

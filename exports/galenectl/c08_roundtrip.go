//go:build verif

// C08, tool round trip: the real makePassword of galenectl (package main,
// hence reached through an overlay-added file instead of an import) is
// enumerated over algorithm x parameters x passwords; every produced record
// goes through its JSON form into a group.Password, whose Match must accept
// the hashed password and no other password of the set.
//
// The enumeration runs only when VERIF_C08_ROUNDTRIP is set (by the C08
// harness, which builds and runs this binary); it prints one line
// "C08RT {json}" and exits.
package main

import (
	"bytes"
	"encoding/json"
	"fmt"
	"os"
	"sort"
	"strconv"
	"strings"
	"time"

	"github.com/jech/galene/group"
)

type verifC08Viol struct {
	Signature string `json:"signature"`
	What      string `json:"what"`
	Case      any    `json:"case"`
}

type verifC08Report struct {
	Makes        int64          `json:"makes"`
	Evaluations  int64          `json:"evaluations"`
	Outcomes     []string       `json:"outcomes"`
	Exhaustive   bool           `json:"exhaustive"`
	Unsupported  []string       `json:"unsupported"`
	MakeErrors   int64          `json:"make_errors"`
	NulEquiv     int64          `json:"nul_equivalent_pairs_observed_matching"`
	ShortKeySkip int64          `json:"short_key_pairs_not_demanded"`
	ShortKeyHit  int64          `json:"short_key_pairs_observed_matching"`
	Violations   []verifC08Viol `json:"violations"`
	Samples      []any          `json:"samples"`
	Bound        string         `json:"bound"`
}

type verifC08Case struct {
	Algorithm  string `json:"algorithm"`
	Iterations int    `json:"iterations"`
	Length     int    `json:"length"`
	SaltLen    int    `json:"saltlen"`
	Cost       int    `json:"cost"`
	Password   string `json:"password"` // name of the password
	Stored     string `json:"stored,omitempty"`
}

// verifC08HMACEquivalent: the key HMAC-SHA256 actually uses for a password of at
// most 64 bytes: the password zero-padded to the block size (RFC 2104).  Two
// such passwords that differ only in trailing NUL bytes are the same PBKDF2
// input; like bcrypt's 72-byte truncation this is a property of the
// algorithm, so the pair is not demanded to be told apart.
func verifC08HMACEquivalent(a, b string) bool {
	if len(a) > 64 || len(b) > 64 {
		return false
	}
	return strings.TrimRight(a, "\x00") == strings.TrimRight(b, "\x00")
}

func init() {
	tier := os.Getenv("VERIF_C08_ROUNDTRIP")
	if tier == "" {
		return
	}
	budget, _ := strconv.Atoi(os.Getenv("VERIF_C08_BUDGET"))
	if budget <= 0 {
		budget = 30
	}
	deadline := time.Now().Add(time.Duration(budget) * time.Second)
	thorough := tier == "thorough"

	type pw struct{ name, value string }
	s71 := strings.Repeat("x", 71)
	// around bcrypt's 72-byte input limit: the tool must either refuse a
	// longer password or hash all of it
	pws := []pw{{"empty", ""}, {"a", "a"}, {"b", "b"}, {"a-nul", "a\x00"},
		{"s71", s71}, {"s72", s71 + "x"}, {"s73", s71 + "xy"}, {"s73b", s71 + "xz"}, {"s80", s71 + "x" + "12345678"}}

	iterations := []int{1, 2, 4096}
	lengths := []int{1, 16, 32}
	salts := []int{0, 1, 8}
	costs := []int{4, 5}
	if !thorough {
		costs = []int{4}
	}

	rep := verifC08Report{Exhaustive: true}
	rep.Bound = fmt.Sprintf("algorithms {pbkdf2,bcrypt,plain,wildcard} x iterations %v x key length %v x salt length %v x bcrypt cost %v x %d passwords, every password of the set tried against every record", iterations, lengths, salts, costs, len(pws))
	outcomes := map[string]bool{}
	seenSig := map[string]bool{}
	violate := func(sig, what string, c verifC08Case) {
		if seenSig[sig] {
			return
		}
		seenSig[sig] = true
		rep.Violations = append(rep.Violations, verifC08Viol{sig, what, c})
	}

	run := func(alg string, it, length, salt, cost int, p pw) bool {
		if time.Now().After(deadline) {
			rep.Exhaustive = false
			return false
		}
		c := verifC08Case{alg, it, length, salt, cost, p.name, ""}
		made, err := makePassword(p.value, alg, it, length, salt, cost)
		if err != nil {
			if err.Error() == "unknown password type" {
				found := false
				for _, u := range rep.Unsupported {
					found = found || u == alg
				}
				if !found {
					rep.Unsupported = append(rep.Unsupported, alg)
				}
				return true
			}
			if alg == "bcrypt" && len(p.value) > 72 {
				// refusing what the algorithm cannot hash in full is the
				// correct answer
				outcomes[alg+"/refused-longer-than-72-bytes"] = true
				return true
			}
			rep.MakeErrors++
			outcomes[alg+"/make-error"] = true
			return true
		}
		rep.Makes++
		// the stored form: what hash-password prints and set-password PUTs
		var buf bytes.Buffer
		if err := json.NewEncoder(&buf).Encode(made); err != nil {
			violate("C08/tool-roundtrip/not-encodable/"+alg,
				fmt.Sprintf("makePassword result cannot be encoded: %v", err), c)
			return true
		}
		c.Stored = strings.TrimSpace(buf.String())
		var stored group.Password
		if err := json.Unmarshal(buf.Bytes(), &stored); err != nil {
			violate("C08/tool-roundtrip/not-decodable/"+alg,
				fmt.Sprintf("the server cannot parse the tool's output %s: %v", c.Stored, err), c)
			return true
		}
		vec := make([]byte, len(pws))
		for i, q := range pws {
			ok, merr := stored.Match(q.value)
			rep.Evaluations++
			vec[i] = '0'
			if ok {
				vec[i] = '1'
			}
			if q.name == p.name {
				if !ok || merr != nil {
					violate("C08/tool-roundtrip/own-password-rejected/"+alg,
						fmt.Sprintf("%s record made for password %q does not verify that password (ok=%v err=%v): %s", alg, p.value, ok, merr, c.Stored), c)
				}
				continue
			}
			if alg == "wildcard" {
				continue // not a hash: matches everything by design
			}
			if !ok {
				continue
			}
			if alg == "pbkdf2" && length < 16 {
				// a 1-byte key cannot separate passwords (pigeonhole,
				// 1/256 per pair, salt-dependent): observed, not demanded
				rep.ShortKeyHit++
				continue
			}
			if alg == "pbkdf2" && verifC08HMACEquivalent(p.value, q.value) {
				rep.NulEquiv++
				continue
			}
			if alg == "bcrypt" && len(p.value) <= 72 && len(q.value) > 72 && q.value[:72] == p.value {
				// the verifying side of bcrypt reads 72 bytes of its input:
				// a property of the algorithm (the record itself was made
				// from the whole password)
				rep.NulEquiv++
				continue
			}
			violate("C08/tool-roundtrip/other-password-accepted/"+alg+"/"+p.name+"~"+q.name,
				fmt.Sprintf("%s record made for password %q also verifies %q: %s", alg, p.value, q.value, c.Stored), c)
		}
		if alg == "pbkdf2" && length < 16 {
			rep.ShortKeySkip += int64(len(pws) - 1)
		}
		if alg == "pbkdf2" && length < 16 {
			// chance collisions of 1-byte keys are not part of the outcome
			for i, q := range pws {
				if q.name != p.name {
					vec[i] = '?'
				}
			}
		}
		o := fmt.Sprintf("%s/%s/%s", alg, p.name, vec)
		if !outcomes[o] && len(rep.Samples) < 3 {
			rep.Samples = append(rep.Samples, map[string]any{"case": c, "match_vector": string(vec)})
		}
		outcomes[o] = true
		return true
	}

	func() {
		for _, alg := range []string{"pbkdf2", "bcrypt", "plain"} {
			for _, it := range iterations {
				for _, l := range lengths {
					for _, s := range salts {
						for _, cost := range costs {
							if !thorough {
								// quick: the parameters an algorithm ignores
								// are fixed to their first value
								if alg != "pbkdf2" && (it != iterations[0] || l != lengths[0] || s != salts[0]) {
									continue
								}
								if alg == "pbkdf2" && cost != costs[0] {
									continue
								}
							}
							for _, p := range pws {
								if !run(alg, it, l, s, cost, p) {
									return
								}
							}
						}
					}
				}
			}
		}
		// wildcard records exist only for the empty password
		run("wildcard", 0, 0, 0, 0, pws[0])
	}()

	for o := range outcomes {
		rep.Outcomes = append(rep.Outcomes, o)
	}
	sort.Strings(rep.Outcomes)
	b, _ := json.Marshal(rep)
	fmt.Printf("C08RT %s\n", b)
	os.Exit(0)
}

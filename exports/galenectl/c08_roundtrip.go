//go:build verif

package main

import (
	"fmt"
	"os"
)

func init() {
	if os.Getenv("VERIF_C08_ROUNDTRIP") == "" {
		return
	}
	p, err := makePassword("a", "bcrypt", 0, 0, 0, 4)
	fmt.Println(p.Type, err)
	os.Exit(0)
}

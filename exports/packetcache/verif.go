//go:build verif

package packetcache

import (
	"fmt"
	"strings"
)

// VerifGetFull reads what is stored under seqno (bytes, timestamp, marker)
// straight from the ring.  It deliberately does not go through the package's
// own lookup helpers, whose signatures a refactoring may change.
func (cache *Cache) VerifGetFull(seqno uint16, result []byte) (uint16, uint32, bool) {
	cache.mu.Lock()
	defer cache.mu.Unlock()
	for i := range cache.entries {
		e := &cache.entries[i]
		if e.lengthAndMarker == 0 || e.seqno != seqno {
			continue
		}
		l := e.lengthAndMarker & 0x7FFF
		n := uint16(copy(result, e.buf[:l]))
		return n, e.timestamp, e.lengthAndMarker&0x8000 != 0
	}
	return 0, 0, false
}

// VerifDump returns the complete ring state: tail, and per slot seqno,
// length/marker word, timestamp and the first content byte after the header
// (the harness derives the whole content from it).
func (cache *Cache) VerifDump(id func(buf []byte) string) string {
	cache.mu.Lock()
	defer cache.mu.Unlock()
	var b strings.Builder
	fmt.Fprintf(&b, "t%d/%d", cache.tail, len(cache.entries))
	for i := range cache.entries {
		e := &cache.entries[i]
		fmt.Fprintf(&b, "|%d,%x,%d,%s", e.seqno, e.lengthAndMarker, e.timestamp, id(e.buf[:e.lengthAndMarker&0x7FFF]))
	}
	return b.String()
}

// VerifStats returns the complete statistics/bitmap state.
func (cache *Cache) VerifStats() string {
	cache.mu.Lock()
	defer cache.mu.Unlock()
	return fmt.Sprintf("l%d,%v c%d e%d/%d r%d/%d k%d,%v b%v,%d,%x",
		cache.last, cache.lastValid, cache.cycle, cache.expected, cache.totalExpected,
		cache.received, cache.totalReceived, cache.keyframe, cache.keyframeValid,
		cache.bitmap.valid, cache.bitmap.first, cache.bitmap.bitmap)
}

func (cache *Cache) VerifCapacity() int {
	cache.mu.Lock()
	defer cache.mu.Unlock()
	return len(cache.entries)
}

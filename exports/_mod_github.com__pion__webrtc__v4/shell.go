//go:build verif

// Added to the pinned pion/webrtc package by the verif build overlay only.
// It builds *shells* of TrackRemote/RTPReceiver, RTPSender and PeerConnection
// whose RTP/RTCP interceptor readers and RTCP writer are harness objects, so
// that galene's real readLoop / rtcpUpListener / rtcpDownListener /
// WriteRTCP call sites run unmodified on scripted input with no transport.
package webrtc

import (
	"sync"

	"github.com/pion/interceptor"
)

// VerifNewTrackRemote returns a TrackRemote/RTPReceiver pair reading from the
// given interceptor readers.
func VerifNewTrackRemote(kind RTPCodecType, ssrc SSRC, id, streamID, rid string,
	codec RTPCodecParameters, rtpR interceptor.RTPReader, rtcpR interceptor.RTCPReader) (*TrackRemote, *RTPReceiver) {
	recv := &RTPReceiver{
		kind:       kind,
		closedChan: make(chan any),
		received:   make(chan any),
		api:        verifAPI(),
	}
	close(recv.received)
	tr := newTrackRemote(kind, ssrc, 0, rid, recv)
	tr.id = id
	tr.streamID = streamID
	tr.payloadType = codec.PayloadType
	tr.codec = codec
	tr.params = RTPParameters{Codecs: []RTPCodecParameters{codec}}
	recv.tracks = []trackStreams{{track: tr, rtpInterceptor: rtpR, rtcpInterceptor: rtcpR}}
	return tr, recv
}

var verifAPIOnce struct {
	once sync.Once
	api  *API
}

func verifAPI() *API {
	verifAPIOnce.once.Do(func() { verifAPIOnce.api = NewAPI() })
	return verifAPIOnce.api
}

// VerifCloseReceiver makes further reads return io.EOF.
func VerifCloseReceiver(r *RTPReceiver) {
	if r.closed.CompareAndSwap(false, true) {
		close(r.closedChan)
	}
}

// VerifNewRTPSender returns an RTPSender whose Read is served by rtcpR.
func VerifNewRTPSender(rtcpR interceptor.RTCPReader) *RTPSender {
	s := &RTPSender{
		sendCalled: make(chan struct{}),
		stopCalled: make(chan struct{}),
		trackEncodings: []*trackEncoding{
			{rtcpInterceptor: rtcpR},
		},
	}
	close(s.sendCalled)
	return s
}

// VerifNewPeerConnection returns a PeerConnection whose WriteRTCP goes to w.
func VerifNewPeerConnection(w interceptor.RTCPWriter) *PeerConnection {
	return &PeerConnection{interceptorRTCPWriter: w}
}

// VerifOnTrack returns the handler registered with OnTrack.
func (pc *PeerConnection) VerifOnTrack() func(*TrackRemote, *RTPReceiver) {
	pc.mu.RLock()
	defer pc.mu.RUnlock()
	return pc.onTrackHandler
}

//go:build verif

package estimator

import "fmt"

// VerifState returns the complete private state relative to now.
func (e *Estimator) VerifState(now uint64) string {
	e.mu.Lock()
	defer e.mu.Unlock()
	return fmt.Sprintf("dt%d b%d p%d r%d pr%d", int64(now-e.time), e.bytes, e.packets, e.rate, e.packetRate)
}

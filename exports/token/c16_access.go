//go:build verif

package token

import (
	"sort"
	"time"
)

// VerifC16FreshLoad is "a freshly started server": a NEW state bound to
// filename whose load() reads the file.  It returns a copy of the token map,
// the version tag and the load error.
func VerifC16FreshLoad(filename string) (map[string]*Stateful, string, error) {
	s := &state{filename: filename}
	s.mu.Lock()
	defer s.mu.Unlock()
	etag, err := s.load()
	if err != nil {
		return nil, "", err
	}
	m := make(map[string]*Stateful, len(s.tokens))
	for k, v := range s.tokens {
		m[k] = v
	}
	return m, etag, nil
}

// VerifC16Reset puts the package-level token state back to that of a process
// that has just started and has not been given a file name yet.
func VerifC16Reset() {
	tokens.mu.Lock()
	defer tokens.mu.Unlock()
	tokens.filename = ""
	tokens.reset()
}

// VerifC16Snap is a copy of the cache part of the package-level state.
type VerifC16Snap struct {
	tokens   map[string]*Stateful
	isNil    bool
	fileSize int64
	modTime  time.Time
}

// VerifC16Save copies the cache (token map, mirrored size and mtime) so that
// the harness can ask hypothetical questions ("what would Get answer now")
// through the real entry points and then put the cache back exactly.
func VerifC16Save() VerifC16Snap {
	tokens.mu.Lock()
	defer tokens.mu.Unlock()
	s := VerifC16Snap{fileSize: tokens.fileSize, modTime: tokens.modTime, isNil: tokens.tokens == nil}
	if tokens.tokens != nil {
		s.tokens = make(map[string]*Stateful, len(tokens.tokens))
		for k, v := range tokens.tokens {
			s.tokens[k] = v
		}
	}
	return s
}

// VerifC16Restore is the inverse of VerifC16Save.
func VerifC16Restore(s VerifC16Snap) {
	tokens.mu.Lock()
	defer tokens.mu.Unlock()
	tokens.fileSize = s.fileSize
	tokens.modTime = s.modTime
	if s.isNil {
		tokens.tokens = nil
		return
	}
	tokens.tokens = make(map[string]*Stateful, len(s.tokens))
	for k, v := range s.tokens {
		tokens.tokens[k] = v
	}
}

// VerifC16Cached returns the cached tokens (sorted by name) and the file
// version the cache claims to mirror, without touching the file.
func VerifC16Cached() (toks []*Stateful, fileSize int64, modTime time.Time) {
	tokens.mu.Lock()
	defer tokens.mu.Unlock()
	for _, v := range tokens.tokens {
		toks = append(toks, v)
	}
	sort.Slice(toks, func(i, j int) bool { return toks[i].Token < toks[j].Token })
	return toks, tokens.fileSize, tokens.modTime
}

//go:build verif

package webserver

import (
	"net/http"

	"verif/vos"
)

// VerifC12Mux registers the routes of Serve (all but "/ws", which needs a
// hijackable connection) on a private mux, with the static root opened the
// way Serve opens it.  This file is not rewritten by the instrumenter, so the
// package's os.Root is spelled vos.Root here.
func VerifC12Mux(static string) (*http.ServeMux, error) {
	root, err := vos.OpenRoot(static)
	if err != nil {
		return nil, err
	}
	StaticRoot = static
	staticRoot = root
	mux := http.NewServeMux()
	mux.Handle("/", &fileHandler{staticRoot})
	mux.HandleFunc("/group/", groupHandler)
	mux.HandleFunc("/recordings",
		func(w http.ResponseWriter, r *http.Request) {
			http.Redirect(w, r,
				"/recordings/", http.StatusPermanentRedirect)
		})
	mux.HandleFunc("/recordings/", recordingsHandler)
	mux.HandleFunc("/public-groups.json", publicHandler)
	mux.HandleFunc("/galene-api/", apiHandler)
	return mux, nil
}

// VerifC12Obfuscate exposes the WHIP id obfuscation (to build a well-formed
// but unknown resource id).
func VerifC12Obfuscate(id string) (string, error) { return obfuscate(id) }

//go:build verif

package webserver

import (
	"net/http"

	"verif/vos"
)

// VerifC16APIHandler exposes apiHandler (the /galene-api/ route, which
// contains tokensHandler) so that the harness can drive it with recorded
// requests, without a listening socket.
func VerifC16APIHandler(w http.ResponseWriter, r *http.Request) {
	apiHandler(w, r)
}

// VerifC16OpenStaticRoot does what Serve does before it starts listening:
// it opens the static directory (notFound serves 404.html from it).
func VerifC16OpenStaticRoot(dir string) error {
	r, err := vos.OpenRoot(dir)
	if err != nil {
		return err
	}
	staticRoot = r
	return nil
}

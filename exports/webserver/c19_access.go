//go:build verif

package webserver

// VerifC19ParseGroupName exposes the URL-to-group-name helper.
func VerifC19ParseGroupName(prefix, p string) string { return parseGroupName(prefix, p) }

//go:build verif

package webserver

// VerifC09CheckGlobalAdminToken exposes checkGlobalAdminToken (the decision
// whether a bearer token makes its holder a server-wide administrator).
func VerifC09CheckGlobalAdminToken(tok string) (bool, error) {
	return checkGlobalAdminToken(tok)
}

//go:build verif

package webserver

import (
	"net/http"

	"verif/vos"
)

// VerifC18EtagMatch exposes etagMatch (entity tag vs. If-Match /
// If-None-Match header value; "" = the object does not exist).
func VerifC18EtagMatch(etag, header string) bool {
	return etagMatch(etag, header)
}

// VerifC18CheckPreconditions exposes checkPreconditions.
func VerifC18CheckPreconditions(w http.ResponseWriter, r *http.Request, etag string) bool {
	return checkPreconditions(w, r, etag)
}

// VerifC18APIHandler exposes the router of the administrative API.
func VerifC18APIHandler(w http.ResponseWriter, r *http.Request) {
	apiHandler(w, r)
}

// VerifC18SetStaticRoot opens dir as the static root (notFound serves
// 404.html from it), as Serve does with os.OpenRoot(StaticRoot).
func VerifC18SetStaticRoot(dir string) error {
	r, err := vos.OpenRoot(dir)
	if err != nil {
		return err
	}
	if staticRoot != nil {
		staticRoot.Close()
	}
	StaticRoot = dir
	staticRoot = r
	return nil
}

//go:build verif

package webserver

import (
	"net/http"

	"verif/vos"
)

// VerifC17APIHandler exposes the router of the administrative API
// (registered under "/galene-api/" by Serve).
func VerifC17APIHandler(w http.ResponseWriter, r *http.Request) {
	apiHandler(w, r)
}

// VerifC17SetStaticRoot opens dir as the static root (notFound serves
// 404.html from it); Serve does the same with os.OpenRoot(StaticRoot).
func VerifC17SetStaticRoot(dir string) error {
	r, err := vos.OpenRoot(dir)
	if err != nil {
		return err
	}
	if staticRoot != nil {
		staticRoot.Close()
	}
	StaticRoot = dir
	staticRoot = r
	return nil
}

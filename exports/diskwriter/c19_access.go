//go:build verif

package diskwriter

// VerifC19Sanitise exposes the username sanitiser used for file names.
func VerifC19Sanitise(s string) string { return sanitise(s) }

// VerifC19OpenDiskFile runs the real openDiskFile on the client's own root
// (the root that New opened for the group's recording directory), closes the
// file and returns its name as reported by the file.
func (client *Client) VerifC19OpenDiskFile(username, extension string) (string, error) {
	f, err := openDiskFile(client.root, username, extension)
	if err != nil {
		return "", err
	}
	name := f.Name()
	f.Close()
	return name, nil
}

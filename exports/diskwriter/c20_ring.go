//go:build verif

package diskwriter

import (
	"reflect"

	"github.com/jech/galene/conn"
)

// VerifC20Ring reports the position of the sample builder's ring behind a
// disk track (head, tail and length of the ring, read by reflection: the
// builder is a third-party type with unexported fields).  It is used by the
// C20 harness only to MEASURE where its pre-roll macro left the ring and to
// name the ring position in a finding; no oracle depends on it.
func VerifC20Ring(d conn.DownTrack) (head, tail, size int, ok bool) {
	t, isT := d.(*diskTrack)
	if !isT || t == nil || t.builder == nil {
		return 0, 0, 0, false
	}
	t.conn.mu.Lock()
	defer t.conn.mu.Unlock()
	v := reflect.ValueOf(t.builder).Elem()
	h, tl, pk := v.FieldByName("head"), v.FieldByName("tail"), v.FieldByName("packets")
	if !h.IsValid() || !tl.IsValid() || !pk.IsValid() {
		return 0, 0, 0, false
	}
	return int(h.Uint()), int(tl.Uint()), pk.Len(), true
}

// VerifC20Origin reports a disk track's time origin (diagnostics for replays
// only; no oracle depends on it).
func VerifC20Origin(d conn.DownTrack) (origin uint32, valid_, writer bool, local int64, remote uint64) {
	t, isT := d.(*diskTrack)
	if !isT || t == nil {
		return
	}
	t.conn.mu.Lock()
	defer t.conn.mu.Unlock()
	if valid(t.origin) {
		origin, valid_ = value(t.origin), true
	}
	if !t.conn.originLocal.IsZero() {
		local = t.conn.originLocal.UnixMilli()
	}
	return origin, valid_, t.writer != nil, local, t.conn.originRemote
}

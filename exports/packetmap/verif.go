//go:build verif

package packetmap

import (
	"fmt"
	"strings"
)

// VerifState returns the complete private state of the map.
func (m *Map) VerifState() string {
	m.mu.Lock()
	defer m.mu.Unlock()
	var b strings.Builder
	fmt.Fprintf(&b, "n%d p%d d%d pd%d l%d", m.next, m.nextPid, m.delta, m.pidDelta, m.lastEntry)
	if m.entries == nil {
		b.WriteString(" nil")
	}
	for _, e := range m.entries {
		fmt.Fprintf(&b, " [%d+%d d%d p%d]", e.first, e.count, e.delta, e.pidDelta)
	}
	return b.String()
}

// VerifEntries returns the number of interval entries.
func (m *Map) VerifEntries() int {
	m.mu.Lock()
	defer m.mu.Unlock()
	return len(m.entries)
}

// VerifCopyFrom makes m an independent copy of o.
func (m *Map) VerifCopyFrom(o *Map) {
	o.mu.Lock()
	defer o.mu.Unlock()
	m.next, m.nextPid, m.delta, m.pidDelta, m.lastEntry = o.next, o.nextPid, o.delta, o.pidDelta, o.lastEntry
	m.entries = nil
	if o.entries != nil {
		m.entries = append(make([]entry, 0, cap(o.entries)), o.entries...)
	}
	verifCopyExtra(m, o)
}

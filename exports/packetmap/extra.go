//go:build verif

package packetmap

import "reflect"

// verifCopyExtra copies any further scalar fields a later revision of Map
// may have (e.g. a "started" flag) so that clones stay faithful.
func verifCopyExtra(m, o *Map) {
	mv, ov := reflect.ValueOf(m).Elem(), reflect.ValueOf(o).Elem()
	t := mv.Type()
	for i := 0; i < t.NumField(); i++ {
		switch t.Field(i).Name {
		case "mu", "next", "nextPid", "delta", "pidDelta", "lastEntry", "entries":
			continue
		}
		f := mv.Field(i)
		switch f.Kind() {
		case reflect.Bool, reflect.Uint8, reflect.Uint16, reflect.Uint32, reflect.Uint64, reflect.Int, reflect.Int64, reflect.Uint:
			// unexported fields: write through unsafe pointer
			src := ov.Field(i)
			reflect.NewAt(f.Type(), f.Addr().UnsafePointer()).Elem().Set(reflect.NewAt(src.Type(), src.Addr().UnsafePointer()).Elem())
		}
	}
}

//go:build verif

package rtpconn

import (
	"github.com/jech/galene/conn"
	"github.com/jech/galene/packetcache"
)

// VerifPool is a real rtpWriterPool on an up track that has only a packet
// cache (the writer goroutines use nothing else of it while no keyframe and
// no sender report are known).
type VerifPool struct {
	wp rtpWriterPool
}

func VerifNewPool(cacheSize int) *VerifPool {
	p := &VerifPool{}
	p.wp.track = &rtpUpTrack{cache: packetcache.New(cacheSize)}
	return p
}

func (p *VerifPool) Add(t conn.DownTrack, add bool) error { return p.wp.add(t, add) }

// Store puts a (non-keyframe) packet into the publisher's cache.
func (p *VerifPool) Store(seqno uint16, buf []byte) uint16 {
	_, index := p.wp.track.cache.Store(seqno, uint32(seqno)*3000, false, true, buf)
	return index
}

func (p *VerifPool) Write(seqno, index uint16, video, marker bool) {
	p.wp.write(seqno, index, 0, video, marker)
}

// Done returns the termination channels of the writers currently listed.
func (p *VerifPool) Done() []<-chan struct{} {
	var r []<-chan struct{}
	for _, w := range p.wp.writers {
		r = append(r, w.done)
	}
	return r
}

func (p *VerifPool) Count() (writers, tracks int) { return len(p.wp.writers), p.wp.count }

func (p *VerifPool) Close() { p.wp.close() }

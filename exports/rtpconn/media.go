//go:build verif

package rtpconn

import (
	"unsafe"

	"sync/atomic"
	"time"

	"github.com/pion/rtcp"
	"github.com/pion/webrtc/v4"

	"github.com/jech/galene/conn"
	"github.com/jech/galene/estimator"
	"github.com/jech/galene/jitter"
	"github.com/jech/galene/packetcache"
	"github.com/jech/galene/stats"
	"github.com/jech/galene/unbounded"
)

// ---- up tracks

// VerifUp wraps a real rtpUpTrack built on a pion TrackRemote shell.
type VerifUp struct {
	T *rtpUpTrack
}

// VerifNewUpTrack builds the track exactly as the OnTrack handler of
// newUpConn does (minus starting the goroutines, which the harness runs).
func VerifNewUpTrack(remote *webrtc.TrackRemote, receiver *webrtc.RTPReceiver, pc *webrtc.PeerConnection, cacheSize int) *VerifUp {
	up := &rtpUpConnection{id: "up", label: "camera", pc: pc}
	if cacheSize <= 0 {
		cacheSize = minPacketCache(remote)
	}
	track := &rtpUpTrack{
		track:      remote,
		receiver:   receiver,
		conn:       up,
		cache:      packetcache.New(cacheSize),
		rate:       estimator.New(time.Second),
		jitter:     jitter.New(remote.Codec().ClockRate),
		actions:    unbounded.New[trackAction](),
		readerDone: make(chan struct{}),
	}
	up.tracks = append(up.tracks, track)
	return &VerifUp{track}
}

func (u *VerifUp) UpTrack() conn.UpTrack      { return u.T }
func (u *VerifUp) Cache() *packetcache.Cache  { return u.T.cache }
func (u *VerifUp) ReadLoop()                  { readLoop(u.T) }
func (u *VerifUp) RTCPListener()              { rtcpUpListener(u.T) }
func (u *VerifUp) NackWriter()                { nackWriter(u.T) }
func (u *VerifUp) SendUpRTCP() error          { return sendUpRTCP(u.T.conn) }
func (u *VerifUp) SendNACKs(s []uint16) error { return u.T.sendNACKs(s) }
func (u *VerifUp) BufferedNACKs() []uint16 {
	u.T.mu.Lock()
	defer u.T.mu.Unlock()
	return append([]uint16(nil), u.T.bufferedNACKs...)
}
func (u *VerifUp) ReaderDone() <-chan struct{} { return u.T.readerDone }

// ---- down tracks

// VerifDown wraps a real rtpDownTrack bound to a harness write stream.
type VerifDown struct {
	T    *rtpDownTrack
	Conn *rtpDownConnection
}

// VerifNewDownTrack builds the track as addDownTrackUnlocked does, except
// that the TrackLocalStaticRTP is bound to ctx directly instead of through a
// negotiated transceiver.
func VerifNewDownTrack(remote conn.UpTrack, ctx webrtc.TrackLocalContext, sender *webrtc.RTPSender, pc *webrtc.PeerConnection) (*VerifDown, error) {
	local, err := webrtc.NewTrackLocalStaticRTP(remote.Codec(), "track", "stream")
	if err != nil {
		return nil, err
	}
	if _, err := local.Bind(ctx); err != nil {
		return nil, err
	}
	c := &rtpDownConnection{id: "down", pc: pc}
	track := &rtpDownTrack{
		track:          local,
		sender:         sender,
		ssrc:           ctx.SSRC(),
		conn:           c,
		remote:         remote,
		maxBitrate:     new(bitrate),
		maxREMBBitrate: new(bitrate),
		stats:          new(receiverStats),
		rate:           estimator.New(time.Second),
		atomics:        &downTrackAtomics{},
	}
	c.tracks = append(c.tracks, track)
	return &VerifDown{track, c}, nil
}

func (d *VerifDown) DownTrack() conn.DownTrack          { return d.T }
func (d *VerifDown) Write(buf []byte) (int, error)      { return d.T.Write(buf) }
func (d *VerifDown) GotNACK(p *rtcp.TransportLayerNack) { gotNACK(d.T, p) }
func (d *VerifDown) RTCPListener()                      { rtcpDownListener(d.T) }
func (d *VerifDown) AdjustLayer()                       { d.T.adjustLayer() }
func (d *VerifDown) MapState() string                   { return d.T.packetmap.VerifState() }
func (d *VerifDown) MapEntries() int                    { return d.T.packetmap.VerifEntries() }
func (d *VerifDown) Reverse(s uint16) (bool, uint16, uint16) {
	return d.T.packetmap.Reverse(s)
}

// VerifLayer mirrors the private layerInfo.
type VerifLayer struct {
	Sid, WantedSid, MaxSid uint8
	Tid, WantedTid, MaxTid uint8
	LimitSid               bool
}

func (d *VerifDown) Layer() VerifLayer {
	l := d.T.getLayerInfo()
	return VerifLayer{l.sid, l.wantedSid, l.maxSid, l.tid, l.wantedTid, l.maxTid, l.limitSid}
}

// LayerAddr is the address of the packed layer word (to recognise its stores).
func (d *VerifDown) LayerAddr() unsafe.Pointer { return unsafe.Pointer(&d.T.atomics.layerInfo) }

// VerifLayerOfRaw decodes a raw layer word with the real getLayerInfo.
func VerifLayerOfRaw(raw uint32) VerifLayer {
	t := &rtpDownTrack{atomics: &downTrackAtomics{layerInfo: raw}}
	l := t.getLayerInfo()
	return VerifLayer{l.sid, l.wantedSid, l.maxSid, l.tid, l.wantedTid, l.maxTid, l.limitSid}
}

func (d *VerifDown) SetLayer(l VerifLayer) {
	d.T.setLayerInfo(layerInfo{l.Sid, l.WantedSid, l.MaxSid, l.Tid, l.WantedTid, l.MaxTid, l.LimitSid})
}

// LossCeiling returns the raw loss-based bitrate ceiling and its timestamp.
func (d *VerifDown) LossCeiling() (uint64, uint64) {
	return atomic.LoadUint64(&d.T.maxBitrate.bitrate), atomic.LoadUint64(&d.T.maxBitrate.jiffies)
}

func (d *VerifDown) REMB() (uint64, uint64) {
	return atomic.LoadUint64(&d.T.maxREMBBitrate.bitrate), atomic.LoadUint64(&d.T.maxREMBBitrate.jiffies)
}

// ReplaceTracksLimit calls the real replaceTracks with the current set of
// remote tracks, which only (re)applies the limitSid request flag.
func (d *VerifDown) ReplaceTracksLimit(limitSid bool) (bool, error) {
	remote := make([]conn.UpTrack, 0, len(d.Conn.tracks))
	for _, t := range d.Conn.tracks {
		remote = append(remote, t.remote)
	}
	return replaceTracks(d.Conn, remote, limitSid)
}

// RequestedTracks exposes the track-selection function.
func VerifRequestedTracks(requested []string, tracks []conn.UpTrack) ([]conn.UpTrack, bool) {
	return requestedTracks(nil, requested, tracks)
}

func (d *VerifDown) RateAccumulate(n uint32) { d.T.rate.Accumulate(n) }

// CopyFrom copies the forwarding state (sequence map, layer word, bitrate
// ceilings) of o into d; used to clone worlds instead of replaying long
// prefixes.
func (d *VerifDown) CopyFrom(o *VerifDown) {
	d.T.packetmap.VerifCopyFrom(&o.T.packetmap)
	*d.T.atomics = *o.T.atomics
	*d.T.maxBitrate = *o.T.maxBitrate
	*d.T.maxREMBBitrate = *o.T.maxREMBBitrate
	*d.T.stats = *o.T.stats
}

// RateState returns the private state of the down track's rate estimator.
func (d *VerifDown) RateState(now uint64) string { return d.T.rate.VerifState(now) }

// RateAccumulate records n packets of the given size in the up track's rate
// estimator (as readLoop does for every packet read).
func (u *VerifUp) RateAccumulate(n int, size uint32) {
	for i := 0; i < n; i++ {
		u.T.rate.Accumulate(size)
	}
}

// SetSRTime records that a sender report with the given NTP time was sent at
// the given instant (what sendSR does after writing the report).
func (d *VerifDown) SetSRTime(jiffies, ntp uint64) { d.T.setSRTime(jiffies, ntp) }

// RTT returns the smoothed round-trip time, in jiffies.
func (d *VerifDown) RTT() uint64 { return d.T.getRTT() }

// ClientStats runs the real webClient.GetStats (what the statistics endpoint
// serialises) on a client that holds just this down connection.
func (d *VerifDown) ClientStats() *stats.Client {
	c := &webClient{id: "verif", down: map[string]*rtpDownConnection{d.Conn.id: d.Conn}}
	return c.GetStats()
}

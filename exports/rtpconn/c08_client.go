//go:build verif

package rtpconn

import (
	"fmt"
	"reflect"
	"unsafe"

	"github.com/jech/galene/group"
	"github.com/jech/galene/unbounded"
)

// VerifC08Client is a real *webClient without a websocket: built exactly as
// StartClient builds it (minus the reader/writer goroutines); the harness
// plays the client loop itself by calling handleClientMessage / handleAction.
type VerifC08Client struct {
	C *webClient
}

func VerifC08NewClient(id string) *VerifC08Client {
	return &VerifC08Client{&webClient{
		id:         id,
		actions:    unbounded.New[any](),
		done:       make(chan struct{}),
		writeCh:    make(chan interface{}, 100), // as StartClient
		writerDone: make(chan struct{}),
	}}
}

// Join sends {type:"join", kind:"join"} through the real message handler.
func (v *VerifC08Client) Join(groupname string, username *string, password string) error {
	return handleClientMessage(v.C, clientMessage{
		Type: "join", Kind: "join", Group: groupname,
		Username: username, Password: password,
	})
}

// Leave sends {type:"join", kind:"leave"}.
func (v *VerifC08Client) Leave(groupname string) error {
	return handleClientMessage(v.C, clientMessage{
		Type: "join", Kind: "leave", Group: groupname,
	})
}

// Init installs a username and a permission slice exactly as group.AddClient
// does after a successful login.
func (v *VerifC08Client) Init(username string, perms []string) {
	v.C.Init(username, perms)
}

// ChangePermissions applies the action an operator's useraction enqueues.
func (v *VerifC08Client) ChangePermissions(kind string) error {
	var a changePermissionsAction
	a.kind = kind
	// the action names the group it was issued in (when the tree under test
	// has that field): the client's current one, as the operator's handler does
	if f := reflect.ValueOf(&a).Elem().FieldByName("group"); f.IsValid() {
		reflect.NewAt(f.Type(), unsafe.Pointer(f.UnsafeAddr())).Elem().Set(reflect.ValueOf(v.C.group))
	}
	return handleAction(v.C, a)
}

// VerifC08Action is a summary of one queued action.
type VerifC08Action struct {
	Type  string // joined | pushClient | permissionsChanged | changePermissions | kick | other
	Kind  string
	Group string
	Id    string
	Perms []string
}

func verifC08Describe(a any) VerifC08Action {
	switch a := a.(type) {
	case joinedAction:
		return VerifC08Action{Type: "joined", Kind: a.kind, Group: a.group}
	case pushClientAction:
		return VerifC08Action{Type: "pushClient", Kind: a.kind, Group: a.group,
			Id: a.id, Perms: append([]string(nil), a.permissions...)}
	case permissionsChangedAction:
		return VerifC08Action{Type: "permissionsChanged"}
	case changePermissionsAction:
		return VerifC08Action{Type: "changePermissions", Kind: a.kind}
	case kickAction:
		return VerifC08Action{Type: "kick", Id: a.id}
	}
	return VerifC08Action{Type: fmt.Sprintf("%T", a)}
}

// RunActions plays one round of the client loop: takes every queued action
// and runs the real handleAction on it.  It returns what was handled.
func (v *VerifC08Client) RunActions() ([]VerifC08Action, error) {
	select {
	case <-v.C.actions.Ch:
	default:
	}
	var out []VerifC08Action
	for _, a := range v.C.actions.Get() {
		out = append(out, verifC08Describe(a))
		if err := handleAction(v.C, a); err != nil {
			return out, err
		}
	}
	return out, nil
}

// DropActions discards the queued actions and returns their summaries.
func (v *VerifC08Client) DropActions() []VerifC08Action {
	select {
	case <-v.C.actions.Ch:
	default:
	}
	var out []VerifC08Action
	for _, a := range v.C.actions.Get() {
		out = append(out, verifC08Describe(a))
	}
	return out
}

// VerifC08Msg is a summary of one message written towards the websocket.
type VerifC08Msg struct {
	Type     string
	Kind     string
	Group    string
	Id       string
	Error    string
	Value    string
	Username string
	Perms    []string
}

// Drain empties the write channel (never blocks).
func (v *VerifC08Client) Drain() []VerifC08Msg {
	var out []VerifC08Msg
	for {
		select {
		case m := <-v.C.writeCh:
			switch m := m.(type) {
			case clientMessage:
				x := VerifC08Msg{Type: m.Type, Kind: m.Kind, Group: m.Group,
					Id: m.Id, Error: m.Error, Value: fmt.Sprint(m.Value),
					Perms: append([]string(nil), m.Permissions...)}
				if m.Username != nil {
					x.Username = *m.Username
				}
				out = append(out, x)
			case closeMessage:
				out = append(out, VerifC08Msg{Type: "close!"})
			default:
				out = append(out, VerifC08Msg{Type: fmt.Sprintf("%T", m)})
			}
		default:
			return out
		}
	}
}

// Permissions returns the client's own permission slice (NOT a copy: the
// harness inspects what it aliases).
func (v *VerifC08Client) Permissions() []string { return v.C.permissions }
func (v *VerifC08Client) Username() string      { return v.C.username }
func (v *VerifC08Client) Id() string            { return v.C.id }
func (v *VerifC08Client) InGroup() bool         { return v.C.group != nil }
func (v *VerifC08Client) Client() group.Client  { return v.C }

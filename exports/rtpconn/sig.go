//go:build verif

package rtpconn

import (
	"bytes"
	"encoding/json"
	"fmt"
	"sort"
	"strings"

	"github.com/pion/webrtc/v4"

	"github.com/jech/galene/group"
	"github.com/jech/galene/unbounded"
)

// VerifClient wraps a real webClient built exactly as StartClient builds it,
// except that writeCh is a large buffered channel the harness drains (this
// is the observation: everything the server would put on that websocket, in
// order) and that no websocket reader/writer goroutines exist.
type VerifClient struct {
	C      *webClient
	Closed bool
	// WriterDead: the websocket writer goroutine has exited (write error or
	// time-out) but the client's loop has not noticed yet
	WriterDead bool
}

// WriterDies models the death of the websocket writer: writerDone is closed
// and nothing receives from the write channel any more (it is made
// unbuffered so that a send can never be chosen, as with the real channel
// once its small buffer has filled up).
func (v *VerifClient) WriterDies() {
	if v.WriterDead {
		return
	}
	v.C.writeCh = make(chan interface{})
	close(v.C.writerDone)
	v.WriterDead = true
}

func VerifNewClient(id string) *VerifClient {
	c := &webClient{
		id:      id,
		actions: unbounded.New[any](),
		done:    make(chan struct{}),
	}
	c.writeCh = make(chan interface{}, 4096)
	c.writerDone = make(chan struct{})
	return &VerifClient{C: c}
}

// Handle decodes raw with the decoder the websocket reader uses and runs
// the real handleClientMessage.  A decoding error is returned as the reader
// would deliver it to clientLoop.
func (v *VerifClient) Handle(raw []byte) error {
	var m clientMessage
	d := json.NewDecoder(bytes.NewReader(raw))
	if err := d.Decode(&m); err != nil {
		return err
	}
	return handleClientMessage(v.C, m)
}

// Signalled reports whether the action channel has been triggered.
func (v *VerifClient) Signalled() bool { return len(v.C.actions.Ch) > 0 }

// Drain is the `case <-c.actions.Ch` arm of clientLoop.
func (v *VerifClient) Drain() (int, error) {
	select {
	case <-v.C.actions.Ch:
	default:
		return 0, nil
	}
	actions := v.C.actions.Get()
	for i, a := range actions {
		if err := handleAction(v.C, a); err != nil {
			return i + 1, err
		}
	}
	return len(actions), nil
}

// Exit is what clientLoop/StartClient do when the loop returns err: the
// deferred leaveGroup, then the error message and the close message.
func (v *VerifClient) Exit(err error) {
	leaveGroup(v.C)
	m, e := errorToWSCloseMessage(v.C.id, err)
	if m != nil {
		v.C.write(*m)
	}
	v.C.close(e)
	close(v.C.done)
	v.Closed = true
}

// Written drains the write channel.  Each element is the JSON that would go
// on the websocket; the close message is reported as {"type":"__close"}.
func (v *VerifClient) Written() [][]byte {
	var out [][]byte
	for {
		select {
		case m := <-v.C.writeCh:
			switch m := m.(type) {
			case clientMessage:
				b, err := json.Marshal(m)
				if err != nil {
					b = []byte(fmt.Sprintf(`{"type":"__marshal_error","value":%q}`, err.Error()))
				}
				out = append(out, b)
			case []byte:
				out = append(out, m)
			case closeMessage:
				code, text := 0, ""
				if len(m.data) >= 2 {
					code = int(m.data[0])<<8 | int(m.data[1])
					text = string(m.data[2:])
				}
				b, _ := json.Marshal(map[string]any{"type": "__close", "code": code, "value": text})
				out = append(out, b)
			default:
				out = append(out, []byte(`{"type":"__unknown"}`))
			}
		default:
			return out
		}
	}
}

func (v *VerifClient) Id() string                { return v.C.id }
func (v *VerifClient) Group() *group.Group       { return v.C.group }
func (v *VerifClient) Username() string          { return v.C.username }
func (v *VerifClient) Permissions() []string     { return append([]string(nil), v.C.permissions...) }
func (v *VerifClient) GroupClient() group.Client { return v.C }

// QueuedActions summarises the not yet handled actions, in queue order.
func (v *VerifClient) QueuedActions() []string {
	v.C.actions.VerifLock()
	defer v.C.actions.VerifUnlock()
	var s []string
	for _, a := range v.C.actions.VerifQueue() {
		switch a := a.(type) {
		case pushConnAction:
			s = append(s, fmt.Sprintf("pushConn(%s,nil=%v,%d,%s)", a.id, a.conn == nil, len(a.tracks), a.replace))
		case requestConnsAction:
			s = append(s, fmt.Sprintf("requestConns(%s,%s)", a.target.Id(), a.id))
		case connectionFailedAction:
			s = append(s, "connFailed("+a.id+")")
		case pushClientAction:
			d, _ := json.Marshal(a.data)
			s = append(s, fmt.Sprintf("pushClient(%s,%s,%s,%s,%v,%s)", a.group, a.kind, a.id, a.username, a.permissions, d))
		case changePermissionsAction:
			s = append(s, "changePerms("+a.kind+")")
		case permissionsChangedAction:
			s = append(s, "permsChanged")
		case joinedAction:
			s = append(s, fmt.Sprintf("joined(%s,%s)", a.group, a.kind))
		case kickAction:
			s = append(s, fmt.Sprintf("kick(%s,%s)", a.id, a.message))
		default:
			s = append(s, fmt.Sprintf("%T", a))
		}
	}
	return s
}

// Snapshot is the canonical description of the client's private state.
func (v *VerifClient) Snapshot() string {
	c := v.C
	var b strings.Builder
	g := "-"
	if c.group != nil {
		g = c.group.Name()
	}
	perms := append([]string(nil), c.permissions...)
	sort.Strings(perms)
	d, _ := json.Marshal(c.data)
	r, _ := json.Marshal(c.requested)
	fmt.Fprintf(&b, "%s g=%s u=%s p=%v d=%s r=%s closed=%v", c.id, g, c.username, perms, d, r, v.Closed)
	c.mu.Lock()
	var ups, downs []string
	for id, u := range c.up {
		u.mu.Lock()
		kinds := ""
		for _, t := range u.tracks {
			kinds += t.Kind().String()[:1]
		}
		ups = append(ups, fmt.Sprintf("%s/%s/%s/%v/%s", id, u.label, kinds, u.pushed, u.replace))
		u.mu.Unlock()
	}
	for id, dn := range c.down {
		dn.mu.Lock()
		kinds := ""
		for _, t := range dn.tracks {
			kinds += t.track.Kind().String()[:1]
		}
		dn.mu.Unlock()
		downs = append(downs, fmt.Sprintf("%s/%s/%d/%v/%s", id, kinds, dn.negotiationNeeded, dn.requested, dn.pc.SignalingState()))
	}
	c.mu.Unlock()
	sort.Strings(ups)
	sort.Strings(downs)
	fmt.Fprintf(&b, " up=%v down=%v q=%v sig=%v", ups, downs, v.QueuedActions(), v.Signalled())
	return b.String()
}

// UpIDs / DownIDs list the client's connections.
func (v *VerifClient) UpIDs() []string {
	v.C.mu.Lock()
	defer v.C.mu.Unlock()
	var ids []string
	for id := range v.C.up {
		ids = append(ids, id)
	}
	sort.Strings(ids)
	return ids
}

type VerifDownInfo struct {
	ID     string
	Kinds  []string
	Tracks []string // ids of the publisher's tracks being forwarded
	Source string
	State  string // signalling state of the PeerConnection
}

func (v *VerifClient) Downs() []VerifDownInfo {
	v.C.mu.Lock()
	defer v.C.mu.Unlock()
	var ds []VerifDownInfo
	for id, dn := range v.C.down {
		dn.mu.Lock()
		var kinds, tracks []string
		for _, t := range dn.tracks {
			kinds = append(kinds, t.track.Kind().String())
			if rt, ok := t.remote.(*rtpUpTrack); ok {
				tracks = append(tracks, rt.track.ID()+rt.track.RID())
			}
		}
		dn.mu.Unlock()
		src, _ := dn.remote.User()
		ds = append(ds, VerifDownInfo{id, kinds, tracks, src, dn.pc.SignalingState().String()})
	}
	sort.Slice(ds, func(i, j int) bool { return ds[i].ID < ds[j].ID })
	return ds
}

// Track fires the OnTrack handler of the up connection id with a synthetic
// remote track, as pion does when media of that kind starts to arrive.
func (v *VerifClient) Track(id string, kind webrtc.RTPCodecType, trackID, rid string, codec webrtc.RTPCodecParameters) bool {
	up := getUpConn(v.C, id)
	if up == nil {
		return false
	}
	h := up.pc.VerifOnTrack()
	if h == nil {
		return false
	}
	tr, recv := webrtc.VerifNewTrackRemote(kind, webrtc.SSRC(1000+len(up.tracks)), trackID, "stream-"+id, rid, codec, nil, nil)
	h(tr, recv)
	return true
}

// CloseAll closes every PeerConnection the client still holds.
func (v *VerifClient) CloseAll() {
	v.C.mu.Lock()
	defer v.C.mu.Unlock()
	for _, u := range v.C.up {
		u.pc.Close()
	}
	for _, d := range v.C.down {
		d.pc.Close()
	}
}

// DownOffer returns the pending local offer of down connection id.
func (v *VerifClient) DownOffer(id string) string {
	d := getDownConn(v.C, id)
	if d == nil || d.pc.LocalDescription() == nil {
		return ""
	}
	return d.pc.LocalDescription().SDP
}

// VerifWhipTrack fires the OnTrack handler of a WHIP session's connection
// with a synthetic remote track (see VerifClient.Track).
func VerifWhipTrack(c *WhipClient, kind webrtc.RTPCodecType, trackID, rid string, codec webrtc.RTPCodecParameters) bool {
	c.mu.Lock()
	up := c.connection
	c.mu.Unlock()
	if up == nil {
		return false
	}
	h := up.pc.VerifOnTrack()
	if h == nil {
		return false
	}
	tr, recv := webrtc.VerifNewTrackRemote(kind, webrtc.SSRC(2000+len(up.tracks)), trackID, "stream-"+up.id, rid, codec, nil, nil)
	h(tr, recv)
	return true
}

// SetWriteCap replaces the (empty) write queue by one of the given capacity
// (StartClient's is 100; the mirror's default is large because the harness,
// not a writer goroutine, takes the messages out).
func (v *VerifClient) SetWriteCap(n int) {
	v.C.writeCh = make(chan interface{}, n)
}

//go:build verif

package rtpconn

// Accessors used by the C12 harness (crash freedom of the RTCP listeners).

// VerifC12SendSR runs the real sendSR on the down connection, which stamps
// the sender-report time the receiver reports are matched against.
func (d *VerifDown) VerifC12SendSR() error { return sendSR(d.Conn) }

// VerifC12SRTime returns (jiffies, NTP time) of the last sender report.
func (d *VerifDown) VerifC12SRTime() (uint64, uint64) { return d.T.getSRTime() }

// VerifC12AddLocalConn registers the down connection as a local of the up
// connection (what addDownConn does), so that the first sender report of the
// publisher is propagated by the real sendSR.
func (u *VerifUp) VerifC12AddLocalConn(d *VerifDown) error { return u.T.conn.AddLocal(d.Conn) }

//go:build verif

package unbounded

func (ch *Channel[T]) VerifLock()      { ch.mu.Lock() }
func (ch *Channel[T]) VerifUnlock()    { ch.mu.Unlock() }
func (ch *Channel[T]) VerifQueue() []T { return ch.queue }

// Package core holds what every harness shares: the result record, the
// evidence writer, known-findings matching, replay artefacts and process
// sharding.  Nothing in here knows about galene.
package core

import (
	"bufio"
	"crypto/sha1"
	"encoding/hex"
	"encoding/json"
	"flag"
	"fmt"
	"os"
	"os/exec"
	"path/filepath"
	"runtime"
	"sort"
	"strconv"
	"strings"
	"sync"
	"time"
)

// VerifDir is the root of the verification tree (where MANIFEST.json lives).
func VerifDir() string {
	if d := os.Getenv("VERIF_DIR"); d != "" {
		return d
	}
	return "/verif"
}

// OutDir is where evidence and replay artefacts go: VerifDir, except for runs
// against a scratch copy of the repository (mutation runs).
func OutDir() string {
	if d := os.Getenv("VERIF_OUT"); d != "" {
		return d
	}
	return VerifDir()
}

// Violation is one property violation found by a harness.
type Violation struct {
	// Signature identifies the failing input class / call site / schedule
	// class narrowly and stably; it is what known_findings.jsonl lists.
	Signature string `json:"signature"`
	// What is a one-line human description.
	What string `json:"what"`
	// Sub names the sub-check that found it.
	Sub string `json:"sub,omitempty"`
	// Replay is the artefact (operation list, choice sequence, input).
	Replay any `json:"replay,omitempty"`
}

// Sub is the coverage of one sub-check.
type Sub struct {
	Name        string `json:"name"`
	States      int64  `json:"states"`
	Transitions int64  `json:"transitions"`
	Executions  int64  `json:"executions"`
	Outcomes    int64  `json:"distinct_outcomes"`
	MaxDepth    int    `json:"max_depth,omitempty"`
	Bound       string `json:"bound,omitempty"`
	Exhaustive  bool   `json:"exhaustive"`
	Note        string `json:"note,omitempty"`
	Samples     []any  `json:"samples,omitempty"`
	WallS       float64 `json:"wall_s,omitempty"`
}

// Result is what a harness (or one shard of it) reports.
type Result struct {
	Property    string      `json:"property"`
	Tier        string      `json:"tier"`
	Subs        []Sub       `json:"subs"`
	Violations  []Violation `json:"violations"`
	Assumptions []string    `json:"assumptions,omitempty"`
	Technique   string      `json:"technique,omitempty"`
	Fault       string      `json:"fault,omitempty"` // harness fault (never a verdict)

	mu sync.Mutex
}

func (r *Result) AddSub(s Sub) {
	r.mu.Lock()
	defer r.mu.Unlock()
	r.Subs = append(r.Subs, s)
}

// Violate records a violation (deduplicated by signature: the first, which
// the explorers make the shortest, is kept).
func (r *Result) Violate(v Violation) {
	r.mu.Lock()
	defer r.mu.Unlock()
	if v.Signature == "HARNESS-FAULT" {
		// a bug in the harness is never a verdict
		r.Fault = v.What
		return
	}
	for _, w := range r.Violations {
		if w.Signature == v.Signature {
			return
		}
	}
	r.Violations = append(r.Violations, v)
}

func (r *Result) NViolations() int {
	r.mu.Lock()
	defer r.mu.Unlock()
	return len(r.Violations)
}

func (r *Result) Assume(s string) {
	r.mu.Lock()
	defer r.mu.Unlock()
	for _, a := range r.Assumptions {
		if a == s {
			return
		}
	}
	r.Assumptions = append(r.Assumptions, s)
}

// Options are the common command line of a harness binary.
type Options struct {
	Tier     string
	Shard    int // -1: coordinator
	Shards   int
	Replay   string
	Out      string
	Seed     int64
	Deadline time.Time
	Only     string
}

var opts Options

func Opts() *Options { return &opts }

// Quick reports whether the quick tier is running.
func Quick() bool { return opts.Tier != "thorough" }

// Pick returns q in the quick tier and t in the thorough tier.
func Pick[T any](q, t T) T {
	if Quick() {
		return q
	}
	return t
}

// TimeLeft reports whether the internal deadline has not passed.
func TimeLeft() bool { return time.Now().Before(opts.Deadline) }

// ParseFlags parses the common flags. budgetQuick/budgetThorough are the
// internal soft deadlines in seconds: when reached, explorers stop and
// report exhaustive:false (never a failure).
func ParseFlags(budgetQuick, budgetThorough int) *Options {
	flag.StringVar(&opts.Tier, "tier", "quick", "quick|thorough")
	flag.IntVar(&opts.Shard, "shard", -1, "shard index (internal)")
	flag.IntVar(&opts.Shards, "shards", 1, "number of shards (internal)")
	flag.StringVar(&opts.Replay, "replay", "", "replay artefact")
	flag.StringVar(&opts.Out, "out", "", "result file (internal)")
	flag.StringVar(&opts.Only, "only", "", "run only the named sub-check")
	budget := flag.Int("budget", 0, "soft deadline in seconds")
	flag.Parse()
	if t := os.Getenv("VERIF_TIER"); t != "" && opts.Tier == "" {
		opts.Tier = t
	}
	if s := os.Getenv("VERIF_SEED"); s != "" {
		opts.Seed, _ = strconv.ParseInt(s, 10, 64)
	}
	// The quick tier is a fixed amount of work (sized to finish well within
	// budgetQuick on an idle machine); its deadline is only a safety net and
	// is kept far enough away that a loaded machine does not silently
	// shrink what is explored.
	b := budgetQuick * 10
	if b < 900 {
		b = 900
	}
	if opts.Tier == "thorough" {
		b = budgetThorough
	}
	if *budget > 0 {
		b = *budget
	}
	opts.Deadline = time.Now().Add(time.Duration(b) * time.Second)
	return &opts
}

// Want reports whether sub-check name is selected by --only.
func Want(name string) bool {
	return opts.Only == "" || strings.Contains(name, opts.Only) || strings.Contains(opts.Only, name)
}

// NCPU is the parallelism harnesses should use.
func NCPU() int {
	n := runtime.NumCPU()
	if n > 16 {
		n = 16
	}
	if n < 1 {
		n = 1
	}
	return n
}

// EmitShard writes a shard result to opts.Out and exits 0.
func EmitShard(r *Result) {
	b, err := json.Marshal(r)
	if err != nil {
		fmt.Fprintf(os.Stderr, "marshal shard result: %v\n", err)
		os.Exit(3)
	}
	if err := os.WriteFile(opts.Out, b, 0600); err != nil {
		fmt.Fprintf(os.Stderr, "write shard result: %v\n", err)
		os.Exit(3)
	}
	os.Exit(0)
}

// RunShards re-executes the current binary n times with --shard i --shards n
// and merges the results into r.  extra are extra arguments.  A shard that
// dies without a result file is a harness fault unless onCrash turns its
// output into a violation.
func RunShards(r *Result, n int, extra []string, onCrash func(shard int, output string) *Violation) {
	dir, err := os.MkdirTemp("", "vshard")
	if err != nil {
		r.Fault = err.Error()
		return
	}
	defer os.RemoveAll(dir)
	self, _ := os.Executable()
	var wg sync.WaitGroup
	sem := make(chan struct{}, NCPU())
	for i := 0; i < n; i++ {
		wg.Add(1)
		go func(i int) {
			defer wg.Done()
			sem <- struct{}{}
			defer func() { <-sem }()
			out := filepath.Join(dir, fmt.Sprintf("s%d.json", i))
			left := int(time.Until(opts.Deadline).Seconds())
			if left < 5 {
				left = 5
			}
			args := []string{"--tier", opts.Tier, "--shard", strconv.Itoa(i),
				"--shards", strconv.Itoa(n), "--out", out,
				"--budget", strconv.Itoa(left)}
			if opts.Only != "" {
				args = append(args, "--only", opts.Only)
			}
			args = append(args, extra...)
			cmd := exec.Command(self, args...)
			cmd.Env = append(os.Environ(), "GOMAXPROCS=2")
			b, err := cmd.CombinedOutput()
			data, rerr := os.ReadFile(out)
			if rerr != nil {
				if onCrash != nil {
					if v := onCrash(i, string(b)); v != nil {
						r.Violate(*v)
						return
					}
				}
				r.mu.Lock()
				r.Fault = fmt.Sprintf("shard %d died: %v\n%s", i, err, tail(string(b), 3000))
				r.mu.Unlock()
				return
			}
			var sr Result
			if err := json.Unmarshal(data, &sr); err != nil {
				r.mu.Lock()
				r.Fault = fmt.Sprintf("shard %d: bad result: %v", i, err)
				r.mu.Unlock()
				return
			}
			r.Merge(&sr)
		}(i)
	}
	wg.Wait()
}

func tail(s string, n int) string {
	if len(s) > n {
		return s[len(s)-n:]
	}
	return s
}

// Merge folds a shard result into r: subs with equal names are summed.
func (r *Result) Merge(o *Result) {
	r.mu.Lock()
	for _, s := range o.Subs {
		found := false
		for i := range r.Subs {
			if r.Subs[i].Name == s.Name {
				t := &r.Subs[i]
				t.States += s.States
				t.Transitions += s.Transitions
				t.Executions += s.Executions
				if s.Outcomes > t.Outcomes {
					t.Outcomes = s.Outcomes
				}
				if s.MaxDepth > t.MaxDepth {
					t.MaxDepth = s.MaxDepth
				}
				t.Exhaustive = t.Exhaustive && s.Exhaustive
				if len(t.Samples) < 3 {
					t.Samples = append(t.Samples, s.Samples...)
				}
				if s.WallS > t.WallS {
					t.WallS = s.WallS
				}
				found = true
			}
		}
		if !found {
			r.Subs = append(r.Subs, s)
		}
	}
	if o.Fault != "" {
		r.Fault = o.Fault
	}
	r.mu.Unlock()
	for _, v := range o.Violations {
		r.Violate(v)
	}
	for _, a := range o.Assumptions {
		r.Assume(a)
	}
}

// Finding is a line of known_findings.jsonl.
type Finding struct {
	Status    string `json:"status"` // "known" | "fixed"
	Property  string `json:"property"`
	Signature string `json:"signature"`
	What      string `json:"what"`
	Commit    string `json:"commit,omitempty"`
}

func loadFindings() []Finding {
	f, err := os.Open(filepath.Join(VerifDir(), "known_findings.jsonl"))
	if err != nil {
		return nil
	}
	defer f.Close()
	var fs []Finding
	sc := bufio.NewScanner(f)
	sc.Buffer(make([]byte, 1<<20), 1<<20)
	for sc.Scan() {
		line := strings.TrimSpace(sc.Text())
		if line == "" || strings.HasPrefix(line, "#") {
			continue
		}
		var k Finding
		if json.Unmarshal([]byte(line), &k) == nil {
			fs = append(fs, k)
		}
	}
	return fs
}

// wildMatch matches s against pattern, where '*' matches any (possibly empty)
// run of characters.  Known findings use it to name one root cause that the
// oracle reports under several closely related signatures.
func wildMatch(pattern, s string) bool {
	parts := strings.Split(pattern, "*")
	if len(parts) == 1 {
		return pattern == s
	}
	if !strings.HasPrefix(s, parts[0]) {
		return false
	}
	s = s[len(parts[0]):]
	for i := 1; i < len(parts)-1; i++ {
		j := strings.Index(s, parts[i])
		if j < 0 {
			return false
		}
		s = s[j+len(parts[i]):]
	}
	return strings.HasSuffix(s, parts[len(parts)-1])
}

// Finish writes evidence and replay artefacts, prints the verdict lines and
// exits: 0 = held (or only known findings), 1 = violation, 3 = harness fault.
func Finish(r *Result, start time.Time) {
	if opts.Shard >= 0 {
		EmitShard(r)
	}
	findings := loadFindings()
	known := func(v Violation) *Finding {
		for i, k := range findings {
			if k.Status == "known" && k.Property == r.Property && wildMatch(k.Signature, v.Signature) {
				return &findings[i]
			}
		}
		return nil
	}

	sort.Slice(r.Violations, func(i, j int) bool {
		return r.Violations[i].Signature < r.Violations[j].Signature
	})

	var states, trans, execs, outcomes int64
	exhaustive := true
	var samples []any
	for _, s := range r.Subs {
		states += s.States
		trans += s.Transitions
		execs += s.Executions
		outcomes += s.Outcomes
		exhaustive = exhaustive && s.Exhaustive
		for i, x := range s.Samples {
			if i >= 2 {
				break
			}
			samples = append(samples, map[string]any{"sub": s.Name, "case": x})
		}
	}
	if states == 0 {
		states = execs
	}
	if trans == 0 {
		trans = execs
	}

	nviol := 0
	code := 0
	var lines []string
	var knownHit []string
	for _, v := range r.Violations {
		if k := known(v); k != nil {
			lines = append(lines, fmt.Sprintf("KNOWN-FINDING: property=%s %s [%s]", r.Property, k.What, v.Signature))
			knownHit = append(knownHit, v.Signature)
			continue
		}
		nviol++
		code = 1
		h := sha1.Sum([]byte(v.Signature))
		p := filepath.Join(OutDir(), "replays", fmt.Sprintf("%s-%s.json", r.Property, hex.EncodeToString(h[:5])))
		os.MkdirAll(filepath.Dir(p), 0755)
		b, _ := json.MarshalIndent(map[string]any{
			"property": r.Property, "signature": v.Signature, "what": v.What,
			"sub": v.Sub, "replay": v.Replay,
		}, "", " ")
		os.WriteFile(p, b, 0644)
		lines = append(lines, fmt.Sprintf("VIOLATION property=%s replay=%s", r.Property, p))
		lines = append(lines, fmt.Sprintf("  signature: %s", v.Signature))
		lines = append(lines, fmt.Sprintf("  what: %s", v.What))
	}

	if r.Fault != "" {
		fmt.Printf("HARNESS-FAULT property=%s: %s\n", r.Property, r.Fault)
		// A harness fault is not a verdict; no evidence is written.
		for _, l := range lines {
			fmt.Println(l)
		}
		if code == 1 {
			os.Exit(1)
		}
		os.Exit(3)
	}

	if len(samples) == 0 {
		samples = append(samples, "none")
	}
	ev := map[string]any{
		"property_id": r.Property,
		"tier":        opts.Tier,
		"seed":        opts.Seed,
		"level":       "model_checking",
		"wall_s":      time.Since(start).Seconds(),
		"violations":  nviol,
		"assumptions": append([]string{}, r.Assumptions...),
		"coverage": map[string]any{
			"states":                        states,
			"transitions":                   trans,
			"traces_validated_against_impl": execs,
			"evaluations":                   execs,
			"distinct_nontrivial":           outcomes,
			"rule": "every explored execution runs the real galene code (no abstract model); " +
				"distinct_nontrivial = number of distinct canonical states/observed outcomes summed over sub-checks",
			"samples":        samples,
			"exhaustive":     exhaustive,
			"sub_checks":     r.Subs,
			"known_findings": knownHit,
			"technique":      r.Technique,
		},
	}
	b, _ := json.MarshalIndent(ev, "", " ")
	evp := filepath.Join(OutDir(), "evidence", r.Property+".json")
	os.MkdirAll(filepath.Dir(evp), 0755)
	if err := os.WriteFile(evp, b, 0644); err != nil {
		fmt.Printf("HARNESS-FAULT property=%s: cannot write evidence: %v\n", r.Property, err)
		os.Exit(3)
	}

	for _, s := range r.Subs {
		fmt.Printf("  sub=%-28s states=%-9d transitions=%-10d executions=%-9d outcomes=%-7d exhaustive=%v %s\n",
			s.Name, s.States, s.Transitions, s.Executions, s.Outcomes, s.Exhaustive, s.Bound)
	}
	for _, l := range lines {
		fmt.Println(l)
	}
	if code == 0 {
		fmt.Printf("OK property=%s tier=%s states=%d transitions=%d executions=%d exhaustive=%v wall=%.1fs\n",
			r.Property, opts.Tier, states, trans, execs, exhaustive, time.Since(start).Seconds())
	}
	os.Exit(code)
}

// Outcomes counts distinct observed outcomes cheaply (thread-safe).
type Outcomes struct {
	mu sync.Mutex
	m  map[string]struct{}
}

func (o *Outcomes) Add(s string) {
	o.mu.Lock()
	if o.m == nil {
		o.m = make(map[string]struct{})
	}
	if len(o.m) < 2_000_000 {
		o.m[s] = struct{}{}
	}
	o.mu.Unlock()
}

func (o *Outcomes) N() int64 {
	o.mu.Lock()
	defer o.mu.Unlock()
	return int64(len(o.m))
}

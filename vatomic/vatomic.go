// Package vatomic is the drop-in replacement for "sync/atomic" in
// instrumented galene packages: the operations stay real, but under the
// scheduler each one is preceded by a scheduling point and contributes
// happens-before edges to the race monitor.
package vatomic

import (
	stdatomic "sync/atomic"
	"unsafe"

	"verif/vrt"
)

func LoadUint32(addr *uint32) uint32 {
	vrt.AtomicPoint(unsafe.Pointer(addr), true, false, "atomic.LoadUint32")
	return stdatomic.LoadUint32(addr)
}

func LoadUint64(addr *uint64) uint64 {
	vrt.AtomicPoint(unsafe.Pointer(addr), true, false, "atomic.LoadUint64")
	return stdatomic.LoadUint64(addr)
}

func LoadInt32(addr *int32) int32 {
	vrt.AtomicPoint(unsafe.Pointer(addr), true, false, "atomic.LoadInt32")
	return stdatomic.LoadInt32(addr)
}

func LoadInt64(addr *int64) int64 {
	vrt.AtomicPoint(unsafe.Pointer(addr), true, false, "atomic.LoadInt64")
	return stdatomic.LoadInt64(addr)
}

// StoreHook32, when set, observes every 32-bit store and successful
// compare-and-swap of instrumented code at the moment it takes effect (old
// value, new value).  Harnesses use it to attribute each change of a packed
// state word to the thread and event that made it.
var StoreHook32 func(addr unsafe.Pointer, old, new uint32)

func StoreUint32(addr *uint32, v uint32) {
	vrt.AtomicPoint(unsafe.Pointer(addr), false, true, "atomic.StoreUint32")
	if h := StoreHook32; h != nil {
		h(unsafe.Pointer(addr), stdatomic.LoadUint32(addr), v)
	}
	stdatomic.StoreUint32(addr, v)
}

func StoreUint64(addr *uint64, v uint64) {
	vrt.AtomicPoint(unsafe.Pointer(addr), false, true, "atomic.StoreUint64")
	stdatomic.StoreUint64(addr, v)
}

func StoreInt32(addr *int32, v int32) {
	vrt.AtomicPoint(unsafe.Pointer(addr), false, true, "atomic.StoreInt32")
	stdatomic.StoreInt32(addr, v)
}

func StoreInt64(addr *int64, v int64) {
	vrt.AtomicPoint(unsafe.Pointer(addr), false, true, "atomic.StoreInt64")
	stdatomic.StoreInt64(addr, v)
}

func AddUint32(addr *uint32, d uint32) uint32 {
	vrt.AtomicPoint(unsafe.Pointer(addr), true, true, "atomic.AddUint32")
	return stdatomic.AddUint32(addr, d)
}

func AddUint64(addr *uint64, d uint64) uint64 {
	vrt.AtomicPoint(unsafe.Pointer(addr), true, true, "atomic.AddUint64")
	return stdatomic.AddUint64(addr, d)
}

func AddInt32(addr *int32, d int32) int32 {
	vrt.AtomicPoint(unsafe.Pointer(addr), true, true, "atomic.AddInt32")
	return stdatomic.AddInt32(addr, d)
}

func AddInt64(addr *int64, d int64) int64 {
	vrt.AtomicPoint(unsafe.Pointer(addr), true, true, "atomic.AddInt64")
	return stdatomic.AddInt64(addr, d)
}

func CompareAndSwapUint32(addr *uint32, o, n uint32) bool {
	vrt.AtomicPoint(unsafe.Pointer(addr), true, true, "atomic.CompareAndSwapUint32")
	ok := stdatomic.CompareAndSwapUint32(addr, o, n)
	if h := StoreHook32; ok && h != nil {
		h(unsafe.Pointer(addr), o, n)
	}
	return ok
}

func CompareAndSwapUint64(addr *uint64, o, n uint64) bool {
	vrt.AtomicPoint(unsafe.Pointer(addr), true, true, "atomic.CompareAndSwapUint64")
	return stdatomic.CompareAndSwapUint64(addr, o, n)
}

func CompareAndSwapInt32(addr *int32, o, n int32) bool {
	vrt.AtomicPoint(unsafe.Pointer(addr), true, true, "atomic.CompareAndSwapInt32")
	return stdatomic.CompareAndSwapInt32(addr, o, n)
}

func CompareAndSwapInt64(addr *int64, o, n int64) bool {
	vrt.AtomicPoint(unsafe.Pointer(addr), true, true, "atomic.CompareAndSwapInt64")
	return stdatomic.CompareAndSwapInt64(addr, o, n)
}

// Value is atomic.Value with scheduling points.
type Value struct {
	v stdatomic.Value
}

func (v *Value) Load() any {
	vrt.AtomicPoint(unsafe.Pointer(v), true, false, "atomic.Value.Load")
	return v.v.Load()
}

func (v *Value) Store(x any) {
	vrt.AtomicPoint(unsafe.Pointer(v), false, true, "atomic.Value.Store")
	v.v.Store(x)
}

func (v *Value) Swap(x any) any {
	vrt.AtomicPoint(unsafe.Pointer(v), true, true, "atomic.Value.Swap")
	return v.v.Swap(x)
}

func (v *Value) CompareAndSwap(o, n any) bool {
	vrt.AtomicPoint(unsafe.Pointer(v), true, true, "atomic.Value.CompareAndSwap")
	return v.v.CompareAndSwap(o, n)
}

type Pointer[T any] = stdatomic.Pointer[T]

// Package vrt is the runtime shared by the shims (vsync, vatomic, vtime, vos)
// and the explorers.  It has three modes, fixed per process before any
// instrumented code runs:
//
//	Passthrough  shims behave exactly like the standard library
//	Tasks        like Passthrough, but `go` statements of instrumented
//	             packages become pending tasks (Engine D) or are dropped
//	Scheduled    every shim operation of a controlled thread is a scheduling
//	             point of the cooperative scheduler (Engine B)
package vrt

import (
	"fmt"
	"runtime/debug"
	"strings"
	"sync"
	"sync/atomic"
	"unsafe"
)

type Mode int32

const (
	Passthrough Mode = iota
	Tasks
	Scheduled
)

var mode atomic.Int32

func SetMode(m Mode) { mode.Store(int32(m)) }
func GetMode() Mode  { return Mode(mode.Load()) }

// ---------------------------------------------------------------------------
// Tasks mode

type Policy int

const (
	Spawn Policy = iota // real goroutine
	Queue               // pending task, fired by the explorer
	Drop                // never runs
)

type Task struct {
	Pos string
	Fn  func()
}

var (
	taskMu  sync.Mutex
	pending []Task
	// TaskPolicy decides what happens to a `go` statement of an instrumented
	// package in Tasks mode; in Scheduled mode Drop is honoured and anything
	// else becomes a controlled thread.
	TaskPolicy = func(pos string) Policy { return Queue }
)

// Pending returns the queued tasks (Tasks mode).
func Pending() []Task {
	taskMu.Lock()
	defer taskMu.Unlock()
	return append([]Task(nil), pending...)
}

// TakeTask removes and returns the i-th pending task.
func TakeTask(i int) Task {
	taskMu.Lock()
	defer taskMu.Unlock()
	t := pending[i]
	pending = append(pending[:i], pending[i+1:]...)
	return t
}

func ResetTasks() {
	taskMu.Lock()
	pending = nil
	taskMu.Unlock()
}

// Go replaces the `go` statements of instrumented packages.
func Go(pos string, fn func()) {
	switch GetMode() {
	case Passthrough:
		go fn()
	case Tasks:
		switch TaskPolicy(pos) {
		case Spawn:
			go fn()
		case Queue:
			taskMu.Lock()
			pending = append(pending, Task{pos, fn})
			taskMu.Unlock()
		case Drop:
		}
	case Scheduled:
		if TaskPolicy(pos) == Drop {
			return
		}
		s := sched
		if s == nil || s.current == nil {
			// outside a controlled execution (setup/final phase)
			taskMu.Lock()
			pending = append(pending, Task{pos, fn})
			taskMu.Unlock()
			return
		}
		s.spawn(pos, fn)
	}
}

// ---------------------------------------------------------------------------
// Scheduled mode

const MaxThreads = 8

type VC [MaxThreads]uint32

func (a *VC) join(b *VC) {
	for i := range a {
		if b[i] > a[i] {
			a[i] = b[i]
		}
	}
}

func (a *VC) leq(b *VC) bool {
	for i := range a {
		if a[i] > b[i] {
			return false
		}
	}
	return true
}

type opKind int

const (
	opStart opKind = iota
	opLock
	opYield // always enabled
	opRecv  // enabled iff cond() true
)

type thread struct {
	id    int
	name  string
	wake  chan struct{}
	kind  opKind
	mu    *MutexModel
	cond  func() bool
	what  string
	done  bool
	vc    VC
	fresh bool
}

// MutexModel is the scheduler's model of one mutex.
type MutexModel struct {
	Locked bool
	owner  *thread
	vc     VC
	Name   string
	epoch  uint64
}

// epoch counts executions: package-level mutexes of the code under test
// outlive an execution, so their model (held flag, release clock) is reset
// lazily the first time they are used in a new epoch; otherwise a stale
// clock would create false happens-before edges and a lock left held by an
// aborted execution would block the next one.
var epoch atomic.Uint64

// NewEpoch starts a new execution epoch (called before every Setup).
func NewEpoch() { epoch.Add(1) }

func (m *MutexModel) sync() {
	if e := epoch.Load(); m.epoch != e {
		m.epoch = e
		m.Locked = false
		m.owner = nil
		m.vc = VC{}
	}
}

type PointRec struct {
	Enabled        []int  `json:"enabled"`
	Chosen         int    `json:"chosen"` // index into Enabled
	RunningEnabled bool   `json:"running_enabled"`
	What           string `json:"what,omitempty"`
}

type Race struct {
	Var    string
	First  string
	Second string
	Kind   string
}

type scheduler struct {
	threads  []*thread
	current  *thread
	yield    chan struct{}
	prefix   []int
	trace    []PointRec
	aborting bool
	deadlock bool
	dlInfo   string
	panics   []string
	races    []Race
	raceSeen map[string]bool
	shadow   map[uintptr]*shadowVar
	atomics  map[uintptr]*VC
	fault    string
	steps    int
	maxSteps int
	lastRun  int // id of the thread that ran last
}

type shadowVar struct {
	keep any
	wTid int
	wClk uint32
	wPos string
	hasW bool
	rClk VC
	rPos [MaxThreads]string
	hasR bool
}

var sched *scheduler

type abortSentinel struct{}

// IsAbort reports whether a recovered panic value is the scheduler's abort
// signal (harness code that recovers panics of the real code must re-panic
// with it).
func IsAbort(r any) bool {
	_, ok := r.(abortSentinel)
	return ok
}

// Cur returns the running controlled thread id, or -1.
func Cur() int {
	s := sched
	if s == nil || s.current == nil {
		return -1
	}
	return s.current.id
}

// Controlled reports whether the caller runs under the scheduler.
func Controlled() bool {
	return GetMode() == Scheduled && sched != nil && sched.current != nil
}

func (s *scheduler) point(kind opKind, m *MutexModel, cond func() bool, what string) {
	t := s.current
	if s.aborting {
		panic(abortSentinel{})
	}
	t.kind, t.mu, t.cond, t.what = kind, m, cond, what
	s.yield <- struct{}{}
	<-t.wake
	if s.aborting {
		panic(abortSentinel{})
	}
}

// Yield is an always-enabled scheduling point.
func Yield(what string) {
	if !Controlled() {
		return
	}
	sched.point(opYield, nil, nil, what)
}

// WaitUntil blocks the controlled thread until cond() holds (cond must only
// depend on state changed by other controlled threads).
func WaitUntil(what string, cond func() bool) {
	if !Controlled() {
		if !cond() {
			panic("vrt.WaitUntil outside the scheduler with a false condition: " + what)
		}
		return
	}
	sched.point(opRecv, nil, cond, what)
}

// Lock models sync.Mutex.Lock on m.
func Lock(m *MutexModel, what string) {
	m.sync()
	s := sched
	if !Controlled() {
		if m.Locked {
			panic("vrt: lock held outside controlled execution (would deadlock): " + what)
		}
		m.Locked = true
		return
	}
	if s.aborting {
		panic(abortSentinel{})
	}
	s.point(opLock, m, nil, what)
	if m.Locked {
		s.fault = "scheduler woke a thread on a held mutex"
	}
	m.Locked = true
	m.owner = s.current
	s.current.vc.join(&m.vc)
}

func TryLock(m *MutexModel, what string) bool {
	m.sync()
	s := sched
	if !Controlled() {
		if m.Locked {
			return false
		}
		m.Locked = true
		return true
	}
	s.point(opYield, nil, nil, what)
	if m.Locked {
		return false
	}
	m.Locked = true
	m.owner = s.current
	s.current.vc.join(&m.vc)
	return true
}

// Unlock models sync.Mutex.Unlock on m.
func Unlock(m *MutexModel, what string) {
	m.sync()
	s := sched
	if s != nil && s.aborting {
		m.Locked = false
		return
	}
	if !m.Locked {
		panic("sync: unlock of unlocked mutex")
	}
	if !Controlled() {
		m.Locked = false
		return
	}
	t := s.current
	m.vc = t.vc
	t.vc[t.id]++
	m.Locked = false
	m.owner = nil
	s.point(opYield, nil, nil, what)
}

// AtomicAcquire/AtomicRelease give atomics happens-before edges and a
// scheduling point before the operation.
func AtomicPoint(addr unsafe.Pointer, load, store bool, what string) {
	if !Controlled() {
		return
	}
	s := sched
	s.point(opYield, nil, nil, what)
	t := s.current
	k := uintptr(addr)
	vc := s.atomics[k]
	if vc == nil {
		vc = &VC{}
		s.atomics[k] = vc
	}
	if load {
		t.vc.join(vc)
	}
	if store {
		vc.join(&t.vc)
		t.vc[t.id]++
	}
}

func (s *scheduler) spawn(pos string, fn func()) {
	parent := s.current
	if len(s.threads) >= MaxThreads {
		s.fault = "too many threads"
		return
	}
	t := &thread{id: len(s.threads), name: pos, wake: make(chan struct{}), kind: opStart, fresh: true}
	t.vc = parent.vc
	t.vc[t.id] = 1
	parent.vc[parent.id]++
	s.threads = append(s.threads, t)
	s.startThread(t, fn)
}

func (s *scheduler) startThread(t *thread, fn func()) {
	go func() {
		<-t.wake
		defer func() {
			if r := recover(); r != nil {
				if _, ok := r.(abortSentinel); !ok && !s.aborting {
					s.panics = append(s.panics, fmt.Sprintf("%v\n%s", r, trimStack(debug.Stack())))
					s.aborting = true
				}
			}
			t.done = true
			s.yield <- struct{}{}
		}()
		if s.aborting {
			return
		}
		fn()
	}()
}

func trimStack(b []byte) string {
	s := string(b)
	// drop the frames of the recover machinery
	if i := strings.Index(s, "panic("); i >= 0 {
		s = s[i:]
	}
	if len(s) > 3000 {
		s = s[:3000]
	}
	return s
}

func (s *scheduler) enabled() []*thread {
	var en []*thread
	add := func(t *thread) {
		if t.done {
			return
		}
		switch t.kind {
		case opLock:
			t.mu.sync()
			if t.mu.Locked {
				return
			}
		case opRecv:
			if !t.cond() {
				return
			}
		}
		en = append(en, t)
	}
	// canonical order: the thread that ran last first, then ascending ids
	if s.lastRun >= 0 {
		add(s.threads[s.lastRun])
	}
	for _, t := range s.threads {
		if t.id != s.lastRun {
			add(t)
		}
	}
	return en
}

// Execution is the record of one controlled execution.
type Execution struct {
	Trace    []PointRec
	Deadlock bool
	DLInfo   string
	Panics   []string
	Races    []Race
	Fault    string
	Capped   bool
}

func (x *Execution) Choices() []int {
	c := make([]int, len(x.Trace))
	for i, p := range x.Trace {
		c[i] = p.Chosen
	}
	return c
}

// PreemptionsBefore counts the preemptions in Trace[:i].
func (x *Execution) PreemptionsBefore(i int) int {
	n := 0
	for _, p := range x.Trace[:i] {
		if p.RunningEnabled && p.Chosen != 0 {
			n++
		}
	}
	return n
}

// RunOnce executes the thread bodies under the scheduler following prefix
// and then the default choice (0) at every later point.
func RunOnce(bodies []func(), names []string, prefix []int, maxSteps int) *Execution {
	if GetMode() != Scheduled {
		panic("vrt.RunOnce requires Scheduled mode")
	}
	s := &scheduler{
		yield: make(chan struct{}), prefix: prefix, lastRun: -1,
		shadow: map[uintptr]*shadowVar{}, atomics: map[uintptr]*VC{},
		raceSeen: map[string]bool{}, maxSteps: maxSteps,
	}
	sched = s
	for i, b := range bodies {
		t := &thread{id: i, wake: make(chan struct{}), kind: opStart}
		if i < len(names) {
			t.name = names[i]
		}
		t.vc[i] = 1
		s.threads = append(s.threads, t)
		s.startThread(t, b)
	}
	x := &Execution{}
	for {
		en := s.enabled()
		if len(en) == 0 {
			alldone := true
			for _, t := range s.threads {
				if !t.done {
					alldone = false
				}
			}
			if !alldone && !s.aborting {
				s.deadlock = true
				var parts []string
				for _, t := range s.threads {
					if !t.done {
						parts = append(parts, fmt.Sprintf("T%d(%s) blocked at %s", t.id, t.name, t.what))
					}
				}
				s.dlInfo = strings.Join(parts, "; ")
			}
			break
		}
		if s.aborting {
			break
		}
		pos := len(s.trace)
		choice := 0
		if pos < len(prefix) {
			choice = prefix[pos]
			if choice >= len(en) {
				s.fault = fmt.Sprintf("replay divergence at point %d: choice %d of %d enabled", pos, choice, len(en))
				break
			}
		}
		ids := make([]int, len(en))
		for i, t := range en {
			ids[i] = t.id
		}
		t := en[choice]
		s.trace = append(s.trace, PointRec{
			Enabled: ids, Chosen: choice,
			RunningEnabled: s.lastRun >= 0 && en[0].id == s.lastRun,
			What:           fmt.Sprintf("T%d:%s", t.id, t.what),
		})
		s.steps++
		if s.maxSteps > 0 && s.steps > s.maxSteps {
			x.Capped = true
			break
		}
		s.current = t
		s.lastRun = t.id
		t.wake <- struct{}{}
		<-s.yield
		s.current = nil
	}
	// Abort whatever is still alive so goroutines do not leak.
	s.aborting = true
	for _, t := range s.threads {
		for !t.done {
			s.current = t
			t.wake <- struct{}{}
			<-s.yield
			s.current = nil
		}
	}
	x.Trace, x.Deadlock, x.DLInfo, x.Panics, x.Races, x.Fault = s.trace, s.deadlock, s.dlInfo, s.panics, s.races, s.fault
	sched = nil
	return x
}

// ---------------------------------------------------------------------------
// Vector-clock race monitor for instrumented field accesses.

func access[T any](p *T, pos string, write bool) *T {
	s := sched
	if s == nil || s.current == nil || s.aborting {
		return p
	}
	t := s.current
	k := uintptr(unsafe.Pointer(p))
	sv := s.shadow[k]
	if sv == nil {
		sv = &shadowVar{keep: p}
		s.shadow[k] = sv
	}
	report := func(kind, first string) {
		key := kind + "|" + first + "|" + pos
		if s.raceSeen[key] {
			return
		}
		s.raceSeen[key] = true
		s.races = append(s.races, Race{Var: fmt.Sprintf("%T", p), First: first, Second: pos, Kind: kind})
	}
	if sv.hasW && sv.wTid != t.id && sv.wClk > t.vc[sv.wTid] {
		if write {
			report("write-write", sv.wPos)
		} else {
			report("write-read", sv.wPos)
		}
	}
	if write {
		if sv.hasR {
			for u := 0; u < MaxThreads; u++ {
				if u != t.id && sv.rClk[u] > t.vc[u] {
					report("read-write", sv.rPos[u])
				}
			}
		}
		sv.hasW, sv.wTid, sv.wClk, sv.wPos = true, t.id, t.vc[t.id], pos
		sv.hasR = false
		sv.rClk = VC{}
	} else {
		sv.hasR = true
		sv.rClk[t.id] = t.vc[t.id]
		sv.rPos[t.id] = pos
	}
	return p
}

// R marks a monitored read of *p and returns p.
func R[T any](p *T, pos string) *T {
	if mode.Load() != int32(Scheduled) {
		return p
	}
	return access(p, pos, false)
}

// W marks a monitored write of *p and returns p.
func W[T any](p *T, pos string) *T {
	if mode.Load() != int32(Scheduled) {
		return p
	}
	return access(p, pos, true)
}

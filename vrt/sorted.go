package vrt

import (
	"cmp"
	"iter"
	"slices"
)

// SortedMap iterates over m in ascending key order (the instrumenter wraps
// `range` over selected map fields with it).  Keys are snapshotted first;
// entries deleted by the loop body before they are reached are skipped, as
// with a native range.
func SortedMap[M ~map[K]V, K cmp.Ordered, V any](m M) iter.Seq2[K, V] {
	return func(yield func(K, V) bool) {
		keys := make([]K, 0, len(m))
		for k := range m {
			keys = append(keys, k)
		}
		slices.Sort(keys)
		for _, k := range keys {
			v, ok := m[k]
			if !ok {
				continue
			}
			if !yield(k, v) {
				return
			}
		}
	}
}

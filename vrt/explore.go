package vrt

import (
	"fmt"
	"reflect"
	"time"

	"verif/core"
)

// Program is a closed concurrent harness: Setup builds a fresh world and
// returns the thread bodies and the oracle evaluated after every execution.
type Program struct {
	Name string
	// Setup is called before every execution (fresh world).  final is called
	// after a clean, complete execution and returns the observable outcome
	// and, if the oracle fails, a violation.
	Setup func() (bodies []func(), names []string, final func() (string, *core.Violation))
	// MaxPreempt is the preemption bound (iterated 0..MaxPreempt).
	MaxPreempt int
	MaxSteps   int
	// RaceOK filters race reports (return true to ignore); nil = report all.
	RaceOK func(r Race) bool
	// Classify may rename a deadlock/panic signature from its description.
	Classify func(kind, info string) string
}

type item struct {
	prefix []uint8
}

func toInts(p []uint8) []int {
	r := make([]int, len(p))
	for i, c := range p {
		r[i] = int(c)
	}
	return r
}

// Explore enumerates every schedule of p with at most MaxPreempt preemptions
// (stateless DFS ordered by preemption count, so the first counterexample has
// the fewest preemptions).  shard/shards partition the subtrees below the
// root execution.
func Explore(p Program, res *core.Result, shard, shards int) core.Sub {
	start := time.Now()
	SetMode(Scheduled)
	if shards < 1 {
		shards = 1
	}
	if shard < 0 {
		shard = 0
	}
	buckets := make([][]item, p.MaxPreempt+1)
	buckets[0] = append(buckets[0], item{})
	var execs, points int64
	var outcomes core.Outcomes
	var samples []any
	capped := false
	completed := -1
	maxSteps := p.MaxSteps
	if maxSteps == 0 {
		maxSteps = 5000
	}
	root := true

	runCheck := func(prefix []int) (*Execution, string, *core.Violation) {
		NewEpoch()
		bodies, names, final := p.Setup()
		x := RunOnce(bodies, names, prefix, maxSteps)
		if x.Fault != "" {
			return x, "", nil
		}
		sig := func(kind, info string) string {
			if p.Classify != nil {
				if s := p.Classify(kind, info); s != "" {
					return s
				}
			}
			return p.Name + "/" + kind
		}
		if len(x.Panics) > 0 {
			return x, "panic", &core.Violation{
				Signature: sig("panic", x.Panics[0]),
				What:      "panic under schedule: " + x.Panics[0],
			}
		}
		if x.Deadlock {
			return x, "deadlock", &core.Violation{
				Signature: sig("deadlock", x.DLInfo),
				What:      "deadlock: " + x.DLInfo,
			}
		}
		for _, r := range x.Races {
			if p.RaceOK != nil && p.RaceOK(r) {
				continue
			}
			return x, "race", &core.Violation{
				Signature: sig("race", fmt.Sprintf("%s|%s|%s", r.Kind, r.First, r.Second)),
				What: fmt.Sprintf("unsynchronised %s access to %s: %s vs %s (no happens-before edge)",
					r.Kind, r.Var, r.First, r.Second),
			}
		}
		if x.Capped {
			return x, "capped", nil
		}
		out, v := final()
		return x, out, v
	}

	for b := 0; b <= p.MaxPreempt; b++ {
		for len(buckets[b]) > 0 {
			if !core.TimeLeft() {
				capped = true
				break
			}
			n := len(buckets[b])
			it := buckets[b][n-1]
			buckets[b] = buckets[b][:n-1]
			prefix := toInts(it.prefix)
			x, out, v := runCheck(prefix)
			execs++
			points += int64(len(x.Trace))
			if x.Fault != "" {
				res.Fault = p.Name + ": " + x.Fault
				return core.Sub{Name: p.Name}
			}
			if x.Capped {
				res.Fault = fmt.Sprintf("%s: execution exceeded %d steps (livelock in harness?)", p.Name, maxSteps)
				return core.Sub{Name: p.Name}
			}
			outcomes.Add(out)
			if len(samples) < 2 && len(x.Trace) > 2 {
				var w []string
				for _, pr := range x.Trace {
					w = append(w, pr.What)
				}
				samples = append(samples, map[string]any{"schedule": w, "outcome": out})
			}
			if v != nil {
				// determinism: replay the exact choice sequence twice
				ch := x.Choices()
				ok := true
				for k := 0; k < 2; k++ {
					x2, _, v2 := runCheck(ch)
					if v2 == nil || v2.Signature != v.Signature || !reflect.DeepEqual(x2.Choices(), ch) {
						ok = false
					}
				}
				if !ok {
					res.Fault = p.Name + ": violation did not reproduce on replay (nondeterminism in harness): " + v.What
					return core.Sub{Name: p.Name}
				}
				if v.Sub == "" {
					v.Sub = p.Name
				}
				var w []string
				for _, pr := range x.Trace {
					w = append(w, pr.What)
				}
				v.Replay = map[string]any{"program": p.Name, "choices": ch, "schedule": w,
					"preemptions": x.PreemptionsBefore(len(x.Trace))}
				res.Violate(*v)
				// do not expand below a violating execution
				root = false
				continue
			}
			alt := 0
			for i := len(prefix); i < len(x.Trace); i++ {
				pr := x.Trace[i]
				if len(pr.Enabled) < 2 {
					continue
				}
				cost := x.PreemptionsBefore(i)
				if pr.RunningEnabled {
					cost++
				}
				if cost > p.MaxPreempt {
					continue
				}
				for a := 1; a < len(pr.Enabled); a++ {
					alt++
					if root && shards > 1 && alt%shards != shard {
						continue
					}
					np := make([]uint8, i+1)
					for j := 0; j < i; j++ {
						np[j] = uint8(x.Trace[j].Chosen)
					}
					np[i] = uint8(a)
					buckets[cost] = append(buckets[cost], item{np})
				}
			}
			root = false
		}
		if capped {
			break
		}
		completed = b
	}
	note := ""
	if capped {
		note = fmt.Sprintf("time cap hit; preemption bounds 0..%d completed", completed)
	}
	return core.Sub{
		Name: p.Name, States: points, Transitions: points, Executions: execs,
		Outcomes: outcomes.N(), Bound: fmt.Sprintf("preemptions<=%d", p.MaxPreempt),
		Exhaustive: !capped, Note: note, Samples: samples,
		WallS: time.Since(start).Seconds(),
	}
}

// ReplayChoices re-executes one schedule.
func ReplayChoices(p Program, choices []int) (*Execution, string, *core.Violation) {
	SetMode(Scheduled)
	NewEpoch()
	bodies, names, final := p.Setup()
	x := RunOnce(bodies, names, choices, 0)
	if len(x.Panics) > 0 {
		return x, "panic", &core.Violation{Signature: p.Name + "/panic", What: x.Panics[0]}
	}
	if x.Deadlock {
		return x, "deadlock", &core.Violation{Signature: p.Name + "/deadlock", What: x.DLInfo}
	}
	if len(x.Races) > 0 {
		r := x.Races[0]
		return x, "race", &core.Violation{Signature: p.Name + "/race", What: fmt.Sprintf("%s %s vs %s", r.Kind, r.First, r.Second)}
	}
	out, v := final()
	return x, out, v
}

package vrt

// RWModel models sync.RWMutex under the controlled scheduler.  Readers take
// their happens-before edge from the last writer's Unlock only (two readers
// are NOT ordered with each other, so that writes done under a read lock are
// seen by the race monitor); a writer is ordered after the last writer and
// after every reader that released since.
type RWModel struct {
	Writer  bool
	Readers int
	wvc     VC // clock of the last writer's Unlock
	rvc     VC // join of the clocks of the readers' RUnlocks since then
	epoch   uint64
}

func (m *RWModel) sync() {
	if e := epoch.Load(); m.epoch != e {
		*m = RWModel{epoch: e}
	}
}

func RLock(m *RWModel, what string) {
	m.sync()
	s := sched
	if !Controlled() {
		if m.Writer {
			panic("vrt: write lock held outside controlled execution (would deadlock): " + what)
		}
		m.Readers++
		return
	}
	if s.aborting {
		panic(abortSentinel{})
	}
	s.point(opRecv, nil, func() bool { return !m.Writer }, what)
	m.Readers++
	s.current.vc.join(&m.wvc)
}

func RUnlock(m *RWModel, what string) {
	m.sync()
	s := sched
	if s != nil && s.aborting {
		if m.Readers > 0 {
			m.Readers--
		}
		return
	}
	if m.Readers <= 0 {
		panic("sync: RUnlock of unlocked RWMutex")
	}
	m.Readers--
	if !Controlled() {
		return
	}
	t := s.current
	m.rvc.join(&t.vc)
	t.vc[t.id]++
	s.point(opYield, nil, nil, what)
}

func WLock(m *RWModel, what string) {
	m.sync()
	s := sched
	if !Controlled() {
		if m.Writer || m.Readers > 0 {
			panic("vrt: lock held outside controlled execution (would deadlock): " + what)
		}
		m.Writer = true
		return
	}
	if s.aborting {
		panic(abortSentinel{})
	}
	s.point(opRecv, nil, func() bool { return !m.Writer && m.Readers == 0 }, what)
	m.Writer = true
	s.current.vc.join(&m.wvc)
	s.current.vc.join(&m.rvc)
}

func WUnlock(m *RWModel, what string) {
	m.sync()
	s := sched
	if s != nil && s.aborting {
		m.Writer = false
		return
	}
	if !m.Writer {
		panic("sync: Unlock of unlocked RWMutex")
	}
	m.Writer = false
	if !Controlled() {
		return
	}
	t := s.current
	m.wvc = t.vc
	m.rvc = VC{}
	t.vc[t.id]++
	s.point(opYield, nil, nil, what)
}

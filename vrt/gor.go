package vrt

import (
	"fmt"
	"reflect"
	"runtime"
	"strings"
)

// GoR replaces `go f(args...)` in instrumented packages: f and the arguments
// are evaluated by the caller (as the go statement does); the call itself is
// deferred to Go.  Untyped constant arguments arrive with their default type
// and are converted to the parameter type; nil becomes the zero value.
func GoR(pos string, f any, args ...any) {
	fv := reflect.ValueOf(f)
	ft := fv.Type()
	in := make([]reflect.Value, len(args))
	for i, a := range args {
		var pt reflect.Type
		if ft.IsVariadic() && i >= ft.NumIn()-1 {
			pt = ft.In(ft.NumIn() - 1).Elem()
		} else {
			pt = ft.In(i)
		}
		if a == nil {
			in[i] = reflect.Zero(pt)
			continue
		}
		v := reflect.ValueOf(a)
		if !v.Type().AssignableTo(pt) {
			if v.Type().ConvertibleTo(pt) {
				v = v.Convert(pt)
			} else {
				panic(fmt.Sprintf("vrt.GoR %s: argument %d of type %v not assignable to %v", pos, i, v.Type(), pt))
			}
		}
		in[i] = v
	}
	// the position carries the function's name, which (unlike the line
	// number) is stable when the repository is edited
	name := ""
	if fn := runtime.FuncForPC(fv.Pointer()); fn != nil {
		name = fn.Name()
		if i := strings.LastIndex(name, "/"); i >= 0 {
			name = name[i+1:]
		}
	}
	Go(pos+" "+name, func() { fv.Call(in) })
}

// Command check is the driver registered in MANIFEST.json:
//
//	check <Cnn> --tier quick|thorough     run the check of one property
//	check replay <file>                   re-execute one replay artefact
//	check build                           pre-build everything (setup_cmd)
//
// Every run re-instruments the *current* working tree of /repo (overlay of
// added accessor files and mechanically rewritten copies; /repo itself is
// never modified), rebuilds the harness and runs it.
package main

import (
	"crypto/sha1"
	"encoding/hex"
	"encoding/json"
	"fmt"
	"os"
	"os/exec"
	"path/filepath"
	"sort"
	"strings"
	"sync"
	"time"

	"verif/instr"
)

func verifDir() string {
	if d := os.Getenv("VERIF_DIR"); d != "" {
		return d
	}
	return "/verif"
}

// repoDir is where the harness module's replace directive points.
func repoDir() string { return "/repo" }

// srcDir is the tree that is instrumented and built: /repo, or a scratch
// copy named by VERIF_REPO (mutation runs; /repo itself stays untouched and
// evidence/replays go to a scratch output directory).
func srcDir() string {
	if d := os.Getenv("VERIF_REPO"); d != "" {
		if a, err := filepath.Abs(d); err == nil && a != "/repo" {
			return a
		}
	}
	return "/repo"
}

func tag() string {
	if s := srcDir(); s != repoDir() {
		h := sha1.Sum([]byte(s))
		return "-" + hex.EncodeToString(h[:4])
	}
	return ""
}

func goEnv() (string, []string) {
	// The repository needs go >= 1.24; the default go switches to the cached
	// 1.24.0 toolchain automatically.  Resolve that binary once and use it
	// with GOTOOLCHAIN=local so nothing tries to reach the network.
	env := os.Environ()
	clean := env[:0]
	for _, e := range env {
		if strings.HasPrefix(e, "GOFLAGS=") || strings.HasPrefix(e, "GOTOOLCHAIN=") ||
			strings.HasPrefix(e, "GOSUMDB=") || strings.HasPrefix(e, "GOPROXY=") ||
			strings.HasPrefix(e, "GODEBUG=") {
			continue
		}
		clean = append(clean, e)
	}
	gobin := "go"
	cmd := exec.Command("go", "env", "GOROOT")
	cmd.Dir = repoDir()
	cmd.Env = append(append([]string{}, clean...), "GOFLAGS=-mod=mod", "GOPROXY=off")
	if out, err := cmd.Output(); err == nil {
		p := filepath.Join(strings.TrimSpace(string(out)), "bin", "go")
		if _, err := os.Stat(p); err == nil {
			gobin = p
		}
	}
	clean = append(clean, "GOFLAGS=-mod=mod", "GOPROXY=off", "GOTOOLCHAIN=local",
		"GOSUMDB=off", "GODEBUG=goindex=0", "CGO_ENABLED=0")
	return gobin, clean
}

func harnesses() []string {
	ents, _ := os.ReadDir(filepath.Join(verifDir(), "harness"))
	var hs []string
	for _, e := range ents {
		if e.IsDir() {
			if _, err := os.Stat(filepath.Join(verifDir(), "harness", e.Name(), "main.go")); err == nil {
				hs = append(hs, e.Name())
			}
		}
	}
	sort.Strings(hs)
	return hs
}

// build instruments and builds one harness; returns the binary path.
func build(id string, quiet bool) (string, error) {
	vd := verifDir()
	ov, err := instr.Generate(srcDir(), repoDir(), vd, tag())
	if err != nil {
		return "", fmt.Errorf("instrumentation: %w", err)
	}
	gobin, env := goEnv()
	bin := filepath.Join(vd, ".build", "bin"+tag(), id)
	os.MkdirAll(filepath.Dir(bin), 0755)
	args := []string{"build", "-tags", "verif", "-overlay", ov, "-o", bin, "./harness/" + id}
	cmd := exec.Command(gobin, args...)
	cmd.Dir = vd
	cmd.Env = env
	out, err := cmd.CombinedOutput()
	if err != nil {
		return "", fmt.Errorf("go build failed: %v\n%s", err, out)
	}
	return bin, nil
}

func main() {
	if len(os.Args) < 2 {
		fmt.Fprintln(os.Stderr, "usage: check <Cnn> [--tier quick|thorough] | check replay <file> | check build")
		os.Exit(2)
	}
	switch os.Args[1] {
	case "build":
		start := time.Now()
		hs := harnesses()
		if len(os.Args) > 2 {
			hs = os.Args[2:]
		}
		// first one serially (warms the cache for the shared packages)
		var failed []string
		var mu sync.Mutex
		var wg sync.WaitGroup
		sem := make(chan struct{}, 4)
		for i, h := range hs {
			if i == 0 {
				if _, err := build(h, false); err != nil {
					fmt.Fprintf(os.Stderr, "%s: %v\n", h, err)
					failed = append(failed, h)
				}
				continue
			}
			wg.Add(1)
			go func(h string) {
				defer wg.Done()
				sem <- struct{}{}
				defer func() { <-sem }()
				if _, err := build(h, false); err != nil {
					mu.Lock()
					fmt.Fprintf(os.Stderr, "%s: %v\n", h, err)
					failed = append(failed, h)
					mu.Unlock()
				}
			}(h)
		}
		wg.Wait()
		fmt.Printf("built %d harnesses in %.1fs (failed: %v)\n", len(hs), time.Since(start).Seconds(), failed)
		if len(failed) > 0 {
			os.Exit(3)
		}
		return
	case "replay":
		if len(os.Args) < 3 {
			fmt.Fprintln(os.Stderr, "usage: check replay <file>")
			os.Exit(2)
		}
		data, err := os.ReadFile(os.Args[2])
		if err != nil {
			fmt.Fprintln(os.Stderr, err)
			os.Exit(2)
		}
		var a struct {
			Property string `json:"property"`
		}
		if err := json.Unmarshal(data, &a); err != nil || a.Property == "" {
			fmt.Fprintln(os.Stderr, "not a replay artefact")
			os.Exit(2)
		}
		id := strings.ToLower(a.Property)
		bin, err := build(id, true)
		if err != nil {
			fmt.Printf("HARNESS-FAULT property=%s: %v\n", a.Property, err)
			os.Exit(3)
		}
		cmd := exec.Command(bin, "--replay", os.Args[2])
		cmd.Dir = verifDir()
		cmd.Stdout, cmd.Stderr = os.Stdout, os.Stderr
		err = cmd.Run()
		if ee, ok := err.(*exec.ExitError); ok {
			os.Exit(ee.ExitCode())
		}
		return
	}

	prop := strings.ToUpper(os.Args[1])
	id := strings.ToLower(prop)
	if _, err := os.Stat(filepath.Join(verifDir(), "harness", id, "main.go")); err != nil {
		fmt.Fprintf(os.Stderr, "no harness for %s\n", prop)
		os.Exit(2)
	}
	bin, err := build(id, true)
	if err != nil {
		// A tree that does not compile under instrumentation is a harness
		// fault (distinct exit code), never a verdict.
		fmt.Printf("HARNESS-FAULT property=%s: %v\n", prop, err)
		os.Exit(3)
	}
	args := os.Args[2:]
	cmd := exec.Command(bin, args...)
	cmd.Dir = verifDir()
	cmd.Stdout, cmd.Stderr = os.Stdout, os.Stderr
	cmd.Env = os.Environ()
	if t := tag(); t != "" {
		cmd.Env = append(cmd.Env, "VERIF_OUT="+filepath.Join(verifDir(), ".build", "out"+t))
	}
	err = cmd.Run()
	if ee, ok := err.(*exec.ExitError); ok {
		os.Exit(ee.ExitCode())
	}
	if err != nil {
		fmt.Printf("HARNESS-FAULT property=%s: %v\n", prop, err)
		os.Exit(3)
	}
}

package main
import ("fmt"; "os"; "verif/instr")
func main(){ ov, err := instr.Generate("/repo", "/repo", "/verif", ""); fmt.Println(ov, err); _ = os.Args }

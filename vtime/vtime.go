// Package vtime is the drop-in replacement for "time" in instrumented galene
// packages.  With the virtual clock off it is the real thing.  With it on,
// Now/Since/Until read a settable clock and Sleep returns immediately (a
// scheduling point under the scheduler), so that time-dependent behaviour is
// chosen by the explorer instead of by the wall clock.
package vtime

import (
	"sync/atomic"
	stdtime "time"

	"verif/vrt"
)

// Base is the instant at which a virtual clock starts.
var Base = stdtime.Date(2030, 1, 1, 0, 0, 0, 0, stdtime.UTC)

var virtual atomic.Bool
var offset atomic.Int64 // nanoseconds since Base

// SleepAdvances makes Sleep(d) advance the virtual clock by d.
var SleepAdvances atomic.Bool

// SetVirtual switches the virtual clock on (resetting it to Base) or off.
func SetVirtual(on bool) {
	offset.Store(0)
	virtual.Store(on)
}

func Virtual() bool { return virtual.Load() }

// Advance moves the virtual clock forward.
func Advance(d stdtime.Duration) { offset.Add(int64(d)) }

// Set sets the virtual clock to Base+d.
func Set(d stdtime.Duration) { offset.Store(int64(d)) }

func Now() stdtime.Time {
	if virtual.Load() {
		return Base.Add(stdtime.Duration(offset.Load()))
	}
	return stdtime.Now()
}

func Since(t stdtime.Time) stdtime.Duration {
	if virtual.Load() {
		return Now().Sub(t)
	}
	return stdtime.Since(t)
}

func Until(t stdtime.Time) stdtime.Duration {
	if virtual.Load() {
		return t.Sub(Now())
	}
	return stdtime.Until(t)
}

func Sleep(d stdtime.Duration) {
	if virtual.Load() {
		if SleepAdvances.Load() {
			Advance(d)
		}
		vrt.Yield("time.Sleep")
		return
	}
	if vrt.GetMode() == vrt.Scheduled {
		vrt.Yield("time.Sleep")
		return
	}
	stdtime.Sleep(d)
}

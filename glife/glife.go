// Package glife builds the worlds of the Engine-B harnesses on the group
// layer (C10, C13): a temp groups directory with one description, recording
// fake group.Client implementations, and helpers to run the real lifecycle
// API from controlled threads.
package glife

import (
	"fmt"
	"net"
	"os"
	"path/filepath"
	"sort"
	"sync"

	"github.com/jech/galene/conn"
	"github.com/jech/galene/diskwriter"
	"github.com/jech/galene/group"
	"github.com/jech/galene/token"

	"verif/vos"
	"verif/vrt"
	"verif/vtime"
)

// Event is something the group layer told a client.
type Event struct {
	Kind string // joined | user | kick | pushconn
	Arg  string
	// view of the group at the time of a joined/join event (read under the
	// caller's lock through the unlocked accessor)
	Locked  bool
	Members []string
	Ops     int
}

// Fake is a recording group.Client.
type Fake struct {
	ID, User string
	Perms    []string
	G        *group.Group
	Events   []Event
	System   bool
}

func (c *Fake) Group() *group.Group { return c.G }
func (c *Fake) Addr() net.Addr      { return nil }
func (c *Fake) Id() string          { return c.ID }
func (c *Fake) Username() string    { return c.User }
func (c *Fake) Init(u string, p []string) {
	c.User = u
	c.Perms = p
}
func (c *Fake) Permissions() []string {
	if c.System {
		return []string{"system"}
	}
	return c.Perms
}
func (c *Fake) Data() map[string]interface{} { return nil }
func (c *Fake) PushConn(g *group.Group, id string, up conn.Up, tracks []conn.UpTrack, replace string) error {
	c.Events = append(c.Events, Event{Kind: "pushconn", Arg: id})
	return nil
}
func (c *Fake) RequestConns(target group.Client, g *group.Group, id string) error { return nil }
func (c *Fake) Joined(name, kind string) error {
	e := Event{Kind: "joined", Arg: kind}
	c.Events = append(c.Events, e)
	if kind == "join" && JoinHook != nil {
		JoinHook(c, name)
	}
	return nil
}
func (c *Fake) PushClient(name, kind, id, username string, perms []string, data map[string]interface{}) error {
	c.Events = append(c.Events, Event{Kind: "user", Arg: kind + ":" + id})
	return nil
}
func (c *Fake) Kick(id string, user *string, message string) error {
	c.Events = append(c.Events, Event{Kind: "kick", Arg: message})
	// as a web client's loop would do on a kick
	if KickLeaves {
		group.DelClient(c)
		c.G = nil
	}
	return nil
}

// JoinHook is called from Joined(join), i.e. while AddClient holds g.mu.
var JoinHook func(c *Fake, groupname string)

// KickLeaves makes a kicked fake client leave at once (same thread).
var KickLeaves bool

// Has reports whether the client saw an event.
func (c *Fake) Has(kind, arg string) bool {
	for _, e := range c.Events {
		if e.Kind == kind && e.Arg == arg {
			return true
		}
	}
	return false
}

var (
	once sync.Once
	base string
)

// Dir is the per-process sandbox.
func Dir() string {
	once.Do(func() {
		d := "/dev/shm"
		if _, err := os.Stat(d); err != nil {
			d = ""
		}
		b, err := os.MkdirTemp(d, "vglife")
		if err != nil {
			panic(err)
		}
		base = b
	})
	return base
}

func Cleanup() {
	if base != "" {
		os.RemoveAll(base)
	}
}

// Fresh resets every package-level state and writes the group file.
func Fresh(desc string) {
	d := Dir()
	vtime.SetVirtual(true)
	vrt.ResetTasks()
	vos.SetHook(nil)
	group.VerifReset()
	os.RemoveAll(filepath.Join(d, "groups"))
	os.RemoveAll(filepath.Join(d, "data"))
	os.RemoveAll(filepath.Join(d, "rec"))
	os.MkdirAll(filepath.Join(d, "groups"), 0700)
	os.MkdirAll(filepath.Join(d, "data"), 0700)
	os.MkdirAll(filepath.Join(d, "rec"), 0700)
	group.Directory = filepath.Join(d, "groups")
	group.DataDirectory = filepath.Join(d, "data")
	diskwriter.Directory = filepath.Join(d, "rec")
	token.SetStatefulFilename(filepath.Join(d, "data", "tokens.jsonl"))
	WriteGroup("g", desc)
	JoinHook = nil
	KickLeaves = false
}

var version int

// WriteGroup (re)writes a group file with a distinct size so that the
// server notices the change whatever the mtime granularity.
func WriteGroup(name, desc string) {
	version++
	p := filepath.Join(Dir(), "groups", name+".json")
	pad := ""
	for i := 0; i < version%7; i++ {
		pad += " "
	}
	if err := os.WriteFile(p, []byte(desc+pad+"\n"), 0600); err != nil {
		panic(err)
	}
}

// Creds builds password credentials.
func Creds(user, pw string) group.ClientCredentials {
	return group.ClientCredentials{Username: &user, Password: pw}
}

// Join calls the real AddClient and records the group on success, as
// every real client does.
func Join(c *Fake, user, pw string) error {
	g, err := group.AddClient("g", c, Creds(user, pw))
	if err == nil {
		c.G = g
	}
	return err
}

// Leave calls the real DelClient.
func Leave(c *Fake) {
	group.DelClient(c)
	c.G = nil
}

// Members returns the sorted ids of the members of g.
func Members() []string {
	g := group.Get("g")
	if g == nil {
		return nil
	}
	var ids []string
	for _, c := range g.GetClients(nil) {
		ids = append(ids, c.Id())
	}
	sort.Strings(ids)
	return ids
}

func Str(v any) string { return fmt.Sprint(v) }

package main

// Sub-check B: concurrent editors under the controlled scheduler.  Every
// vsync.Mutex Lock/Unlock and every vos file operation of package token is a
// scheduling point; the fields tokens/fileSize/modTime of token.state are
// monitored by the vector-clock race monitor.

import (
	"encoding/json"
	"fmt"
	"github.com/jech/galene/rtpconn"
	"sort"
	"strings"
	"time"

	"github.com/jech/galene/token"

	"verif/core"
	"verif/vrt"
	"verif/vtime"
)

// cop is one completed library call of a controlled thread.
type cop struct {
	kind string // get | update | delete | create | expire
	name string
	tag  string // tag supplied (update/delete) or returned (get)
	val  string // normalised token returned (get) or written (update/create)
	err  string // errClass
	msg  string
}

func (c cop) String() string {
	s := c.kind + "(" + c.name
	if c.kind == "update" || c.kind == "delete" {
		s += "," + c.tag
	}
	s += ")"
	if c.err != "" {
		s += "=" + c.err
	} else {
		s += "=ok"
	}
	return s
}

type editor struct {
	kind  string // "update" | "delete"
	perms []string
}

type concSpec struct {
	name     string
	editors  []editor
	creators int  // threads creating T2 unconditionally (empty tag)
	expirer  bool // runs Expire (T2 is pre-populated, expired for 8 days)
	reader   bool // one extra Get(T1)
}

func concSpecs() []concSpec {
	specs := []concSpec{
		{name: "conc/update-update-create", editors: []editor{{"update", permsB}, {"update", permsC}}, creators: 1},
		{name: "conc/update-delete-create", editors: []editor{{"update", permsB}, {"delete", nil}}, creators: 1},
		{name: "conc/update-expire-get", editors: []editor{{"update", permsB}}, expirer: true, reader: true},
		{name: "conc/update-update-delete", editors: []editor{{"update", permsB}, {"update", permsC}, {"delete", nil}}},
		{name: "conc/create-create-delete", editors: []editor{{"delete", nil}}, creators: 2},
	}
	return specs
}

func concProgram(sp concSpec) vrt.Program {
	return vrt.Program{
		Name:       sp.name,
		MaxPreempt: core.Pick(2, 3),
		Classify: func(kind, info string) string {
			return "C16/" + sp.name + "/" + kind
		},
		Setup: func() ([]func(), []string, func() (string, *core.Violation)) {
			freshDisk()
			exp := vtime.Now().Add(time.Hour)
			init := map[string]string{}
			t1 := mkToken("T1", permsA, exp)
			if _, err := token.Update(t1.Clone(), ""); err != nil {
				panic(err)
			}
			init["T1"] = norm(t1, false)
			if sp.expirer {
				old := mkToken("T2", permsA, vtime.Now().Add(-8*24*time.Hour))
				if _, err := token.Update(old.Clone(), ""); err != nil {
					panic(err)
				}
				init["T2"] = norm(old, false)
			}
			var bodies []func()
			var names []string
			logs := make([][]cop, 0, 4)
			addThread := func(name string, body func(log *[]cop)) {
				logs = append(logs, nil)
				i := len(logs) - 1
				bodies = append(bodies, func() { body(&logs[i]) })
				names = append(names, name)
			}
			for i, e := range sp.editors {
				e := e
				addThread(fmt.Sprintf("editor%d-%s", i+1, e.kind), func(log *[]cop) {
					t, tag, err := token.Get("T1")
					c := cop{kind: "get", name: "T1", tag: tag, err: errClass(err), msg: fmt.Sprint(err)}
					if err == nil {
						c.val = norm(t, false)
					}
					*log = append(*log, c)
					if err != nil {
						return
					}
					if e.kind == "update" {
						n := t.Clone()
						n.Permissions = append([]string(nil), e.perms...)
						_, err := token.Update(n, tag)
						*log = append(*log, cop{kind: "update", name: "T1", tag: tag, val: norm(n, false), err: errClass(err), msg: fmt.Sprint(err)})
					} else {
						err := token.Delete("T1", tag)
						*log = append(*log, cop{kind: "delete", name: "T1", tag: tag, err: errClass(err), msg: fmt.Sprint(err)})
					}
				})
			}
			for i := 0; i < sp.creators; i++ {
				perms := [][]string{permsA, permsB}[i]
				addThread(fmt.Sprintf("creator%d", i+1), func(log *[]cop) {
					n := mkToken("T2", perms, exp)
					_, err := token.Update(n.Clone(), "")
					*log = append(*log, cop{kind: "create", name: "T2", val: norm(n, false), err: errClass(err), msg: fmt.Sprint(err)})
				})
			}
			if sp.expirer {
				addThread("expirer", func(log *[]cop) {
					err := token.Expire()
					*log = append(*log, cop{kind: "expire", err: errClass(err), msg: fmt.Sprint(err)})
				})
			}
			if sp.reader {
				addThread("reader", func(log *[]cop) {
					t, tag, err := token.Get("T1")
					c := cop{kind: "get", name: "T1", tag: tag, err: errClass(err), msg: fmt.Sprint(err)}
					if err == nil {
						c.val = norm(t, false)
					}
					*log = append(*log, c)
				})
			}
			final := func() (string, *core.Violation) {
				return concOracle(sp, init, logs)
			}
			return bodies, names, final
		},
	}
}

func concOracle(sp concSpec, init map[string]string, logs [][]cop) (string, *core.Violation) {
	var out []string
	for i, l := range logs {
		var s []string
		for _, c := range l {
			s = append(s, c.String())
		}
		out = append(out, fmt.Sprintf("T%d:%s", i, strings.Join(s, ",")))
	}
	outcome := strings.Join(out, " ")
	// tags are file versions; rename them in order of first appearance so
	// that the outcome is independent of absolute mtimes
	outcome = renameTags(outcome, logs)

	// no I/O error is expected
	for _, l := range logs {
		for _, c := range l {
			if c.err == "error" {
				return outcome, viol(sp.name+"/unexpected-error/"+c.kind,
					fmt.Sprintf("%s failed with %q under a schedule (no fault injected); outcome %s", c.kind, c.msg, outcome))
			}
		}
	}
	// of the editors that held the SAME tag at most one succeeded
	byTag := map[string][]string{}
	for _, l := range logs {
		for _, c := range l {
			if (c.kind == "update" || c.kind == "delete") && c.err == "" {
				byTag[c.tag] = append(byTag[c.tag], c.kind)
			}
		}
	}
	// ... and of the unconditional creators of one token at most one
	ncreate := 0
	for _, l := range logs {
		for _, c := range l {
			if c.kind == "create" && c.err == "" {
				ncreate++
			}
		}
	}
	if ncreate > 1 {
		return outcome, viol(sp.name+"/create-of-existing-acknowledged",
			fmt.Sprintf("%d unconditional creates of the same token were all acknowledged (one silently overwrote the other): %s", ncreate, outcome))
	}
	for _, kinds := range byTag {
		if len(kinds) > 1 {
			sort.Strings(kinds)
			return outcome, viol(sp.name+"/same-tag-both-succeeded/"+strings.Join(kinds, "+"),
				fmt.Sprintf("%d conditional operations that held the same version tag were all acknowledged (one silently overwrote the other): %s", len(kinds), outcome))
		}
	}
	// the final file is the result of the acknowledged operations in some
	// order consistent with every thread's program order, with every Get
	// having read the then-current set and every acknowledged conditional
	// operation having held the then-current tag
	fresh := freshView(tokenFile())
	run, lerr := runningView([]string{"T1", "T2"}, []string{"g", "h"})
	if lerr != "" {
		return outcome, viol(sp.name+"/list-get-disagree", lerr+"; outcome "+outcome)
	}
	if !sameView(run, fresh) {
		return outcome, viol(sp.name+"/fresh-load-differs",
			fmt.Sprintf("after the threads finished the running server honours %s but a freshly started server reads %s; outcome %s", run, fresh, outcome))
	}
	if fresh.err != "" {
		return outcome, viol(sp.name+"/final-file-unreadable", "the final token file cannot be loaded; outcome "+outcome)
	}
	if !serializable(init, logs, fresh.toks) {
		return outcome, viol(sp.name+"/final-state-not-serializable",
			fmt.Sprintf("the final file %s is not the result of the acknowledged operations in any order consistent with program order; outcome %s", fresh, outcome))
	}
	outcome += " => " + strings.Join(sortedKeys(fresh.toks), "+")
	if p, ok := fresh.toks["T1"]; ok {
		outcome += " T1:" + p[strings.Index(p, "|p="):strings.Index(p, "|exp=")]
	}
	if n := leftoverTemps(); n > 0 {
		return outcome, viol(sp.name+"/temp-file-left", fmt.Sprintf("%d temporary files left in the token directory after all operations returned", n))
	}
	return outcome, nil
}

func renameTags(s string, logs [][]cop) string {
	seen := map[string]string{}
	var order []string
	for _, l := range logs {
		for _, c := range l {
			if c.tag != "" && seen[c.tag] == "" {
				seen[c.tag] = "x"
				order = append(order, c.tag)
			}
		}
	}
	// chronological: the mtime part is strictly increasing under logical mtimes
	sort.Slice(order, func(i, j int) bool { return tagTime(order[i]) < tagTime(order[j]) })
	for i, t := range order {
		s = strings.ReplaceAll(s, t, fmt.Sprintf("v%d", i))
	}
	return s
}

func tagTime(tag string) int64 {
	var size, mt int64
	fmt.Sscanf(strings.Trim(tag, `"`), "%d-%d", &size, &mt)
	return mt
}

// serializable searches an interleaving of the threads' operations that
// explains every observation under the sequential specification:
//
//	Get      returns the current token and the tag of the current version
//	Update   acknowledged => token exists and tag is the current version's
//	         (or token missing and tag empty); then version+1
//	Delete   acknowledged => token exists and tag current; then version+1
//	Expire   removes tokens expired for a week; version+1 if any
//	refused  operations change nothing
//
// and ends in the final set.
func serializable(init map[string]string, logs [][]cop, final map[string]string) bool {
	type st struct {
		set     map[string]string
		version int
		tagOf   map[int]string
		verOf   map[string]int
	}
	pos := make([]int, len(logs))
	var rec func(s st) bool
	clone := func(s st) st {
		n := st{set: map[string]string{}, version: s.version, tagOf: map[int]string{}, verOf: map[string]int{}}
		for k, v := range s.set {
			n.set[k] = v
		}
		for k, v := range s.tagOf {
			n.tagOf[k] = v
		}
		for k, v := range s.verOf {
			n.verOf[k] = v
		}
		return n
	}
	bind := func(s *st, tag string) bool {
		if t, ok := s.tagOf[s.version]; ok && t != tag {
			return false
		}
		if v, ok := s.verOf[tag]; ok && v != s.version {
			return false
		}
		s.tagOf[s.version] = tag
		s.verOf[tag] = s.version
		return true
	}
	current := func(s *st, tag string) bool {
		if tag == "" {
			return false
		}
		return bind(s, tag)
	}
	rec = func(s st) bool {
		done := true
		for i := range logs {
			if pos[i] < len(logs[i]) {
				done = false
			}
		}
		if done {
			if len(s.set) != len(final) {
				return false
			}
			for k, v := range s.set {
				if final[k] != v {
					return false
				}
			}
			return true
		}
		for i := range logs {
			if pos[i] >= len(logs[i]) {
				continue
			}
			c := logs[i][pos[i]]
			n := clone(s)
			ok := true
			switch c.kind {
			case "get":
				cur, exists := n.set[c.name]
				if c.err == "" {
					ok = exists && cur == c.val && bind(&n, c.tag)
				} else {
					ok = !exists
				}
			case "update", "create":
				if c.err == "" {
					_, exists := n.set[c.name]
					if exists {
						ok = current(&n, c.tag)
					} else {
						ok = c.tag == ""
					}
					if ok {
						n.set[c.name] = c.val
						n.version++
					}
				}
			case "delete":
				if c.err == "" {
					_, exists := n.set[c.name]
					ok = exists && current(&n, c.tag)
					if ok {
						delete(n.set, c.name)
						n.version++
					}
				}
			case "expire":
				if c.err == "" {
					swept := false
					for k, v := range n.set {
						if strings.Contains(v, "|exp=2029-") { // expired 8 days before Base
							delete(n.set, k)
							swept = true
						}
					}
					if swept {
						n.version++
					}
				}
			}
			if !ok {
				continue
			}
			pos[i]++
			if rec(n) {
				pos[i]--
				return true
			}
			pos[i]--
		}
		return false
	}
	s0 := st{set: map[string]string{}, tagOf: map[int]string{}, verOf: map[string]int{}}
	for k, v := range init {
		s0.set[k] = v
	}
	return rec(s0)
}

func runConc(res *core.Result, shard, shards int) {
	for _, sp := range concSpecs() {
		if !core.Want(sp.name) {
			continue
		}
		res.AddSub(vrt.Explore(concProgram(sp), res, shard, shards))
	}
	for _, p := range httpConcPrograms() {
		if !core.Want(p.Name) {
			continue
		}
		res.AddSub(vrt.Explore(p, res, shard, shards))
	}
}

// ---------------------------------------------------------------------------
// the same through the HTTP API: two administrators GET the token (and its
// entity tag) and PUT an edit with If-Match, one optionally DELETEs it; the
// handlers run as controlled threads.  Of the conditional requests that
// carried the same tag at most one may be acknowledged.

func httpConcProgram(name string, kinds []string) vrt.Program {
	return vrt.Program{
		Name:       name,
		MaxPreempt: core.Pick(2, 3),
		Classify:   func(kind, info string) string { return "C16/" + name + "/" + kind },
		Setup: func() ([]func(), []string, func() (string, *core.Violation)) {
			freshDisk()
			httpStatic()
			exp := vtime.Now().Add(time.Hour)
			t1 := mkToken("T1", permsA, exp)
			if _, err := token.Update(t1.Clone(), ""); err != nil {
				panic(err)
			}
			w := &seqWorld{http: true}
			path := "/galene-api/v0/.groups/g/.tokens/T1"
			type res struct {
				kind, tag string
				code      int
				pan       string
			}
			results := make([]res, len(kinds))
			var bodies []func()
			var names []string
			for i, k := range kinds {
				i, k := i, k
				names = append(names, fmt.Sprintf("admin%d-%s", i+1, k))
				bodies = append(bodies, func() {
					g := w.do("GET", path, "", "", "")
					tag := g.Header().Get("ETag")
					results[i] = res{kind: k, tag: tag, code: -g.Code}
					if g.Code != 200 || tag == "" {
						return
					}
					var r *recorded
					if k == "put" {
						n := t1.Clone()
						n.Permissions = [][]string{permsB, permsC, permsA}[i%3]
						n.Token, n.Group = "", ""
						body, _ := json.Marshal(n)
						r = w.do("PUT", path, tag, "", string(body))
					} else {
						r = w.do("DELETE", path, tag, "", "")
					}
					results[i].code, results[i].pan = r.Code, r.panicked
				})
			}
			final := func() (string, *core.Violation) {
				byTag := map[string][]string{}
				var out []string
				for i, r := range results {
					out = append(out, fmt.Sprintf("%d:%s=%d", i, r.kind, r.code))
					if r.pan != "" {
						return "", viol(name+"/panic", "the handler panicked: "+r.pan)
					}
					if r.code >= 200 && r.code < 300 {
						byTag[r.tag] = append(byTag[r.tag], fmt.Sprintf("admin%d-%s", i+1, r.kind))
					}
				}
				for _, l := range byTag {
					if len(l) > 1 {
						return "", viol(name+"/stale-tag-accepted",
							fmt.Sprintf("conditional requests %v carried the same entity tag and were all acknowledged: one of them was applied although the token had changed since its tag was served (%v)", l, out))
					}
				}
				return strings.Join(out, " "), nil
			}
			return bodies, names, final
		},
	}
}

func httpConcPrograms() []vrt.Program {
	return []vrt.Program{
		httpConcProgram("conc/http-put-put", []string{"put", "put"}),
		httpConcProgram("conc/http-put-delete", []string{"put", "delete"}),
		sigConcProgram(),
	}
}

// An operator's edittoken command (a real web client: Get, edit, conditional
// Update inside the handler) against a library editor changing another field
// of the same token.  Both edits are conditional on what their author read:
// if both are acknowledged, one of them read the other's result, so the token
// carries both changes; an acknowledged change that is missing at the end was
// silently overwritten.
func sigConcProgram() vrt.Program {
	name := "conc/library-update-vs-edittoken"
	return vrt.Program{
		Name:       name,
		MaxPreempt: core.Pick(2, 3),
		Classify:   func(kind, info string) string { return "C16/" + name + "/" + kind },
		Setup: func() ([]func(), []string, func() (string, *core.Violation)) {
			freshDisk()
			httpStatic()
			exp := vtime.Now().Add(time.Hour)
			t1 := mkToken("T1", permsA, exp)
			if _, err := token.Update(t1.Clone(), ""); err != nil {
				panic(err)
			}
			wc := rtpconn.VerifNewClient("c0")
			fault := ""
			join, _ := json.Marshal(map[string]any{"type": "join", "kind": "join", "group": "g", "username": "oper", "password": "p"})
			if err := wc.Handle(join); err != nil || wc.Group() == nil {
				fault = fmt.Sprint("the operator could not join: ", err)
			}
			wc.Written()
			newExp := vtime.Now().Add(2 * time.Hour).UTC().Truncate(time.Second)
			var libAck, sigAck bool
			var sigErr string
			lib := func() {
				t, tag, err := token.Get("T1")
				if err != nil {
					return
				}
				n := t.Clone()
				n.Permissions = append([]string(nil), permsB...)
				_, err = token.Update(n, tag)
				libAck = err == nil
			}
			sg := func() {
				raw, _ := json.Marshal(map[string]any{"type": "groupaction", "kind": "edittoken", "source": "c0",
					"value": map[string]any{"token": "T1", "expires": newExp.Format(time.RFC3339)}})
				if err := wc.Handle(raw); err != nil {
					sigErr = err.Error()
				}
				for _, b := range wc.Written() {
					var m map[string]any
					if json.Unmarshal(b, &m) == nil && m["type"] == "usermessage" && m["kind"] == "token" {
						if e, _ := m["error"].(string); e == "" {
							sigAck = true
						} else {
							sigErr = fmt.Sprint(m["value"])
						}
					}
				}
			}
			final := func() (string, *core.Violation) {
				defer wc.Exit(fmt.Errorf("done"))
				if fault != "" {
					return "", &core.Violation{Signature: "HARNESS-FAULT", What: fault}
				}
				cur, _, err := token.Get("T1")
				if err != nil {
					return "", &core.Violation{Signature: "C16/" + name + "/token-lost", What: "the token is gone: " + err.Error()}
				}
				fresh := freshView(tokenFile())
				if fresh.err != "" || fresh.toks["T1"] != norm(cur, false) {
					return "", &core.Violation{Signature: "C16/" + name + "/fresh-load-differs",
						What: fmt.Sprintf("the running server holds %s, a freshly started one reads %s", norm(cur, false), fresh.String())}
				}
				hasB := strings.Join(cur.Permissions, ",") == strings.Join(permsB, ",")
				hasExp := cur.Expires != nil && cur.Expires.Equal(newExp)
				if libAck && !hasB {
					return "", &core.Violation{Signature: "C16/" + name + "/acknowledged-edit-lost/library-update",
						What: fmt.Sprintf("the library editor's conditional update (permissions %v) was acknowledged and the operator's edittoken was acknowledged=%v, yet the token ends as %s: the edittoken command wrote a copy made before the other edit", permsB, sigAck, norm(cur, false))}
				}
				if sigAck && !hasExp {
					return "", &core.Violation{Signature: "C16/" + name + "/acknowledged-edit-lost/edittoken",
						What: fmt.Sprintf("the operator's edittoken (expires %v) was acknowledged, yet the token ends as %s", newExp, norm(cur, false))}
				}
				return fmt.Sprint(libAck, sigAck, sigErr != ""), nil
			}
			return []func(){lib, sg}, []string{"library-editor", "operator-edittoken"}, final
		},
	}
}

package main

import (
	"encoding/json"
	"fmt"
	"sort"
	"strings"
	"time"

	"github.com/jech/galene/token"

	"verif/core"
	"verif/vtime"
)

// Line-length sub-check.  The token file is one JSON document per line and
// nothing in the library or in the administrative API (bodies up to 1 MB)
// bounds the length of a line.  For every line length of a boundary set
// (around 4 kB, 64 kB, 128 kB and just under 1 MB) and every position of the
// long token among two short ones, the history create / update / delete runs
// through the real library, and after every step the running server, a
// freshly started server reading the file, and the acknowledged operations
// must agree.

func sizeTargets() []int {
	var l []int
	for _, p := range []int{4096, 65536, 131072} {
		l = append(l, p-1, p, p+1)
	}
	l = append(l, 1000000)
	if !core.Quick() {
		l = append(l, 32767, 32768, 32769, 65534, 65538, 262144, 524288, 2000000)
	}
	return l
}

// bigToken builds a token whose serialised line (with the newline) is n bytes.
func bigToken(name string, n int, exp time.Time) *token.Stateful {
	t := mkToken(name, []string{"present"}, exp)
	b, _ := json.Marshal(t)
	pad := n - len(b) - 1
	if pad < 0 {
		pad = 0
	}
	u := *t.Username + strings.Repeat("x", pad)
	t.Username = &u
	return t
}

func runSize(res *core.Result, shard, shards int) {
	if !core.Want("size/line-length") {
		return
	}
	sub := core.Sub{Name: "size/line-length", Exhaustive: true}
	var outc core.Outcomes
	job := 0
	for _, n := range sizeTargets() {
		for pos := 0; pos < 3; pos++ {
			job++
			if job%shards != shard {
				continue
			}
			if !core.TimeLeft() {
				sub.Exhaustive = false
				continue
			}
			sub.Executions++
			v, nmodel := sizeOne(n, pos, &sub.Transitions, &outc)
			if v != nil {
				v.Sub = sub.Name
				v.Replay = map[string]any{"size": n, "pos": pos}
				res.Violate(*v)
			}
			outc.Add(fmt.Sprint(nmodel))
		}
	}
	sub.States, sub.Outcomes = sub.Executions, outc.N()
	sub.Bound = fmt.Sprintf("%d line lengths x 3 positions x the history create,create,create,update,delete,delete", len(sizeTargets()))
	res.AddSub(sub)
}

func shortView(v view) string {
	if v.err != "" {
		return "nothing (the file cannot be loaded)"
	}
	var l []string
	for n, s := range v.toks {
		if len(s) > 60 {
			s = s[:60] + "…"
		}
		l = append(l, fmt.Sprintf("%s{%s check=%v}", n, s, v.ok[n]))
	}
	sort.Strings(l)
	return "[" + strings.Join(l, " ") + "]"
}

// sizeOne runs the history for one line length and one position.
func sizeOne(n, pos int, trans *int64, outc *core.Outcomes) (*core.Violation, int) {
	freshDisk()
	exp := vtime.Now().Add(time.Hour)
	model := map[string]*token.Stateful{}
	names := []string{"S1", "S2", "BIG"}
	order := []string{"S1", "S2"}
	order = append(order[:pos], append([]string{"BIG"}, order[pos:]...)...)
	step := func(what string) *core.Violation {
		*trans++
		run, lerr := runningView(names, []string{"g", "h"})
		if lerr != "" {
			return viol("list-get-disagree/line-length", fmt.Sprintf("line of %d bytes, %s: %s", n, what, lerr))
		}
		fresh := freshView(tokenFile())
		if !sameView(run, fresh) {
			return viol("fresh-load-differs/line-length",
				fmt.Sprintf("a token whose line in the token file is %d bytes long (position %d of 3), %s: the running server honours %s but a freshly started server reads %s from the file", n, pos, what, shortView(run), shortView(fresh)))
		}
		mv := modelView(model, false)
		if !sameView(run, mv) {
			return viol("acknowledged-not-reflected/line-length",
				fmt.Sprintf("a token whose line is %d bytes long (position %d of 3), %s: the server honours %s but the acknowledged operations give %s", n, pos, what, shortView(run), shortView(mv)))
		}
		return nil
	}
	var v *core.Violation
	for _, name := range order {
		var t *token.Stateful
		if name == "BIG" {
			t = bigToken(name, n, exp)
		} else {
			t = mkToken(name, []string{"present"}, exp)
		}
		if _, err := token.Update(t.Clone(), ""); err != nil {
			outc.Add("create-refused")
			continue // a refusal is fine as long as the views agree
		}
		model[name] = t
		if v = step("after creating " + name); v != nil {
			break
		}
	}
	if v == nil && model["BIG"] != nil {
		cur, tag, err := token.Get("BIG")
		if err == nil {
			nt := cur.Clone()
			nt.Permissions = togglePerms(cur.Permissions)
			if _, err := token.Update(nt.Clone(), tag); err == nil {
				model["BIG"] = nt
			}
			v = step("after updating it")
		}
	}
	if v == nil {
		if _, tag, err := token.Get("S1"); err == nil {
			if err := token.Delete("S1", tag); err == nil {
				delete(model, "S1")
			}
			v = step("after deleting a short token")
		}
	}
	if v == nil && model["BIG"] != nil {
		if _, tag, err := token.Get("BIG"); err == nil {
			if err := token.Delete("BIG", tag); err == nil {
				delete(model, "BIG")
			}
			v = step("after deleting it")
		}
	}
	return v, len(model)
}

package main

// Sub-check A: explicit-state BFS over operation sequences on the real token
// package (library driver) and on the real /galene-api/ handler (HTTP
// driver), with the oracle evaluated after every step.

import (
	"bytes"
	"encoding/json"
	"errors"
	"fmt"
	"net/http"
	"net/http/httptest"
	"os"
	"path/filepath"
	"runtime/debug"
	"sort"
	"strings"
	"time"

	"github.com/jech/galene/group"
	"github.com/jech/galene/token"
	"github.com/jech/galene/webserver"

	"verif/core"
	"verif/seqx"
	"verif/vos"
	"verif/vtime"
)

type op struct {
	K string `json:"k"`           // create update delete expire tick list get ext
	T string `json:"t,omitempty"` // logical token name T1|T2
	// create: "+1h" | "-8d"; update/delete: "cur" | "stale" | "empty";
	// tick: "1h" | "8d"; ext: "drop-line" | "add" | "replace" | "rmfile" | "garbage"
	A string `json:"a,omitempty"`
}

func (o op) String() string { return strings.TrimSpace(o.K + " " + o.T + " " + o.A) }

const bogusTag = `"1-1"`

func alphabet(http bool) []op {
	var a []op
	for _, t := range []string{"T1", "T2"} {
		a = append(a, op{"create", t, "+1h"}, op{"create", t, "-8d"})
	}
	for _, t := range []string{"T1", "T2"} {
		for _, tag := range []string{"cur", "stale", "empty"} {
			a = append(a, op{"update", t, tag})
		}
	}
	for _, t := range []string{"T1", "T2"} {
		for _, tag := range []string{"cur", "stale", "empty"} {
			a = append(a, op{"delete", t, tag})
		}
	}
	// an If-Match value that is not a well-formed entity tag list (it can match nothing)
	a = append(a, op{"update", "T1", "junk"}, op{"delete", "T1", "junk"})
	a = append(a, op{K: "expire"}, op{K: "tick", A: "1h"}, op{K: "tick", A: "8d"},
		op{K: "list", A: "g"}, op{K: "get", T: "T1"}, op{K: "get", T: "T2"})
	for _, e := range []string{"drop-line", "add", "replace", "rmfile", "garbage", "restore-older"} {
		a = append(a, op{K: "ext", A: e})
	}
	return a
}

type seqWorld struct {
	http   bool
	shard  int
	shards int
	alpha  []op

	depth    int
	maxDepth int
	hist     string
	model    map[string]*token.Stateful // by REAL token name
	garbage  bool                       // the file is not a valid token stream
	slot     string                     // tag remembered from an earlier successful get
	hasSlot  bool
	// ver counts the changes of the token file (any change of its bytes, by
	// the server or behind its back); slotVer is its value when the slot tag
	// was read.  Staleness of the remembered tag is judged by these, never by
	// comparing tags, so that a tag which fails to change is noticed.
	ver, slotVer int
	revoked      map[string]string // real name -> "delete" | "sweep"
	// HTTP driver: logical name -> real (server-chosen) name, and every real
	// name ever bound -> a stable alias ("T1#2" = second incarnation of T1)
	bind     map[string]string
	alias    map[string]string
	gen      map[string]int
	outcome  string
	restores int // external restorations with an old mtime so far
}

func (w *seqWorld) setBind(logical, real string) {
	w.bind[logical] = real
	if _, ok := w.alias[real]; !ok {
		w.gen[logical]++
		w.alias[real] = fmt.Sprintf("%s#%d", logical, w.gen[logical])
	}
}

// verified remembers the histories whose oracle has already been evaluated
// in this process (seqx re-executes the prefix of every sequence; the
// observation does not perturb the world, so it is skipped on replays).
var verified = map[string]bool{}

func (w *seqWorld) real(logical string) string {
	if w.http {
		if r, ok := w.bind[logical]; ok {
			return r
		}
		return ""
	}
	return logical
}

func (w *seqWorld) Ops() []seqx.Op {
	var ops []seqx.Op
	for i, o := range w.alpha {
		if w.depth == 0 && w.shards > 1 && i%w.shards != w.shard {
			continue
		}
		if o.K == "ext" {
			lines, exists := readLines(tokenFile())
			switch o.A {
			case "drop-line":
				if len(lines) == 0 {
					continue
				}
			case "rmfile":
				if !exists {
					continue
				}
			case "add":
				if _, ok := w.model["X3"]; ok || w.garbage {
					continue
				}
			case "garbage":
				if w.garbage || core.Quick() && w.http {
					continue
				}
			}
		}
		ops = append(ops, o)
	}
	return ops
}

func (w *seqWorld) Outcome() string { return w.outcome }

func (w *seqWorld) Canon() string {
	c := w.canon()
	if f := os.Getenv("C16_DUMP"); f != "" {
		if fh, err := os.OpenFile(f, os.O_APPEND|os.O_CREATE|os.O_WRONLY, 0600); err == nil {
			fmt.Fprintf(fh, "%s\t%s\n", w.hist, c)
			fh.Close()
		}
	}
	return c
}

func (w *seqWorld) canon() string {
	var b strings.Builder
	// the file as ordered lines with times relative to now
	lines, exists := readLines(tokenFile())
	fmt.Fprintf(&b, "file(%v):", exists)
	var ls []string
	for _, l := range lines {
		if l.tok == nil {
			ls = append(ls, "[garbage]")
		} else {
			ls = append(ls, "["+w.anon(norm(l.tok, true))+"]")
		}
	}
	sort.Strings(ls) // line order is irrelevant to the loader and to the harness
	b.WriteString(strings.Join(ls, ""))
	// the cache: does it claim to mirror the current file version, and what
	// does it hold
	toks, size, mt := token.VerifC16Cached()
	fresh := false
	if fi, err := os.Stat(tokenFile()); err == nil {
		fresh = fi.Size() == size && fi.ModTime().Equal(mt)
	}
	fmt.Fprintf(&b, " cache(fresh=%v zero=%v):", fresh, mt.IsZero())
	var cs []string
	for _, t := range toks {
		cs = append(cs, "["+w.anon(norm(t, true))+"]")
	}
	sort.Strings(cs)
	b.WriteString(strings.Join(cs, ""))
	// the remembered tag: only whether it is still current matters
	valid := false
	if w.hasSlot {
		cur, ok := w.currentTag()
		valid = ok && cur == w.slot
	}
	// ... and whether it names the version the cache mirrors (it then differs
	// from a bogus tag for code that consults the cache)
	cachedTag := ""
	if !mt.IsZero() {
		cachedTag = fmt.Sprintf("\"%v-%v\"", size, mt.UnixNano())
	}
	fmt.Fprintf(&b, " slot=%v/%v/%v", valid, w.hasSlot && w.slot == cachedTag, w.hasSlot && w.slotVer == w.ver)
	// history the oracle still needs
	fmt.Fprintf(&b, " revoked=")
	var rs []string
	for n, how := range w.revoked {
		rs = append(rs, w.anon(n)+":"+how)
	}
	sort.Strings(rs)
	b.WriteString(strings.Join(rs, ","))
	if w.http {
		fmt.Fprintf(&b, " bound=")
		for _, n := range sortedKeys(w.bind) {
			_, present := w.model[w.bind[n]]
			fmt.Fprintf(&b, "%s:%v,", n, present)
		}
	}
	return b.String()
}

func (w *seqWorld) lineKey(l fileLine) string {
	if l.tok == nil {
		return "~garbage"
	}
	return w.anon(l.tok.Token)
}

// anon replaces server-chosen random names by their logical names.
func (w *seqWorld) anon(s string) string {
	for r, a := range w.alias {
		s = strings.ReplaceAll(s, r, a)
	}
	return s
}

// currentTag returns the tag of the file version a load would establish now
// (any existing token's Get returns it).
func (w *seqWorld) currentTag() (string, bool) {
	snap := token.VerifC16Save()
	defer token.VerifC16Restore(snap)
	_, tag, err := token.List("")
	if err != nil {
		return "", false
	}
	return tag, true
}

func (w *seqWorld) names() []string {
	set := map[string]bool{"T1": true, "T2": true, "X3": true}
	for r := range w.alias {
		set[r] = true
	}
	for n := range w.model {
		set[n] = true
	}
	for n := range w.revoked {
		set[n] = true
	}
	delete(set, "")
	return sortedKeys(set)
}

// ---------------------------------------------------------------------------

func (w *seqWorld) Apply(o seqx.Op) *core.Violation {
	x := o.(op)
	w.depth++
	w.hist += "/" + x.String()
	before := fileBytes(tokenFile())
	beforeModel := cloneModel(w.model)
	var v *core.Violation
	acked := true
	switch x.K {
	case "create":
		acked, v = w.create(x)
	case "update":
		acked, v = w.update(x)
	case "delete":
		acked, v = w.del(x)
	case "expire":
		acked, v = w.expire()
	case "tick":
		if x.A == "8d" {
			vtime.Advance(8 * 24 * time.Hour)
		} else {
			vtime.Advance(time.Hour)
		}
		w.outcome = "tick"
	case "list":
		w.list(x)
	case "get":
		w.get(x)
	case "ext":
		w.ext(x)
	default:
		panic("unknown op " + x.K)
	}
	if fileBytes(tokenFile()) != before {
		w.ver++
	}
	if v != nil {
		return v
	}
	if !acked {
		// refused operations change nothing
		if after := fileBytes(tokenFile()); after != before {
			return viol("refused-op-changed-file/"+x.K,
				fmt.Sprintf("%s was refused (%s) but the token file changed from %q to %q", x, w.outcome, before, after))
		}
		w.model = beforeModel
	}
	if verified[w.hist] {
		return nil
	}
	if v := w.oracle(x); v != nil {
		return v
	}
	if w.depth < w.maxDepth {
		verified[w.hist] = true
	}
	return nil
}

// oracle compares the running server, a freshly started server and the
// reference set after a step.
func (w *seqWorld) oracle(x op) *core.Violation {
	after := "after-" + x.K
	if x.K == "ext" {
		after += "-" + x.A
	}
	names := w.names()
	run, lerr := runningView(names, []string{"g", "h"})
	if lerr != "" {
		return viol("list-get-disagree/"+after, lerr+" (history "+w.hist+")")
	}
	fresh := freshView(tokenFile())
	// revocation is final: a deleted / swept token is not honoured by the
	// running server nor by a restarted one
	for n, how := range w.revoked {
		if _, ok := run.toks[n]; ok && run.err == "" {
			return viol("revoked-token-honoured/running/"+how,
				fmt.Sprintf("token %s was removed by %s but the running server still returns it: %s (history %s)", w.anon(n), how, w.anon(run.toks[n]), w.hist))
		}
		if _, ok := fresh.toks[n]; ok && fresh.err == "" {
			return viol("revoked-token-honoured/restart/"+how,
				fmt.Sprintf("token %s was removed by %s but a freshly started server reads it from the file: %s (history %s)", w.anon(n), how, w.anon(fresh.toks[n]), w.hist))
		}
	}
	if !sameView(run, fresh) {
		return viol("fresh-load-differs/"+after,
			fmt.Sprintf("running server honours %s but a freshly started server reads %s from the file (history %s)", w.anon(run.String()), w.anon(fresh.String()), w.hist))
	}
	mv := modelView(w.model, w.garbage)
	if !sameView(run, mv) {
		return viol("acknowledged-not-reflected/"+after,
			fmt.Sprintf("server honours %s but the acknowledged operations and edits give %s (history %s)", w.anon(run.String()), w.anon(mv.String()), w.hist))
	}
	return nil
}

// ---------------------------------------------------------------------------
// drivers

type callRes struct {
	class string // "" ok | mismatch | notexist | error | panic
	info  string
	name  string // created name (HTTP POST)
}

func (w *seqWorld) pickTag(kind, real string) string {
	switch kind {
	case "cur":
		// a real client: Get, then use the returned tag (refreshes the cache,
		// exactly like edittoken / an HTTP client doing GET then PUT)
		if w.http {
			rr := w.do("GET", w.tokPath(real), "", "", "")
			if rr.Code == 200 {
				return rr.Header().Get("Etag")
			}
			return ""
		}
		_, tag, err := token.Get(real)
		if err != nil {
			return ""
		}
		return tag
	case "stale":
		if w.hasSlot {
			return w.slot
		}
		return bogusTag
	case "junk":
		return `181-1790447557811340425; q=1`
	}
	return ""
}

func (w *seqWorld) create(x op) (bool, *core.Violation) {
	exp := vtime.Now().Add(time.Hour)
	if x.A == "-8d" {
		exp = vtime.Now().Add(-8 * 24 * time.Hour)
	}
	real := w.real(x.T)
	var cur *token.Stateful
	var gerr error
	if real != "" {
		cur, _, gerr = hypGet(real)
	} else {
		gerr = os.ErrNotExist
		if w.garbage {
			gerr = errors.New("load")
		}
	}
	_ = cur
	var r callRes
	var nt *token.Stateful
	if w.http {
		body := fmt.Sprintf(`{"username":"u-%s","permissions":["present"],"expires":%q}`, x.T, exp.UTC().Format(time.RFC3339Nano))
		if errClass(gerr) == "" {
			// the token exists: an unconditional create is PUT If-None-Match: *
			rr := w.do("PUT", w.tokPath(real), "", "*", body)
			r = w.classify(rr)
		} else {
			rr := w.do("POST", "/galene-api/v0/.groups/"+groupOf(x.T)+"/.tokens/", "", "", body)
			r = w.classify(rr)
			if r.class == "" {
				r.name = rr.Header().Get("Location")
				if r.name == "" {
					return false, viol("http/create-without-location", "POST .tokens/ answered 201 without a location header")
				}
				w.setBind(x.T, r.name)
				real = r.name
			}
		}
		u := "u-" + x.T
		e := exp
		nt = &token.Stateful{Token: real, Group: groupOf(x.T), Username: &u, Permissions: []string{"present"}, Expires: &e}
	} else {
		nt = mkToken(x.T, permsA, exp)
		_, err := token.Update(nt.Clone(), "")
		r = callRes{class: errClass(err), info: fmt.Sprint(err)}
	}
	w.outcome = "create:" + errClass(gerr) + "->" + r.class
	if r.class == "panic" {
		return false, viol("panic/create", "create panicked: "+r.info)
	}
	switch errClass(gerr) {
	case "": // exists: must be refused
		if r.class == "" {
			return false, viol("unconditional-create-overwrote/create",
				fmt.Sprintf("an unconditional create of the existing token %s was acknowledged (history %s)", x.T, w.hist))
		}
		return false, nil
	case "notexist":
		if r.class != "" {
			return false, viol("create-refused/"+r.class,
				fmt.Sprintf("creating the non-existing token %s was refused: %s (history %s)", x.T, r.info, w.hist))
		}
		w.model[real] = nt
		delete(w.revoked, real)
		return true, nil
	default: // file cannot be loaded
		if r.class == "" {
			return false, viol("ack-on-unreadable-file/create", "create acknowledged although the token file cannot be loaded (history "+w.hist+")")
		}
		return false, nil
	}
}

func (w *seqWorld) update(x op) (bool, *core.Violation) {
	real := w.real(x.T)
	if real == "" {
		// HTTP driver, the logical token was never created: nothing to name
		real = "never-" + x.T
	}
	cur, curTag, gerr := hypGet(real)
	tag := w.pickTag(x.A, real)
	var nt *token.Stateful
	exp := vtime.Now().Add(time.Hour)
	if cur != nil {
		nt = cur.Clone()
		nt.Permissions = togglePerms(cur.Permissions)
		nt.Expires = &exp
	} else {
		nt = mkToken(x.T, permsB, exp)
		nt.Token = real
	}
	var r callRes
	if w.http {
		c := nt.Clone()
		c.Token, c.Group = "", ""
		body, _ := json.Marshal(c)
		rr := w.do("PUT", w.tokPath(real), tag, "", string(body))
		r = w.classify(rr)
		if rr.Code == http.StatusPreconditionFailed {
			r.class = "mismatch"
		}
	} else {
		_, err := token.Update(nt.Clone(), tag)
		r = callRes{class: errClass(err), info: fmt.Sprint(err)}
	}
	w.outcome = fmt.Sprintf("update:%s:%s->%s", errClass(gerr), x.A, r.class)
	if r.class == "panic" {
		if w.http && errClass(gerr) == "notexist" {
			return false, viol("panic/tokens-PUT-missing",
				"HTTP PUT of a not-yet-existing token panics in tokensHandler (no response is sent): "+r.info)
		}
		return false, viol("panic/update", "update panicked: "+r.info)
	}
	switch errClass(gerr) {
	case "":
		want := tag == curTag
		if x.A == "stale" && w.hasSlot && w.slotVer != w.ver {
			// the file changed since the tag was read, whatever the tags say
			want = false
		}
		if w.http && x.A == "empty" {
			want = true // no If-Match header: an unconditional overwrite
		}
		if r.class == "" && !want {
			if tag == "" {
				return false, viol("unconditional-create-overwrote/update",
					fmt.Sprintf("Update(%s) with the empty tag (create) overwrote the existing token (history %s)", x.T, w.hist))
			}
			return false, viol("stale-tag-accepted/update",
				fmt.Sprintf("Update(%s) with tag %s was acknowledged although a Get would return %s now (history %s)", x.T, tag, curTag, w.hist))
		}
		if r.class != "" && want {
			return false, viol("current-tag-refused/update",
				fmt.Sprintf("Update(%s) with the current tag %s was refused: %s (history %s)", x.T, tag, r.info, w.hist))
		}
		if r.class == "" {
			w.model[real] = nt
			return true, nil
		}
		if r.class != "mismatch" {
			return false, viol("wrong-refusal/update", fmt.Sprintf("Update(%s) with a stale tag was refused with %q instead of a tag mismatch (history %s)", x.T, r.info, w.hist))
		}
		return false, nil
	case "notexist":
		if w.http {
			// PUT of a missing token: creating it (201) or refusing it are
			// both within the statement -- unless the request is conditional
			// on a tag: whatever tag it names, the token it was read from is gone
			if r.class == "" && tag != "" {
				return false, viol("stale-tag-accepted/update-missing",
					fmt.Sprintf("PUT of %s with If-Match %s was acknowledged although the token does not exist (any more): a conditional edit went through after the token had been removed (history %s)", x.T, tag, w.hist))
			}
			if r.class == "" {
				w.model[real] = nt
				w.setBind(x.T, real)
				delete(w.revoked, real)
				return true, nil
			}
			return false, nil
		}
		want := tag == ""
		if r.class == "" && !want {
			return false, viol("stale-tag-accepted/update-missing",
				fmt.Sprintf("Update(%s) of a non-existing token with the non-empty tag %s was acknowledged (history %s)", x.T, tag, w.hist))
		}
		if r.class != "" && want {
			return false, viol("create-refused/"+r.class, fmt.Sprintf("Update(%s, \"\") of a non-existing token was refused: %s (history %s)", x.T, r.info, w.hist))
		}
		if r.class == "" {
			w.model[real] = nt
			delete(w.revoked, real)
			return true, nil
		}
		return false, nil
	default:
		if r.class == "" {
			return false, viol("ack-on-unreadable-file/update", "update acknowledged although the token file cannot be loaded (history "+w.hist+")")
		}
		return false, nil
	}
}

func (w *seqWorld) del(x op) (bool, *core.Violation) {
	real := w.real(x.T)
	if real == "" {
		real = "never-" + x.T
	}
	_, curTag, gerr := hypGet(real)
	tag := w.pickTag(x.A, real)
	var r callRes
	if w.http {
		rr := w.do("DELETE", w.tokPath(real), tag, "", "")
		r = w.classify(rr)
		if rr.Code == http.StatusPreconditionFailed {
			r.class = "mismatch"
		}
	} else {
		err := token.Delete(real, tag)
		r = callRes{class: errClass(err), info: fmt.Sprint(err)}
	}
	w.outcome = fmt.Sprintf("delete:%s:%s->%s", errClass(gerr), x.A, r.class)
	if r.class == "panic" {
		return false, viol("panic/delete", "delete panicked: "+r.info)
	}
	switch errClass(gerr) {
	case "":
		want := tag == curTag
		if x.A == "stale" && w.hasSlot && w.slotVer != w.ver {
			want = false
		}
		if w.http && x.A == "empty" {
			want = true
		}
		if r.class == "" && !want {
			return false, viol("stale-tag-accepted/delete",
				fmt.Sprintf("Delete(%s) with tag %s was acknowledged although a Get would return %s now (history %s)", x.T, tag, curTag, w.hist))
		}
		if r.class != "" && want {
			return false, viol("current-tag-refused/delete",
				fmt.Sprintf("Delete(%s) with the current tag %s was refused: %s (history %s)", x.T, tag, r.info, w.hist))
		}
		if r.class == "" {
			delete(w.model, real)
			w.revoked[real] = "delete"
			return true, nil
		}
		if r.class != "mismatch" {
			return false, viol("wrong-refusal/delete", fmt.Sprintf("Delete(%s) with a stale tag was refused with %q instead of a tag mismatch (history %s)", x.T, r.info, w.hist))
		}
		return false, nil
	case "notexist":
		if r.class == "" {
			return false, viol("delete-missing-acknowledged", fmt.Sprintf("Delete(%s) of a non-existing token was acknowledged (history %s)", x.T, w.hist))
		}
		return false, nil
	default:
		if r.class == "" {
			return false, viol("ack-on-unreadable-file/delete", "delete acknowledged although the token file cannot be loaded (history "+w.hist+")")
		}
		return false, nil
	}
}

func (w *seqWorld) expire() (bool, *core.Violation) {
	err := token.Expire()
	w.outcome = "expire:" + errClass(err)
	if w.garbage {
		if err == nil {
			return false, viol("ack-on-unreadable-file/expire", "Expire acknowledged although the token file cannot be loaded")
		}
		return false, nil
	}
	if err != nil {
		return false, viol("expire-failed", fmt.Sprintf("Expire failed without any fault: %v (history %s)", err, w.hist))
	}
	cutoff := vtime.Now().Add(-7 * 24 * time.Hour)
	n := 0
	for name, t := range w.model {
		if t.Expires != nil && t.Expires.Before(cutoff) {
			delete(w.model, name)
			w.revoked[name] = "sweep"
			n++
		}
	}
	w.outcome += fmt.Sprintf(":swept%d", n)
	return true, nil
}

func (w *seqWorld) list(x op) {
	if w.http {
		rr := w.do("GET", "/galene-api/v0/.groups/"+x.A+"/.tokens/", "", "", "")
		w.outcome = fmt.Sprintf("list:%d", rr.Code)
		return
	}
	l, _, err := token.List(x.A)
	w.outcome = fmt.Sprintf("list:%s:%d", errClass(err), len(l))
}

func (w *seqWorld) get(x op) {
	real := w.real(x.T)
	if real == "" {
		real = "never-" + x.T
	}
	if w.http {
		rr := w.do("GET", w.tokPath(real), "", "", "")
		w.outcome = fmt.Sprintf("get:%d", rr.Code)
		if rr.Code == 200 {
			w.slot, w.hasSlot = rr.Header().Get("Etag"), true
			w.slotVer = w.ver
		}
		return
	}
	_, tag, err := token.Get(real)
	w.outcome = "get:" + errClass(err)
	if err == nil {
		w.slot, w.hasSlot = tag, true
		w.slotVer = w.ver
	}
}

// ext rewrites the token file behind the server's back and gives it a new
// logical mtime (the property assumes successive versions differ in size or
// mtime).
func (w *seqWorld) ext(x op) {
	file := tokenFile()
	lines, _ := readLines(file)
	switch x.A {
	case "drop-line":
		// remove the line of the token with the smallest (logical) name; the
		// position of a line in the file is not used because rewrite() orders
		// tokens of equal expiry by map iteration
		min := 0
		for i, l := range lines {
			if w.lineKey(l) < w.lineKey(lines[min]) {
				min = i
			}
		}
		writeLines(file, append(append([]fileLine{}, lines[:min]...), lines[min+1:]...))
	case "add":
		writeLines(file, append(lines, lineFor(mkToken("X3", permsA, vtime.Now().Add(time.Hour)))))
	case "replace":
		name := w.real("T1")
		if name == "" {
			name = "ext-T1-name"
			w.setBind("T1", name)
		}
		t := mkToken("T1", permsC, vtime.Now().Add(time.Hour))
		t.Token = name
		writeLines(file, []fileLine{lineFor(t)})
	case "rmfile":
		os.Remove(file)
	case "restore-older":
		// an administrator puts back another version of the file that keeps
		// its (older) modification time, as cp -p, rsync -t or tar do: every
		// token's permissions are swapped for a list of the same length, so
		// the size does not change either way
		var nl []fileLine
		for _, l := range lines {
			if l.tok == nil {
				nl = append(nl, l)
				continue
			}
			t := l.tok.Clone()
			t.Permissions = togglePerms(t.Permissions)
			nl = append(nl, lineFor(t))
		}
		var b bytes.Buffer
		for _, l := range nl {
			b.WriteString(l.raw)
		}
		if err := os.WriteFile(file, b.Bytes(), 0600); err != nil {
			panic(err)
		}
		w.restores++
		old := vos.LogicalBase.Add(-time.Hour - time.Duration(w.restores)*time.Second)
		if err := os.Chtimes(file, old, old); err != nil {
			panic(err)
		}
	case "garbage":
		writeLines(file, append(lines, fileLine{raw: `{"token":"T9","group":"g","perm`}))
	}
	m, ok := parseSet(file)
	w.garbage = !ok
	if ok {
		// what disappeared was removed by the editor, what (re)appeared was
		// created by the editor
		for n := range w.model {
			if _, still := m[n]; !still {
				w.revoked[n] = "delete"
			}
		}
		for n := range m {
			delete(w.revoked, n)
		}
		w.model = m
	}
	w.outcome = "ext:" + x.A
}

// ---------------------------------------------------------------------------
// HTTP plumbing

func (w *seqWorld) tokPath(real string) string {
	g := "g"
	if a, ok := w.alias[real]; ok && strings.HasPrefix(a, "T2") {
		g = "h"
	}
	if strings.HasSuffix(real, "T2") {
		g = "h"
	}
	return "/galene-api/v0/.groups/" + g + "/.tokens/" + real
}

type recorded struct {
	*httptest.ResponseRecorder
	panicked string
}

func (w *seqWorld) do(method, path, ifMatch, ifNoneMatch, body string) *recorded {
	var rd *strings.Reader
	if body != "" {
		rd = strings.NewReader(body)
	}
	var req *http.Request
	if rd != nil {
		req = httptest.NewRequest(method, path, rd)
		req.Header.Set("Content-Type", "application/json")
	} else {
		req = httptest.NewRequest(method, path, nil)
	}
	req.SetBasicAuth("root", "pw")
	if ifMatch != "" {
		req.Header.Set("If-Match", ifMatch)
	}
	if ifNoneMatch != "" {
		req.Header.Set("If-None-Match", ifNoneMatch)
	}
	rec := &recorded{ResponseRecorder: httptest.NewRecorder()}
	func() {
		defer func() {
			if r := recover(); r != nil {
				rec.panicked = fmt.Sprint(r)
				if os.Getenv("C16_DEBUG") != "" {
					fmt.Fprintf(os.Stderr, "PANIC %s %s: %v\n%s\n", method, path, r, debug.Stack())
				}
			}
		}()
		webserver.VerifC16APIHandler(rec.ResponseRecorder, req)
	}()
	return rec
}

func (w *seqWorld) classify(rr *recorded) callRes {
	if rr.panicked != "" {
		return callRes{class: "panic", info: rr.panicked}
	}
	switch {
	case rr.Code >= 200 && rr.Code < 300:
		return callRes{}
	case rr.Code == http.StatusNotFound:
		return callRes{class: "notexist", info: "404"}
	case rr.Code == http.StatusPreconditionFailed:
		return callRes{class: "mismatch", info: "412"}
	default:
		return callRes{class: "error", info: fmt.Sprintf("%d %s", rr.Code, strings.TrimSpace(rr.Body.String()))}
	}
}

var httpStaticDone bool

// httpStatic builds the directories the API handler needs (administrator
// credentials, the two groups); they are never modified afterwards.
func httpStatic() {
	if httpStaticDone {
		return
	}
	httpStaticDone = true
	d := scratchDir()
	group.Directory = filepath.Join(d, "groups")
	group.DataDirectory = filepath.Join(d, "data")
	os.MkdirAll(group.Directory, 0700)
	os.MkdirAll(group.DataDirectory, 0700)
	must := func(err error) {
		if err != nil {
			panic(err)
		}
	}
	must(os.WriteFile(filepath.Join(group.DataDirectory, "config.json"),
		[]byte(`{"users":{"root":{"password":"pw","permissions":"admin"}}}`), 0600))
	must(os.WriteFile(filepath.Join(group.Directory, "g.json"), []byte(`{"users":{"oper":{"password":"p","permissions":"op"}}}`), 0600))
	must(os.WriteFile(filepath.Join(group.Directory, "h.json"), []byte(`{}`), 0600))
	static := filepath.Join(d, "static")
	must(os.MkdirAll(static, 0700))
	must(webserver.VerifC16OpenStaticRoot(static))
}

// ---------------------------------------------------------------------------

func seqConfig(http bool, shard, shards int) seqx.Config {
	name := "seq/lib"
	depth := core.Pick(5, 7)
	if http {
		name = "seq/http"
		depth = core.Pick(4, 6)
	}
	alpha := alphabet(http)
	return seqx.Config{
		Name: name, MaxDepth: depth, Parallel: 1,
		Fresh: func() seqx.World {
			freshDisk()
			if http {
				httpStatic()
			}
			return &seqWorld{http: http, shard: shard, shards: shards, alpha: alpha, maxDepth: depth,
				model: map[string]*token.Stateful{}, revoked: map[string]string{}, bind: map[string]string{},
				alias: map[string]string{}, gen: map[string]int{}}
		},
	}
}

func runSeq(res *core.Result, http bool, shard, shards int) {
	cfg := seqConfig(http, shard, shards)
	if !core.Want(cfg.Name) {
		return
	}
	for k := range verified {
		delete(verified, k)
	}
	sub := seqx.Explore(cfg, res)
	sub.Bound += fmt.Sprintf(", %d-letter alphabet, first letter partitioned over %d processes (states are summed over processes: a state reached under several first letters is counted once per process)", len(cfg.Fresh().(*seqWorld).alpha), shards)
	res.AddSub(sub)
}

package main

import (
	"bytes"
	"encoding/json"
	"errors"
	"fmt"
	"io"
	"os"
	"path/filepath"
	"sort"
	"strings"
	"time"

	"github.com/jech/galene/token"

	"verif/core"
	"verif/vos"
	"verif/vtime"
)

// ---------------------------------------------------------------------------
// The per-process scratch directory.  Worlds touch package-level state of
// galene (token.tokens, vtime, vos), so one process holds one world at a time
// and the directory is wiped when a fresh world is made.

var scratch string

func scratchDir() string {
	if scratch != "" {
		return scratch
	}
	base := os.TempDir()
	if fi, err := os.Stat("/dev/shm"); err == nil && fi.IsDir() {
		base = "/dev/shm"
	}
	d, err := os.MkdirTemp(base, "c16-")
	if err != nil {
		panic(err)
	}
	scratch = d
	return d
}

func cleanupScratch() {
	if scratch != "" {
		os.RemoveAll(scratch)
	}
}

// tokenDir is the directory holding the token file (galene: data/var).
func tokenDir() string  { return filepath.Join(scratchDir(), "var") }
func tokenFile() string { return filepath.Join(tokenDir(), "tokens.jsonl") }

// freshDisk removes everything of the previous world and starts "a server":
// virtual clock at Base, logical mtimes from tick 0, package state reset and
// bound to the (not yet existing) token file.
func freshDisk() {
	os.RemoveAll(tokenDir())
	if err := os.MkdirAll(tokenDir(), 0700); err != nil {
		panic(err)
	}
	vos.SetHook(nil)
	vos.Revive()
	vos.SetLogicalMtime(true)
	vtime.SetVirtual(true)
	token.VerifC16Reset()
	token.SetStatefulFilename(tokenFile())
}

// ---------------------------------------------------------------------------
// Token values.

var (
	permsA = []string{"present"}
	permsB = []string{"present", "message"}
	permsC = []string{"present", "message", "record"}
)

func groupOf(name string) string {
	if name == "T2" {
		return "h"
	}
	return "g"
}

func mkToken(name string, perms []string, exp time.Time) *token.Stateful {
	u := "u-" + name
	e := exp
	return &token.Stateful{
		Token:       name,
		Group:       groupOf(name),
		Username:    &u,
		Permissions: append([]string(nil), perms...),
		Expires:     &e,
	}
}

// togglePerms alternates between two permission lists of the SAME encoded
// size ("present" / "message"), so that successive versions of the token file
// differ only in their modification time: a version tag that ignored
// sub-second differences would then collide.
func togglePerms(p []string) []string {
	if len(p) == 1 && p[0] == "present" {
		return []string{"message"}
	}
	return []string{"present"}
}

func tstr(t *time.Time, rel bool) string {
	if t == nil {
		return "-"
	}
	if rel {
		return t.Sub(vtime.Now()).String()
	}
	return t.UTC().Format(time.RFC3339Nano)
}

func sstr(s *string) string {
	if s == nil {
		return "-"
	}
	return "=" + *s
}

// norm renders every field of a token (rel: times relative to the virtual
// now, used in canonical keys).
func norm(t *token.Stateful, rel bool) string {
	if t == nil {
		return "<nil>"
	}
	return fmt.Sprintf("%s|g=%s|sub=%v|u%s|p=%s|exp=%s|nb=%s|iat=%s|iby%s",
		t.Token, t.Group, t.IncludeSubgroups, sstr(t.Username),
		strings.Join(t.Permissions, ","), tstr(t.Expires, rel),
		tstr(t.NotBefore, rel), tstr(t.IssuedAt, rel), sstr(t.IssuedBy))
}

// view is a token set as seen by one observer: name -> normalised token, or
// an error (the file cannot be loaded).
type view struct {
	err  string
	toks map[string]string
	// ok lists the names whose Check(host, group-of-token) succeeds now.
	ok map[string]bool
}

func (v view) String() string {
	if v.err != "" {
		return "ERR"
	}
	names := make([]string, 0, len(v.toks))
	for n := range v.toks {
		names = append(names, n)
	}
	sort.Strings(names)
	var b strings.Builder
	for _, n := range names {
		fmt.Fprintf(&b, "{%s check=%v}", v.toks[n], v.ok[n])
	}
	if b.Len() == 0 {
		return "{}"
	}
	return b.String()
}

func errClass(err error) string {
	switch {
	case err == nil:
		return ""
	case errors.Is(err, token.ErrTagMismatch):
		return "mismatch"
	case errors.Is(err, os.ErrNotExist):
		return "notexist"
	default:
		return "error"
	}
}

// freshView is what a freshly started server reads from the file.
func freshView(file string) view {
	m, _, err := token.VerifC16FreshLoad(file)
	if err != nil {
		return view{err: "load"}
	}
	v := view{toks: map[string]string{}, ok: map[string]bool{}}
	for n, t := range m {
		if n != t.Token {
			v.toks[n] = "KEY-MISMATCH:" + norm(t, false)
			continue
		}
		v.toks[n] = norm(t, false)
		_, _, cerr := t.Check("", t.Group)
		v.ok[n] = cerr == nil
	}
	return v
}

// runningView asks the running package-level state through its real entry
// points: Get for every candidate name, List for every group, Check on what
// Get returned.  The cache is saved before and restored afterwards so that
// the observation does not refresh it (the explorer wants to reach states in
// which the cache is stale).
func runningView(names, groups []string) (view, string) {
	snap := token.VerifC16Save()
	defer token.VerifC16Restore(snap)
	v := view{toks: map[string]string{}, ok: map[string]bool{}}
	for _, n := range names {
		t, _, err := token.Get(n)
		switch errClass(err) {
		case "":
			v.toks[n] = norm(t, false)
			_, _, cerr := t.Check("", t.Group)
			v.ok[n] = cerr == nil
		case "notexist":
		default:
			return view{err: "load"}, ""
		}
	}
	// List must agree with Get: exactly the tokens of that group
	for _, g := range groups {
		l, _, err := token.List(g)
		if err != nil {
			return view{err: "load"}, ""
		}
		seen := map[string]bool{}
		for _, t := range l {
			if t.Group != g {
				return v, fmt.Sprintf("List(%q) returned token %q of group %q", g, t.Token, t.Group)
			}
			if seen[t.Token] {
				return v, fmt.Sprintf("List(%q) returned token %q twice", g, t.Token)
			}
			seen[t.Token] = true
			if got, ok := v.toks[t.Token]; !ok {
				// a name the harness did not ask Get for
				v.toks[t.Token] = norm(t, false)
				_, _, cerr := t.Check("", t.Group)
				v.ok[t.Token] = cerr == nil
			} else if got != norm(t, false) {
				return v, fmt.Sprintf("List(%q) and Get disagree on %q: %s vs %s", g, t.Token, norm(t, false), got)
			}
		}
		for n, s := range v.toks {
			if strings.Contains(s, "|g="+g+"|") && !seen[n] {
				return v, fmt.Sprintf("Get(%q) succeeds but List(%q) omits it", n, g)
			}
		}
	}
	return v, ""
}

func sameView(a, b view) bool {
	if a.err != "" || b.err != "" {
		return a.err == b.err
	}
	if len(a.toks) != len(b.toks) {
		return false
	}
	for n, s := range a.toks {
		if b.toks[n] != s || a.ok[n] != b.ok[n] {
			return false
		}
	}
	return true
}

// hypGet is "the tag a Get would return now", asked without disturbing the
// cache.
func hypGet(name string) (*token.Stateful, string, error) {
	snap := token.VerifC16Save()
	defer token.VerifC16Restore(snap)
	t, tag, err := token.Get(name)
	if t != nil {
		t = t.Clone()
	}
	return t, tag, err
}

// ---------------------------------------------------------------------------
// The harness's own reading of the file (independent of galene's loader):
// ordered lines; used for external edits, the model after an external edit
// and the canonical key.

type fileLine struct {
	raw string
	tok *token.Stateful // nil: not a valid token line
}

func readLines(file string) (lines []fileLine, exists bool) {
	data, err := os.ReadFile(file)
	if err != nil {
		return nil, false
	}
	for _, l := range strings.SplitAfter(string(data), "\n") {
		if l == "" {
			continue
		}
		var t token.Stateful
		fl := fileLine{raw: l}
		if json.Unmarshal([]byte(l), &t) == nil && strings.HasSuffix(l, "\n") {
			fl.tok = &t
		}
		lines = append(lines, fl)
	}
	return lines, true
}

func writeLines(file string, lines []fileLine) {
	var b bytes.Buffer
	for _, l := range lines {
		b.WriteString(l.raw)
	}
	if err := os.WriteFile(file, b.Bytes(), 0600); err != nil {
		panic(err)
	}
	vos.Stamp(file)
}

func lineFor(t *token.Stateful) fileLine {
	b, err := json.Marshal(t)
	if err != nil {
		panic(err)
	}
	return fileLine{raw: string(b) + "\n", tok: t}
}

// parseSet decodes a token file the way the format is defined (a stream of
// JSON values, last one wins); ok=false if it is not a valid stream.
func parseSet(file string) (map[string]*token.Stateful, bool) {
	f, err := os.Open(file)
	if err != nil {
		return map[string]*token.Stateful{}, true
	}
	defer f.Close()
	m := map[string]*token.Stateful{}
	d := json.NewDecoder(f)
	for {
		var t token.Stateful
		err := d.Decode(&t)
		if err == io.EOF {
			return m, true
		}
		if err != nil {
			return nil, false
		}
		m[t.Token] = &t
	}
}

func fileBytes(file string) string {
	b, err := os.ReadFile(file)
	if err != nil {
		return ""
	}
	return string(b)
}

func modelView(m map[string]*token.Stateful, garbage bool) view {
	if garbage {
		return view{err: "load"}
	}
	v := view{toks: map[string]string{}, ok: map[string]bool{}}
	for n, t := range m {
		v.toks[n] = norm(t, false)
		_, _, cerr := t.Check("", t.Group)
		v.ok[n] = cerr == nil
	}
	return v
}

func cloneModel(m map[string]*token.Stateful) map[string]*token.Stateful {
	c := make(map[string]*token.Stateful, len(m))
	for k, v := range m {
		c[k] = v.Clone()
	}
	return c
}

func leftoverTemps() int {
	ents, _ := os.ReadDir(tokenDir())
	n := 0
	for _, e := range ents {
		if e.Name() != filepath.Base(tokenFile()) {
			n++
		}
	}
	return n
}

func viol(sig, what string) *core.Violation {
	return &core.Violation{Signature: "C16/" + sig, What: what}
}

func sortedKeys[V any](m map[string]V) []string {
	k := make([]string, 0, len(m))
	for n := range m {
		k = append(k, n)
	}
	sort.Strings(k)
	return k
}

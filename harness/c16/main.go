// C16 — stateful tokens: durable, conditionally updated, revocation is final.
//
//	A  seq/lib, seq/http   BFS over operation sequences on the real token
//	                       package / the real /galene-api/ handler; after every
//	                       step the running server is compared with a freshly
//	                       started one (a new state loading the file)
//	B  conc/*              2-3 editors (Get -> Update/Delete with the tag) plus
//	                       a creator / an expiry sweep under the controlled
//	                       scheduler, preemption-bounded, race monitor
//	C  crash/*             process crash before and after every vos step of
//	                       write histories; recovery by a fresh load
//	D  fault/*             an I/O error injected at every vos step
package main

import (
	"encoding/json"
	"fmt"
	"io"
	"log"
	"os"
	"time"

	"verif/core"
	"verif/seqx"
	"verif/vrt"
)

func main() {
	start := time.Now()
	o := core.ParseFlags(50, 840)
	log.SetOutput(io.Discard)
	res := &core.Result{Property: "C16", Tier: o.Tier,
		Technique: "explicit-state BFS over create/update/delete/expire/tick/list/get/external-edit sequences on the real token package and the real HTTP token route with a restart-equivalence oracle after every step; preemption-bounded schedule enumeration of concurrent conditional editors with a serializability oracle and vector-clock race monitor; process-crash and I/O-fault enumeration at every file-system step of write histories"}
	defer cleanupScratch()
	if o.Replay != "" {
		replay(o.Replay)
		return
	}
	if o.Shard < 0 {
		core.RunShards(res, core.NCPU(), nil, nil)
		assumptions(res)
		res.Assume("the edittoken signalling command is driven only in the concurrent program library-update-vs-edittoken; maketoken and listtokens are not driven here (C11 drives them): they reach the token set only through token.Update(tok,\"\") and token.List, which the library alphabet drives")
		cleanupScratch()
		core.Finish(res, start)
	}
	// a shard: its slice of every sub-check
	runCrash(res, o.Shard, o.Shards)
	runFault(res, o.Shard, o.Shards)
	runSize(res, o.Shard, o.Shards)
	withBudget(0.45, func() { runSeq(res, false, o.Shard, o.Shards) })
	withBudget(0.45, func() { runSeq(res, true, o.Shard, o.Shards) })
	runConc(res, o.Shard, o.Shards) // last: switches the process to Scheduled mode
	cleanupScratch()
	core.Finish(res, start)
}

// withBudget gives f the stated fraction of the time that is left.
func withBudget(frac float64, f func()) {
	o := core.Opts()
	end := o.Deadline
	if left := time.Until(end); left > 0 {
		o.Deadline = time.Now().Add(time.Duration(float64(left) * frac))
	}
	f()
	o.Deadline = end
}

func assumptions(res *core.Result) {
	res.Assume("successive versions of the token file differ in size or modification time (the statement's own premise): vos gives every mutated file a fresh logical mtime and the harness stamps its external edits")
	res.Assume("crash model = process crash: everything written by completed file operations is in the file; one os.File.Write is one step (json.Encoder issues exactly one Write per Encode, so the line appended by add() and each line of the temp file is written by a single write(2); a regular-file write(2) is not torn by the death of the process). Power-failure durability is not claimed: the code does not fsync the token file and the statement does not ask for it")
	res.Assume("callers do not modify the *Stateful returned by Get in place (Get returns the cached object); the harness clones before editing, as webclient.go and api.go do")
	res.Assume("external edits happen between operations, not during one (the statement's quantifier)")
	res.Assume("I/O errors are outside the statement; the fault sub-check demands only that a refused Update/Delete/create leaves the honoured set equal to the file (the roll-back mechanism named in the anchors) and that a failed Expire causes no authorisation difference")
}

func replay(path string) {
	data, err := os.ReadFile(path)
	if err != nil {
		fmt.Println(err)
		os.Exit(2)
	}
	var a struct {
		Signature string `json:"signature"`
		Replay    struct {
			Config  string `json:"config"`
			Ops     []op   `json:"ops"`
			Program string `json:"program"`
			Choices []int  `json:"choices"`
			CrashH  string `json:"crash_history"`
			FaultH  string `json:"fault_history"`
			K       int    `json:"k"`
			Variant string `json:"variant"`
			Size    int    `json:"size"`
			Pos     int    `json:"pos"`
		} `json:"replay"`
	}
	if err := json.Unmarshal(data, &a); err != nil {
		fmt.Println(err)
		os.Exit(2)
	}
	fail := func(what string) {
		fmt.Printf("VIOLATION property=C16 replay=%s\n  %s\n", path, what)
		cleanupScratch()
		os.Exit(1)
	}
	rp := a.Replay
	switch {
	case rp.Size > 0:
		var n int64
		var outc core.Outcomes
		if v, _ := sizeOne(rp.Size, rp.Pos, &n, &outc); v != nil {
			fail(v.What)
		}
		fmt.Println("replay: no violation")
		return
	case rp.Program != "":
		for _, sp := range concSpecs() {
			if sp.name == rp.Program {
				_, out, v := vrt.ReplayChoices(concProgram(sp), rp.Choices)
				if v != nil {
					fail(v.What)
				}
				fmt.Println("replay: no violation; outcome", out)
				return
			}
		}
		fmt.Println("unknown program", rp.Program)
		os.Exit(2)
	case rp.CrashH != "" || rp.FaultH != "":
		for _, h := range append(histories(), thoroughHistories()...) {
			if h.name != rp.CrashH && h.name != rp.FaultH {
				continue
			}
			dry := dryRun(h)
			if dry.viol != nil {
				fail(dry.viol.What)
			}
			if rp.CrashH != "" {
				if _, _, v, _ := crashOne(h, dry, rp.K, rp.Variant); v != nil {
					fail(v.What)
				}
			} else {
				var st faultStats
				if r, _ := faultOne(h, dry, rp.K, &st); r.viol != nil {
					fail(r.viol.What)
				}
			}
			fmt.Println("replay: no violation")
			return
		}
		fmt.Println("unknown history")
		os.Exit(2)
	case rp.Config != "":
		cfg := seqConfig(rp.Config == "seq/http", 0, 1)
		ops := make([]seqx.Op, len(rp.Ops))
		for i, x := range rp.Ops {
			ops[i] = x
		}
		if v := seqx.Replay(cfg, ops); v != nil {
			fail(v.What)
		}
		fmt.Println("replay: no violation")
	default:
		fmt.Println("not a C16 replay artefact")
		os.Exit(2)
	}
}

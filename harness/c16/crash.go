package main

// Sub-checks C (process crash before/after every vos step of a history) and
// D (an I/O error injected at every vos step of a history).

import (
	"errors"
	"fmt"
	"sort"
	"strings"
	"time"

	"github.com/jech/galene/token"

	"verif/core"
	"verif/vos"
	"verif/vtime"
)

type hop struct {
	K string // create update stale delete expire tick extadd
	T string
	A string
}

func (h hop) String() string { return strings.TrimSpace(h.K + " " + h.T + " " + h.A) }

type history struct {
	name string
	ops  []hop
}

func histories() []history {
	hs := []history{
		{"h1-create-create-update-delete-delete", []hop{
			{"create", "T1", "+1h"}, {"create", "T2", "+1h"}, {"update", "T1", ""}, {"delete", "T2", ""}, {"delete", "T1", ""}}},
		{"h2-create-create-expire-tick-expire", []hop{
			{"create", "T1", "+1h"}, {"create", "T2", "-8d"}, {"expire", "", ""}, {"tick", "", "8d"}, {"tick", "", "1h"}, {"tick", "", "1h"}, {"expire", "", ""}}},
		{"h3-create-update-stale-extadd-update-delete", []hop{
			{"create", "T1", "+1h"}, {"update", "T1", ""}, {"stale", "T1", ""}, {"extadd", "", ""}, {"update", "T1", ""}, {"delete", "X3", ""}}},
	}
	if !core.Quick() {
		hs = append(hs, thoroughHistories()...)
	}
	return hs
}

func thoroughHistories() []history {
	return []history{
		{"h4-three-tokens-rewrite", []hop{
			{"create", "T1", "+1h"}, {"create", "T2", "+1h"}, {"create", "T3", "-8d"}, {"update", "T2", ""}, {"expire", "", ""}, {"delete", "T1", ""}, {"create", "T1", "+1h"}}},
		{"h5-recreate-after-empty", []hop{
			{"create", "T1", "+1h"}, {"delete", "T1", ""}, {"create", "T1", "-8d"}, {"create", "T2", "+1h"}, {"expire", "", ""}, {"update", "T2", ""}}},
	}
}

var errInjected = errors.New("injected I/O error")

type stepRec struct {
	op   int
	info vos.StepInfo
	ord  int // ordinal of this vos op kind within the history op
}

type runResult struct {
	steps     []stepRec
	acks      []string                     // errClass per executed op ("crash", "panic:" for aborted ones)
	models    []map[string]*token.Stateful // model after op j (as acknowledged)
	crashedIn int                          // -1: none
	hitIn     int                          // op during which step k happened (-1)
	viol      *core.Violation
	stop      bool // set by check: do not continue this history
}

// runHistory executes h on a fresh world.  mode: "" (count), "crash" (die
// before step k), "fault" (step k returns an error).  check is called after
// every completed op with the hook inactive.
func runHistory(h history, mode string, k int, check func(r *runResult, j int, o hop, faulted bool, before map[string]*token.Stateful) *core.Violation) *runResult {
	freshDisk()
	r := &runResult{crashedIn: -1, hitIn: -1}
	active := false
	cur := 0
	n := 0
	ords := map[string]int{}
	vos.SetHook(func(s vos.StepInfo) error {
		if !active {
			return nil
		}
		n++
		ords[s.Op]++
		r.steps = append(r.steps, stepRec{op: cur, info: s, ord: ords[s.Op]})
		if n == k {
			r.hitIn = cur
			switch mode {
			case "crash":
				panic(vos.Crash{Step: s.N})
			case "fault":
				return errInjected
			}
		}
		return nil
	})
	defer func() {
		vos.Revive()
		vos.SetHook(nil)
	}()
	model := map[string]*token.Stateful{}
	for j, o := range h.ops {
		cur = j
		ords = map[string]int{}
		before := cloneModel(model)
		nBefore := n
		var ack string
		func() {
			defer func() {
				active = false
				if p := recover(); p != nil {
					if _, ok := p.(vos.Crash); ok {
						ack = "crash"
						r.crashedIn = j
						return
					}
					ack = "panic:" + fmt.Sprint(p)
				}
			}()
			active = true
			ack = runHop(o, model)
		}()
		r.acks = append(r.acks, ack)
		if ack == "crash" {
			// the model of the interrupted operation, had it completed
			r.models = append(r.models, model)
			return r
		}
		if ack != "" {
			model = before
		}
		r.models = append(r.models, cloneModel(model))
		faulted := mode == "fault" && nBefore < k && k <= n
		if check != nil {
			if v := check(r, j, o, faulted, before); v != nil {
				r.viol = v
				return r
			}
			if r.stop {
				return r
			}
		}
	}
	return r
}

// runHop performs one history operation through the library the way a client
// does (Get for the tag, then the conditional call) and applies its effect to
// model; the returned class is "" when the operation was acknowledged.
func runHop(o hop, model map[string]*token.Stateful) string {
	switch o.K {
	case "create":
		exp := vtime.Now().Add(time.Hour)
		if o.A == "-8d" {
			exp = vtime.Now().Add(-8 * 24 * time.Hour)
		}
		t := mkToken(o.T, permsA, exp)
		_, err := token.Update(t.Clone(), "")
		if err == nil {
			model[o.T] = t
		}
		return errClass(err)
	case "update":
		cur, tag, err := token.Get(o.T)
		if err != nil && errClass(err) != "notexist" {
			return errClass(err)
		}
		exp := vtime.Now().Add(time.Hour)
		var n *token.Stateful
		if cur != nil {
			n = cur.Clone()
			n.Permissions = togglePerms(cur.Permissions)
			n.Expires = &exp
		} else {
			n = mkToken(o.T, permsB, exp)
			tag = ""
		}
		_, err = token.Update(n.Clone(), tag)
		if err == nil {
			model[o.T] = n
		}
		return errClass(err)
	case "stale":
		n := mkToken(o.T, permsC, vtime.Now().Add(time.Hour))
		_, err := token.Update(n.Clone(), bogusTag)
		if err == nil {
			model[o.T] = n
		}
		return errClass(err)
	case "delete":
		_, tag, err := token.Get(o.T)
		if err != nil {
			return errClass(err)
		}
		err = token.Delete(o.T, tag)
		if err == nil {
			delete(model, o.T)
		}
		return errClass(err)
	case "expire":
		// the sweep is applied to the model first: if Expire is interrupted
		// the caller decides which of before/after applies
		cutoff := vtime.Now().Add(-7 * 24 * time.Hour)
		for n, t := range model {
			if t.Expires != nil && t.Expires.Before(cutoff) {
				delete(model, n)
			}
		}
		return errClass(token.Expire())
	case "tick":
		if o.A == "8d" {
			vtime.Advance(8 * 24 * time.Hour)
		} else {
			vtime.Advance(time.Hour)
		}
		return ""
	case "extadd":
		lines, _ := readLines(tokenFile())
		t := mkToken("X3", permsA, vtime.Now().Add(time.Hour))
		writeLines(tokenFile(), append(lines, lineFor(t)))
		model["X3"] = t
		return ""
	}
	panic("unknown history op " + o.K)
}

func sameToks(v view, m map[string]*token.Stateful) bool {
	if v.err != "" {
		return false
	}
	if len(v.toks) != len(m) {
		return false
	}
	for n, t := range m {
		if v.toks[n] != norm(t, false) {
			return false
		}
	}
	return true
}

func modelString(m map[string]*token.Stateful) string {
	return modelView(m, false).String()
}

// expectedAck is what the sequential semantics demand when no fault and no
// crash interferes.
func expectedAck(o hop, before map[string]*token.Stateful) string {
	_, exists := before[o.T]
	switch o.K {
	case "create":
		if exists {
			return "mismatch"
		}
	case "stale":
		return "mismatch"
	case "delete":
		if !exists {
			return "notexist"
		}
	}
	return ""
}

func stepLabel(s stepRec) string {
	l := s.info.Op
	if s.info.Arg != "" && (s.info.Op == "openfile") {
		l += "-" + s.info.Arg
	}
	if s.ord > 1 {
		l += fmt.Sprint(s.ord)
	}
	return l
}

// dryRun executes the history without interference, checks it against the
// sequential semantics and returns the step list.
func dryRun(h history) *runResult {
	return runHistory(h, "", 0, func(r *runResult, j int, o hop, _ bool, before map[string]*token.Stateful) *core.Violation {
		if want := expectedAck(o, before); r.acks[j] != want {
			return viol("history/wrong-result/"+o.K, fmt.Sprintf("history %s: %s answered %q, expected %q", h.name, o, r.acks[j], want))
		}
		fresh := freshView(tokenFile())
		if !sameToks(fresh, r.models[j]) {
			return viol("fresh-load-differs/after-"+o.K, fmt.Sprintf("history %s after %s: a freshly started server reads %s, acknowledged operations give %s", h.name, o, fresh, modelString(r.models[j])))
		}
		run, lerr := runningView(watchNames, []string{"g", "h"})
		if lerr != "" || !sameView(run, fresh) {
			return viol("fresh-load-differs/after-"+o.K, fmt.Sprintf("history %s after %s: running server honours %s, a freshly started server reads %s %s", h.name, o, run, fresh, lerr))
		}
		return nil
	})
}

// ---------------------------------------------------------------------------
// C: crash enumeration

var watchNames = []string{"T1", "T2", "T3", "X3", "T9"}

// crashOne runs h with a process crash before vos step k (variant "before")
// or after it (variant "after", implemented as before step k+1: no
// file-system operation lies between the two points) and evaluates the
// recovery oracle.
func crashOne(h history, dry *runResult, k int, variant string) (outcome string, sample any, v *core.Violation, temps int) {
	N := len(dry.steps)
	kk := k
	if variant == "after" {
		kk = k + 1
	}
	r := runHistory(h, "crash", kk, nil)
	label := "complete"
	if k <= N {
		s := dry.steps[k-1]
		label = fmt.Sprintf("%s-%s-%s", h.ops[s.op].K, variant, stepLabel(s))
	}
	recovered := freshView(tokenFile())
	// allowed: the set after the last acknowledged operation, or (crash
	// inside an unacknowledged one) the set after it
	allowed := []map[string]*token.Stateful{}
	if r.crashedIn >= 0 {
		lastAck := map[string]*token.Stateful{}
		if r.crashedIn > 0 {
			lastAck = dry.models[r.crashedIn-1]
		}
		allowed = append(allowed, lastAck, dry.models[r.crashedIn])
	} else {
		allowed = append(allowed, dry.models[len(dry.models)-1])
	}
	which := -1
	for i, m := range allowed {
		if sameToks(recovered, m) {
			which = i
			break
		}
	}
	temps = leftoverTemps()
	outcome = fmt.Sprintf("crashed-in-op%d:allowed%d:%s:temps%d", r.crashedIn, which, recovered, temps)
	if r.crashedIn >= 0 && temps > 0 {
		sample = map[string]any{"history": h.name, "crash": label, "recovered": recovered.String(), "leftover_temp_files": temps}
	}
	mk := func(rule, what string) *core.Violation {
		return &core.Violation{Signature: "C16/crash/" + rule + "/" + label, Sub: "crash/" + h.name,
			Replay: map[string]any{"crash_history": h.name, "k": k, "variant": variant, "label": label},
			What:   fmt.Sprintf("history %s, crash %s (vos step %d of %d): %s", h.name, label, kk, N, what)}
	}
	if recovered.err != "" {
		return outcome, sample, mk("partial-file", fmt.Sprintf("the token file cannot be loaded by a freshly started server (content %q)", fileBytes(tokenFile()))), temps
	}
	if which < 0 {
		var al []string
		for _, m := range allowed {
			al = append(al, modelString(m))
		}
		return outcome, sample, mk("neither-old-nor-new", fmt.Sprintf("a freshly started server reads %s; allowed: %s", recovered, strings.Join(al, " or "))), temps
	}
	// the restarted server serves exactly that set and keeps working
	token.VerifC16Reset()
	token.SetStatefulFilename(tokenFile())
	run, lerr := runningView(watchNames, []string{"g", "h"})
	if lerr != "" || !sameView(run, recovered) {
		return outcome, sample, mk("restart-differs", fmt.Sprintf("the restarted server honours %s but the file holds %s %s", run, recovered, lerr)), temps
	}
	want := cloneModel(allowed[which])
	delOne := func(n string) *core.Violation {
		_, tag, err := token.Get(n)
		if err == nil {
			err = token.Delete(n, tag)
		}
		if err != nil {
			return mk("restart-cannot-delete", fmt.Sprintf("the restarted server cannot delete token %s: %v", n, err))
		}
		delete(want, n)
		after := freshView(tokenFile())
		if after.err != "" || !sameToks(after, want) {
			return mk("restart-delete-not-durable", fmt.Sprintf("after restart, deleting %s leaves a file in which a freshly started server reads %s %s; expected %s (a leftover of the interrupted operation leaked into the rewrite)", n, after, after.err, modelString(want)))
		}
		if run, lerr := runningView(watchNames, []string{"g", "h"}); lerr != "" || !sameView(run, after) {
			return mk("restart-differs", fmt.Sprintf("after restart and the deletion of %s the running server honours %s but the file holds %s %s", n, run, after, lerr))
		}
		return nil
	}
	sorted := func() []string {
		var names []string
		for n := range want {
			names = append(names, n)
		}
		sort.Strings(names)
		return names
	}
	// the first rewrite after the restart makes the file shorter: whatever
	// the interrupted operation left behind must not leak into it
	if names := sorted(); len(names) > 0 {
		// (the token written last is the one a stale tail would bring back)
		if v := delOne(names[len(names)-1]); v != nil {
			return outcome, sample, v, temps
		}
	}
	t9 := mkToken("T9", permsA, vtime.Now().Add(time.Hour))
	if _, err := token.Update(t9.Clone(), ""); err != nil {
		return outcome, sample, mk("restart-cannot-create", fmt.Sprintf("the restarted server cannot create a token: %v", err)), temps
	}
	want["T9"] = t9
	if after := freshView(tokenFile()); !sameToks(after, want) {
		return outcome, sample, mk("restart-create-lost", fmt.Sprintf("after restart and one create the file holds %s, expected %s", after, modelString(want))), temps
	}
	// ... and keeps working until the file is empty
	for _, n := range sorted() {
		if v := delOne(n); v != nil {
			return outcome, sample, v, temps
		}
	}
	return outcome, sample, nil, temps
}

func runCrash(res *core.Result, shard, shards int) {
	for hi, h := range histories() {
		name := "crash/" + h.name
		if !core.Want(name) || hi%shards != shard%shards {
			continue
		}
		start := time.Now()
		dry := dryRun(h)
		if dry.viol != nil {
			dry.viol.Sub = name
			res.Violate(*dry.viol)
			continue
		}
		N := len(dry.steps)
		var outcomes core.Outcomes
		var execs int64
		var samples []any
		exhaustive := true
		temps := 0
		// k = N+1 never fires: the complete history
		for k := 1; k <= N+1 && exhaustive; k++ {
			for _, variant := range []string{"before", "after"} {
				if variant == "after" && k > N {
					continue
				}
				if !core.TimeLeft() {
					exhaustive = false
					break
				}
				out, sample, v, nt := crashOne(h, dry, k, variant)
				execs++
				outcomes.Add(out)
				if nt > 0 {
					temps++
				}
				if sample != nil && len(samples) < 2 {
					samples = append(samples, sample)
				}
				if v != nil {
					res.Violate(*v)
				}
			}
		}
		res.AddSub(core.Sub{
			Name: name, States: int64(N), Transitions: execs, Executions: execs, Outcomes: outcomes.N(),
			Exhaustive: exhaustive, Bound: fmt.Sprintf("%d operations, %d vos steps, crash before and after each", len(h.ops), N),
			Note:    fmt.Sprintf("%d post-crash directories contained a leftover temp file (never read as tokens)", temps),
			Samples: samples, WallS: time.Since(start).Seconds(),
		})
	}
}

// ---------------------------------------------------------------------------
// D: fault injection

// writeStep reports whether a vos operation belongs to the write path (the
// statement's mechanism is "roll back on write failure").
func writeStep(op string) bool {
	switch op {
	case "createtemp", "write", "close", "rename", "remove", "openfile", "mkdirall", "sync":
		return true
	}
	return false
}

type faultStats struct {
	expireDiverged, panics int
	panicAt                []string
}

// faultOne runs h with an I/O error injected at vos step k.
func faultOne(h history, dry *runResult, k int, st *faultStats) (*runResult, string) {
	s := dry.steps[k-1]
	label := fmt.Sprintf("%s-at-%s", h.ops[s.op].K, stepLabel(s))
	r := runHistory(h, "fault", k, func(r *runResult, j int, o hop, faulted bool, before map[string]*token.Stateful) *core.Violation {
		ack := r.acks[j]
		if strings.HasPrefix(ack, "panic:") {
			if !faulted {
				return viol("fault/panic-without-fault/"+o.K, fmt.Sprintf("history %s: %s panicked: %s", h.name, o, ack))
			}
			// a panic is an unacknowledged operation; whether the state is
			// intact is checked below
			st.panics++
			st.panicAt = append(st.panicAt, label+": "+strings.TrimPrefix(ack, "panic:"))
		} else if !faulted {
			if want := expectedAck(o, before); ack != want {
				return viol("fault/wrong-result-after-fault/"+o.K, fmt.Sprintf("history %s, fault %s: the later %s answered %q, expected %q", h.name, label, o, ack, want))
			}
		}
		fresh := freshView(tokenFile())
		run, lerr := runningView(watchNames, []string{"g", "h"})
		what := "acknowledged"
		if ack != "" {
			what = "refused (" + ack + ")"
		}
		if faulted && o.K == "expire" && ack != "" {
			// A failed sweep concerns only tokens expired for a week: the
			// statement speaks about the tokens the server honours
			// (authorises); compare at that level and count the rest.
			if lerr != "" || !sameView(run, fresh) {
				// not followed further: the rest of the history would only
				// re-observe the same divergence
				st.expireDiverged++
				r.stop = true
			}
			for n, ok := range run.ok {
				if ok != fresh.ok[n] {
					return viol("fault/failed-expire-authorisation-differs", fmt.Sprintf("history %s, fault %s: after the failed Expire token %s authorises on the running server=%v, on a fresh one=%v", h.name, label, n, ok, fresh.ok[n]))
				}
			}
			for n, ok := range fresh.ok {
				if ok && !run.ok[n] {
					return viol("fault/failed-expire-authorisation-differs", fmt.Sprintf("history %s, fault %s: after the failed Expire token %s authorises only on a fresh server", h.name, label, n))
				}
			}
			return nil
		}
		rule := "refused-op-changed-state"
		if ack == "" {
			rule = "acknowledged-not-reflected"
		}
		if lerr != "" || !sameView(run, fresh) {
			return viol("fault/"+rule+"/running-vs-fresh/"+label,
				fmt.Sprintf("history %s, injected error at %s: %s was %s; the running server honours %s but a freshly started server reads %s %s", h.name, label, o, what, run, fresh, lerr))
		}
		if !sameToks(fresh, r.models[j]) {
			return viol("fault/"+rule+"/file/"+label,
				fmt.Sprintf("history %s, injected error at %s: %s was %s; the file holds %s, expected %s", h.name, label, o, what, fresh, modelString(r.models[j])))
		}
		return nil
	})
	if r.viol != nil {
		r.viol.Sub = "fault/" + h.name
		r.viol.Replay = map[string]any{"fault_history": h.name, "k": k, "label": label}
	}
	return r, label
}

func runFault(res *core.Result, shard, shards int) {
	for hi, h := range histories() {
		name := "fault/" + h.name
		if !core.Want(name) || (hi+1)%shards != shard%shards {
			continue
		}
		start := time.Now()
		dry := dryRun(h)
		if dry.viol != nil {
			dry.viol.Sub = name
			res.Violate(*dry.viol)
			continue
		}
		N := len(dry.steps)
		var outcomes core.Outcomes
		var execs int64
		var samples []any
		exhaustive := true
		var st faultStats
		readFaults := 0
		for k := 1; k <= N; k++ {
			if !core.TimeLeft() {
				exhaustive = false
				break
			}
			r, label := faultOne(h, dry, k, &st)
			execs++
			if !writeStep(dry.steps[k-1].info.Op) {
				readFaults++
			}
			outcomes.Add(strings.Join(r.acks, ","))
			if len(samples) < 2 && r.hitIn >= 0 && r.hitIn < len(r.acks) && r.acks[r.hitIn] != "" {
				samples = append(samples, map[string]any{"history": h.name, "fault": label, "results": r.acks})
			}
			if r.viol != nil {
				res.Violate(*r.viol)
			}
		}
		note := fmt.Sprintf("%d faults on read steps (stat/open), %d on write steps", readFaults, int(execs)-readFaults)
		if st.expireDiverged > 0 {
			note += fmt.Sprintf("; OBSERVATION (outside the statement): after %d failed Expire calls Get/List of the running server omitted week-expired tokens still in the file (no authorisation difference)", st.expireDiverged)
		}
		if st.panics > 0 {
			note += fmt.Sprintf("; OBSERVATION (outside the statement): %d injected errors made the operation panic instead of returning an error (state intact afterwards): %s", st.panics, strings.Join(st.panicAt, "; "))
		}
		res.AddSub(core.Sub{
			Name: name, States: int64(N), Transitions: execs, Executions: execs, Outcomes: outcomes.N(),
			Exhaustive: exhaustive, Bound: fmt.Sprintf("%d operations, one injected error at each of %d vos steps", len(h.ops), N),
			Note: note, Samples: samples, WallS: time.Since(start).Seconds(),
		})
	}
}

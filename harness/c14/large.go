package main

import (
	"fmt"
	"net"

	"github.com/jech/galene/conn"
	"github.com/jech/galene/group"

	"verif/core"
	"verif/sig"
)

// Large groups.  A joining client is told about every existing member in one
// burst (joined, itself, N adds) that is queued before its loop handles
// anything, so the size of the group is the size of one batch of its action
// queue.  For every group size of a boundary set a real web client joins a
// group of N silent members, another real client joins after it, one silent
// member leaves, one is replaced; at every quiescent point the real clients'
// user lists (rebuilt with protocol.js semantics) must equal the membership.

type silent struct {
	id, user string
	perms    []string
}

func (c *silent) Group() *group.Group                { return nil }
func (c *silent) Addr() net.Addr                     { return nil }
func (c *silent) Id() string                         { return c.id }
func (c *silent) Username() string                   { return c.user }
func (c *silent) Init(u string, p []string)          { c.user, c.perms = u, p }
func (c *silent) Permissions() []string              { return c.perms }
func (c *silent) Data() map[string]interface{}       { return nil }
func (c *silent) Joined(name, kind string) error     { return nil }
func (c *silent) Kick(string, *string, string) error { return nil }
func (c *silent) RequestConns(group.Client, *group.Group, string) error {
	return nil
}
func (c *silent) PushConn(*group.Group, string, conn.Up, []conn.UpTrack, string) error {
	return nil
}
func (c *silent) PushClient(string, string, string, string, []string, map[string]interface{}) error {
	return nil
}

func largeSizes() []int {
	l := []int{1, 2, 3, 255, 256, 257, 1022, 1023, 1024, 1025, 2047, 2048, 2049}
	if !core.Quick() {
		l = append(l, 511, 512, 513, 4095, 4096, 4097, 8193)
	}
	return l
}

func largeOne(n int) (string, *core.Violation) {
	w := sig.NewWorld(map[string]string{"g": groupG, "h": groupH}, 2)
	defer w.Close()
	user, pw := "bob", "pb"
	var members []*silent
	for i := 0; i < n; i++ {
		c := &silent{id: fmt.Sprintf("m%05d", i)}
		if _, err := group.AddClient("g", c, group.ClientCredentials{Username: &user, Password: pw}); err != nil {
			return "", viol("HARNESS-FAULT", "silent member refused: "+err.Error())
		}
		members = append(members, c)
	}
	check := func(what string) *core.Violation {
		if p := w.Settle(nil); p != "" {
			return viol("panic/large-group", p)
		}
		if _, v := converged(w); v != nil {
			v.Signature += "/large-group"
			v.What = fmt.Sprintf("group of %d members, %s: %s", n, what, v.What)
			return v
		}
		return nil
	}
	steps := []struct {
		what string
		f    func()
	}{
		{"after a web client joined", func() { w.Send(0, sig.Join("g", "alice", "pa")) }},
		{"after a second web client joined", func() { w.Send(1, sig.Join("g", "carol", "pc")) }},
		{"after the oldest member left", func() { group.DelClient(members[0]) }},
		{"after a member was replaced by a new one", func() {
			group.DelClient(members[n-1])
			c := &silent{id: "late"}
			group.AddClient("g", c, group.ClientCredentials{Username: &user, Password: pw})
		}},
		{"after the first web client changed its data", func() {
			w.Send(0, sig.Msg{"type": "useraction", "kind": "setdata", "source": "c0", "username": "alice", "dest": "c0", "value": map[string]any{"k": "v"}})
		}},
	}
	for _, st := range steps {
		if n == 1 && st.what == "after a member was replaced by a new one" {
			continue
		}
		st.f()
		if v := check(st.what); v != nil {
			return "", v
		}
	}
	return fmt.Sprint(len(w.Clients[0].View), len(w.Clients[1].View)), nil
}

func runLarge(res *core.Result, shard, shards int) {
	if !core.Want("views/large-group") {
		return
	}
	sub := core.Sub{Name: "views/large-group", Exhaustive: true}
	var outc core.Outcomes
	for i, n := range largeSizes() {
		if i%shards != shard {
			continue
		}
		if !core.TimeLeft() {
			sub.Exhaustive = false
			continue
		}
		sub.Executions++
		sub.Transitions += 5
		out, v := largeOne(n)
		if v != nil {
			v.Sub = sub.Name
			v.Replay = map[string]any{"large": n}
			res.Violate(*v)
			continue
		}
		outc.Add(out)
	}
	sub.States, sub.Outcomes = sub.Executions, outc.N()
	sub.Bound = fmt.Sprintf("%d group sizes x the history join, join, leave, replace, setdata", len(largeSizes()))
	res.AddSub(sub)
}

// C14 — every member's view of the user list converges to the true
// membership.
//
// Engine D: BFS over join/leave/disconnect/kick/op/unop/present/unpresent/
// setdata by three clients in two groups.  A message transition handles the
// message and (unless it is a "lazy" variant) lets every client handle its
// queued actions; detached broadcasts are separate task transitions, so a
// `change` can be delivered after the `delete` of the same user.  Each
// client's view is rebuilt from the user/joined messages it was written with
// the semantics of static/protocol.js and compared at quiescence with
// Group.GetClients.
package main

import (
	"encoding/json"
	"flag"
	"fmt"
	"os"
	"sort"
	"strings"
	"time"

	"github.com/jech/galene/group"
	"github.com/jech/galene/rtpconn"

	"verif/core"
	"verif/seqx"
	"verif/sig"
	"verif/vrt"
)

const groupG = `{"users":{"alice":{"password":"pa","permissions":"op"},"bob":{"password":"pb","permissions":"present"},"carol":{"password":"pc","permissions":"present"}}}`
const groupH = `{"users":{"alice":{"password":"pa","permissions":"op"},"bob":{"password":"pb","permissions":"present"},"carol":{"password":"pc","permissions":"op"}}}`

var users = []string{"alice", "bob", "carol"}
var pws = map[string]string{"alice": "pa", "bob": "pb", "carol": "pc"}

type op struct {
	C    int    `json:"c"`
	Kind string `json:"k"`
	Arg  string `json:"a,omitempty"`
	Lazy bool   `json:"lazy,omitempty"`
	N    int    `json:"n,omitempty"`
}

type world struct {
	w *sig.World
	// everIn[k][x]: x was a member of k's current group at some time since k joined
	everIn  []map[string]bool
	deletes []map[string]int // deletes written to k about x since k joined
	departs []map[string]int // departures of x from k's group since k joined
	in      []string         // reference: group each client is in ("" none)
	outcome string
	kinds   []string
	// lazyUsed: some message was handled while queues were non-empty; the
	// per-message bookkeeping below (which attributes every user event to the
	// membership at the time it is written) is then not exact, and only the
	// quiescence oracle and the panic oracle are evaluated.
	lazyUsed bool
	// a WHIP ingest session (the member type without a websocket): present
	// in group g between whip-join and whip-close
	whip   *rtpconn.WhipClient
	whipIn bool
}

const whipID = "whip1"

func fresh(kinds []string) func() seqx.World {
	return func() seqx.World {
		w := &world{w: sig.NewWorld(map[string]string{"g": groupG, "h": groupH}, 3), kinds: kinds}
		for range w.w.Clients {
			w.everIn = append(w.everIn, map[string]bool{})
			w.deletes = append(w.deletes, map[string]int{})
			w.departs = append(w.departs, map[string]int{})
			w.in = append(w.in, "")
		}
		return w
	}
}

func (w *world) Close() { w.w.Close() }

func (w *world) has(k string) bool {
	for _, x := range w.kinds {
		if x == k {
			return true
		}
	}
	return false
}

func (w *world) Ops() []seqx.Op {
	var ops []seqx.Op
	for i, c := range w.w.Clients {
		if c.V.Closed {
			continue
		}
		if c.V.Group() == nil {
			ops = append(ops, op{C: i, Kind: "join", Arg: "g"})
			if i > 0 {
				ops = append(ops, op{C: i, Kind: "join", Arg: "h"})
			}
			if w.has("lazy-membership") {
				ops = append(ops, op{C: i, Kind: "join", Arg: "g", Lazy: true})
			}
			continue
		}
		ops = append(ops, op{C: i, Kind: "leave"}, op{C: i, Kind: "disconnect"})
		if w.has("lazy-membership") {
			ops = append(ops, op{C: i, Kind: "leave", Lazy: true})
		}
		if w.has("setdata") {
			ops = append(ops, op{C: i, Kind: "setdata", Arg: "v"}, op{C: i, Kind: "setdata", Arg: ""})
		}
		// the member publishes a stream (so that losing 'present' has streams to close)
		if w.has("offer") && i == 1 && len(c.V.UpIDs()) == 0 {
			ops = append(ops, op{C: i, Kind: "offer"})
		}
		// moderation (refused by the server unless the sender is an operator)
		for t := range w.w.Clients {
			if t == i || w.w.Clients[t].V.Closed {
				continue
			}
			if i != 0 && !(i == 2 && w.in[2] == "h") {
				continue // only operators moderate (alice everywhere, carol in h)
			}
			tid := w.w.Clients[t].ID
			for _, k := range []string{"kick", "op", "unop", "present", "unpresent"} {
				if !w.has(k) {
					continue
				}
				ops = append(ops, op{C: i, Kind: k, Arg: tid})
				if w.has("lazy") {
					ops = append(ops, op{C: i, Kind: k, Arg: tid, Lazy: true})
				}
			}
		}
	}
	if w.has("whip") {
		if w.whip == nil && !w.whipIn {
			ops = append(ops, op{C: -1, Kind: "whip-join"})
		} else if w.whipIn {
			ops = append(ops, op{C: -1, Kind: "whip-close"})
		}
	}
	for k := range w.w.Tasks() {
		if k < 2 {
			ops = append(ops, op{C: -1, Kind: "task", N: k})
		}
	}
	if len(w.w.Signalled()) > 0 {
		ops = append(ops, op{C: -1, Kind: "settle"})
	}
	return ops
}

func viol(sig, what string) *core.Violation {
	return &core.Violation{Signature: "C14/" + sig, What: what}
}

func s(v any) string {
	x, _ := v.(string)
	return x
}

// observe processes the messages written by one transition.
func (w *world) observe(o sig.Obs) *core.Violation {
	if o.Panic != "" {
		return &core.Violation{Signature: "C14/panic/" + sig.PanicSite(o.Panic), What: "panic: " + o.Panic}
	}
	for k, ms := range o.New {
		for _, m := range ms {
			switch m["type"] {
			case "user":
				if w.lazyUsed {
					continue
				}
				id := s(m["id"])
				if w.w.Clients[k].Joined == "" {
					return viol("user-event-to-non-member", fmt.Sprintf("c%d, which has not joined, was told about user %s (%v)", k, id, m["kind"]))
				}
				if !w.everIn[k][id] {
					// is id in k's group right now?
					ok := false
					for _, x := range sig.Members(w.w.Clients[k].Joined) {
						if x == id {
							ok = true
						}
					}
					if !ok {
						return viol("event-from-other-group", fmt.Sprintf("c%d (group %s) received user %v about %s, which has not been a member of that group since c%d joined", k, w.w.Clients[k].Joined, m["kind"], id, k))
					}
					w.everIn[k][id] = true
				}
				if m["kind"] == "delete" {
					w.deletes[k][id]++
					if w.deletes[k][id] > w.departs[k][id] {
						return viol("duplicate-delete", fmt.Sprintf("c%d was told %d times that %s left, but it left %d times", k, w.deletes[k][id], id, w.departs[k][id]))
					}
				}
			}
		}
	}
	return nil
}

// sync records membership changes in the reference (who is where) after a
// transition, counting departures for the clients that stay.
func (w *world) sync() {
	for i, c := range w.w.Clients {
		now := ""
		if g := c.V.Group(); g != nil {
			// c.group is set on success only; confirm against the registry
			for _, id := range sig.Members(g.Name()) {
				if id == c.ID {
					now = g.Name()
				}
			}
		}
		if w.in[i] != now {
			if w.in[i] != "" {
				for k := range w.w.Clients {
					if k != i && w.in[k] == w.in[i] {
						w.departs[k][c.ID]++
					}
				}
			}
			w.in[i] = now
			// a new membership starts a new observation period
			w.everIn[i] = map[string]bool{}
			w.deletes[i] = map[string]int{}
			w.departs[i] = map[string]int{}
		}
		if now != "" {
			for k := range w.w.Clients {
				if w.in[k] == now {
					w.everIn[k][c.ID] = true
					w.everIn[i][w.w.Clients[k].ID] = true
				}
			}
		}
	}
}

func (w *world) step(o sig.Obs) *core.Violation {
	// departures must be known before the deletes they cause are judged
	w.sync()
	return w.observe(o)
}

func (w *world) Apply(x seqx.Op) *core.Violation {
	o := x.(op)
	w.outcome = o.Kind
	if o.Lazy {
		w.lazyUsed = true
	}
	var first sig.Obs
	switch o.Kind {
	case "task":
		if o.N >= len(w.w.Tasks()) {
			return nil
		}
		first = w.w.RunTask(o.N)
	case "settle":
		// handled below
	case "whip-join":
		// what the WHIP endpoint does for POST /group/g/.whip
		var fault string
		first = w.w.Do(func() {
			g, err := group.Add("g", nil)
			if err != nil {
				fault = "group.Add: " + err.Error()
				return
			}
			wc := rtpconn.NewWhipClient(g, whipID, "", nil)
			u := "bob"
			if _, err := group.AddClient("g", wc, group.ClientCredentials{Username: &u, Password: pws[u]}); err != nil {
				fault = "WHIP join refused: " + err.Error()
				return
			}
			w.whip, w.whipIn = wc, true
		})
		if fault != "" {
			return &core.Violation{Signature: "HARNESS-FAULT", What: fault}
		}
		for k := range w.w.Clients {
			if w.in[k] == "g" {
				w.everIn[k][whipID] = true
			}
		}
	case "whip-close":
		// DELETE on the WHIP resource, ICE failure, kick: all end in Close
		for k := range w.w.Clients {
			if w.in[k] == "g" {
				w.departs[k][whipID]++
			}
		}
		wc := w.whip
		w.whipIn = false
		first = w.w.Do(func() { wc.Close() })
	case "disconnect":
		first = w.w.Disconnect(o.C)
	default:
		c := w.w.Clients[o.C]
		u := users[o.C]
		var m sig.Msg
		switch o.Kind {
		case "join":
			m = sig.Join(o.Arg, u, pws[u])
		case "leave":
			g := ""
			if c.V.Group() != nil {
				g = c.V.Group().Name()
			}
			m = sig.Msg{"type": "join", "kind": "leave", "group": g}
		case "offer":
			m = sig.Msg{"type": "offer", "id": "s1", "label": "camera", "source": c.ID, "username": u, "sdp": sig.OfferSDP("a")}
		case "setdata":
			var v any
			if o.Arg != "" {
				v = o.Arg
			}
			m = sig.Msg{"type": "useraction", "kind": "setdata", "source": c.ID, "username": u, "dest": c.ID, "value": map[string]any{"k": v}}
		default:
			m = sig.Msg{"type": "useraction", "kind": o.Kind, "source": c.ID, "username": u, "dest": o.Arg, "value": "bye"}
		}
		first = w.w.Send(o.C, m)
	}
	if v := w.step(first); v != nil {
		return v
	}
	if !o.Lazy {
		var sv *core.Violation
		p := w.settleDrains(func(so sig.Obs) {
			if sv == nil {
				sv = w.step(so)
			}
		})
		if p != "" {
			return &core.Violation{Signature: "C14/panic/" + sig.PanicSite(p), What: "panic: " + p}
		}
		if sv != nil {
			return sv
		}
	}
	if w.w.Quiescent() {
		return w.quiescence()
	}
	return nil
}

// settleDrains lets every signalled client handle its queue until none is
// signalled (tasks are NOT run: they are separate transitions).
func (w *world) settleDrains(f func(sig.Obs)) string {
	for n := 0; n < 200 && !w.w.Dead; n++ {
		s := w.w.Signalled()
		if len(s) == 0 {
			return ""
		}
		o := w.w.Drain(s[0])
		f(o)
		if o.Panic != "" {
			return o.Panic
		}
	}
	return ""
}

func (w *world) quiescence() *core.Violation {
	// reference membership of the WHIP session comes from the history, not
	// from the group's own table
	if w.has("whip") {
		in := false
		for _, id := range sig.Members("g") {
			in = in || id == whipID
		}
		if in && !w.whipIn {
			return viol("departed-member-still-listed/whip", "the WHIP session was closed but the group still lists it as a member (later joiners are told about it, nobody is told that it left)")
		}
		if !in && w.whipIn {
			return viol("member-missing/whip", "the WHIP session joined but the group does not list it")
		}
	}
	for k, c := range w.w.Clients {
		if c.V.Closed || w.in[k] == "" {
			continue
		}
		g := group.Get(w.in[k])
		want := map[string]sig.UserView{}
		for _, m := range g.GetClients(nil) {
			perms := append([]string(nil), m.Permissions()...)
			sort.Strings(perms)
			d, _ := json.Marshal(m.Data())
			if m.Data() == nil || len(m.Data()) == 0 {
				d = []byte("{}")
			}
			want[m.Id()] = sig.UserView{Username: m.Username(), Permissions: perms, Data: string(d)}
		}
		for id, v := range c.View {
			t, ok := want[id]
			if !ok {
				return viol("ghost-user", fmt.Sprintf("at quiescence c%d's user list contains %s (%s), which is not a member of %s", k, id, v.Username, w.in[k]))
			}
			if t.Username != v.Username {
				return viol("view-username-differs", fmt.Sprintf("c%d sees %s as %q, actual username %q", k, id, v.Username, t.Username))
			}
			if fmt.Sprint(t.Permissions) != fmt.Sprint(v.Permissions) {
				return viol("view-permissions-differ", fmt.Sprintf("at quiescence c%d sees %s with permissions %v, actual %v", k, id, v.Permissions, t.Permissions))
			}
			if t.Data != v.Data && !(t.Data == "{}" && v.Data == "null") {
				return viol("view-data-differs", fmt.Sprintf("at quiescence c%d sees %s with data %s, actual %s", k, id, v.Data, t.Data))
			}
		}
		for id := range want {
			if _, ok := c.View[id]; !ok {
				return viol("member-missing-from-view", fmt.Sprintf("at quiescence c%d's user list lacks member %s of %s", k, id, w.in[k]))
			}
		}
	}
	return nil
}

func (w *world) Canon() string {
	var b strings.Builder
	b.WriteString(w.w.Canon())
	b.WriteString("\n")
	b.WriteString(w.w.ViewsCanon())
	for k := range w.w.Clients {
		fmt.Fprintf(&b, "|%v%v", keys(w.deletes[k]), keys(w.departs[k]))
	}
	fmt.Fprintf(&b, "|lazy=%v|whip=%v", w.lazyUsed, w.whipIn)
	return b.String()
}

func keys(m map[string]int) string {
	var s []string
	for k, v := range m {
		s = append(s, fmt.Sprintf("%s:%d", k, v))
	}
	sort.Strings(s)
	return strings.Join(s, ",")
}

func (w *world) Outcome() string { return w.outcome }

var alphabets = map[string][]string{
	"membership": {"kick", "lazy-membership"},
	"moderation": {"kick", "op", "unop", "present", "unpresent", "lazy"},
	"data":       {"setdata", "unpresent", "lazy", "lazy-membership"},
	"whip":       {"kick", "whip"},
	"publishing": {"offer", "present", "unpresent", "op", "lazy"},
}

func cfg(a string) seqx.Config {
	d := map[string]int{"membership": core.Pick(6, 8), "moderation": core.Pick(5, 6), "data": core.Pick(5, 7), "whip": core.Pick(5, 7), "publishing": core.Pick(5, 6)}[a]
	return seqx.Config{Name: "views/" + a, Fresh: fresh(alphabets[a]), MaxDepth: d, Parallel: 1}
}

// converged compares every member's view with the actual membership.
func converged(w *sig.World) (string, *core.Violation) {
	out := ""
	for k, c := range w.Clients {
		if c.V.Closed || c.V.Group() == nil {
			continue
		}
		g := c.V.Group()
		isMember := false
		want := map[string]sig.UserView{}
		for _, m := range g.GetClients(nil) {
			if m.Id() == c.ID {
				isMember = true
			}
			perms := append([]string(nil), m.Permissions()...)
			sort.Strings(perms)
			want[m.Id()] = sig.UserView{Username: m.Username(), Permissions: perms}
		}
		if !isMember {
			continue
		}
		for id, v := range c.View {
			t, ok := want[id]
			if !ok {
				return "", viol("race/ghost-user", fmt.Sprintf("at quiescence c%d's user list contains %s (%s), which is not a member of %s", k, id, v.Username, g.Name()))
			}
			if fmt.Sprint(t.Permissions) != fmt.Sprint(v.Permissions) {
				return "", viol("race/view-permissions-differ", fmt.Sprintf("at quiescence c%d sees %s with permissions %v, actual %v", k, id, v.Permissions, t.Permissions))
			}
		}
		for id := range want {
			if _, ok := c.View[id]; !ok {
				return "", viol("race/member-missing-from-view", fmt.Sprintf("at quiescence c%d's user list lacks member %s of %s", k, id, g.Name()))
			}
		}
		out += fmt.Sprintf("c%d:%d;", k, len(c.View))
	}
	return out, nil
}

func racePrograms() []sig.RaceProgram {
	groups := map[string]string{"g": groupG, "h": groupH}
	drain := func(w *sig.World, i int) {
		for n := 0; n < 20; n++ {
			o := w.Drain(i)
			if !w.Clients[i].V.Signalled() || o.Panic != "" {
				return
			}
		}
	}
	two := func(w *sig.World) {
		w.Send(0, sig.Join("g", "alice", "pa"))
		w.Send(1, sig.Join("g", "bob", "pb"))
	}
	ua := func(kind, dest string) sig.Msg {
		return sig.Msg{"type": "useraction", "kind": kind, "source": "c0", "username": "alice", "dest": dest, "value": "x"}
	}
	leave := sig.Msg{"type": "join", "kind": "leave", "group": "g"}
	mk := func(name string, setup func(*sig.World), names []string, ts ...func(w *sig.World)) sig.RaceProgram {
		return sig.RaceProgram{Name: name, Groups: groups, Clients: 3, Setup: setup, MaxPreempt: core.Pick(2, 3),
			Names: names, Threads: ts, Final: converged}
	}
	ps := []sig.RaceProgram{
		mk("join-vs-leave", two, []string{"c2:join", "c1:leave"},
			func(w *sig.World) { w.Send(2, sig.Join("g", "carol", "pc")); drain(w, 2) },
			func(w *sig.World) { w.Send(1, leave) }),
		// a member leaves and rejoins the same group on one connection without
		// its loop getting to its queue in between, while another client joins and leaves
		mk("leave+rejoin-vs-join+leave", two, []string{"c1:leave,join", "c2:join,leave"},
			func(w *sig.World) { w.Send(1, leave); w.Send(1, sig.Join("g", "bob", "pb")) },
			func(w *sig.World) { w.Send(2, sig.Join("g", "carol", "pc")); w.Send(2, leave) }),
		// the same with the second halves as threads of their own that wait
		// for their turn (a wait is not a preemption): c2 leaves once c1 is
		// out, c1 rejoins once c2 has left; c1's loop never runs in between
		mk("leave-vs-join-then-leave-then-rejoin", two, []string{"c1:leave", "c2:join", "c2:leave(after c1 is out)", "c1:rejoin(after c2 left)"},
			func(w *sig.World) { w.Send(1, leave) },
			func(w *sig.World) { w.Send(2, sig.Join("g", "carol", "pc")) },
			func(w *sig.World) {
				vrt.WaitUntil("c1 out, c2 in", func() bool { return w.Clients[1].V.Group() == nil && w.Clients[2].V.Group() != nil })
				w.Send(2, leave)
				w.Tick = 777 // c2 has been in and is out again
			},
			func(w *sig.World) {
				vrt.WaitUntil("c1 out, c2 gone again", func() bool {
					return w.Clients[1].V.Group() == nil && w.Tick == 777
				})
				w.Send(1, sig.Join("g", "bob", "pb"))
			}),
		mk("join-vs-disconnect-vs-drain", two, []string{"c2:join", "c1:disconnect", "c0:drain"},
			func(w *sig.World) { w.Send(2, sig.Join("g", "carol", "pc")); drain(w, 2) },
			func(w *sig.World) { w.Disconnect(1) },
			func(w *sig.World) { drain(w, 0) }),
		mk("join-vs-join", func(w *sig.World) { w.Send(0, sig.Join("g", "alice", "pa")) }, []string{"c1:join", "c2:join"},
			func(w *sig.World) { w.Send(1, sig.Join("g", "bob", "pb")); drain(w, 1) },
			func(w *sig.World) { w.Send(2, sig.Join("g", "carol", "pc")); drain(w, 2) }),
		mk("unpresent-vs-leave", two, []string{"c0:unpresent c1", "c1:drain+leave"},
			func(w *sig.World) { w.Send(0, ua("unpresent", "c1")) },
			func(w *sig.World) { drain(w, 1); w.Send(1, leave) }),
		mk("op-vs-unop-vs-join", two, []string{"c0:op,unop c1", "c1:drain", "c2:join"},
			func(w *sig.World) { w.Send(0, ua("op", "c1")); w.Send(0, ua("unop", "c1")) },
			func(w *sig.World) { drain(w, 1); drain(w, 1); drain(w, 1) },
			func(w *sig.World) { w.Send(2, sig.Join("g", "carol", "pc")); drain(w, 2) }),
		mk("kick-vs-join", two, []string{"c0:kick c1", "c1:drain", "c2:join"},
			func(w *sig.World) { w.Send(0, ua("kick", "c1")) },
			func(w *sig.World) { drain(w, 1) },
			func(w *sig.World) { w.Send(2, sig.Join("g", "carol", "pc")); drain(w, 2) }),
		mk("setdata-vs-leave-vs-join", two, []string{"c1:setdata+leave", "c2:join"},
			func(w *sig.World) {
				w.Send(1, sig.Msg{"type": "useraction", "kind": "setdata", "source": "c1", "username": "bob", "dest": "c1", "value": map[string]any{"k": "v"}})
				w.Send(1, leave)
			},
			func(w *sig.World) { w.Send(2, sig.Join("g", "carol", "pc")); drain(w, 2) }),
	}
	for i := range ps {
		if ps[i].Name == "leave-vs-join-then-leave-then-rejoin" {
			ps[i].MaxPreempt = core.Pick(1, 2) // four threads: the waits do the ordering
		}
	}
	return ps
}

func runRaces(res *core.Result, shard, shards int) {
	sig.Scheduled = true
	for _, p := range racePrograms() {
		sub := vrt.Explore(p.Program("C14/race"), res, shard, shards)
		sub.Name = "race/" + p.Name
		res.AddSub(sub)
	}
	sig.Cleanup()
}

func main() {
	t0 := time.Now()
	o := core.ParseFlags(80, 1200)
	res := &core.Result{Property: "C14", Tier: o.Tier,
		Technique: "explicit-state BFS over membership/moderation/setdata sequences and task (detached broadcast) firings through the real handlers; client views rebuilt with protocol.js semantics and compared with Group.GetClients at quiescence"}
	if o.Replay != "" {
		replay(o.Replay)
		return
	}
	if o.Shard >= 0 && flag.Arg(0) == "race" {
		runRaces(res, o.Shard, o.Shards)
		core.Finish(res, t0)
	}
	if o.Shard < 0 {
		core.RunShards(res, core.NCPU(), nil, nil)
		core.RunShards(res, 4, []string{"race"}, nil)
		res.Assume("each client's loop handles its queue to emptiness after a message unless the message is a lazy variant; detached goroutines fire at arbitrary later points (explicit task transitions)")
		core.Finish(res, t0)
	}
	job := 0
	agg := map[string]*core.Sub{}
	names := []string{"membership", "moderation", "data", "whip", "publishing"}
	for _, a := range names {
		w0 := fresh(alphabets[a])()
		first := w0.Ops()
		w0.(*world).Close()
		for _, f := range first {
			for _, f2 := range secondOps(a, f) {
				job++
				if job%o.Shards != o.Shard {
					continue
				}
				c := cfg(a)
				c.Prefix = []seqx.Op{f, f2}
				sub := seqx.Explore(c, res)
				if x := agg[a]; x == nil {
					sub.Name = "views/" + a
					agg[a] = &sub
				} else {
					x.States += sub.States
					x.Transitions += sub.Transitions
					x.Executions += sub.Executions
					x.Exhaustive = x.Exhaustive && sub.Exhaustive
					if sub.Outcomes > x.Outcomes {
						x.Outcomes = sub.Outcomes
					}
				}
			}
		}
	}
	for _, a := range names {
		if x := agg[a]; x != nil {
			res.AddSub(*x)
		}
	}
	runLarge(res, o.Shard, o.Shards)
	if o.Shard == 3%o.Shards && core.Want("views/announcements") {
		res.AddSub(seqx.Explore(announceConfig(), res))
	}
	sig.Cleanup()
	core.Finish(res, t0)
}

func secondOps(a string, f seqx.Op) []seqx.Op {
	w := fresh(alphabets[a])()
	defer w.(*world).Close()
	if v := w.Apply(f); v != nil {
		return []seqx.Op{f} // the violation is reported when the prefix is replayed
	}
	return w.Ops()
}

func replay(path string) {
	data, err := os.ReadFile(path)
	if err != nil {
		fmt.Println(err)
		os.Exit(2)
	}
	var a struct {
		Replay struct {
			Config string `json:"config"`
			Ops    []op   `json:"ops"`
			Large  int    `json:"large"`
		} `json:"replay"`
	}
	if err := json.Unmarshal(data, &a); err != nil {
		fmt.Println(err)
		os.Exit(2)
	}
	if a.Replay.Config == announceConfig().Name {
		var r struct {
			Replay struct {
				Ops []aop `json:"ops"`
			} `json:"replay"`
		}
		json.Unmarshal(data, &r)
		ops := make([]seqx.Op, len(r.Replay.Ops))
		for i, x := range r.Replay.Ops {
			ops[i] = x
		}
		v := seqx.Replay(announceConfig(), ops)
		sig.Cleanup()
		if v != nil {
			fmt.Printf("VIOLATION property=C14 replay=%s\n  %s\n", path, v.What)
			os.Exit(1)
		}
		fmt.Println("replay: no violation")
		return
	}
	if a.Replay.Large > 0 {
		_, v := largeOne(a.Replay.Large)
		sig.Cleanup()
		if v != nil {
			fmt.Printf("VIOLATION property=C14 replay=%s\n  %s\n", path, v.What)
			os.Exit(1)
		}
		fmt.Println("replay: no violation")
		return
	}
	ops := make([]seqx.Op, len(a.Replay.Ops))
	for i, x := range a.Replay.Ops {
		ops[i] = x
	}
	v := seqx.Replay(cfg(strings.TrimPrefix(a.Replay.Config, "views/")), ops)
	sig.Cleanup()
	if v != nil {
		fmt.Printf("VIOLATION property=C14 replay=%s\n  %s\n", path, v.What)
		os.Exit(1)
	}
	fmt.Println("replay: no violation")
}

package main

import (
	"fmt"
	"sort"
	"strings"

	"verif/core"
	"verif/seqx"
	"verif/sig"
)

// Announcements across a leave and a rejoin.  A permission change is applied
// by one queued action of the target and announced by a second one; the
// target's own loop is driven one batch at a time here, so that its leave and
// its rejoin can fall between the two (and between a command and its
// application).  The other members' loops keep up.  Whenever nothing is in
// flight every member's user list must equal the membership, permissions
// included.

type aop struct {
	Kind string `json:"k"`
}

type aworld struct {
	w       *sig.World
	in      bool
	outcome string
	// the target has handled queued actions while outside the group (the
	// server ignores them; kept in the canonical key because whatever they
	// leave behind in the client is not otherwise visible)
	ignored map[string]bool
}

func afresh() seqx.World {
	w := sig.NewWorld(map[string]string{"g": groupG, "h": groupH}, 3)
	for i, u := range users {
		w.Send(i, sig.Join("g", u, pws[u]))
		w.Settle(nil)
	}
	return &aworld{w: w, in: true, ignored: map[string]bool{}}
}

func (w *aworld) Close() { w.w.Close() }

func (w *aworld) Ops() []seqx.Op {
	if w.w.Clients[1].V.Closed {
		return nil
	}
	var ops []seqx.Op
	for _, k := range []string{"op", "unop", "present", "unpresent"} {
		ops = append(ops, aop{"cmd:" + k})
	}
	if w.in {
		ops = append(ops, aop{"leave"})
	} else {
		ops = append(ops, aop{"join"})
	}
	if w.w.Clients[1].V.Signalled() {
		ops = append(ops, aop{"batch"}, aop{"drain"})
	}
	return ops
}

func (w *aworld) Apply(x seqx.Op) *core.Violation {
	o := x.(aop)
	w.outcome = o.Kind
	var obs sig.Obs
	switch o.Kind {
	case "leave":
		obs = w.w.Send(1, sig.Msg{"type": "join", "kind": "leave", "group": "g"})
		w.in = false
	case "join":
		obs = w.w.Send(1, sig.Join("g", users[1], pws[users[1]]))
		w.in = true
	case "batch":
		w.noteIgnored()
		obs = w.w.Drain(1)
	case "drain":
		w.noteIgnored()
		for n := 0; n < 50 && w.w.Clients[1].V.Signalled() && !w.w.Clients[1].V.Closed; n++ {
			if obs = w.w.Drain(1); obs.Panic != "" {
				break
			}
		}
	default:
		obs = w.w.Send(0, sig.Msg{"type": "useraction", "kind": o.Kind[4:], "source": w.w.Clients[0].ID, "username": users[0], "dest": w.w.Clients[1].ID, "value": ""})
	}
	if obs.Panic != "" {
		return &core.Violation{Signature: "C14/panic/" + sig.PanicSite(obs.Panic), What: "panic: " + obs.Panic}
	}
	// the other members keep up
	for n := 0; n < 100; n++ {
		k := -1
		for _, i := range w.w.Signalled() {
			if i != 1 {
				k = i
				break
			}
		}
		if k < 0 {
			break
		}
		if so := w.w.Drain(k); so.Panic != "" {
			return &core.Violation{Signature: "C14/panic/" + sig.PanicSite(so.Panic), What: "panic: " + so.Panic}
		}
	}
	if w.w.Clients[1].V.Closed || w.w.Clients[1].V.Signalled() || len(w.w.Tasks()) > 0 {
		return nil
	}
	if _, v := converged(w.w); v != nil {
		v.Signature += "/after-leave-and-rejoin"
		return v
	}
	return nil
}

// noteIgnored records which kinds of action the target is about to handle
// while outside the group.
func (w *aworld) noteIgnored() {
	if w.in {
		return
	}
	for _, a := range w.w.Clients[1].V.QueuedActions() {
		if i := strings.Index(a, "("); i >= 0 {
			a = a[:i]
		}
		w.ignored[a] = true
	}
}

func (w *aworld) Canon() string {
	var ig []string
	for k := range w.ignored {
		ig = append(ig, k)
	}
	sort.Strings(ig)
	return fmt.Sprint(w.w.Canon(), "|", w.w.ViewsCanon(), "|", w.in, ig)
}
func (w *aworld) Outcome() string { return w.outcome }

func announceConfig() seqx.Config {
	return seqx.Config{Name: "views/announcements", Fresh: afresh, MaxDepth: core.Pick(7, 9), Parallel: 1}
}

// C13 — group and client lifecycle is free of data races, deadlocks and lost
// wakeups.
//
// Engine B: 2–3 controlled threads, each running 1–3 real lifecycle calls
// (AddClient, DelClient, SetLocked, reload, GetDescription, stats.GetGroups,
// WhipClient.Close, diskwriter Kick, Update, Shutdown) on one group with
// recording fake clients, real WhipClients and a real disk-writer client; every
// schedule with at most 2 (thorough: 3) preemptions is executed; the
// scheduler reports deadlocks, the vector-clock monitor reports
// unsynchronised accesses to the monitored Group fields, registry and
// configuration, and the final oracle compares the membership with the
// successful joins/leaves.  The action queue (unbounded.Channel) is explored
// with two producers and the clientLoop consumer pattern.
package main

import (
	"encoding/json"
	"fmt"
	"os"
	"path/filepath"
	"regexp"
	"sort"
	"strings"
	"time"

	"github.com/jech/galene/diskwriter"
	"github.com/jech/galene/group"
	"github.com/jech/galene/rtpconn"
	"github.com/jech/galene/stats"
	"github.com/jech/galene/unbounded"

	"verif/core"
	"verif/glife"
	"verif/sig"
	"verif/vrt"
	"verif/vtime"
)

const descPlain = `{"users":{"alice":{"password":"pa","permissions":"op"},"bob":{"password":"pb","permissions":"present"},"carol":{"password":"pc","permissions":"present"}}}`
const descPlain2 = `{"displayName":"changed","users":{"alice":{"password":"pa","permissions":"op"},"bob":{"password":"pb","permissions":"present"},"carol":{"password":"pc","permissions":"present"}}}`
const descAutolock = `{"autolock":true,"users":{"alice":{"password":"pa","permissions":"op"},"bob":{"password":"pb","permissions":"present"}}}`
const descAutokick = `{"autokick":true,"users":{"alice":{"password":"pa","permissions":"op"},"bob":{"password":"pb","permissions":"present"}}}`

type world struct {
	a, b, c *glife.Fake
	errs    map[string]error
	joined  map[string]bool // reference: successful joins minus leaves
}

func newWorld(desc string) *world {
	glife.Fresh(desc)
	return &world{
		a: &glife.Fake{ID: "a"}, b: &glife.Fake{ID: "b"}, c: &glife.Fake{ID: "c"},
		errs: map[string]error{}, joined: map[string]bool{},
	}
}

func (w *world) join(c *glife.Fake, user, pw string) {
	err := glife.Join(c, user, pw)
	w.errs[c.ID] = err
	if err == nil {
		w.joined[c.ID] = true
	}
}

func (w *world) leave(c *glife.Fake) {
	if c.G != nil {
		glife.Leave(c)
		delete(w.joined, c.ID)
	}
}

func (w *world) membership(extra ...string) (string, *core.Violation) {
	var want []string
	for id := range w.joined {
		want = append(want, id)
	}
	want = append(want, extra...)
	sort.Strings(want)
	got := glife.Members()
	if fmt.Sprint(got) != fmt.Sprint(want) {
		return "", &core.Violation{Signature: "C13/membership-inconsistent",
			What: fmt.Sprintf("members of the group are %v, but the successful joins minus leaves are %v", got, want)}
	}
	return fmt.Sprint(got), nil
}

type prog struct {
	name  string
	setup func() ([]func(), []string, func() (string, *core.Violation))
}

func programs() []prog {
	var ps []prog
	add := func(name string, f func() ([]func(), []string, func() (string, *core.Violation))) {
		ps = append(ps, prog{name, f})
	}

	add("join-vs-join", func() ([]func(), []string, func() (string, *core.Violation)) {
		w := newWorld(descPlain)
		return []func(){
				func() { w.join(w.a, "alice", "pa") },
				func() { w.join(w.b, "bob", "pb") },
			}, []string{"join(alice)", "join(bob)"}, func() (string, *core.Violation) {
				return w.membership()
			}
	})
	add("join-vs-leave-vs-join", func() ([]func(), []string, func() (string, *core.Violation)) {
		w := newWorld(descPlain)
		w.join(w.a, "alice", "pa")
		return []func(){
				func() { w.leave(w.a) },
				func() { w.join(w.b, "bob", "pb") },
				func() { w.join(w.c, "carol", "pc") },
			}, []string{"leave(alice)", "join(bob)", "join(carol)"}, func() (string, *core.Violation) {
				return w.membership()
			}
	})
	add("join-vs-setlocked", func() ([]func(), []string, func() (string, *core.Violation)) {
		w := newWorld(descPlain)
		w.join(w.a, "alice", "pa")
		g := group.Get("g")
		return []func(){
				func() { w.join(w.b, "bob", "pb") },
				func() { g.SetLocked(true, "closed"); g.Locked() },
			}, []string{"join(bob)", "lock"}, func() (string, *core.Violation) {
				out, v := w.membership()
				return out + fmt.Sprint(w.errs["b"] == nil), v
			}
	})
	add("reload-vs-join", func() ([]func(), []string, func() (string, *core.Violation)) {
		w := newWorld(descPlain)
		w.join(w.a, "alice", "pa")
		glife.WriteGroup("g", descPlain2)
		return []func(){
				func() { group.Add("g", nil) },
				func() { w.join(w.b, "bob", "pb") },
			}, []string{"reload", "join(bob)"}, func() (string, *core.Violation) {
				return w.membership()
			}
	})
	add("reload-vs-getdescription", func() ([]func(), []string, func() (string, *core.Violation)) {
		w := newWorld(descPlain)
		w.join(w.a, "alice", "pa")
		glife.WriteGroup("g", descPlain2)
		var d1 *group.Description
		return []func(){
				func() { group.Add("g", nil) },
				func() { d1, _ = group.GetDescription("g"); group.GetSanitisedDescription("g") },
			}, []string{"reload", "api-get-description"}, func() (string, *core.Violation) {
				if d1 == nil {
					return "", &core.Violation{Signature: "C13/getdescription-failed", What: "GetDescription returned nil during a reload"}
				}
				return d1.DisplayName, nil
			}
	})
	add("stats-vs-join-vs-leave", func() ([]func(), []string, func() (string, *core.Violation)) {
		w := newWorld(descPlain)
		w.join(w.a, "alice", "pa")
		return []func(){
				func() { stats.GetGroups() },
				func() { w.join(w.b, "bob", "pb") },
				func() { w.leave(w.a) },
			}, []string{"stats", "join(bob)", "leave(alice)"}, func() (string, *core.Violation) {
				return w.membership()
			}
	})
	// two joiners replay the chat history at the same time while it holds
	// entries that have just become too old (a replay prunes them)
	add("history-replay-vs-history-replay", func() ([]func(), []string, func() (string, *core.Violation)) {
		newWorld(descPlain)
		g, _ := group.Add("g", nil)
		old := vtime.Now().Add(-100 * time.Hour)
		for i := 0; i < 3; i++ {
			g.AddToChatHistory(fmt.Sprint("old", i), "a", nil, old, "", "x")
		}
		for i := 0; i < 2; i++ {
			g.AddToChatHistory(fmt.Sprint("new", i), "a", nil, vtime.Now(), "", "y")
		}
		var got [2][]string
		replay := func(k int) func() {
			return func() {
				for _, e := range g.GetChatHistory() {
					got[k] = append(got[k], e.Id)
				}
			}
		}
		return []func(){replay(0), replay(1)}, []string{"replay-1", "replay-2"}, func() (string, *core.Violation) {
			for k := range got {
				if fmt.Sprint(got[k]) != "[new0 new1]" {
					return "", &core.Violation{Signature: "C13/history-corrupted-under-concurrency", What: fmt.Sprintf("replay %d returned %v, the live entries are [new0 new1]", k+1, got[k])}
				}
			}
			return "ok", nil
		}
	})
	add("status-vs-join-vs-leave", func() ([]func(), []string, func() (string, *core.Violation)) {
		w := newWorld(descPlain)
		w.join(w.a, "alice", "pa")
		g := group.Get("g")
		return []func(){
				func() { g.Status(true, nil); g.ClientCount(); group.GetPublic(nil) },
				func() { w.join(w.b, "bob", "pb") },
				func() { w.leave(w.a) },
			}, []string{"status", "join(bob)", "leave(alice)"}, func() (string, *core.Violation) {
				return w.membership()
			}
	})
	add("update-vs-join", func() ([]func(), []string, func() (string, *core.Violation)) {
		w := newWorld(descPlain)
		w.join(w.a, "alice", "pa")
		glife.WriteGroup("g", descPlain2)
		return []func(){
				func() { group.Update() },
				func() { w.join(w.b, "bob", "pb") },
			}, []string{"update", "join(bob)"}, func() (string, *core.Violation) {
				return w.membership()
			}
	})
	add("expiring-update-vs-join", func() ([]func(), []string, func() (string, *core.Violation)) {
		w := newWorld(descPlain)
		group.Add("g", nil)
		// the group has been idle for longer than the history age
		vtime.Advance(5 * time.Hour)
		return []func(){
				func() { group.Update() },
				func() { w.join(w.b, "bob", "pb") },
			}, []string{"update(expire)", "join(bob)"}, func() (string, *core.Violation) {
				if w.errs["b"] == nil {
					g := group.Get("g")
					if g == nil || g != w.b.G {
						return "", &core.Violation{Signature: "C13/joined-orphan-group",
							What: "a client joined successfully but its group is not (or no longer) the registered group of that name"}
					}
				}
				return fmt.Sprint(w.errs["b"] == nil, group.Get("g") != nil), nil
			}
	})
	// the description file of a group in memory has vanished: the reload
	// fails and the group is dropped from the table, while others walk the table
	add("vanished-description-vs-listing", func() ([]func(), []string, func() (string, *core.Violation)) {
		newWorld(descPlain)
		group.Add("g", nil)
		os.Remove(filepath.Join(glife.Dir(), "groups", "g.json"))
		return []func(){
				func() { group.Add("g", nil) },
				func() { group.GetSubGroups(""); group.GetPublic(nil); group.Delete("g") },
			}, []string{"reload(fails)", "listings+delete"}, func() (string, *core.Violation) {
				return fmt.Sprint(group.Get("g") != nil), nil
			}
	})
	add("vanished-description-vs-join", func() ([]func(), []string, func() (string, *core.Violation)) {
		w := newWorld(descPlain)
		w.join(w.a, "alice", "pa")
		os.Remove(filepath.Join(glife.Dir(), "groups", "g.json"))
		return []func(){
				func() { group.Update() },
				func() { w.join(w.b, "bob", "pb"); stats.GetGroups() },
			}, []string{"update(reload fails)", "join(bob)+stats"}, func() (string, *core.Violation) {
				return fmt.Sprint(w.errs["b"] == nil, group.Get("g") != nil), nil
			}
	})
	add("expiring-update-vs-listing", func() ([]func(), []string, func() (string, *core.Violation)) {
		newWorld(descPlain)
		group.Add("g", nil)
		vtime.Advance(5 * time.Hour)
		return []func(){
				func() { group.Update() },
				func() { group.GetSubGroups(""); group.GetPublic(nil); stats.GetGroups() },
			}, []string{"update(expire)", "listings"}, func() (string, *core.Violation) {
				return fmt.Sprint(group.Get("g") != nil), nil
			}
	})
	add("delete-vs-join", func() ([]func(), []string, func() (string, *core.Violation)) {
		w := newWorld(descPlain)
		group.Add("g", nil)
		return []func(){
				func() { group.Delete("g") },
				func() { w.join(w.b, "bob", "pb") },
			}, []string{"delete-group", "join(bob)"}, func() (string, *core.Violation) {
				// a join that succeeded must be visible through the registry
				if w.errs["b"] == nil {
					g := group.Get("g")
					if g == nil || g != w.b.G {
						return "", &core.Violation{Signature: "C13/joined-orphan-group",
							What: "a client joined successfully but its group is not (or no longer) the registered group of that name"}
					}
				}
				return fmt.Sprint(w.errs["b"] == nil, group.Get("g") != nil), nil
			}
	})
	add("whip-close-vs-join", func() ([]func(), []string, func() (string, *core.Violation)) {
		w := newWorld(descPlain)
		g, _ := group.Add("g", nil)
		wc := rtpconn.NewWhipClient(g, "w", "", nil)
		if _, err := group.AddClient("g", wc, glife.Creds("bob", "pb")); err != nil {
			panic(err)
		}
		return []func(){
				func() { wc.Close() },
				func() { w.join(w.a, "alice", "pa") },
			}, []string{"whip-close", "join(alice)"}, func() (string, *core.Violation) {
				return w.membership()
			}
	})
	add("whip-close-vs-leave", func() ([]func(), []string, func() (string, *core.Violation)) {
		w := newWorld(descPlain)
		g, _ := group.Add("g", nil)
		w.join(w.a, "alice", "pa")
		wc := rtpconn.NewWhipClient(g, "w", "", nil)
		if _, err := group.AddClient("g", wc, glife.Creds("bob", "pb")); err != nil {
			panic(err)
		}
		return []func(){
				func() { wc.Close() },
				func() { w.leave(w.a) },
				func() { wc.Permissions(); wc.Close() },
			}, []string{"whip-close", "leave(alice)", "whip-close-again"}, func() (string, *core.Violation) {
				return w.membership()
			}
	})
	add("disk-kick-vs-join", func() ([]func(), []string, func() (string, *core.Violation)) {
		w := newWorld(descPlain)
		g, _ := group.Add("g", nil)
		d, err := diskwriter.New(g)
		if err != nil {
			panic(err)
		}
		if _, err := group.AddClient("g", d, group.ClientCredentials{System: true}); err != nil {
			panic(err)
		}
		return []func(){
				func() { d.Kick("", nil, "stop") },
				func() { w.join(w.a, "alice", "pa") },
			}, []string{"recorder-kick", "join(alice)"}, func() (string, *core.Violation) {
				return w.membership()
			}
	})
	add("last-op-leaves-vs-join/autolock", func() ([]func(), []string, func() (string, *core.Violation)) {
		w := newWorld(descAutolock)
		w.join(w.a, "alice", "pa")
		group.Get("g").SetLocked(false, "")
		return []func(){
				func() { w.leave(w.a) },
				func() { w.join(w.b, "bob", "pb") },
			}, []string{"leave(last op)", "join(bob)"}, func() (string, *core.Violation) {
				out, v := w.membership()
				return out + fmt.Sprint(w.errs["b"] == nil), v
			}
	})
	add("last-op-leaves-vs-join/autokick", func() ([]func(), []string, func() (string, *core.Violation)) {
		w := newWorld(descAutokick)
		w.join(w.a, "alice", "pa")
		w.join(w.c, "bob", "pb")
		return []func(){
				func() { w.leave(w.a) },
				func() { w.join(w.b, "bob", "pb") },
			}, []string{"leave(last op)", "join(bob)"}, func() (string, *core.Violation) {
				return glife.Str(glife.Members()), nil
			}
	})
	// the last operator leaves an autokick group (the remaining members are
	// kicked by a goroutine that outlives the lock) while another operator joins
	add("last-op-leaves-vs-op-joins/autokick", func() ([]func(), []string, func() (string, *core.Violation)) {
		w := newWorld(descAutokick)
		w.join(w.a, "alice", "pa")
		w.join(w.c, "bob", "pb")
		return []func(){
				func() { w.leave(w.a) },
				func() { w.join(w.b, "alice", "pa") },
			}, []string{"leave(last op)", "join(another op)"}, func() (string, *core.Violation) {
				kicked := false
				for _, e := range w.b.Events {
					if e.Kind == "kick" {
						kicked = true
					}
				}
				// the joiner was an operator all along: whichever way the two
				// calls are ordered, it is not among "the members left without an operator"
				if w.errs["b"] == nil && kicked && w.a.G == nil {
					ops := 0
					for _, id := range glife.Members() {
						if id == "b" {
							ops++
						}
					}
					if ops > 0 {
						return "", &core.Violation{Signature: "C13/autokick/operator-kicked", What: "an operator that joined while the last operator was leaving was kicked for 'no operators in this group' although it is an operator itself"}
					}
				}
				return glife.Str(glife.Members()) + fmt.Sprint(kicked), nil
			}
	})
	add("shutdown-with-whip", func() ([]func(), []string, func() (string, *core.Violation)) {
		w := newWorld(descPlain)
		g, _ := group.Add("g", nil)
		w.join(w.a, "alice", "pa")
		wc := rtpconn.NewWhipClient(g, "w", "", nil)
		if _, err := group.AddClient("g", wc, glife.Creds("bob", "pb")); err != nil {
			panic(err)
		}
		return []func(){
				func() { group.Shutdown("server is shutting down") },
			}, []string{"shutdown"}, func() (string, *core.Violation) {
				return glife.Str(glife.Members()), nil
			}
	})
	add("shutdown-with-recorder", func() ([]func(), []string, func() (string, *core.Violation)) {
		newWorld(descPlain)
		g, _ := group.Add("g", nil)
		d, err := diskwriter.New(g)
		if err != nil {
			panic(err)
		}
		if _, err := group.AddClient("g", d, group.ClientCredentials{System: true}); err != nil {
			panic(err)
		}
		return []func(){
				func() { group.Shutdown("server is shutting down") },
			}, []string{"shutdown"}, func() (string, *core.Violation) {
				return glife.Str(glife.Members()), nil
			}
	})
	add("data-vs-status", func() ([]func(), []string, func() (string, *core.Violation)) {
		w := newWorld(descPlain)
		w.join(w.a, "alice", "pa")
		g := group.Get("g")
		return []func(){
				func() {
					g.UpdateData(map[string]interface{}{"k": "v"})
					g.AddToChatHistory("i", "a", nil, time.Time{}, "", "x")
				},
				func() { g.Data(); g.Status(true, nil); g.GetChatHistory(); g.ClearChatHistory("", "") },
				func() { group.GetPublic(nil); group.GetSubGroups("g"); g.ClientCount() },
			}, []string{"setdata+chat", "status+history", "public+subgroups"}, func() (string, *core.Violation) {
				return "", nil
			}
	})

	// the action queue
	add("queue/2-producers-1-consumer", func() ([]func(), []string, func() (string, *core.Violation)) {
		ch := unbounded.New[string]()
		var got []string
		prod := func(p string) func() {
			return func() {
				ch.Put(p + "1")
				ch.Put(p + "2")
			}
		}
		cons := func() {
			for len(got) < 4 {
				vrt.WaitUntil("<-actions.Ch", func() bool { return len(ch.Ch) > 0 })
				<-ch.Ch
				got = append(got, ch.Get()...)
			}
		}
		return []func(){prod("a"), prod("b"), cons}, []string{"producer-a", "producer-b", "consumer"}, func() (string, *core.Violation) {
			seen := map[string]int{}
			for _, x := range got {
				seen[x]++
			}
			for _, x := range []string{"a1", "a2", "b1", "b2"} {
				if seen[x] != 1 {
					return "", &core.Violation{Signature: "C13/queue/not-exactly-once", What: fmt.Sprintf("item %s was seen %d times by the consumer (%v)", x, seen[x], got)}
				}
			}
			idx := func(s string) int {
				for i, x := range got {
					if x == s {
						return i
					}
				}
				return -1
			}
			if idx("a1") > idx("a2") || idx("b1") > idx("b2") {
				return "", &core.Violation{Signature: "C13/queue/order", What: fmt.Sprintf("per-producer order not preserved: %v", got)}
			}
			return strings.Join(got, ","), nil
		}
	})
	add("queue/producer-vs-early-get", func() ([]func(), []string, func() (string, *core.Violation)) {
		ch := unbounded.New[string]()
		var got []string
		return []func(){
				func() { ch.Put("x1"); ch.Put("x2"); ch.Put("x3") },
				func() {
					// Get may be called at any time (documented); then the loop pattern
					got = append(got, ch.Get()...)
					for len(got) < 3 {
						vrt.WaitUntil("<-actions.Ch", func() bool { return len(ch.Ch) > 0 })
						<-ch.Ch
						got = append(got, ch.Get()...)
					}
				},
			}, []string{"producer", "consumer"}, func() (string, *core.Violation) {
				if strings.Join(got, ",") != "x1,x2,x3" {
					return "", &core.Violation{Signature: "C13/queue/order", What: fmt.Sprintf("consumer saw %v", got)}
				}
				return "ok", nil
			}
	})
	return ps
}

// burstSizes: the action queue with bursts of every boundary size.  The
// consumer is the client loop's pattern (wait for Ch, then Get, handle, go
// back to waiting); two bursts of n1 and n2 elements arrive, the second one
// either before or after the consumer has handled the first.  Every element
// must be seen exactly once, in order, and the consumer must never be left
// waiting on a silent Ch with elements still queued.
func burstSizes(res *core.Result) core.Sub {
	sub := core.Sub{Name: "queue/burst-sizes", Exhaustive: true}
	var outc core.Outcomes
	sizes := []int{0, 1, 2, 3}
	for k := 2; k <= core.Pick(17, 20); k++ {
		sizes = append(sizes, 1<<k-1, 1<<k, 1<<k+1)
	}
	for _, n1 := range sizes {
		for _, n2 := range sizes {
			if n1+n2 > 1<<core.Pick(17, 20)+2 {
				continue
			}
			for _, early := range []bool{false, true} {
				if !core.TimeLeft() {
					sub.Exhaustive = false
					continue
				}
				sub.Executions++
				ch := unbounded.New[int]()
				next, rounds := 0, 0
				bad := ""
				consume := func() {
					for len(ch.Ch) > 0 && bad == "" {
						<-ch.Ch
						rounds++
						for _, x := range ch.Get() {
							if x != next {
								bad = fmt.Sprintf("element %d was handed out where %d was due", x, next)
								break
							}
							next++
						}
					}
				}
				for i := 0; i < n1; i++ {
					ch.Put(i)
				}
				if !early {
					consume()
				}
				for i := n1; i < n1+n2; i++ {
					ch.Put(i)
				}
				consume()
				sub.Transitions += int64(n1 + n2 + rounds)
				if bad == "" && next != n1+n2 {
					bad = fmt.Sprintf("the consumer is waiting on a silent Ch after %d wake-ups with %d of %d elements never handed out", rounds, n1+n2-next, n1+n2)
				}
				if bad != "" {
					res.Violate(core.Violation{Signature: "C13/queue/lost-wakeup", Sub: sub.Name,
						What:   fmt.Sprintf("bursts of %d and %d elements (second burst before the first was handled: %v): %s", n1, n2, early, bad),
						Replay: map[string]any{"program": "queue/burst-sizes", "n1": n1, "n2": n2, "early": early}})
					return sub
				}
				outc.Add(fmt.Sprint(rounds))
			}
		}
	}
	sub.States, sub.Outcomes = sub.Executions, outc.N()
	sub.Bound = fmt.Sprintf("two bursts, each of every size in {0..3, 2^k-1, 2^k, 2^k+1 : k=2..%d}, second burst before or after the first is handled", core.Pick(17, 20))
	return sub
}

var reFunc = regexp.MustCompile(`\(([^()]+)\)`)

// classify builds line-independent signatures from the function names that
// the instrumentation attaches to lock and access sites.
func classify(name string) func(kind, info string) string {
	return func(kind, info string) string {
		switch kind {
		case "deadlock":
			var fs []string
			for _, m := range reFunc.FindAllStringSubmatch(info, -1) {
				fs = append(fs, m[1])
			}
			sort.Strings(fs)
			return "C13/deadlock/" + name + "/" + strings.Join(fs, "+")
		case "race":
			parts := strings.Split(info, "|")
			var fs []string
			for _, p := range parts[1:] {
				if m := reFunc.FindStringSubmatch(p); m != nil {
					fs = append(fs, m[1])
				} else {
					fs = append(fs, p)
				}
			}
			sort.Strings(fs)
			return "C13/race/" + strings.Join(fs, "~")
		case "panic":
			l := strings.SplitN(info, "\n", 2)[0]
			return "C13/panic/" + name + "/" + l
		}
		return ""
	}
}

func toProgram(p prog) vrt.Program {
	bound := core.Pick(3, 5)
	return vrt.Program{Name: p.name, Setup: p.setup, MaxPreempt: bound, Classify: classify(p.name), MaxSteps: 20000}
}

func main() {
	t0 := time.Now()
	o := core.ParseFlags(100, 1500)
	res := &core.Result{Property: "C13", Tier: o.Tier,
		Technique: "stateless schedule enumeration with iterative preemption bounding under a cooperative scheduler over the real group/whip/diskwriter/unbounded code; vector-clock happens-before race monitor on the monitored fields; deadlock = no enabled thread"}
	defer glife.Cleanup()
	if o.Replay != "" {
		replay(o.Replay)
		return
	}
	if o.Shard < 0 {
		core.RunShards(res, core.NCPU(), nil, nil)
		res.Assume("scheduling points: every Lock/Unlock of the instrumented packages' mutexes, atomic operations, file operations, channel operations of unbounded; monitored fields: Group.{clients,locked,description,history,timestamp,data}, the registry and configuration, unbounded.Channel.queue")
		res.Assume("clients other than WhipClient and the disk writer are recording fakes whose callbacks do not block")
		core.Finish(res, t0)
	}
	if o.Shard == 0 && core.Want("queue/burst-sizes") {
		res.AddSub(burstSizes(res))
	}
	// signalling-level program: the chat history under concurrent posting and
	// replay (real webClients; handlers interleave at lock and channel operations)
	if core.Want("history-replay-vs-post") {
		sig.Scheduled = true
		hp := sig.RaceProgram{Name: "history-replay-vs-post", Clients: 3, MaxPreempt: core.Pick(1, 2),
			Groups: map[string]string{"g": descPlain},
			Setup: func(w *sig.World) {
				w.Send(0, sig.Join("g", "alice", "pa"))
				w.Send(1, sig.Join("g", "bob", "pb"))
				for k := 0; k < 50; k++ {
					w.Send(1, sig.Msg{"type": "chat", "source": "c1", "username": "bob", "value": fmt.Sprintf("m%02d", k)})
				}
			},
			Names: []string{"c0:chat", "c2:join+replay"},
			Threads: []func(w *sig.World){
				func(w *sig.World) {
					w.Send(0, sig.Msg{"type": "chat", "source": "c0", "username": "alice", "value": "m50"})
				},
				func(w *sig.World) {
					w.Send(2, sig.Join("g", "carol", "pc"))
					for n := 0; n < 10 && w.Clients[2].V.Signalled(); n++ {
						w.Drain(2)
					}
				},
			},
			Final: func(w *sig.World) (string, *core.Violation) {
				prev := -1
				cnt := 0
				for _, m := range w.Clients[2].Out {
					if m["type"] != "chathistory" {
						continue
					}
					var n int
					v, _ := m["value"].(string)
					if _, err := fmt.Sscanf(v, "m%d", &n); err != nil || (prev >= 0 && n != prev+1) {
						return "", &core.Violation{Signature: "C13/history-corrupted-under-concurrency",
							What: fmt.Sprintf("the chat history replayed to a joiner while another member posted to the full history is corrupted (entry %q after m%02d): the history is read outside the group lock", v, prev)}
					}
					prev = n
					cnt++
				}
				return fmt.Sprint(cnt), nil
			}}
		sub := vrt.Explore(hp.Program("C13/signalling"), res, o.Shard, o.Shards)
		res.AddSub(sub)
	}
	// real web clients (rtpconn.webClient) against statistics and moderation:
	// the client lock c.mu and the group lock g.mu are taken in both packages
	if core.Want("web/") {
		sig.Scheduled = true
		offer := func(w *sig.World) {
			w.Send(1, sig.Msg{"type": "offer", "id": "s1", "label": "camera", "source": "c1", "username": "bob", "sdp": sig.OfferSDP("a")})
		}
		two := func(w *sig.World) {
			w.Send(0, sig.Join("g", "alice", "pa"))
			w.Send(1, sig.Join("g", "bob", "pb"))
		}
		drain := func(w *sig.World, i int) {
			for n := 0; n < 10 && w.Clients[i].V.Signalled(); n++ {
				w.Drain(i)
			}
		}
		none := func(w *sig.World) (string, *core.Violation) { return "", nil }
		for _, rp := range []sig.RaceProgram{
			{Name: "web/stats-vs-offer", Clients: 2, MaxPreempt: core.Pick(2, 3), Groups: map[string]string{"g": descPlain}, Setup: two,
				Names:   []string{"stats", "c1:offer"},
				Threads: []func(w *sig.World){func(w *sig.World) { stats.GetGroups() }, offer}, Final: none},
			{Name: "web/stats-vs-close-stream", Clients: 2, MaxPreempt: core.Pick(2, 3), Groups: map[string]string{"g": descPlain},
				Setup: func(w *sig.World) { two(w); offer(w) },
				Names: []string{"stats", "c1:close"},
				Threads: []func(w *sig.World){func(w *sig.World) { stats.GetGroups() },
					func(w *sig.World) { w.Send(1, sig.Msg{"type": "close", "id": "s1", "source": "c1"}) }}, Final: none},
			{Name: "web/kick-vs-offer", Clients: 2, MaxPreempt: core.Pick(2, 3), Groups: map[string]string{"g": descPlain}, Setup: two,
				Names: []string{"c0:kick c1", "c1:offer+drain"},
				Threads: []func(w *sig.World){
					func(w *sig.World) {
						w.Send(0, sig.Msg{"type": "useraction", "kind": "kick", "source": "c0", "username": "alice", "dest": "c1", "value": "bye"})
					},
					func(w *sig.World) { offer(w); drain(w, 1) }}, Final: none},
			// a join announces every member (their data is read under the group lock)
			// while a member opens a stream (client lock, then the group's API and member list)
			{Name: "web/join-vs-offer", Clients: 3, MaxPreempt: core.Pick(2, 3), Groups: map[string]string{"g": descPlain}, Setup: two,
				Names: []string{"c2:join", "c1:offer"},
				Threads: []func(w *sig.World){
					func(w *sig.World) { w.Send(2, sig.Join("g", "carol", "pc")) }, offer}, Final: none},
			{Name: "web/join-vs-setdata", Clients: 3, MaxPreempt: core.Pick(2, 3), Groups: map[string]string{"g": descPlain}, Setup: two,
				Names: []string{"c2:join", "c1:setdata+offer"},
				Threads: []func(w *sig.World){
					func(w *sig.World) { w.Send(2, sig.Join("g", "carol", "pc")) },
					func(w *sig.World) {
						w.Send(1, sig.Msg{"type": "useraction", "kind": "setdata", "source": "c1", "username": "bob", "dest": "c1", "value": map[string]any{"k": "v"}})
						offer(w)
					}}, Final: none},
			// a kick queued for a member that is handling its own leave: the
			// kick was accepted (the member was still listed), so its loop
			// must get to see it
			{Name: "web/kick-vs-leave", Clients: 2, MaxPreempt: core.Pick(2, 3), Groups: map[string]string{"g": descPlain}, Setup: two,
				Names: []string{"c0:kick c1", "c1:leave+drain"},
				Threads: []func(w *sig.World){
					func(w *sig.World) {
						w.Send(0, sig.Msg{"type": "useraction", "kind": "kick", "source": "c0", "username": "alice", "dest": "c1", "value": "bye"})
					},
					func(w *sig.World) {
						w.Send(1, sig.Msg{"type": "join", "kind": "leave", "group": "g"})
						drain(w, 1)
					}},
				Final: func(w *sig.World) (string, *core.Violation) {
					refused := false
					for _, m := range w.Clients[0].Out {
						if m["type"] == "usermessage" && m["kind"] == "error" {
							refused = true
						}
					}
					if !refused && !w.Clients[1].V.Closed {
						return "", &core.Violation{Signature: "C13/queued-action-never-seen/kick",
							What: "the operator's kick was accepted (the target was still a member, no error was returned) and queued for the target, whose loop handled its own leave and then its queue: the kick was never seen, the target is still connected"}
					}
					return fmt.Sprint(refused, w.Clients[1].V.Closed), nil
				}},
		} {
			if !core.Want(rp.Name) {
				continue
			}
			sub := vrt.Explore(rp.Program("C13/signalling"), res, o.Shard, o.Shards)
			res.AddSub(sub)
		}
	}
	for i, p := range programs() {
		if !core.Want(p.name) {
			continue
		}
		// small programs run whole in one shard; the scheduler shards the rest
		_ = i
		res.AddSub(vrt.Explore(toProgram(p), res, o.Shard, o.Shards))
	}
	glife.Cleanup()
	sig.Cleanup()
	core.Finish(res, t0)
}

func replay(path string) {
	data, err := os.ReadFile(path)
	if err != nil {
		fmt.Println(err)
		os.Exit(2)
	}
	var a struct {
		Replay struct {
			Program string `json:"program"`
			Choices []int  `json:"choices"`
		} `json:"replay"`
	}
	if err := json.Unmarshal(data, &a); err != nil {
		fmt.Println(err)
		os.Exit(2)
	}
	if a.Replay.Program == "queue/burst-sizes" {
		// sequential and short: the whole enumeration is the replay
		r := &core.Result{Property: "C13"}
		burstSizes(r)
		if len(r.Violations) > 0 {
			fmt.Printf("VIOLATION property=C13 replay=%s\n  %s\n", path, r.Violations[0].What)
			os.Exit(1)
		}
		fmt.Println("replay: no violation")
		return
	}
	for _, p := range programs() {
		if p.name == a.Replay.Program {
			_, out, v := vrt.ReplayChoices(toProgram(p), a.Replay.Choices)
			glife.Cleanup()
			if v != nil {
				fmt.Printf("VIOLATION property=C13 replay=%s\n  %s\n", path, v.What)
				os.Exit(1)
			}
			fmt.Println("replay: no violation; outcome", out)
			return
		}
	}
	fmt.Println("unknown program")
	os.Exit(2)
}

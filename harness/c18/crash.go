package main

// Sub-check C: crash at every file-system step of histories of real
// group.Update*/Set*/Delete* calls, under two crash models:
//
//	process  everything written before the crash is in the files
//	power    additionally every file with writes that were not followed by
//	         Sync is materialised as {as written, last-synced prefix, empty}
//	         (all combinations over the dirty files)
//
// Recovery = restart (fresh registry) + readDescription/GetDescription/
// GetDescriptionNames; the recovered definition must be the complete
// definition after the last acknowledged operation or — only when the crash
// hit inside an operation — after that operation.

import (
	"encoding/json"
	"errors"
	"fmt"
	"io/fs"
	"os"
	"path/filepath"
	"sort"
	"strings"
	"time"

	"github.com/jech/galene/group"

	"verif/core"
	"verif/vos"
)

type crashOp struct {
	name string
	run  func() error
}

type history struct {
	name      string
	withGroup bool
	groups    []string // group names whose files the history touches
	ops       []crashOp
}

func strp(s string) *string { return &s }

func tagOfGroup(name string) string {
	t, err := group.GetDescriptionTag(name)
	if err != nil {
		return ""
	}
	return t
}

func permsOf(name string) group.Permissions {
	p, err := group.NewPermissions(name)
	must(err)
	return p
}

func crashKeys() []map[string]any {
	var k []map[string]any
	must(json.Unmarshal([]byte(keysVal), &k))
	return k
}

var (
	opCreate = func(g string) crashOp {
		return crashOp{"create-group", func() error {
			return group.UpdateDescription(g, "", &group.Description{DisplayName: "created", Description: "a new group"})
		}}
	}
	opUpdateLong = crashOp{"update-group(longer)", func() error {
		return group.UpdateDescription("g", tagOfGroup("g"), &group.Description{DisplayName: "updated",
			Description: strings.Repeat("a much longer definition than before. ", 8), MaxClients: 7})
	}}
	opUpdateShort = crashOp{"update-group(shorter)", func() error {
		return group.UpdateDescription("g", tagOfGroup("g"), &group.Description{})
	}}
	opUpdateUser = crashOp{"update-user", func() error {
		return group.UpdateUser("g", "u1", false, tagOfGroup("g"), &group.UserDescription{Permissions: permsOf("op")})
	}}
	opNewUser = crashOp{"create-user", func() error {
		return group.UpdateUser("g", "n", false, "", &group.UserDescription{Permissions: permsOf("message")})
	}}
	opSetPw = crashOp{"set-password", func() error {
		return group.SetUserPassword("g", "u1", false, group.Password{Type: "plain", Key: strp("new-password")})
	}}
	opSetKeys = crashOp{"set-keys", func() error { return group.SetKeys("g", crashKeys()) }}
	opDelUser = crashOp{"delete-user", func() error { return group.DeleteUser("g", "u1", false, tagOfGroup("g")) }}
	opDelGrp  = crashOp{"delete-group", func() error { return group.DeleteDescription("g", tagOfGroup("g")) }}
)

func histories() []history {
	return []history{
		{"create", false, []string{"g"}, []crashOp{opCreate("g")}},
		{"create-nested", false, []string{"sub/h"}, []crashOp{opCreate("sub/h")}},
		{"update-longer", true, []string{"g"}, []crashOp{opUpdateLong}},
		{"update-shorter", true, []string{"g"}, []crashOp{opUpdateShort}},
		{"update-user", true, []string{"g"}, []crashOp{opUpdateUser}},
		{"set-password", true, []string{"g"}, []crashOp{opSetPw}},
		{"set-keys", true, []string{"g"}, []crashOp{opSetKeys}},
		{"delete-user", true, []string{"g"}, []crashOp{opDelUser}},
		{"delete-group", true, []string{"g"}, []crashOp{opDelGrp}},
		{"long", true, []string{"g"}, []crashOp{opUpdateLong, opUpdateUser, opNewUser, opSetPw, opSetKeys, opDelUser, opUpdateShort, opDelGrp}},
		{"create-then-edit", false, []string{"g"}, []crashOp{opCreate("g"), opNewUser, opSetKeys, opUpdateLong}},
	}
}

// tracker follows, from the hook, which files have unsynced writes.
type tracker struct {
	crashAt int
	faultAt int // this step returns an I/O error instead (0 = never)
	dirty   map[string]bool
	synced  map[string]int64
	lastOp  string
}

var errInjected = errors.New("injected I/O error (disk full)")

func (t *tracker) hook(s vos.StepInfo) error {
	if s.N == t.crashAt {
		t.lastOp = s.Op
		panic(vos.Crash{Step: s.N})
	}
	if t.faultAt > 0 && s.N == t.faultAt {
		t.lastOp = s.Op
		return errInjected
	}
	switch s.Op {
	case "write", "writefile", "truncate":
		t.dirty[s.Path] = true
	case "create":
		t.dirty[s.Path] = true
		t.synced[s.Path] = 0
	case "openfile":
		if strings.ContainsAny(s.Arg, "CT") {
			t.dirty[s.Path] = true
			if strings.Contains(s.Arg, "T") {
				t.synced[s.Path] = 0
			}
		}
	case "sync":
		if fi, err := os.Stat(s.Path); err == nil {
			t.synced[s.Path] = fi.Size()
		}
		delete(t.dirty, s.Path)
	case "rename":
		old := s.Arg
		delete(t.dirty, s.Path)
		delete(t.synced, s.Path)
		if t.dirty[old] {
			t.dirty[s.Path] = true
		}
		if v, ok := t.synced[old]; ok {
			t.synced[s.Path] = v
		}
		delete(t.dirty, old)
		delete(t.synced, old)
	case "remove":
		delete(t.dirty, s.Path)
		delete(t.synced, s.Path)
	}
	return nil
}

// runHistory runs h with a crash before step crashAt (0 = never).
func runHistory(h *history, crashAt int) (acked int, crashed bool, tr *tracker, steps []vos.StepInfo, err error) {
	freshWorld(h.withGroup)
	tr = &tracker{crashAt: crashAt, dirty: map[string]bool{}, synced: map[string]int64{}}
	vos.SetHook(tr.hook)
	func() {
		defer func() {
			if r := recover(); r != nil {
				if _, ok := r.(vos.Crash); ok {
					crashed = true
					return
				}
				panic(r)
			}
		}()
		for _, op := range h.ops {
			if e := op.run(); e != nil {
				err = fmt.Errorf("%s: %v", op.name, e)
				return
			}
			acked++
		}
	}()
	steps = vos.Log()
	vos.SetHook(nil)
	vos.Revive()
	return
}

// recoveredState is what a restarted server serves for the given groups.
func recoveredState(names []string) (state string, detail string) {
	group.VerifC18Reset()
	var parts []string
	for _, n := range names {
		d1, err1 := group.VerifC18ReadDescription(n, false)
		d2, err2 := group.GetDescription(n)
		s1, s2 := descString(d1, err1), descString(d2, err2)
		if s1 != s2 {
			return "INCONSISTENT", fmt.Sprintf("readDescription(%s)=%s but GetDescription=%s", n, s1, s2)
		}
		parts = append(parts, n+"="+s1)
	}
	ns, err := group.GetDescriptionNames()
	if err != nil {
		return "ERROR", "GetDescriptionNames: " + err.Error()
	}
	sort.Strings(ns)
	parts = append(parts, "names="+strings.Join(ns, ","))
	return strings.Join(parts, " "), ""
}

func descString(d *group.Description, err error) string {
	if errors.Is(err, os.ErrNotExist) {
		return "absent"
	}
	if err != nil {
		return "UNREADABLE(" + err.Error() + ")"
	}
	b, err := json.Marshal(d)
	if err != nil {
		return "UNREADABLE(" + err.Error() + ")"
	}
	return string(b)
}

type fileSnap struct {
	data  []byte
	mtime time.Time
}

func snapshotDir(dir string) map[string]fileSnap {
	m := map[string]fileSnap{}
	filepath.WalkDir(dir, func(p string, d fs.DirEntry, err error) error {
		if err != nil || d.IsDir() {
			return nil
		}
		b, err := os.ReadFile(p)
		must(err)
		fi, err := os.Stat(p)
		must(err)
		m[p] = fileSnap{b, fi.ModTime()}
		return nil
	})
	return m
}

func restoreDir(m map[string]fileSnap) {
	for p, s := range m {
		must(os.WriteFile(p, s.data, 0600))
		must(os.Chtimes(p, s.mtime, s.mtime))
	}
}

// leftovers are the files under the groups directory that are not group files.
func leftovers(dir string) []string {
	var l []string
	filepath.WalkDir(dir, func(p string, d fs.DirEntry, err error) error {
		if err == nil && !d.IsDir() && !strings.HasSuffix(p, ".json") {
			rel, _ := filepath.Rel(dir, p)
			l = append(l, rel)
		}
		return nil
	})
	return l
}

type crashCase struct {
	History string `json:"history"`
	CrashAt int    `json:"crash_before_step"` // 0 = after the last step
	Model   string `json:"model"`
	Variant string `json:"variant,omitempty"`
}

// checkCrashPoint runs one crash point under both models.
func checkCrashPoint(h *history, k int, ref []string, add func(out string, v *core.Violation)) (runs int64) {
	acked, crashed, tr, steps, err := runHistory(h, k)
	if err != nil {
		add("", &core.Violation{Signature: "C18/crash/operation-failed/" + h.name,
			What: fmt.Sprintf("history %s: %v (crash point %d)", h.name, err, k)})
		return 1
	}
	stepOp := "end"
	if crashed {
		stepOp = "before-" + tr.lastOp
	} else if len(steps) > 0 {
		stepOp = "after-" + steps[len(steps)-1].Op
	}
	dir := group.Directory
	snap := snapshotDir(dir)
	var dirty []string
	for p := range tr.dirty {
		if _, ok := snap[p]; ok {
			dirty = append(dirty, p)
		}
	}
	sort.Strings(dirty)

	type choice struct {
		label string
		size  int64 // -1 = as written
	}
	options := make([][]choice, len(dirty))
	for i, p := range dirty {
		role := "temp"
		if strings.HasSuffix(p, ".json") {
			role = "group-file"
		}
		options[i] = []choice{{role + ":as-written", -1}}
		cur := int64(len(snap[p].data))
		if s := tr.synced[p]; s > 0 && s < cur {
			options[i] = append(options[i], choice{role + ":synced-prefix", s})
		}
		if cur > 0 {
			options[i] = append(options[i], choice{role + ":empty", 0})
		}
	}
	allowed := map[string]bool{ref[acked]: true}
	if crashed {
		allowed[ref[acked+1]] = true
	}
	ix := make([]int, len(dirty))
	for {
		model := "process"
		var labels []string
		restoreDir(snap)
		for i, p := range dirty {
			c := options[i][ix[i]]
			if c.size >= 0 {
				model = "power"
				must(os.Truncate(p, c.size))
			}
			labels = append(labels, c.label)
		}
		runs++
		got, detail := recoveredState(h.groups)
		cc := crashCase{h.name, k, model, strings.Join(labels, "+")}
		opName := "(none)"
		if crashed {
			opName = h.ops[acked].name
		}
		switch {
		case !allowed[got]:
			kindOf := "partial-file"
			switch {
			case strings.Contains(got, "UNREADABLE"):
				kindOf = "unparseable-file"
			case got == "INCONSISTENT" || got == "ERROR":
				kindOf = "inconsistent"
			case !crashed:
				kindOf = "lost-acknowledged"
			case stringsIn(got, ref[:acked]):
				kindOf = "lost-acknowledged"
			case namesDiffer(got, ref[acked], ref[acked+1]):
				kindOf = "stray-group"
			}
			add("", &core.Violation{
				Signature: fmt.Sprintf("C18/crash/%s/%s/%s", model, kindOf, sigTail(model, stepOp, labels)),
				What: fmt.Sprintf("history %s, crash %s (step %d, inside %s, %d operations acknowledged), %s model %v: a restart serves %s %s— neither the definition after the last acknowledged operation nor the one being written",
					h.name, stepOp, k, opName, acked, model, labels, clip(got, 300), detail),
				Replay: cc})
		default:
			which := "old"
			if crashed && got == ref[acked+1] && got != ref[acked] {
				which = "new"
			}
			// leftover temp files must not be served as groups
			for _, l := range leftovers(dir) {
				for _, n := range []string{l, strings.TrimSuffix(l, filepath.Ext(l))} {
					if _, err := group.GetDescription(n); err == nil {
						add("", &core.Violation{Signature: "C18/crash/" + model + "/temp-served/" + stepOp,
							What:   fmt.Sprintf("history %s, crash %s: leftover file %s is served as group %q", h.name, stepOp, l, n),
							Replay: cc})
					}
				}
			}
			add(fmt.Sprintf("%s|%s|%s|%s|%s", h.name, opName, stepOp, model, which), nil)
		}
		i := len(ix) - 1
		for i >= 0 {
			ix[i]++
			if ix[i] < len(options[i]) {
				break
			}
			ix[i] = 0
			i--
		}
		if i < 0 {
			break
		}
	}
	return runs
}

// sigTail is the narrow class of a crash violation: the step the process
// died at (process model) or the damaged files (power model, where the step
// is incidental: any later step shows the same unsynced file).
func sigTail(model, stepOp string, labels []string) string {
	if model == "process" {
		return stepOp
	}
	var l []string
	for _, x := range labels {
		if !strings.HasSuffix(x, ":as-written") {
			l = append(l, x)
		}
	}
	return strings.Join(l, "+")
}

func stringsIn(s string, l []string) bool {
	for _, x := range l {
		if x == s {
			return true
		}
	}
	return false
}

func namesOf(state string) string {
	if i := strings.LastIndex(state, " names="); i >= 0 {
		return state[i:]
	}
	return ""
}

func namesDiffer(got, a, b string) bool {
	return namesOf(got) != namesOf(a) && namesOf(got) != namesOf(b)
}

func clip(s string, n int) string {
	if len(s) > n {
		return s[:n] + "…"
	}
	return s
}

// references runs h without a crash, recording what a restart would serve
// after 0..n acknowledged operations.
func references(h *history) ([]string, int, error) {
	var ref []string
	total := 0
	for n := 0; n <= len(h.ops); n++ {
		sub := *h
		sub.ops = h.ops[:n]
		acked, _, _, steps, err := runHistory(&sub, 0)
		if err != nil || acked != n {
			return nil, 0, fmt.Errorf("history %s: reference run failed after %d operations: %v", h.name, acked, err)
		}
		st, detail := recoveredState(h.groups)
		if detail != "" || strings.Contains(st, "UNREADABLE") {
			return nil, 0, fmt.Errorf("history %s: reference state unreadable: %s %s", h.name, st, detail)
		}
		ref = append(ref, st)
		total = len(steps)
	}
	for i := 1; i < len(ref); i++ {
		if ref[i] == ref[i-1] {
			return nil, 0, fmt.Errorf("history %s: operation %s has no visible effect (vacuous)", h.name, h.ops[i-1].name)
		}
	}
	return ref, total, nil
}

func runCrash(res *core.Result, shard, shards int) {
	start := time.Now()
	var out core.Outcomes
	var runs, points int64
	complete := true
	var samples []any
	idx := 0
	for _, h := range histories() {
		h := h
		if !core.Want("crash/" + h.name) {
			continue
		}
		ref, total, err := references(&h)
		if err != nil {
			res.Fault = err.Error()
			return
		}
		// crash before step k for k = 1..total, and k = 0: no crash (power
		// failure right after the acknowledgement)
		for k := 0; k <= total; k++ {
			idx++
			if shards > 1 && idx%shards != shard {
				continue
			}
			if !core.TimeLeft() {
				complete = false
				break
			}
			points++
			runs += checkCrashPoint(&h, k, ref, func(o string, v *core.Violation) {
				if v != nil {
					v.Sub = "crash"
					res.Violate(*v)
					return
				}
				out.Add(o)
				if len(samples) < 2 && strings.Contains(o, "power") {
					samples = append(samples, o)
				}
			})
		}
	}
	// an I/O error (disk full, quota) at every step instead of a crash
	for _, h := range histories() {
		h := h
		if !core.Want("crash/"+h.name) || len(h.ops) > 4 {
			continue
		}
		ref, total, err := references(&h)
		if err != nil {
			res.Fault = err.Error()
			return
		}
		for k := 1; k <= total; k++ {
			idx++
			if shards > 1 && idx%shards != shard {
				continue
			}
			points++
			runs++
			o, v := checkFaultPoint(&h, k, ref)
			if v != nil {
				v.Sub = "crash"
				res.Violate(*v)
				continue
			}
			out.Add(o)
		}
	}
	res.AddSub(core.Sub{Name: "crash", States: points, Transitions: runs, Executions: runs, Outcomes: out.N(),
		Exhaustive: complete, Bound: fmt.Sprintf("%d histories of 1-8 real operations; crash before every vos step and after the last; process + power-failure materialisations; an I/O error at every step of the histories of <=4 operations", len(histories())),
		Samples: samples, WallS: time.Since(start).Seconds()})
}

// checkFaultPoint runs h with an I/O error returned by step k (instead of a
// crash): the operation that sees it either fails, leaving the definition
// before or after it, or is acknowledged with the complete new definition;
// the history stops there.  What a restart (and every reader) then finds must
// be one of those complete definitions.
func checkFaultPoint(h *history, k int, ref []string) (string, *core.Violation) {
	freshWorld(h.withGroup)
	tr := &tracker{faultAt: k, dirty: map[string]bool{}, synced: map[string]int64{}}
	vos.SetHook(tr.hook)
	acked, failed := 0, ""
	for _, op := range h.ops {
		if e := op.run(); e != nil {
			failed = op.name
			break
		}
		acked++
		if tr.lastOp != "" {
			break // the faulted operation was acknowledged: stop here
		}
	}
	vos.SetHook(nil)
	if tr.lastOp == "" {
		return "fault-not-reached", nil
	}
	got, detail := recoveredState(h.groups)
	allowed := map[string]bool{ref[acked]: true}
	if failed != "" && acked+1 < len(ref) {
		allowed[ref[acked+1]] = true
	}
	if !allowed[got] {
		kind := "partial-file"
		if strings.Contains(got, "UNREADABLE") {
			kind = "unparseable-file"
		} else if failed == "" {
			kind = "acknowledged-but-not-stored"
		}
		ack := "acknowledged"
		if failed != "" {
			ack = "refused"
		}
		return "", &core.Violation{Signature: fmt.Sprintf("C18/fault/%s/at-%s", kind, tr.lastOp),
			What: fmt.Sprintf("history %s: an I/O error at file-system step %d (%s) inside an update that was %s: readers and a restart now find %s %s— not a complete definition from before or after the update",
				h.name, k, tr.lastOp, ack, clip(got, 300), detail),
			Replay: crashCase{h.name, k, "fault", tr.lastOp}}
	}
	return fmt.Sprintf("fault/%s/%v", tr.lastOp, failed == ""), nil
}

// replayCrash re-runs one crash point.
func replayCrash(cc crashCase) *core.Violation {
	for _, h := range histories() {
		h := h
		if h.name != cc.History {
			continue
		}
		ref, _, err := references(&h)
		if err != nil {
			return &core.Violation{Signature: "C18/crash/reference", What: err.Error()}
		}
		if cc.Model == "fault" {
			_, v := checkFaultPoint(&h, cc.CrashAt, ref)
			return v
		}
		var first *core.Violation
		checkCrashPoint(&h, cc.CrashAt, ref, func(o string, v *core.Violation) {
			if v != nil && first == nil {
				first = v
			}
		})
		return first
	}
	return nil
}

// C18 — group definitions: conditional updates are exclusive and file writes
// are atomic.
//
//	(A) etag/*   etagMatch and checkPreconditions over the full product of a
//	             header-token alphabet vs. RFC 7232 list semantics
//	(B) conc/*   2-3 concurrent API requests through the real apiHandler under
//	             the controlled scheduler (every mutex operation and every
//	             file-system step is a scheduling point); linearisation oracle
//	(C) crash    a crash before/after every file-system step of histories of
//	             real Update*/Set*/Delete* calls, process-crash and
//	             power-failure models, followed by a restart
package main

import (
	"encoding/json"
	"fmt"
	"io"
	"log"
	"os"
	"time"

	"verif/core"
	"verif/vrt"
)

func cleanup() {
	if sandbox != "" {
		os.RemoveAll(sandbox)
	}
}

func main() {
	start := time.Now()
	o := core.ParseFlags(55, 840)
	log.SetOutput(io.Discard)
	res := &core.Result{Property: "C18", Tier: o.Tier,
		Technique: "full product enumeration of If-Match/If-None-Match header strings against an RFC 7232 reference; preemption-bounded schedule enumeration of concurrent API requests on the real handlers with a linearisation oracle and a vector-clock race monitor; crash-point enumeration over every file-system step under process-crash and power-failure models"}
	if o.Replay != "" {
		replay(o.Replay)
		return
	}
	if o.Shard >= 0 {
		// package-level state (registry, configuration, vos): one world per
		// process; every shard explores its share of each program's schedules.
		runConc(res, o.Shard, o.Shards)
		cleanup()
		core.Finish(res, start)
	}
	runEtag(res)
	if core.Want("crash") {
		// small enough for one process (package-level state: single-threaded)
		runCrash(res, 0, 1)
	}
	core.RunShards(res, core.NCPU(), nil, nil)
	res.Assume("successive versions of a group file differ in size or modification time (vos logical mtimes: every mutation gets a fresh mtime)")
	res.Assume("power-failure model: file data written after the last Sync may be lost (file keeps its last-synced prefix or is empty); renames and unlinks are durable in program order (directory fsync is not modelled)")
	res.Assume("the property is a safety statement: a refused conditional write (any non-2xx status, including the 500 produced by the in-lock tag re-check) is never a violation; for objects sharing one file (group, its users, keys) a write conditioned on one object may be acknowledged after a change of another only if no acknowledged change is lost")
	cleanup()
	res.Assume("syntactically broken If-Match/If-None-Match values are don't-care from the first syntax error on; a weak element is don't-care for If-None-Match and must not match for If-Match")
	core.Finish(res, start)
}

func replay(path string) {
	data, err := os.ReadFile(path)
	if err != nil {
		fmt.Println(err)
		os.Exit(2)
	}
	var a struct {
		Signature string `json:"signature"`
		Replay    struct {
			Kind    string `json:"kind"`
			Etag    string `json:"etag"`
			Header  string `json:"header"`
			Method  string `json:"method"`
			IM      string `json:"im"`
			INM     string `json:"inm"`
			Program string `json:"program"`
			Choices []int  `json:"choices"`
			crashCase
		} `json:"replay"`
	}
	if err := json.Unmarshal(data, &a); err != nil {
		fmt.Println(err)
		os.Exit(2)
	}
	report := func(v *core.Violation) {
		if v != nil {
			fmt.Printf("VIOLATION property=C18 replay=%s\n  signature: %s\n  what: %s\n", path, v.Signature, v.What)
			cleanup()
			os.Exit(1)
		}
		fmt.Println("replay: no violation")
		cleanup()
	}
	r := a.Replay
	switch {
	case r.Kind == "etag":
		_, v := checkEtagOne(r.Etag, r.Header)
		report(v)
	case r.Kind == "precond":
		_, v := checkPrecondOne(r.Method, r.Etag, r.IM, r.INM)
		report(v)
	case r.Program != "":
		for _, p := range concPrograms() {
			if p.name == r.Program {
				_, _, v := vrt.ReplayChoices(p.toVrt(3), r.Choices)
				report(v)
				return
			}
		}
		fmt.Println("unknown program", r.Program)
		os.Exit(2)
	case r.History != "":
		report(replayCrash(r.crashCase))
	default:
		fmt.Println("unrecognised replay artefact")
		os.Exit(2)
	}
}

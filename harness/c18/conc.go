package main

// Sub-check B: concurrent API requests through the real apiHandler under the
// controlled scheduler.  The oracle is a linearisation search against the
// property statement only:
//
//   * an acknowledged (2xx) conditional write must have had its precondition
//     true at its linearisation point (If-Match: the object unchanged since
//     the tag was served; If-None-Match:*: the object absent);
//   * refusals are always permitted (the statement is "succeeds only if");
//   * the final file is exactly the acknowledged writes applied in that
//     order (no acknowledged update lost, no refused write applied);
//   * every read returns the complete definition current at its point;
//     304 is required when the file is unchanged since the tag, forbidden
//     when the object itself changed, don't-care when only other objects
//     sharing the file (and hence the tag) changed.

import (
	"encoding/json"
	"errors"
	"fmt"
	"net/http/httptest"
	"os"
	"path/filepath"
	"sort"
	"strings"

	"github.com/jech/galene/group"
	"github.com/jech/galene/webserver"

	"verif/core"
	"verif/vos"
	"verif/vrt"
)

type kind int

const (
	kPutGroup kind = iota
	kDelGroup
	kCreateGroup
	kPutUser
	kNewUser
	kDelUser
	kPutPw
	kPutKeys
	kGetGroup
	kGetUser
	kLoad // the running server (re)loads the group: group.Add(name, nil)
)

var kindName = map[kind]string{kPutGroup: "group-PUT", kDelGroup: "group-DELETE", kCreateGroup: "group-CREATE",
	kPutUser: "user-PUT", kNewUser: "user-CREATE", kDelUser: "user-DELETE", kPutPw: "password-PUT",
	kPutKeys: "keys-PUT", kGetGroup: "group-GET", kGetUser: "user-GET", kLoad: "server-LOAD"}

func (k kind) isRead() bool { return k == kGetGroup || k == kGetUser || k == kLoad }

// cond is the precondition a request carries: "" none, "T" the tag served
// by the Setup GET, "prev" the tag served by this thread's previous GET,
// "*" (If-None-Match only).
type opSpec struct {
	K     kind
	Group string
	User  string
	IM    string
	INM   string
	Val   string
}

func (o opSpec) String() string {
	s := kindName[o.K] + "(" + o.Group
	if o.User != "" {
		s += "/" + o.User
	}
	if o.Val != "" {
		s += "=" + o.Val
	}
	if o.IM != "" {
		s += " If-Match:" + o.IM
	}
	if o.INM != "" {
		s += " If-None-Match:" + o.INM
	}
	return s + ")"
}

type opObs struct {
	skipped bool
	status  int
	etag    string
	body    string
}

func (o opObs) ok() bool { return !o.skipped && o.status >= 200 && o.status < 300 }

type program struct {
	name    string
	threads [][]opSpec
	deep    bool // full preemption bound also in the quick tier
}

const keysVal = `[{"alg":"HS256","k":"4S9YZLHK1traIaXQooCnPfBw_yR8j9VEPaAMWAog_YQ","kty":"oct"}]`

// ---- the sandbox

var sandbox string

func sandboxDir() string {
	if sandbox != "" {
		return sandbox
	}
	base := ""
	if fi, err := os.Stat("/dev/shm"); err == nil && fi.IsDir() {
		base = "/dev/shm"
	}
	d, err := os.MkdirTemp(base, "c18-")
	if err != nil {
		d, err = os.MkdirTemp("", "c18-")
		if err != nil {
			panic(err)
		}
	}
	sandbox = d
	must(os.MkdirAll(filepath.Join(d, "static"), 0700))
	must(os.WriteFile(filepath.Join(d, "static", "404.html"), []byte("<p>Not found</p>\n"), 0600))
	must(webserver.VerifC18SetStaticRoot(filepath.Join(d, "static")))
	return d
}

func must(err error) {
	if err != nil {
		panic(err)
	}
}

const initialGroup = `{"displayName":"v0","users":{"u1":{"password":"p1","permissions":"present"}}}
`
const configJSON = `{"writableGroups":true,"users":{"root":{"password":"pw","permissions":"admin"}}}
`

// freshWorld wipes the sandbox, writes data/config.json (and groups/g.json
// when withGroup) with logical mtimes, and "restarts" the server state.
func freshWorld(withGroup bool) (groupsDir string) {
	d := sandboxDir()
	gd := filepath.Join(d, "groups")
	dd := filepath.Join(d, "data")
	must(os.RemoveAll(gd))
	must(os.RemoveAll(dd))
	must(os.MkdirAll(gd, 0700))
	must(os.MkdirAll(dd, 0700))
	vos.SetHook(nil)
	vos.Revive()
	vos.SetLogicalMtime(true)
	must(os.WriteFile(filepath.Join(dd, "config.json"), []byte(configJSON), 0600))
	vos.Stamp(filepath.Join(dd, "config.json"))
	if withGroup {
		must(os.WriteFile(filepath.Join(gd, "g.json"), []byte(initialGroup), 0600))
		vos.Stamp(filepath.Join(gd, "g.json"))
	}
	group.Directory = gd
	group.DataDirectory = dd
	group.VerifC18Reset()
	return gd
}

func request(method, path, im, inm, ctype, body string) opObs {
	r := httptest.NewRequest(method, "http://localhost"+path, strings.NewReader(body))
	r.SetBasicAuth("root", "pw")
	if ctype != "" {
		r.Header.Set("Content-Type", ctype)
	}
	if im != "" {
		r.Header.Set("If-Match", im)
	}
	if inm != "" {
		r.Header.Set("If-None-Match", inm)
	}
	w := httptest.NewRecorder()
	webserver.VerifC18APIHandler(w, r)
	return opObs{status: w.Code, etag: w.Header().Get("Etag"), body: w.Body.String()}
}

func (o opSpec) perform(tag func(string) string) opObs {
	base := "/galene-api/v0/.groups/" + o.Group + "/"
	im, inm := tag(o.IM), tag(o.INM)
	switch o.K {
	case kPutGroup, kCreateGroup:
		return request("PUT", base, im, inm, "application/json", fmt.Sprintf(`{"displayName":%q}`, o.Val))
	case kDelGroup:
		return request("DELETE", base, im, inm, "", "")
	case kPutUser, kNewUser:
		return request("PUT", base+".users/"+o.User, im, inm, "application/json", fmt.Sprintf(`{"permissions":%q}`, o.Val))
	case kDelUser:
		return request("DELETE", base+".users/"+o.User, im, inm, "", "")
	case kPutPw:
		return request("PUT", base+".users/"+o.User+"/.password", "", "", "application/json", fmt.Sprintf(`{"type":"plain","key":%q}`, o.Val))
	case kPutKeys:
		return request("PUT", base+".keys", "", "", "application/jwk-set+json", `{"keys":`+keysVal+`}`)
	case kGetGroup:
		return request("GET", base, im, inm, "", "")
	case kGetUser:
		return request("GET", base+".users/"+o.User, im, inm, "", "")
	case kLoad:
		g, err := group.Add(o.Group, nil)
		if errors.Is(err, os.ErrNotExist) {
			return opObs{status: 404}
		} else if err != nil {
			return opObs{status: 500, body: err.Error()}
		}
		b, err := json.Marshal(g.Description())
		if err != nil {
			return opObs{status: 500, body: err.Error()}
		}
		return opObs{status: 200, body: string(b)}
	}
	panic("unknown op kind")
}

// ---- the specification state

type uState struct{ perm, pw string }

type gState struct {
	exists bool
	name   string
	users  map[string]uState
	keys   string
	fv     int            // version of the file
	gch    int            // version at which the group's own definition last changed
	uch    map[string]int // version at which each user's definition last changed
}

func (g *gState) clone() *gState {
	n := *g
	n.users = map[string]uState{}
	for k, v := range g.users {
		n.users[k] = v
	}
	n.uch = map[string]int{}
	for k, v := range g.uch {
		n.uch[k] = v
	}
	return &n
}

func (g *gState) String() string {
	if !g.exists {
		return "absent"
	}
	var us []string
	for k, v := range g.users {
		us = append(us, k+"="+v.perm+"/"+v.pw)
	}
	sort.Strings(us)
	k := ""
	if g.keys != "" {
		k = ";keys"
	}
	return "name=" + g.name + ";" + strings.Join(us, ",") + k
}

type specState struct {
	groups map[string]*gState
	nextv  int
	bind   map[string]int // group + "|" + tag -> file version
}

func initialSpec(t0 string) *specState {
	return &specState{
		groups: map[string]*gState{
			"g": {exists: true, name: "v0", users: map[string]uState{"u1": {"present", "p1"}},
				uch: map[string]int{"u1": 0}},
			"n": {users: map[string]uState{}, uch: map[string]int{}},
		},
		nextv: 1,
		bind:  map[string]int{"g|" + t0: 0},
	}
}

func (s *specState) clone() *specState {
	n := &specState{groups: map[string]*gState{}, nextv: s.nextv, bind: map[string]int{}}
	for k, v := range s.groups {
		n.groups[k] = v.clone()
	}
	for k, v := range s.bind {
		n.bind[k] = v
	}
	return n
}

const (
	lvWrites = iota // statuses of the writes only
	lvFinal         // + final file
	lvReads         // + results of the reads
)

// step applies one observed operation to the specification state; false if
// the observation is impossible at this point of the order.
func (s *specState) step(o opSpec, ob opObs, tagOf func(string) string, level int) bool {
	if ob.skipped {
		return true
	}
	g := s.groups[o.Group]
	// unchangedSince: the object whose change version is ch is unchanged
	// since tag x was served
	unchangedSince := func(x string, ch int) bool {
		v, ok := s.bind[o.Group+"|"+x]
		return ok && ch <= v
	}
	if o.K.isRead() {
		if (ob.status == 200 || ob.status == 304) && ob.etag != "" && g.exists {
			// successive versions carry different tags (logical mtimes):
			// one tag names one version of the file and vice versa
			key := o.Group + "|" + ob.etag
			if v, ok := s.bind[key]; ok && v != g.fv {
				return false
			}
			for k, v := range s.bind {
				if v == g.fv && k != key && strings.HasPrefix(k, o.Group+"|") {
					return false
				}
			}
			s.bind[key] = g.fv
		}
		if level < lvReads {
			return true
		}
		var present bool
		var ch int
		var want string
		if o.K == kGetGroup || o.K == kLoad {
			present, ch = g.exists, g.gch
			want = "G:" + g.name
		} else {
			u, ok := g.users[o.User]
			present = g.exists && ok
			ch = g.uch[o.User]
			want = "U:" + u.perm
		}
		if !present {
			return ob.status == 404
		}
		x := tagOf(o.INM)
		switch ob.status {
		case 200:
			if x != "" {
				if v, ok := s.bind[o.Group+"|"+x]; ok && v == g.fv {
					return false // the tag is current: 304 required
				}
			}
			return readBody(o, ob.body) == want
		case 304:
			return x != "" && unchangedSince(x, ch)
		}
		return false
	}
	if !ob.ok() {
		return true // a refusal has no effect and is always permitted
	}
	nv := s.nextv
	switch o.K {
	case kPutGroup:
		if !g.exists || !unchangedSince(tagOf(o.IM), g.gch) {
			return false
		}
		g.name, g.gch = o.Val, nv
	case kCreateGroup:
		if g.exists {
			return false
		}
		g.exists, g.name, g.gch = true, o.Val, nv
	case kDelGroup:
		if !g.exists || !unchangedSince(tagOf(o.IM), g.gch) {
			return false
		}
		g.exists, g.name, g.keys, g.gch = false, "", "", nv
		for u := range g.users {
			delete(g.users, u)
			g.uch[u] = nv
		}
	case kPutUser:
		u, ok := g.users[o.User]
		if !g.exists || !ok || !unchangedSince(tagOf(o.IM), g.uch[o.User]) {
			return false
		}
		u.perm = o.Val
		g.users[o.User], g.uch[o.User] = u, nv
	case kNewUser:
		if _, ok := g.users[o.User]; !g.exists || ok {
			return false
		}
		g.users[o.User], g.uch[o.User] = uState{perm: o.Val}, nv
	case kDelUser:
		if _, ok := g.users[o.User]; !g.exists || !ok || !unchangedSince(tagOf(o.IM), g.uch[o.User]) {
			return false
		}
		delete(g.users, o.User)
		g.uch[o.User] = nv
	case kPutPw:
		u, ok := g.users[o.User]
		if !g.exists || !ok {
			return false
		}
		u.pw = o.Val
		g.users[o.User] = u
	case kPutKeys:
		if !g.exists {
			return false
		}
		g.keys = keysVal
	}
	g.fv = nv
	s.nextv++
	return true
}

// readBody canonicalises a 200 body ("?" if it is not a complete definition).
func readBody(o opSpec, body string) string {
	d := json.NewDecoder(strings.NewReader(body))
	d.DisallowUnknownFields()
	if o.K == kGetGroup || o.K == kLoad {
		var desc group.Description
		if d.Decode(&desc) != nil {
			return "?"
		}
		return "G:" + desc.DisplayName
	}
	var u group.UserDescription
	if d.Decode(&u) != nil {
		return "?"
	}
	return "U:" + group.VerifC18PermName(u.Permissions)
}

// diskState reads groups/<name>.json with the real os package.
func diskState(dir, name string) (string, error) {
	data, err := os.ReadFile(filepath.Join(dir, name+".json"))
	if errors.Is(err, os.ErrNotExist) {
		return "absent", nil
	}
	if err != nil {
		return "", err
	}
	var desc group.Description
	d := json.NewDecoder(strings.NewReader(string(data)))
	d.DisallowUnknownFields()
	if err := d.Decode(&desc); err != nil {
		return "", fmt.Errorf("unparseable (%d bytes): %v", len(data), err)
	}
	g := gState{exists: true, name: desc.DisplayName, users: map[string]uState{}}
	for k, u := range desc.Users {
		pw := ""
		if u.Password.Key != nil {
			pw = *u.Password.Key
		}
		g.users[k] = uState{group.VerifC18PermName(u.Permissions), pw}
	}
	if desc.AuthKeys != nil {
		b, _ := json.Marshal(desc.AuthKeys)
		if string(b) != keysVal {
			return "", fmt.Errorf("unexpected keys %s", b)
		}
		g.keys = keysVal
	}
	return g.String(), nil
}

type flatOp struct{ t, j int }

// orders enumerates the interleavings of the threads' operation sequences.
func orders(threads [][]opSpec, f func(ord []flatOp) bool) bool {
	idx := make([]int, len(threads))
	total := 0
	for _, t := range threads {
		total += len(t)
	}
	var ord []flatOp
	var rec func() bool
	rec = func() bool {
		if len(ord) == total {
			return f(ord)
		}
		for t := range threads {
			if idx[t] < len(threads[t]) {
				ord = append(ord, flatOp{t, idx[t]})
				idx[t]++
				if rec() {
					return true
				}
				idx[t]--
				ord = ord[:len(ord)-1]
			}
		}
		return false
	}
	return rec()
}

// linearisable searches an order that explains the observations at level.
func linearisable(p *program, obs [][]opObs, t0 string, final map[string]string, level int) (bool, string) {
	witness := ""
	ok := orders(p.threads, func(ord []flatOp) bool {
		s := initialSpec(t0)
		prev := make([]string, len(p.threads))
		for _, fo := range ord {
			o, ob := p.threads[fo.t][fo.j], obs[fo.t][fo.j]
			tagOf := func(c string) string {
				switch c {
				case "T":
					return t0
				case "prev":
					return prev[fo.t]
				}
				return ""
			}
			if !s.step(o, ob, tagOf, level) {
				return false
			}
			if o.K.isRead() && ob.status == 200 {
				prev[fo.t] = ob.etag
			}
		}
		if level >= lvFinal {
			for name, got := range final {
				if s.groups[name].String() != got {
					return false
				}
			}
		}
		var w []string
		for _, fo := range ord {
			w = append(w, fmt.Sprintf("T%d.%d", fo.t, fo.j))
		}
		witness = strings.Join(w, "<")
		return true
	})
	return ok, witness
}

func describe(p *program, obs [][]opObs) string {
	var parts []string
	for t := range p.threads {
		for j, o := range p.threads[t] {
			ob := obs[t][j]
			r := fmt.Sprintf("%d", ob.status)
			if ob.skipped {
				r = "skipped"
			} else if o.K.isRead() && ob.status == 200 {
				r += " " + readBody(o, ob.body)
			}
			parts = append(parts, fmt.Sprintf("T%d %v -> %s", t, o, r))
		}
	}
	return strings.Join(parts, "; ")
}

func objectOf(o opSpec) string {
	switch o.K {
	case kPutGroup, kDelGroup, kCreateGroup:
		return "group:" + o.Group
	case kPutUser, kNewUser, kDelUser:
		return "user:" + o.Group + "/" + o.User
	}
	return ""
}

func (p *program) toVrt(maxPreempt int) vrt.Program {
	var names []string
	for _, th := range p.threads {
		var s []string
		for _, o := range th {
			s = append(s, o.String())
		}
		names = append(names, strings.Join(s, ";"))
	}
	return vrt.Program{
		Name:       p.name,
		MaxPreempt: maxPreempt,
		MaxSteps:   4000,
		Classify:   func(k, info string) string { return "C18/" + k + "/" + strings.TrimPrefix(p.name, "conc/") },
		Setup: func() ([]func(), []string, func() (string, *core.Violation)) {
			dir := freshWorld(true)
			// the tag every client holds
			r0 := request("GET", "/galene-api/v0/.groups/g/", "", "", "", "")
			if r0.status != 200 || r0.etag == "" {
				panic(fmt.Sprintf("setup GET: status %d etag %q", r0.status, r0.etag))
			}
			t0 := r0.etag
			obs := make([][]opObs, len(p.threads))
			bodies := make([]func(), len(p.threads))
			for t := range p.threads {
				t := t
				obs[t] = make([]opObs, len(p.threads[t]))
				for j := range obs[t] {
					obs[t][j].skipped = true
				}
				bodies[t] = func() {
					prev := ""
					for j, o := range p.threads[t] {
						if (o.IM == "prev" || o.INM == "prev") && prev == "" {
							continue
						}
						ob := o.perform(func(c string) string {
							switch c {
							case "T":
								return t0
							case "prev":
								return prev
							}
							return c
						})
						obs[t][j] = ob
						if o.K.isRead() && ob.status == 200 {
							prev = ob.etag
						}
					}
				}
			}
			final := func() (string, *core.Violation) {
				return p.oracle(dir, t0, obs)
			}
			return bodies, names, final
		},
	}
}

func (p *program) oracle(dir, t0 string, obs [][]opObs) (string, *core.Violation) {
	short := strings.TrimPrefix(p.name, "conc/")
	viol := func(sig, what string) (string, *core.Violation) {
		return "", &core.Violation{Signature: sig, What: what + " — observed: " + describe(p, obs)}
	}
	// 1. reads: complete definitions only
	for t := range p.threads {
		for j, o := range p.threads[t] {
			ob := obs[t][j]
			if ob.skipped || !o.K.isRead() {
				continue
			}
			switch ob.status {
			case 200:
				if readBody(o, ob.body) == "?" {
					return viol("C18/read/partial-definition/"+kindName[o.K], fmt.Sprintf("a concurrent %v returned 200 with a body that is not a complete definition: %q", o, ob.body))
				}
			case 304, 404:
			default:
				return viol(fmt.Sprintf("C18/read/status-%d/%s", ob.status, kindName[o.K]), fmt.Sprintf("a concurrent %v answered %d: the reader did not see a complete old or new definition", o, ob.status))
			}
		}
	}
	// 2. the final file must be a complete definition
	final := map[string]string{}
	for _, name := range []string{"g", "n"} {
		st, err := diskState(dir, name)
		if err != nil {
			return viol("C18/final-file/"+short, fmt.Sprintf("after quiescence %s.json is not a complete definition: %v", name, err))
		}
		final[name] = st
	}
	// 3. at most one acknowledged writer per (object, tag)
	type w struct {
		t, j int
		o    opSpec
	}
	byObj := map[string][]w{}
	for t := range p.threads {
		for j, o := range p.threads[t] {
			if obj := objectOf(o); obj != "" && obs[t][j].ok() && (o.IM == "T" || o.INM == "*") {
				byObj[obj+"|"+o.IM+o.INM] = append(byObj[obj+"|"+o.IM+o.INM], w{t, j, o})
			}
		}
	}
	var objs []string
	for k := range byObj {
		objs = append(objs, k)
	}
	sort.Strings(objs)
	for _, k := range objs {
		if ws := byObj[k]; len(ws) > 1 {
			a, b := kindName[ws[0].o.K], kindName[ws[1].o.K]
			if b < a {
				a, b = b, a
			}
			return viol("C18/exclusive/"+a+"-vs-"+b, fmt.Sprintf("%d writers holding the same precondition on %s were all acknowledged", len(ws), strings.Split(k, "|")[0]))
		}
	}
	// 4. linearisation search, from the weakest to the full observation
	if ok, _ := linearisable(p, obs, t0, final, lvWrites); !ok {
		return viol("C18/precondition/"+short, "an acknowledged conditional write cannot have had its precondition true at any linearisation point")
	}
	if ok, _ := linearisable(p, obs, t0, final, lvFinal); !ok {
		return viol("C18/lost-update/"+short, fmt.Sprintf("the final files %v are not the acknowledged writes applied in any order consistent with their preconditions (an acknowledged update was lost, or a refused one applied)", final))
	}
	ok, wit := linearisable(p, obs, t0, final, lvReads)
	if !ok {
		return viol("C18/conditional-read/"+short, "a read returned a definition or a 200/304 decision that is not current at any point of any order explaining the writes")
	}
	var out []string
	for t := range p.threads {
		for j := range p.threads[t] {
			ob := obs[t][j]
			s := fmt.Sprintf("%d", ob.status)
			if ob.skipped {
				s = "-"
			} else if p.threads[t][j].K.isRead() && ob.status == 200 {
				s += readBody(p.threads[t][j], ob.body)
			}
			out = append(out, s)
		}
	}
	outcome := strings.Join(out, ",") + "|" + final["g"] + "|" + final["n"]
	if debugOutcomes != nil {
		debugOutcomes[p.name+": "+outcome+"  order "+wit]++
	}
	return outcome, nil
}

// debugOutcomes (C18_DEBUG=1) collects the distinct outcomes with a witness order.
var debugOutcomes map[string]int

// ---- the programs

func concPrograms() []*program {
	g := "g"
	w1 := opSpec{K: kPutGroup, Group: g, IM: "T", Val: "w1"}
	w2 := opSpec{K: kPutGroup, Group: g, IM: "T", Val: "w2"}
	d := opSpec{K: kDelGroup, Group: g, IM: "T"}
	nu := opSpec{K: kNewUser, Group: g, User: "n", INM: "*", Val: "present"}
	nu2 := opSpec{K: kNewUser, Group: g, User: "n", INM: "*", Val: "message"}
	pu := opSpec{K: kPutUser, Group: g, User: "u1", IM: "T", Val: "op"}
	pu2 := opSpec{K: kPutUser, Group: g, User: "u1", IM: "T", Val: "message"}
	du := opSpec{K: kDelUser, Group: g, User: "u1", IM: "T"}
	gi := opSpec{K: kGetGroup, Group: g, INM: "T"}
	gg := opSpec{K: kGetGroup, Group: g}
	gu := opSpec{K: kGetUser, Group: g, User: "u1", INM: "T"}
	pw := opSpec{K: kPutPw, Group: g, User: "u1", Val: "np"}
	ks := opSpec{K: kPutKeys, Group: g}
	ld := opSpec{K: kLoad, Group: g}
	c1 := opSpec{K: kCreateGroup, Group: "n", INM: "*", Val: "c1"}
	c2 := opSpec{K: kCreateGroup, Group: "n", INM: "*", Val: "c2"}
	rmw := func(v string) []opSpec {
		return []opSpec{{K: kGetGroup, Group: g}, {K: kPutGroup, Group: g, IM: "prev", Val: v}}
	}
	one := func(o opSpec) []opSpec { return []opSpec{o} }
	mk := func(name string, ths ...[]opSpec) *program { return &program{name: "conc/" + name, threads: ths} }
	ps := []*program{
		// writers on the same object holding the same tag
		mk("group-PUT-vs-PUT", one(w1), one(w2)),
		mk("group-PUT-vs-DELETE", one(w1), one(d)),
		mk("group-DELETE-vs-DELETE", one(d), one(d)),
		mk("user-CREATE-vs-CREATE", one(nu), one(nu2)),
		mk("user-PUT-vs-PUT", one(pu), one(pu2)),
		mk("user-PUT-vs-DELETE", one(pu), one(du)),
		mk("group-CREATE-vs-CREATE", one(c1), one(c2)),
		mk("rmw-vs-rmw", rmw("w1"), rmw("w2")),
		// different objects sharing the file (and its tag)
		mk("group-PUT-vs-user-CREATE", one(w1), one(nu)),
		mk("group-PUT-vs-user-PUT", one(w1), one(pu)),
		mk("group-DELETE-vs-user-CREATE", one(d), one(nu)),
		mk("group-DELETE-vs-user-PUT", one(d), one(pu)),
		mk("user-CREATE-vs-user-PUT", one(nu), one(pu)),
		// endpoints that serve no tag: no other field may be lost
		mk("user-PUT-vs-password", one(pu), one(pw)),
		mk("group-PUT-vs-password", one(w1), one(pw)),
		mk("group-PUT-vs-keys", one(w1), one(ks)),
		mk("user-PUT-vs-keys", one(pu), one(ks)),
		mk("password-vs-keys", one(pw), one(ks)),
		mk("user-DELETE-vs-password", one(du), one(pw)),
		// readers
		mk("group-PUT-vs-GET-inm", one(w1), one(gi)),
		mk("group-PUT-vs-GET", one(w1), one(gg)),
		mk("group-DELETE-vs-GET-inm", one(d), one(gi)),
		mk("group-DELETE-vs-GET", one(d), one(gg)),
		mk("user-CREATE-vs-GET-inm", one(nu), one(gi)),
		mk("user-CREATE-vs-GET", one(nu), one(gg)),
		mk("user-PUT-vs-GET-inm", one(pu), one(gi)),
		mk("user-PUT-vs-GET", one(pu), one(gg)),
		mk("user-PUT-vs-user-GET-inm", one(pu), one(gu)),
		mk("GET-inm-vs-GET", one(gi), one(gg)),
		mk("group-PUT-vs-server-LOAD", one(w1), one(ld)),
		mk("group-DELETE-vs-server-LOAD", one(d), one(ld)),
		// triples
		mk("group-PUT-vs-PUT-vs-GET-inm", one(w1), one(w2), one(gi)),
		mk("group-PUT-vs-DELETE-vs-GET", one(w1), one(d), one(gg)),
		mk("group-PUT-vs-user-PUT-vs-password", one(w1), one(pu), one(pw)),
		mk("user-CREATE-vs-CREATE-vs-group-PUT", one(nu), one(nu2), one(w1)),
		mk("group-PUT-vs-server-LOAD-vs-GET-inm", one(w1), one(ld), one(gi)),
	}
	for _, p := range ps {
		switch p.name {
		case "conc/rmw-vs-rmw", "conc/group-PUT-vs-PUT-vs-GET-inm", "conc/group-PUT-vs-DELETE-vs-GET":
			p.deep = true
		}
	}
	return ps
}

func (p *program) small() bool {
	return len(p.threads) == 2 && len(p.threads[0]) == 1 && len(p.threads[1]) == 1
}

// runConc explores the programs.  Small programs (two single-request
// threads) are distributed whole over the shards, so that their
// distinct-outcome counts are exact; the larger ones are split below the
// root execution over all shards.
func runConc(res *core.Result, shard, shards int) {
	if os.Getenv("C18_DEBUG") != "" {
		debugOutcomes = map[string]int{}
	}
	nsmall := 0
	for _, p := range concPrograms() {
		if !core.Want(p.name) {
			continue
		}
		bound := core.Pick(2, 3)
		if !p.small() && !p.deep {
			bound = core.Pick(1, 2)
		}
		var sub core.Sub
		if p.small() {
			nsmall++
			if shards > 1 && nsmall%shards != shard {
				continue
			}
			sub = vrt.Explore(p.toVrt(bound), res, 0, 1)
		} else {
			sub = vrt.Explore(p.toVrt(bound), res, shard, shards)
		}
		if sub.Name == "" {
			sub.Name = p.name
		}
		res.AddSub(sub)
		if res.Fault != "" {
			return
		}
	}
	if debugOutcomes != nil {
		var ks []string
		for k := range debugOutcomes {
			ks = append(ks, k)
		}
		sort.Strings(ks)
		for _, k := range ks {
			fmt.Fprintf(os.Stderr, "%6d  %s\n", debugOutcomes[k], k)
		}
	}
}

package main

// Sub-check A: etagMatch / checkPreconditions over the full product of a
// header-token alphabet, against RFC 7232 list semantics restricted to what
// the server issues (strong tags).  Three-valued reference: yes / no /
// don't-care (whatever the property statement does not determine).

import (
	"fmt"
	"net/http"
	"net/http/httptest"
	"sort"
	"strings"
	"sync"
	"time"

	"github.com/jech/galene/webserver"

	"verif/core"
)

type tri int

const (
	no tri = iota
	yes
	either
)

func (t tri) String() string { return [...]string{"no", "yes", "either"}[t] }

var headerTokens = []string{`"t"`, `"u"`, `W/"t"`, `*`, `,`, ` `, `"t`, `junk`, ``}

// headers enumerates every sequence of at most n tokens joined without and
// with ", " separators (deduplicated, sorted).
func headers(n int) []string {
	set := map[string]bool{}
	var rec func(parts []string)
	rec = func(parts []string) {
		set[strings.Join(parts, "")] = true
		set[strings.Join(parts, ", ")] = true
		if len(parts) == n {
			return
		}
		for _, t := range headerTokens {
			rec(append(parts[:len(parts):len(parts)], t))
		}
	}
	rec(nil)
	out := make([]string, 0, len(set))
	for h := range set {
		out = append(out, h)
	}
	sort.Strings(out)
	return out
}

func isOWS(c byte) bool { return c == ' ' || c == '\t' }

// scanTag scans one RFC 7232 entity-tag at the start of s.
func scanTag(s string) (weak bool, opaque string, rest string, ok bool) {
	i := 0
	if strings.HasPrefix(s, "W/") {
		weak = true
		i = 2
	}
	if i >= len(s) || s[i] != '"' {
		return false, "", "", false
	}
	for j := i + 1; j < len(s); j++ {
		c := s[j]
		switch {
		case c == '"':
			return weak, s[i : j+1], s[j+1:], true
		case c == 0x21 || (c >= 0x23 && c <= 0x7e) || c >= 0x80:
		default:
			return false, "", "", false
		}
	}
	return false, "", "", false
}

// refInfo is the reference reading of one header value against one tag.
type refInfo struct {
	strong tri // does the header select the object, strong comparison (If-Match)
	weak   tri // same with weak comparison permitted (If-None-Match)
	star   bool
	broken bool
	weakEl bool // a weak element W/"x" with x = the tag was seen
}

// reference evaluates header (non-empty) against etag ("" = no object).
//
//	"*" alone                      -> the object exists
//	1#entity-tag (empty elements    -> some element equals the tag; a weak
//	 tolerated, RFC 7230 s.7)         element never matches strongly and is
//	                                  don't-care under weak comparison
//	anything else                  -> the elements completed (delimited by a
//	                                  comma or the end) before the first
//	                                  syntax error count; after it don't-care
func reference(etag, header string) refInfo {
	h := strings.Trim(header, " \t")
	if h == "*" {
		r := no
		if etag != "" {
			r = yes
		}
		return refInfo{strong: r, weak: r, star: true}
	}
	var ri refInfo
	s := header
	needComma := false
	elements := 0
	pendingStrong, pendingWeak := false, false
	confirm := func() (done bool) {
		if pendingStrong {
			ri.strong, ri.weak = yes, yes
			return true
		}
		if pendingWeak {
			ri.weakEl = true
		}
		pendingStrong, pendingWeak = false, false
		return false
	}
	for {
		for len(s) > 0 && isOWS(s[0]) {
			s = s[1:]
		}
		if len(s) == 0 {
			if confirm() {
				return ri
			}
			break
		}
		if s[0] == ',' {
			if confirm() {
				return ri
			}
			needComma = false
			s = s[1:]
			continue
		}
		weak, opaque, rest, ok := scanTag(s)
		if needComma || !ok {
			ri.broken = true
			break
		}
		elements++
		needComma = true
		if etag != "" && opaque == etag {
			if weak {
				pendingWeak = true
			} else {
				pendingStrong = true
			}
		}
		s = rest
	}
	if elements == 0 {
		ri.broken = true // "1#": at least one element
	}
	switch {
	case ri.broken:
		ri.strong, ri.weak = either, either
	case ri.weakEl:
		ri.strong, ri.weak = no, either
	default:
		ri.strong, ri.weak = no, no
	}
	return ri
}

type statusWriter struct {
	*httptest.ResponseRecorder
	calls int
	code  int
}

func (w *statusWriter) WriteHeader(c int) {
	w.calls++
	if w.calls == 1 {
		w.code = c
	}
	w.ResponseRecorder.WriteHeader(c)
}

// allowedStatuses is the set of results of checkPreconditions (0 = proceed)
// that the reference permits.
func allowedStatuses(method, etag, im, inm string) map[int]bool {
	out := map[int]bool{}
	imPass, imFail := true, false
	if im != "" {
		switch reference(etag, im).strong {
		case yes:
		case no:
			imPass, imFail = false, true
		case either:
			imFail = true
			out[400] = true // rejecting a malformed header outright is legitimate
		}
	}
	if imFail {
		out[412] = true
	}
	if !imPass {
		return out
	}
	if inm == "" {
		out[0] = true
		return out
	}
	hit := 412
	if method == "GET" || method == "HEAD" {
		hit = 304
	}
	switch reference(etag, inm).weak {
	case yes:
		out[hit] = true
	case no:
		out[0] = true
	case either:
		out[hit] = true
		out[0] = true
		if reference(etag, inm).broken {
			out[400] = true
		}
	}
	return out
}

func callCheck(method, etag, im, inm string) (done bool, code, calls int) {
	r := httptest.NewRequest(method, "http://localhost/galene-api/v0/.groups/g/", nil)
	if im != "" {
		r.Header.Set("If-Match", im)
	}
	if inm != "" {
		r.Header.Set("If-None-Match", inm)
	}
	w := &statusWriter{ResponseRecorder: httptest.NewRecorder()}
	done = webserver.VerifC18CheckPreconditions(w, r, etag)
	return done, w.code, w.calls
}

func etagSig(etag, header string, got bool, ri refInfo) string {
	switch {
	case ri.star && etag == "" && got:
		return "C18/etag/star-matches-nonexistent"
	case ri.star && etag != "" && !got:
		return "C18/etag/star-misses-existing"
	case got && etag == "":
		return "C18/etag/tag-matches-nonexistent"
	case got:
		return "C18/etag/false-match"
	default:
		return "C18/etag/list-member-missed"
	}
}

func precondSig(method, etag, im, inm string, code int, allowed map[int]bool) string {
	rw := "write"
	if method == "GET" || method == "HEAD" {
		rw = "read"
	}
	if im != "" {
		ri := reference(etag, im)
		if ri.strong == no && code != 412 {
			// the If-Match failure was not honoured
			if ri.weakEl {
				return "C18/etag/if-match-weak-accepted"
			}
			if ri.star {
				return "C18/etag/if-match-star-nonexistent-accepted"
			}
			return "C18/precond/if-match-failed-not-412/" + rw
		}
		if ri.strong == yes && code == 412 && inm == "" {
			return "C18/precond/if-match-held-but-412/" + rw
		}
	}
	if inm != "" {
		ri := reference(etag, inm)
		if ri.weak == yes {
			if ri.star {
				return fmt.Sprintf("C18/precond/if-none-match-star-existing/%s-got-%d", rw, code)
			}
			return fmt.Sprintf("C18/precond/if-none-match-current/%s-got-%d", rw, code)
		}
		if ri.weak == no {
			if ri.star {
				return fmt.Sprintf("C18/precond/if-none-match-star-nonexistent/%s-got-%d", rw, code)
			}
			return fmt.Sprintf("C18/precond/if-none-match-not-current/%s-got-%d", rw, code)
		}
	}
	return fmt.Sprintf("C18/precond/status/%s-got-%d", rw, code)
}

func keys(m map[int]bool) []int {
	var k []int
	for c := range m {
		k = append(k, c)
	}
	sort.Ints(k)
	return k
}

// checkEtagOne checks etagMatch on one (etag, header); nil if fine.
func checkEtagOne(etag, header string) (string, *core.Violation) {
	got := webserver.VerifC18EtagMatch(etag, header)
	if header == "" {
		// the empty header is "no precondition": never a match
		if got {
			return "", &core.Violation{Signature: "C18/etag/empty-header-matches",
				What:   fmt.Sprintf("etagMatch(%q, \"\") = true", etag),
				Replay: map[string]any{"kind": "etag", "etag": etag, "header": header}}
		}
		return "empty:false", nil
	}
	ri := reference(etag, header)
	bad := (ri.strong == yes && !got) || (ri.weak == no && got)
	if bad {
		return "", &core.Violation{Signature: etagSig(etag, header, got, ri),
			What: fmt.Sprintf("etagMatch(etag=%q, header=%q) = %v; reference: strong=%v weak=%v",
				etag, header, got, ri.strong, ri.weak),
			Replay: map[string]any{"kind": "etag", "etag": etag, "header": header}}
	}
	return fmt.Sprintf("s=%v,w=%v,star=%v:%v", ri.strong, ri.weak, ri.star, got), nil
}

func checkPrecondOne(method, etag, im, inm string) (string, *core.Violation) {
	done, code, calls := callCheck(method, etag, im, inm)
	replay := map[string]any{"kind": "precond", "method": method, "etag": etag, "im": im, "inm": inm}
	if calls > 1 || done != (code != 0) {
		return "", &core.Violation{Signature: "C18/precond/inconsistent-response",
			What: fmt.Sprintf("checkPreconditions(%s, etag=%q, If-Match=%q, If-None-Match=%q): done=%v with %d WriteHeader calls (status %d)",
				method, etag, im, inm, done, calls, code), Replay: replay}
	}
	allowed := allowedStatuses(method, etag, im, inm)
	if !allowed[code] {
		return "", &core.Violation{Signature: precondSig(method, etag, im, inm, code, allowed),
			What: fmt.Sprintf("checkPreconditions(%s, etag=%q, If-Match=%q, If-None-Match=%q) answered %d (0 = proceed); the reference permits %v",
				method, etag, im, inm, code, keys(allowed)), Replay: replay}
	}
	return fmt.Sprintf("%s:%v->%d", method, keys(allowed), code), nil
}

var etags = []string{``, `"t"`}
var methods = []string{"GET", "HEAD", "PUT", "DELETE"}

// parallelDo runs f(i) for i in [0,n) on all CPUs (the functions under test
// are pure) and collects outcomes and violations.
func parallelDo(n int, res *core.Result, out *core.Outcomes, f func(i int, add func(string, *core.Violation)) int64) (int64, bool) {
	var wg sync.WaitGroup
	var mu sync.Mutex
	var total int64
	complete := true
	workers := core.NCPU()
	next := 0
	for w := 0; w < workers; w++ {
		wg.Add(1)
		go func() {
			defer wg.Done()
			add := func(o string, v *core.Violation) {
				if v != nil {
					res.Violate(*v)
					return
				}
				out.Add(o)
			}
			for {
				mu.Lock()
				i := next
				next++
				mu.Unlock()
				if i >= n {
					return
				}
				if !core.TimeLeft() {
					mu.Lock()
					complete = false
					mu.Unlock()
					return
				}
				c := f(i, add)
				mu.Lock()
				total += c
				mu.Unlock()
			}
		}()
	}
	wg.Wait()
	return total, complete
}

func runEtag(res *core.Result) {
	ntok := core.Pick(3, 4)
	hs := headers(ntok)
	if core.Want("etag/match") {
		start := time.Now()
		var out core.Outcomes
		n, complete := parallelDo(len(hs), res, &out, func(i int, add func(string, *core.Violation)) int64 {
			for _, e := range etags {
				add(checkEtagOne(e, hs[i]))
			}
			return int64(len(etags))
		})
		res.AddSub(core.Sub{Name: "etag/match", Executions: n, States: int64(len(hs)), Transitions: n,
			Outcomes: out.N(), Exhaustive: complete,
			Bound: fmt.Sprintf("etag in {absent,\"t\"} x all headers of <=%d tokens from %d-token alphabet, joined by \"\" and \", \" (%d distinct strings)", ntok, len(headerTokens), len(hs)),
			Samples: []any{
				map[string]any{"etag": `"t"`, "header": `"u", W/"t", "t"`, "reference": reference(`"t"`, `"u", W/"t", "t"`).strong.String()},
				map[string]any{"etag": `"t"`, "header": `"t"junk`, "reference": reference(`"t"`, `"t"junk`).strong.String()},
				map[string]any{"etag": ``, "header": ` * `, "reference": reference(``, ` * `).strong.String()},
			},
			WallS: time.Since(start).Seconds()})
	}
	if core.Want("etag/precond-single") {
		start := time.Now()
		var out core.Outcomes
		n, complete := parallelDo(len(hs), res, &out, func(i int, add func(string, *core.Violation)) int64 {
			var c int64
			for _, e := range etags {
				for _, m := range methods {
					add(checkPrecondOne(m, e, hs[i], ""))
					add(checkPrecondOne(m, e, "", hs[i]))
					c += 2
				}
			}
			return c
		})
		res.AddSub(core.Sub{Name: "etag/precond-single", Executions: n, States: int64(len(hs)), Transitions: n,
			Outcomes: out.N(), Exhaustive: complete,
			Bound: fmt.Sprintf("{GET,HEAD,PUT,DELETE} x {absent,\"t\"} x {If-Match,If-None-Match} x %d header strings (<=%d tokens)", len(hs), ntok),
			Samples: []any{
				map[string]any{"method": "GET", "etag": `"t"`, "If-None-Match": `"u","t"`, "allowed": keys(allowedStatuses("GET", `"t"`, "", `"u","t"`))},
				map[string]any{"method": "PUT", "etag": `"t"`, "If-Match": `W/"t"`, "allowed": keys(allowedStatuses("PUT", `"t"`, `W/"t"`, ""))},
			},
			WallS: time.Since(start).Seconds()})
	}
	if core.Want("etag/precond-both") {
		start := time.Now()
		nb := core.Pick(2, 3)
		hb := headers(nb)
		var out core.Outcomes
		n, complete := parallelDo(len(hb), res, &out, func(i int, add func(string, *core.Violation)) int64 {
			var c int64
			if hb[i] == "" {
				return 0
			}
			for _, inm := range hb {
				if inm == "" {
					continue
				}
				for _, e := range etags {
					for _, m := range methods {
						add(checkPrecondOne(m, e, hb[i], inm))
						c++
					}
				}
			}
			return c
		})
		res.AddSub(core.Sub{Name: "etag/precond-both", Executions: n, States: int64(len(hb)) * int64(len(hb)), Transitions: n,
			Outcomes: out.N(), Exhaustive: complete,
			Bound: fmt.Sprintf("{GET,HEAD,PUT,DELETE} x {absent,\"t\"} x If-Match x If-None-Match, each from %d header strings (<=%d tokens)", len(hb), nb),
			Samples: []any{
				map[string]any{"method": "GET", "etag": `"t"`, "If-Match": `*`, "If-None-Match": `"t"`, "allowed": keys(allowedStatuses("GET", `"t"`, `*`, `"t"`))},
				map[string]any{"method": "DELETE", "etag": `"t"`, "If-Match": `"u"`, "If-None-Match": `"t"`, "allowed": keys(allowedStatuses("DELETE", `"t"`, `"u"`, `"t"`))},
			},
			WallS: time.Since(start).Seconds()})
	}
}

var _ = http.StatusOK

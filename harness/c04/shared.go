package main

import (
	"bytes"
	"fmt"

	"github.com/pion/rtp"

	"github.com/jech/galene/rtpconn"

	"verif/core"
	"verif/fwd"
	"verif/media"
)

// Shared-writer sub-check.  In the server one writer goroutine serves up to
// four receivers of a publisher: it reads a packet from the cache once and
// hands the very same buffer to each down track's Write in turn.  The main
// worlds have one receiver; here two real rtpDownTracks pinned at different
// layers are given each source buffer one after the other, exactly as
// rtpWriterLoop does, for every packet sequence up to a depth over the
// layer alphabet.  The publisher's packets are strictly consecutive, so every
// packet after the first is in order for both receivers.  Oracle (rule (a) per
// receiver): a packet above a receiver's selected layers yields nothing for
// that receiver, a packet within them yields exactly one packet carrying the
// source's body; and the buffer handed on to the next receiver is the packet
// that came in.

type sharedCfg struct {
	name   string
	vp9    bool
	layers []rtpconn.VerifLayer
}

type sharedPkt struct {
	tid, sid int
	key      bool
}

func (p sharedPkt) String() string {
	k := ""
	if p.key {
		k = "K"
	}
	return fmt.Sprintf("%ss%dt%d", k, p.sid, p.tid)
}

func sharedConfigs() []sharedCfg {
	l := func(sid, tid uint8) rtpconn.VerifLayer {
		return rtpconn.VerifLayer{Sid: sid, WantedSid: sid, MaxSid: 0, Tid: tid, WantedTid: tid, MaxTid: 2}
	}
	l9 := func(sid, tid uint8) rtpconn.VerifLayer {
		x := l(sid, tid)
		x.MaxSid = 1
		return x
	}
	return []sharedCfg{
		{"shared/vp8/t1-then-t0", false, []rtpconn.VerifLayer{l(0, 1), l(0, 0)}},
		{"shared/vp8/t0-then-t2", false, []rtpconn.VerifLayer{l(0, 0), l(0, 2)}},
		{"shared/vp8/t0-t1-t0", false, []rtpconn.VerifLayer{l(0, 0), l(0, 1), l(0, 0)}},
		{"shared/vp9/s0t1-then-s1t0", true, []rtpconn.VerifLayer{l9(0, 1), l9(1, 0)}},
		{"shared/vp9/s1t0-then-s0t2", true, []rtpconn.VerifLayer{l9(1, 0), l9(0, 2)}},
	}
}

func sharedAlphabet(vp9 bool) []sharedPkt {
	var a []sharedPkt
	for tid := 0; tid <= 2; tid++ {
		a = append(a, sharedPkt{tid: tid})
		if vp9 {
			a = append(a, sharedPkt{tid: tid, sid: 1})
		}
	}
	return a
}

func sharedBuild(vp9 bool, start uint16, i int, p sharedPkt) []byte {
	seq := start + uint16(i)
	body := []byte{0xC0, byte(i), byte(p.tid), byte(p.sid), 0x5A}
	if !vp9 {
		return media.VP8{Hdr: media.Hdr{Seq: seq, TS: uint32(i) * 3000, Marker: true, PT: 96, SSRC: fwd.UpSSRC},
			X: true, I: true, M: true, PictureID: uint16(200 + i), T: true, TID: uint8(p.tid),
			S: true, Keyframe: p.key, Body: body}.Bytes()
	}
	return media.VP9{Hdr: media.Hdr{Seq: seq, TS: uint32(i) * 3000, Marker: true, PT: 98, SSRC: fwd.UpSSRC},
		I: true, M: true, L: true, F: true, P: !p.key, PDiff: []uint8{1}, B: true, E: true,
		PictureID: uint16(200 + i), TID: uint8(p.tid), SID: uint8(p.sid), D: p.sid > 0,
		Keyframe: p.key, Body: body}.Bytes()
}

// sharedRun feeds one sequence; "" if every receiver got what its layer allows.
func sharedRun(c sharedCfg, start uint16, seq []sharedPkt) (string, string) {
	codec := fwd.VP8
	if c.vp9 {
		codec = fwd.VP9
	}
	var ws []*fwd.World
	for _, l := range c.layers {
		w := fwd.New(codec, 0)
		w.Down.SetLayer(l)
		ws = append(ws, w)
	}
	defer func() {
		for _, w := range ws {
			w.Close()
		}
	}()
	outcome := ""
	for i, p := range seq {
		buf := sharedBuild(c.vp9, start, i, p)
		orig := append([]byte(nil), buf...)
		var in rtp.Packet
		if err := in.Unmarshal(orig); err != nil {
			panic(err)
		}
		for k, w := range ws {
			if _, err := w.Down.Write(buf); err != nil {
				return "write-error", err.Error()
			}
			out := w.Rec.Take()
			after := w.Down.Layer()
			above := p.tid > int(after.Tid) || p.sid > int(after.Sid)
			if i > 0 && above && len(out) > 0 {
				return "above-layer-forwarded/shared-writer",
					fmt.Sprintf("packet %d (%s, source seq %d, in order) is above receiver %d's selected layers sid%d/tid%d and was forwarded to it as seq %d; the same buffer had been delivered to %d receiver(s) before",
						i, p, start+uint16(i), k, after.Sid, after.Tid, out[0].Header.SequenceNumber, k)
			}
			if !above {
				if len(out) != 1 {
					return "in-layer-packet-not-forwarded/shared-writer",
						fmt.Sprintf("packet %d (%s, source seq %d, in order) is within receiver %d's selected layers sid%d/tid%d and %d packets left for it; the same buffer had been delivered to %d receiver(s) before",
							i, p, start+uint16(i), k, after.Sid, after.Tid, len(out), k)
				}
				if !bytes.HasSuffix(out[0].Payload, in.Payload[len(in.Payload)-5:]) {
					return "body-differs/shared-writer", fmt.Sprintf("packet %d (%s): receiver %d got a different body", i, p, k)
				}
			}
			if len(out) > 0 {
				outcome += fmt.Sprintf("%d:%d ", k, out[0].Header.SequenceNumber-start)
			}
			if k+1 < len(ws) && !bytes.Equal(buf, orig) {
				return "source-buffer-modified/shared-writer",
					fmt.Sprintf("after receiver %d's Write of packet %d (%s) the buffer the writer loop hands to receiver %d next is no longer the packet that came in (byte %d differs): that receiver's in-order judgement and numbering are computed from another receiver's rewrite",
						k, i, p, k+1, firstDiffB(buf, orig))
			}
		}
	}
	return "", outcome
}

func firstDiffB(a, b []byte) int {
	for i := range a {
		if i >= len(b) || a[i] != b[i] {
			return i
		}
	}
	return len(a)
}

func runShared(res *core.Result, shard, shards int) {
	fwd.Init()
	depth := core.Pick(5, 7)
	job := 0
	for _, c := range sharedConfigs() {
		if !core.Want(c.name) {
			continue
		}
		for _, start := range []uint16{1000, 65533} {
			job++
			if job%shards != shard {
				continue
			}
			sub := core.Sub{Name: fmt.Sprintf("%s/start%d", c.name, start), Exhaustive: true}
			var outc core.Outcomes
			alpha := sharedAlphabet(c.vp9)
			seq := make([]sharedPkt, 0, depth)
			var rec func() bool
			rec = func() bool {
				if len(seq) > 0 {
					sub.Executions++
					sub.Transitions += int64(len(seq))
					sig, what := sharedRun(c, start, seq)
					if sig != "" {
						var names []string
						for _, p := range seq {
							names = append(names, p.String())
						}
						res.Violate(core.Violation{Signature: "C04/" + sig, Sub: sub.Name, What: what + fmt.Sprintf(" [sequence %v]", names),
							Replay: map[string]any{"shared": c.name, "start": start, "seq": names}})
						return false
					}
					outc.Add(what)
				}
				if len(seq) == depth || !core.TimeLeft() {
					if !core.TimeLeft() {
						sub.Exhaustive = false
					}
					return true
				}
				for _, a := range alpha {
					if len(seq) == 0 {
						a.key = true
					}
					seq = append(seq, a)
					ok := rec()
					seq = seq[:len(seq)-1]
					if !ok {
						return false
					}
				}
				return true
			}
			rec()
			sub.States = sub.Executions
			sub.Outcomes = outc.N()
			sub.Bound = fmt.Sprintf("every sequence of 1..%d consecutive packets over %d layer classes handed to %d receivers through one shared buffer", depth, len(alpha), len(c.layers))
			res.AddSub(sub)
		}
	}
}

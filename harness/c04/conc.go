package main

import (
	"fmt"
	"time"
	"unsafe"

	gcodecs "github.com/jech/galene/codecs"
	"github.com/jech/galene/rtpconn"

	"verif/core"
	"verif/fwd"
	"verif/media"
	"verif/vatomic"
	"verif/vrt"
	"verif/vtime"
)

// Concurrent sub-check ("schedules" in the property's quantifier).  In the
// server one down track's layer word is written by three goroutines that
// share no lock: the publisher's read loop (rtpDownTrack.Write), the
// subscriber's RTCP listener (adjustLayer after feedback, and Write again when
// it answers a NACK) and the subscriber's client loop (replaceTracks after a
// `request`).  The programs run the real functions as controlled threads under
// every schedule with at most MaxPreempt preemptions (every atomic load and
// store is a scheduling point).  Every store to the layer word is observed at
// the moment it takes effect (vatomic.StoreHook32) and attributed to the
// thread that made it and, for Write, to the packet being processed.  Oracle,
// straight from the statement:
//
//   - the spatial layer changes only in a Write that processes the first
//     packet of a keyframe;
//   - the temporal layer falls only in a Write that processes a frame start
//     and rises only in a Write that processes a keyframe start
//     (the programs contain no up-switch points and no first appearance of a
//     layer, so these are the only legal causes);
//   - a low-quality request (limitSid) is never undone by a media packet, and
//     holds at the end.

type cpkt struct {
	Tid, Sid int
	Start, K bool
}

func (p cpkt) String() string {
	s := fmt.Sprintf("tid%d", p.Tid)
	if p.Sid > 0 {
		s += fmt.Sprintf("/sid%d", p.Sid)
	}
	if p.Start {
		s += "/start"
	}
	if p.K {
		s += "/keyframe"
	}
	return s
}

type storeEv struct {
	thread   int
	old, new uint32
	pkt      *cpkt // packet being processed by that thread, nil for non-Write threads
}

type cthread struct {
	name string
	// exactly one of:
	pkts   []cpkt // Write these packets in order
	adjust bool   // adjustLayer()
	limit  int    // replaceTracks(limitSid): 1 on, 2 off
}

type cprog struct {
	name    string
	vp9     bool
	preset  rtpconn.VerifLayer
	load    bool // actual rate far above the ceiling (adjustLayer steps down) instead of far below (steps up)
	threads []cthread
}

func concProgramList() []cprog {
	W := func(p ...cpkt) cthread { return cthread{name: "write", pkts: p} }
	N := func(p ...cpkt) cthread { return cthread{name: "nack-write", pkts: p} }
	A := cthread{name: "adjustLayer", adjust: true}
	L := cthread{name: "replaceTracks(low)", limit: 1}
	start := cpkt{Start: true}
	cont := cpkt{}
	key := cpkt{Start: true, K: true}
	l := []cprog{
		// the temporal layer is about to fall; feedback wants to go up
		{name: "conc/tid-fall-vs-adjust-up", preset: rtpconn.VerifLayer{Tid: 1, WantedTid: 0, MaxTid: 2},
			threads: []cthread{W(start, cont), A}},
		// the temporal layer is about to rise at a keyframe; feedback wants to go down
		{name: "conc/tid-rise-vs-adjust-down", preset: rtpconn.VerifLayer{Tid: 1, WantedTid: 2, MaxTid: 2}, load: true,
			threads: []cthread{W(key, cont), A}},
		// the spatial layer is about to rise at a keyframe; feedback wants to go down
		{name: "conc/sid-switch-vs-adjust-down", vp9: true, load: true,
			preset:  rtpconn.VerifLayer{Sid: 0, WantedSid: 1, MaxSid: 1, Tid: 1, WantedTid: 1, MaxTid: 1},
			threads: []cthread{W(key, cpkt{Sid: 1, Start: true}), A}},
		// low quality is requested while a frame start lowers the temporal layer
		{name: "conc/low-quality-vs-write", vp9: true,
			preset:  rtpconn.VerifLayer{Sid: 1, WantedSid: 1, MaxSid: 1, Tid: 1, WantedTid: 0, MaxTid: 1},
			threads: []cthread{W(start, key), L}},
		// a retransmission (frame start) is written while a keyframe switches the spatial layer
		{name: "conc/nack-write-vs-keyframe", vp9: true,
			preset:  rtpconn.VerifLayer{Sid: 0, WantedSid: 1, MaxSid: 1, Tid: 1, WantedTid: 0, MaxTid: 1},
			threads: []cthread{W(key), N(start)}},
	}
	if !core.Quick() {
		l = append(l,
			cprog{name: "conc/write-vs-adjust-vs-low-quality", vp9: true,
				preset:  rtpconn.VerifLayer{Sid: 1, WantedSid: 1, MaxSid: 1, Tid: 1, WantedTid: 0, MaxTid: 1},
				threads: []cthread{W(start, key), A, L}},
			cprog{name: "conc/sid-down-vs-adjust-up", vp9: true,
				preset:  rtpconn.VerifLayer{Sid: 1, WantedSid: 0, MaxSid: 1, Tid: 0, WantedTid: 0, MaxTid: 1},
				threads: []cthread{W(key, start), A}},
		)
	}
	return l
}

func buildC(vp9 bool, seq uint16, n int, o cpkt) []byte {
	var buf []byte
	codec := "video/VP8"
	if !vp9 {
		buf = media.VP8{Hdr: media.Hdr{Seq: seq, TS: uint32(n) * 3000, Marker: true, PT: 96, SSRC: fwd.UpSSRC},
			X: true, I: true, M: true, PictureID: uint16(10 + n), T: true, TID: uint8(o.Tid),
			S: o.Start, Keyframe: o.K, Body: []byte{1, 2, 3}}.Bytes()
	} else {
		codec = "video/VP9"
		buf = media.VP9{Hdr: media.Hdr{Seq: seq, TS: uint32(n) * 3000, Marker: true, PT: 98, SSRC: fwd.UpSSRC},
			I: true, M: true, L: true, F: true, P: !o.K, PDiff: []uint8{1}, B: o.Start, E: true,
			PictureID: 7, TID: uint8(o.Tid), SID: uint8(o.Sid), D: o.Sid > 0,
			Keyframe: o.K, Body: []byte{1, 2, 3}}.Bytes()
	}
	f, err := gcodecs.PacketFlags(codec, buf)
	if err != nil || f.Start != o.Start || f.Keyframe != o.K || int(f.Tid) != o.Tid || int(f.Sid) != o.Sid {
		panic(fmt.Sprintf("harness packet flags mismatch: %+v vs %+v (%v)", f, o, err))
	}
	return buf
}

func (c cprog) program() vrt.Program {
	return vrt.Program{
		Name:       c.name,
		MaxPreempt: core.Pick(2, 3),
		MaxSteps:   20000,
		Setup: func() ([]func(), []string, func() (string, *core.Violation)) {
			codec := fwd.VP8
			if c.vp9 {
				codec = fwd.VP9
			}
			w := fwd.New(codec, 1)
			w.Down.SetLayer(c.preset)
			if c.load {
				max, _, _ := w.Down.DownTrack().GetMaxBitrate()
				w.Down.RateAccumulate(uint32(max*3/16 + 100000))
				vtime.Advance(time.Second)
			}
			addr := w.Down.LayerAddr()
			var log []storeEv
			cur := map[int]*cpkt{}
			vatomic.StoreHook32 = func(a unsafe.Pointer, old, new uint32) {
				if a != addr {
					return
				}
				t := vrt.Cur()
				log = append(log, storeEv{thread: t, old: old, new: new, pkt: cur[t]})
			}
			var werr error
			limitDone := false
			seq := uint16(100)
			var bodies []func()
			var names []string
			n := 0
			for _, th := range c.threads {
				th := th
				names = append(names, th.name)
				switch {
				case th.adjust:
					bodies = append(bodies, func() { w.Down.AdjustLayer() })
				case th.limit != 0:
					bodies = append(bodies, func() {
						if _, err := w.Down.ReplaceTracksLimit(th.limit == 1); err != nil && werr == nil {
							werr = err
						}
						limitDone = th.limit == 1
					})
				default:
					var bufs [][]byte
					for _, p := range th.pkts {
						bufs = append(bufs, buildC(c.vp9, seq, n, p))
						seq++
						n++
					}
					bodies = append(bodies, func() {
						me := vrt.Cur()
						for i := range th.pkts {
							cur[me] = &th.pkts[i]
							if _, err := w.Down.Write(bufs[i]); err != nil && werr == nil {
								werr = err
							}
							cur[me] = nil
						}
					})
				}
			}
			final := func() (string, *core.Violation) {
				vatomic.StoreHook32 = nil
				defer w.Close()
				if werr != nil {
					return "", &core.Violation{Signature: "HARNESS-FAULT", What: "call failed: " + werr.Error()}
				}
				name := func(t int) string {
					if t >= 0 && t < len(names) {
						return names[t]
					}
					return fmt.Sprint("thread ", t)
				}
				out := ""
				for _, e := range log {
					o, nw := rtpconn.VerifLayerOfRaw(e.old), rtpconn.VerifLayerOfRaw(e.new)
					who := name(e.thread)
					if e.pkt != nil {
						who += " processing packet " + e.pkt.String()
					}
					if nw.Sid != o.Sid && !(e.pkt != nil && e.pkt.Start && e.pkt.K) {
						cls := "by-feedback"
						if e.pkt != nil {
							cls = "by-other-packet"
						}
						return "", &core.Violation{Signature: "C04/conc/spatial-layer-changed-outside-keyframe/" + cls,
							What: fmt.Sprintf("the selected spatial layer changed %d->%d by a store of %s, which is not the first packet of a keyframe (a stale copy of the layer word was written back)", o.Sid, nw.Sid, who)}
					}
					if nw.Tid < o.Tid && !(e.pkt != nil && e.pkt.Start) {
						cls := "by-feedback"
						if e.pkt != nil {
							cls = "by-other-packet"
						}
						return "", &core.Violation{Signature: "C04/conc/temporal-layer-fell-outside-frame-start/" + cls,
							What: fmt.Sprintf("the selected temporal layer fell %d->%d by a store of %s, which is not a frame start (a stale copy of the layer word was written back)", o.Tid, nw.Tid, who)}
					}
					if nw.Tid > o.Tid && !(e.pkt != nil && e.pkt.Start && e.pkt.K) {
						cls := "by-feedback"
						if e.pkt != nil {
							cls = "by-other-packet"
						}
						return "", &core.Violation{Signature: "C04/conc/temporal-layer-rose-outside-sync-point/" + cls,
							What: fmt.Sprintf("the selected temporal layer rose %d->%d by a store of %s, which is neither a keyframe nor an up-switch point (a stale copy of the layer word was written back)", o.Tid, nw.Tid, who)}
					}
					if o.LimitSid && !nw.LimitSid && e.pkt != nil {
						return "", &core.Violation{Signature: "C04/conc/low-quality-request-undone-by-packet",
							What: fmt.Sprintf("the low-quality request (limitSid) was cleared by a store of %s (a stale copy of the layer word was written back)", who)}
					}
					out += fmt.Sprintf("%d:%d%d>%d%d;", e.thread, o.Sid, o.Tid, nw.Sid, nw.Tid)
				}
				l := w.Down.Layer()
				if limitDone && !l.LimitSid {
					return "", &core.Violation{Signature: "C04/conc/low-quality-request-undone-by-packet",
						What: "replaceTracks(low quality) completed but the layer word no longer carries the request at quiescence"}
				}
				if l.Sid > c.preset.MaxSid || l.Tid > c.preset.MaxTid {
					return "", &core.Violation{Signature: "C04/conc/layer-above-seen", What: fmt.Sprintf("selected sid%d/tid%d exceeds the highest layers seen", l.Sid, l.Tid)}
				}
				return out + fmt.Sprintf("|%v", l), nil
			}
			return bodies, names, final
		},
		Classify: func(kind, info string) string { return "C04/conc/" + kind },
	}
}

func concPrograms() []vrt.Program {
	var ps []vrt.Program
	for _, c := range concProgramList() {
		ps = append(ps, c.program())
	}
	return ps
}

func runConcurrent(res *core.Result, shard, shards int) {
	fwd.Init()
	defer vrt.SetMode(vrt.Tasks)
	for _, p := range concPrograms() {
		if !core.Want(p.Name) {
			continue
		}
		res.AddSub(vrt.Explore(p, res, shard, shards))
	}
}

// C04 — layers above the selection are withheld; switches occur only at
// legal points.
//
// Explicit-state BFS over packet sequences (every tid/sid/start/keyframe/
// up-switch/non-reference flag pattern the VP8 and VP9 payload descriptors
// can express) interleaved in any order with bandwidth feedback (REMB and
// receiver reports delivered as real RTCP to the real rtcpDownListener,
// feedback timeouts, load changes on the virtual clock) and request changes
// (the real replaceTracks).  Monitors compare the layer selection reported by
// GetMaxBitrate and the packets on the write stream before/after every
// transition with the rules of the property.
package main

import (
	"github.com/pion/rtp"
	pcodecs "github.com/pion/rtp/codecs"

	"encoding/json"
	"fmt"
	"os"
	"strings"
	"time"

	"github.com/pion/rtcp"

	gcodecs "github.com/jech/galene/codecs"
	"github.com/jech/galene/rtpconn"
	"github.com/jech/galene/rtptime"

	"verif/core"
	"verif/fwd"
	"verif/media"
	"verif/seqx"
	"verif/vrt"
	"verif/vtime"
)

type op struct {
	Kind string `json:"k"`
	// packet flags
	Tid    int  `json:"tid,omitempty"`
	Sidv   int  `json:"sid,omitempty"`
	Start  bool `json:"start,omitempty"`
	K      bool `json:"key,omitempty"`
	Up     bool `json:"up,omitempty"`     // temporal up-switch point
	NonRef bool `json:"nonref,omitempty"` // vp9 Z
	NoL    bool `json:"nol,omitempty"`    // vp9 without layer indices (L=0): temporal and spatial layer 0, not an up-switch point
	Intra  bool `json:"intra,omitempty"`  // vp9 P=0 on a frame that is not a keyframe (intra-only / refresh frame)
	Late   bool `json:"late,omitempty"`
	// the packet follows an outage: its number is 10000 beyond the previous one
	Jump bool `json:"jump,omitempty"`
	N    int  `json:"n,omitempty"`
}

func (o op) String() string {
	b, _ := json.Marshal(o)
	return string(b)
}

type world struct {
	vp9     bool
	w       *fwd.World
	start   uint16
	cursor  int64 // next source position
	hole    int64 // a skipped position available for "late", -1 if none
	npkts   int
	jumps   int  // outages so far
	dropped bool // some packet has been withheld (the sequence map holds drops)
	maxTid  int  // highest layers seen by the oracle
	maxSid  int
	limited bool // low quality requested
	kfSince bool // a keyframe start was processed since limit(on)
	gotRR   bool
	outcome string
	pic     int
	// packets that galene's PacketFlags classified differently from their bits
	misclassified int
}

// presets are non-initial layer states (all reachable by longer histories:
// first appearance of the top layers followed by feedback-driven requests)
// from which the search is also started.
var presets = map[string]rtpconn.VerifLayer{
	"init":      {},
	"want-up":   {Tid: 0, WantedTid: 1, MaxTid: 2, Sid: 0, WantedSid: 1, MaxSid: 1},
	"want-down": {Tid: 2, WantedTid: 0, MaxTid: 2, Sid: 1, WantedSid: 0, MaxSid: 1},
	// waiting for a sync point to go back to the top of the layers seen so
	// far, when the publisher starts a layer nobody has seen yet
	"want-top-of-two": {Tid: 0, WantedTid: 1, MaxTid: 1, Sid: 0, WantedSid: 0, MaxSid: 0},
}

func fresh(vp9 bool, start uint16, preset string) func() seqx.World {
	return func() seqx.World {
		codec := fwd.VP8
		if vp9 {
			codec = fwd.VP9
		}
		w := fwd.New(codec, 1)
		l := presets[preset]
		if !vp9 {
			l.Sid, l.WantedSid, l.MaxSid = 0, 0, 0
		}
		w.Down.SetLayer(l)
		go w.Down.RTCPListener()
		return &world{vp9: vp9, w: w, start: start, hole: -1, maxTid: int(l.MaxTid), maxSid: int(l.MaxSid)}
	}
}

func (w *world) Close() { w.w.Close() }

func (w *world) pktOps() []op {
	var ops []op
	if !w.vp9 {
		for _, tid := range []int{0, 1, 2} {
			ops = append(ops, op{Kind: "pkt", Tid: tid})                        // continuation
			ops = append(ops, op{Kind: "pkt", Tid: tid, Start: true})           // frame start
			ops = append(ops, op{Kind: "pkt", Tid: tid, Start: true, Up: true}) // layer sync
			ops = append(ops, op{Kind: "pkt", Tid: tid, Start: true, K: true})  // keyframe
		}
		return ops
	}
	for _, sid := range []int{0, 1, 2} {
		for _, tid := range []int{0, 1} {
			ops = append(ops, op{Kind: "pkt", Tid: tid, Sidv: sid})
			ops = append(ops, op{Kind: "pkt", Tid: tid, Sidv: sid, Start: true})
			ops = append(ops, op{Kind: "pkt", Tid: tid, Sidv: sid, Start: true, Up: true})
			if sid == 0 {
				ops = append(ops, op{Kind: "pkt", Tid: tid, Sidv: sid, Start: true, K: true})
			}
		}
		ops = append(ops, op{Kind: "pkt", Tid: 0, Sidv: sid, Start: true, NonRef: true})
	}
	// frames without inter-picture prediction that are not keyframes
	ops = append(ops, op{Kind: "pkt", Sidv: 0, Start: true, Intra: true}, op{Kind: "pkt", Sidv: 1, Start: true, Intra: true})
	// packets of a stream (or of stretches of one) without layer indices
	ops = append(ops, op{Kind: "pkt", NoL: true}, op{Kind: "pkt", NoL: true, Start: true}, op{Kind: "pkt", NoL: true, Start: true, K: true})
	return ops
}

func (w *world) Ops() []seqx.Op {
	var ops []seqx.Op
	for _, p := range w.pktOps() {
		ops = append(ops, p)
	}
	ops = append(ops, op{Kind: "skip"})
	// an outage: the stream resumes with a base-layer frame start far ahead
	if w.npkts > 0 && w.jumps < 1 {
		ops = append(ops, op{Kind: "pkt", Start: true, Jump: true}, op{Kind: "pkt", Start: true, K: true, Jump: true})
	}
	if w.hole >= 0 {
		ops = append(ops, op{Kind: "pkt", Late: true, Start: true, K: true})
		ops = append(ops, op{Kind: "pkt", Late: true, Tid: 1, Start: true})
	}
	// (5000 is below the floor of the loss-based ceiling: the two ceilings are separate)
	for _, r := range []int{5_000, 50_000, 10_000_000} {
		ops = append(ops, op{Kind: "remb", N: r})
	}
	for _, l := range []int{0, 4, 5, 25, 26, 255} {
		ops = append(ops, op{Kind: "rr", N: l})
	}
	ops = append(ops, op{Kind: "timeout"}, op{Kind: "load", N: 1}, op{Kind: "load", N: 0},
		op{Kind: "limit", N: 1}, op{Kind: "limit", N: 0})
	ops = append(ops, op{Kind: "rrx", N: 255}, op{Kind: "rrx", N: 0})
	return ops
}

func viol(sig, what string) *core.Violation {
	return &core.Violation{Signature: "C04/" + sig, What: what}
}

func (w *world) feed(p rtcp.Packet) {
	b, err := p.Marshal()
	if err != nil {
		panic(err)
	}
	w.w.DownCtl.Feed(b)
}

func (w *world) class() string {
	if w.start >= 57344 {
		return "first-seqno>=57344"
	}
	return "any-start"
}

func (w *world) Apply(x seqx.Op) *core.Violation {
	v := w.apply(x.(op))
	if v != nil {
		v.Signature += "/" + w.class()
	}
	return v
}

func (w *world) apply(o op) *core.Violation {
	before := w.w.Down.Layer()
	w.w.Rec.Take()
	w.outcome = o.Kind
	switch o.Kind {
	case "pkt":
		return w.packet(o, before)
	case "skip":
		if w.hole < 0 {
			w.hole = w.cursor
			w.cursor++
		}
	case "remb":
		w.feed(&rtcp.ReceiverEstimatedMaximumBitrate{SenderSSRC: 1, Bitrate: float32(o.N), SSRCs: []uint32{fwd.DownSSRC}})
	case "rr", "rrx":
		n := 1
		if o.Kind == "rrx" {
			n = 12 // macro: drive the ceiling to a bound
			if o.N == 0 {
				n = 200
			}
		}
		for i := 0; i < n; i++ {
			if o.Kind == "rrx" && o.N == 0 {
				// keep the actual rate high so the ceiling is probed upwards
				c, _ := w.w.Down.LossCeiling()
				if c < 9600 {
					c = 512000
				}
				w.w.Down.RateAccumulate(uint32(min(c/8+1000, 1<<31)))
				vtime.Advance(time.Second)
			}
			w.feed(&rtcp.ReceiverReport{SSRC: 1, Reports: []rtcp.ReceptionReport{{SSRC: fwd.DownSSRC, FractionLost: uint8(o.N)}}})
			c, _ := w.w.Down.LossCeiling()
			if c < 9600 || c > 1<<30 {
				return viol("loss-ceiling-out-of-bounds", fmt.Sprintf("after a receiver report with loss %d the loss-based ceiling is %d, outside [9600, 2^30]", o.N, c))
			}
		}
		w.gotRR = true
	case "timeout":
		vtime.Advance(31 * time.Second)
	case "load":
		max, _, _ := w.w.Down.DownTrack().GetMaxBitrate()
		if o.N == 1 {
			bytes := max*3/16 + 100000
			if bytes > 1<<31 {
				bytes = 1 << 31
			}
			w.w.Down.RateAccumulate(uint32(bytes))
		}
		vtime.Advance(time.Second)
		// feedback is what triggers adjustLayer: a REMB far above everything
		// changes no ceiling but runs the adjustment with the new rate
	case "limit":
		if _, err := w.w.Down.ReplaceTracksLimit(o.N == 1); err != nil {
			panic(err)
		}
		w.limited = o.N == 1
		w.kfSince = false
	}
	after := w.w.Down.Layer()
	if out := w.w.Rec.Take(); len(out) > 0 {
		return viol("spontaneous-packet", "a non-media event wrote a media packet")
	}
	if after.Sid != before.Sid || after.Tid != before.Tid {
		return viol("layer-changed-without-packet/"+o.Kind, fmt.Sprintf("%s changed the forwarded layer from sid%d/tid%d to sid%d/tid%d outside a packet", o.Kind, before.Sid, before.Tid, after.Sid, after.Tid))
	}
	return w.invariants(after)
}

func (w *world) invariants(l rtpconn.VerifLayer) *core.Violation {
	if int(l.Sid) > w.maxSid || int(l.Tid) > w.maxTid {
		return viol("layer-above-seen", fmt.Sprintf("selected sid%d/tid%d exceeds the highest layers seen in the stream (sid%d/tid%d)", l.Sid, l.Tid, w.maxSid, w.maxTid))
	}
	_, sid, tid := w.w.Down.DownTrack().GetMaxBitrate()
	if sid != int(l.Sid) || tid != int(l.Tid) {
		return viol("reported-layer-differs", "GetMaxBitrate reports a different layer than the layer word")
	}
	if w.limited && w.kfSince && l.Sid != 0 {
		return viol("low-quality-not-steered", fmt.Sprintf("low quality requested and a keyframe has started since, but the selected spatial layer is %d", l.Sid))
	}
	if w.gotRR {
		c, j := w.w.Down.LossCeiling()
		_ = j
		if c < 9600 || c > 1<<30 {
			return viol("loss-ceiling-out-of-bounds", fmt.Sprintf("loss-based ceiling is %d, outside [9600, 2^30]", c))
		}
	}
	return nil
}

func (w *world) packet(o op, before rtpconn.VerifLayer) *core.Violation {
	var p int64
	inorder := false
	if o.Late {
		p = w.hole
		w.hole = -1
	} else {
		if o.Jump {
			w.cursor += 10000
			w.jumps++
			w.hole = -1 // far out of reach
		}
		p = w.cursor
		w.cursor++
		inorder = w.npkts > 0 && w.hole != p-1 && !o.Jump
	}
	if !o.Late && w.hole == p-1 {
		inorder = false // follows a gap
	}
	w.npkts++
	seq := w.start + uint16(p)
	var buf []byte
	if !w.vp9 {
		w.pic++
		buf = media.VP8{Hdr: media.Hdr{Seq: seq, TS: uint32(p) * 3000, Marker: true, PT: 96, SSRC: fwd.UpSSRC},
			X: true, I: true, M: true, PictureID: uint16(w.pic), T: true, TID: uint8(o.Tid), Y: o.Up,
			S: o.Start, Keyframe: o.K, Body: []byte{1, 2, 3}}.Bytes()
	} else {
		buf = media.VP9{Hdr: media.Hdr{Seq: seq, TS: uint32(p) * 3000, Marker: true, PT: 98, SSRC: fwd.UpSSRC},
			I: true, M: true, L: !o.NoL, F: true, P: !o.K && !o.Intra, PDiff: []uint8{1}, B: o.Start, E: true, Z: o.NonRef,
			PictureID: 7, TID: uint8(o.Tid), U: o.Up, SID: uint8(o.Sidv), D: o.Sidv > 0,
			Keyframe: o.K, Body: []byte{1, 2, 3}}.Bytes()
	}
	codec := "video/VP8"
	if w.vp9 {
		codec = "video/VP9"
	}
	selfCheck(w.vp9, buf, o)
	// what galene's classifier makes of it should be what we meant
	f, err := gcodecs.PacketFlags(codec, buf)
	if err != nil {
		panic("harness packet not parsable: " + err.Error())
	}
	if f.Start != o.Start || f.Keyframe != o.K || int(f.Tid) != o.Tid || int(f.Sid) != o.Sidv ||
		f.TidUpSync != (o.K || o.Up) || f.SidNonReference != o.NonRef {
		// galene's classifier disagrees with the bits of the packet (which
		// pion's parser and the builder agree on, see selfCheck): not a
		// verdict by itself -- the oracles below judge what is forwarded
		// against the packet's real flags
		w.misclassified++
	}
	prevMaxTid, prevMaxSid := w.maxTid, w.maxSid
	if o.Tid > w.maxTid {
		w.maxTid = o.Tid
	}
	if o.Sidv > w.maxSid {
		w.maxSid = o.Sidv
	}
	_, werr := w.w.Down.Write(buf)
	if werr != nil {
		return viol("write-error", werr.Error())
	}
	out := w.w.Rec.Take()
	after := w.w.Down.Layer()
	desc := fmt.Sprintf("packet %s (in order: %v)", o, inorder)
	if len(out) == 0 {
		w.dropped = true
	}

	// (a) above the selection and in order => withheld
	if inorder && (o.Tid > int(after.Tid) || o.Sidv > int(after.Sid)) && len(out) > 0 {
		return viol("above-layer-forwarded", fmt.Sprintf("%s is above the selected layers sid%d/tid%d and was forwarded", desc, after.Sid, after.Tid))
	}
	// (b) spatial switches
	if after.Sid != before.Sid {
		legal := o.Start && o.K
		first := int(before.Sid) == prevMaxSid && o.Sidv > prevMaxSid && int(after.Sid) == o.Sidv && !w.limited
		if !legal && !first {
			return viol("illegal-spatial-switch", fmt.Sprintf("%s switched the spatial layer %d->%d although it does not start a keyframe (and is not the first appearance of a new top layer)", desc, before.Sid, after.Sid))
		}
	}
	// (c) temporal switches
	if after.Tid < before.Tid && !o.Start {
		return viol("illegal-temporal-down-switch", fmt.Sprintf("%s lowered the temporal layer %d->%d in the middle of a frame", desc, before.Tid, after.Tid))
	}
	if after.Tid > before.Tid {
		kf := o.Start && o.K
		sync := (o.K || o.Up) && o.Tid <= int(after.WantedTid) && int(after.Tid) <= int(after.WantedTid)
		// first appearance of a new top layer, possibly followed at this same
		// packet by a (legal) fall at a frame start
		first := int(before.Tid) == prevMaxTid && o.Tid > prevMaxTid &&
			(int(after.Tid) == o.Tid || (o.Start && int(after.Tid) < o.Tid))
		if !kf && !sync && !first {
			return viol("illegal-temporal-up-switch", fmt.Sprintf("%s raised the temporal layer %d->%d (wanted %d) although it is neither a keyframe nor an up-switch point for a layer not above the wanted one", desc, before.Tid, after.Tid, after.WantedTid))
		}
	}
	if o.Start && o.K {
		w.kfSince = true
	}
	w.outcome = fmt.Sprintf("pkt/%v/%d%d->%d%d", len(out) > 0, before.Sid, before.Tid, after.Sid, after.Tid)
	return w.invariants(after)
}

// selfCheck verifies with pion's own depacketisers (independent of galene's
// classifier) that the packet the harness built carries the intended flags.
func selfCheck(vp9 bool, buf []byte, o op) {
	var p rtp.Packet
	if err := p.Unmarshal(buf); err != nil {
		panic("harness packet not parsable: " + err.Error())
	}
	if !vp9 {
		var v pcodecs.VP8Packet
		if _, err := v.Unmarshal(p.Payload); err != nil {
			panic("harness VP8 payload not parsable: " + err.Error())
		}
		if int(v.TID) != o.Tid || (v.S == 1) != o.Start || (v.Y == 1) != o.Up {
			panic(fmt.Sprintf("harness VP8 packet does not carry the intended flags: %+v vs %v", v, o))
		}
		return
	}
	var v pcodecs.VP9Packet
	if _, err := v.Unmarshal(p.Payload); err != nil {
		panic("harness VP9 payload not parsable: " + err.Error())
	}
	if v.L == o.NoL || v.B != o.Start || v.Z != o.NonRef || (v.L && (int(v.TID) != o.Tid || int(v.SID) != o.Sidv || v.U != o.Up)) {
		panic(fmt.Sprintf("harness VP9 packet does not carry the intended flags: %+v vs %v", v, o))
	}
}

func (w *world) Canon() string {
	var b strings.Builder
	now := rtptime.Jiffies()
	l := w.w.Down.Layer()
	fmt.Fprintf(&b, "L%v", l)
	c, cj := w.w.Down.LossCeiling()
	r, rj := w.w.Down.REMB()
	rel := func(j uint64) int64 {
		if j == 0 {
			return -1
		}
		d := int64(now-j) / int64(rtptime.JiffiesPerSec)
		if d > 31 {
			d = 31
		}
		return d
	}
	fmt.Fprintf(&b, "|c%d@%d|r%d@%d|%s", c, rel(cj), r, rel(rj), w.w.Down.RateState(now))
	// the sequence map only matters through "is the next packet in order"
	fmt.Fprintf(&b, "|h%v|n%v|m%d,%d|lim%v,%v|rr%v", w.hole >= 0 && w.hole == w.cursor-1, w.npkts > 0, w.maxTid, w.maxSid, w.limited, w.kfSince, w.gotRR)
	if w.hole >= 0 {
		b.WriteString("|hole")
	}
	// an outage resets the sequence map only if it holds drops: whether it
	// does is part of the state once an outage can still happen or has happened
	fmt.Fprintf(&b, "|j%d,%v", w.jumps, w.dropped)
	return b.String()
}

func (w *world) Outcome() string { return w.outcome }

type cfgDesc struct {
	kind   string
	start  uint16
	preset string
}

func allConfigs() []cfgDesc {
	var cs []cfgDesc
	for _, k := range []string{"vp8", "vp9"} {
		for _, s := range core.Pick([]uint16{100, 57344, 65535}, []uint16{100, 0, 57343, 57344, 65534, 65535, 32768}) {
			cs = append(cs, cfgDesc{k, s, "init"})
		}
		cs = append(cs, cfgDesc{k, 100, "want-up"}, cfgDesc{k, 100, "want-down"}, cfgDesc{k, 100, "want-top-of-two"})
	}
	return cs
}

func cfgFor(c cfgDesc) seqx.Config {
	return seqx.Config{Name: fmt.Sprintf("%s/%s/start%d", c.kind, c.preset, c.start), Fresh: fresh(c.kind == "vp9", c.start, c.preset),
		MaxDepth: core.Pick(4, 6), Parallel: 1, MaxStates: int64(core.Pick(60000, 2000000))}
}

// firstOps lists the operations enabled in the initial state (used to shard
// one configuration's BFS by its first operation).
func firstOps(c cfgDesc) []seqx.Op {
	w := cfgFor(c).Fresh()
	defer w.(*world).Close()
	return w.Ops()
}

func main() {
	t0 := time.Now()
	o := core.ParseFlags(90, 1500)
	res := &core.Result{Property: "C04", Tier: o.Tier,
		Technique: "explicit-state BFS over packet/feedback/request interleavings on the real rtpDownTrack (Write, rtcpDownListener, adjustLayer, updateRate, replaceTracks) with before/after monitors; preemption-bounded schedule enumeration of Write, adjustLayer and replaceTracks as concurrent threads with every store to the layer word attributed to its cause"}
	if o.Replay != "" {
		replay(o.Replay)
		return
	}
	if o.Shard < 0 {
		core.RunShards(res, core.NCPU(), nil, nil)
		res.Assume("canonical key abstracts the sequence map to 'is the next packet in order' (all media packets are in order except one late packet; Drop accepts exactly the in-order packet), everything else (layer word, ceilings, estimator, clock offsets) is exact")
		res.Assume("in order = immediate successor of the previous packet; the first packet of a stream is exempt from rule (a)")
		core.Finish(res, t0)
	}
	agg := map[string]*core.Sub{}
	job := 0
	for _, c := range allConfigs() {
		for _, f := range firstOps(c) {
			job++
			if job%o.Shards != o.Shard || !core.Want(c.kind) {
				continue
			}
			cfg := cfgFor(c)
			cfg.Prefix = []seqx.Op{f}
			s := seqx.Explore(cfg, res)
			a := agg[c.kind]
			if a == nil {
				s.Name = c.kind
				agg[c.kind] = &s
				continue
			}
			a.States += s.States
			a.Transitions += s.Transitions
			a.Executions += s.Executions
			a.Exhaustive = a.Exhaustive && s.Exhaustive
			if s.Outcomes > a.Outcomes {
				a.Outcomes = s.Outcomes
			}
		}
	}
	for _, k := range []string{"vp8", "vp9"} {
		if a := agg[k]; a != nil {
			res.AddSub(*a)
		}
	}
	if core.Want("conc") {
		runConcurrent(res, o.Shard, o.Shards)
	}
	runShared(res, o.Shard, o.Shards)
	core.Finish(res, t0)
}

func replay(path string) {
	data, err := os.ReadFile(path)
	if err != nil {
		fmt.Println(err)
		os.Exit(2)
	}
	var a struct {
		Replay struct {
			Config  string   `json:"config"`
			Ops     []op     `json:"ops"`
			Program string   `json:"program"`
			Choices []int    `json:"choices"`
			Shared  string   `json:"shared"`
			Start   uint16   `json:"start"`
			Seq     []string `json:"seq"`
		} `json:"replay"`
	}
	if err := json.Unmarshal(data, &a); err != nil {
		fmt.Println(err)
		os.Exit(2)
	}
	if a.Replay.Shared != "" {
		fwd.Init()
		for _, c := range sharedConfigs() {
			if c.name != a.Replay.Shared {
				continue
			}
			var seq []sharedPkt
			for _, n := range a.Replay.Seq {
				var p sharedPkt
				if strings.HasPrefix(n, "K") {
					p.key = true
					n = n[1:]
				}
				fmt.Sscanf(n, "s%dt%d", &p.sid, &p.tid)
				seq = append(seq, p)
			}
			if sig, what := sharedRun(c, a.Replay.Start, seq); sig != "" {
				fmt.Printf("VIOLATION property=C04 replay=%s\n  signature: C04/%s\n  %s\n", path, sig, what)
				os.Exit(1)
			}
			fmt.Println("replay: no violation")
			return
		}
		fmt.Println("unknown shared configuration")
		os.Exit(2)
	}
	if a.Replay.Program != "" {
		fwd.Init()
		for _, p := range concPrograms() {
			if p.Name == a.Replay.Program {
				_, out, v := vrt.ReplayChoices(p, a.Replay.Choices)
				if v != nil {
					fmt.Printf("VIOLATION property=C04 replay=%s\n  signature: %s\n  %s\n", path, v.Signature, v.What)
					os.Exit(1)
				}
				fmt.Println("replay: no violation; outcome", out)
				return
			}
		}
		fmt.Println("unknown program")
		os.Exit(2)
	}
	parts := strings.SplitN(a.Replay.Config, "/start", 2)
	var start int
	fmt.Sscanf(parts[1], "%d", &start)
	kp := strings.SplitN(parts[0], "/", 2)
	ops := make([]seqx.Op, len(a.Replay.Ops))
	for i, x := range a.Replay.Ops {
		ops[i] = x
	}
	if v := seqx.Replay(cfgFor(cfgDesc{kp[0], uint16(start), kp[1]}), ops); v != nil {
		fmt.Printf("VIOLATION property=C04 replay=%s\n  %s\n", path, v.What)
		os.Exit(1)
	}
	fmt.Println("replay: no violation")
}

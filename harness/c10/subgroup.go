package main

import (
	"fmt"
	"os"
	"path/filepath"
	"sort"
	"strings"

	"github.com/jech/galene/group"

	"verif/core"
	"verif/glife"
	"verif/seqx"
	"verif/vtime"
)

// Description reload across the lookup hierarchy.  The group g/kid starts as
// an automatic subgroup of g (no file of its own); an administrator may give
// it a file of its own (full after one member, expired, or unrestricted),
// remove that file again, or replace the parent's description by an expired
// one.  Every join is judged against the description the lookup hierarchy
// yields at that moment (the group's own file if there is one, else the
// parent's): a non-operator admitted although that description is expired or
// full is a violation.  Explicit-state BFS over all operation sequences.

var kidDescs = map[string]string{
	"max1":    `{"max-clients":1,` + usersJSON + `}`,
	"expired": "", // filled in at run time (needs the clock)
	"plain":   `{` + usersJSON + `}`,
}

type sworld struct {
	parent  string // loose | tight
	kid     string // "" | max1 | expired | plain
	clients map[string]*glife.Fake
	outcome string
}

func sfresh() seqx.World {
	past := vtime.Base.Add(-3600e9).Format("2006-01-02T15:04:05Z07:00")
	kidDescs["expired"] = `{"expires":"` + past + `",` + usersJSON + `}`
	glife.Fresh(`{"auto-subgroups":true,` + usersJSON + `}`)
	vtime.Set(0)
	return &sworld{parent: "loose", clients: map[string]*glife.Fake{}}
}

func (w *sworld) Ops() []seqx.Op {
	var ops []seqx.Op
	for _, u := range []string{"carol", "dave", "oper"} {
		if w.clients[u] == nil {
			ops = append(ops, pop{Kind: "join:" + u})
		} else {
			ops = append(ops, pop{Kind: "leave:" + u})
		}
	}
	for _, k := range []string{"max1", "expired", "plain", ""} {
		if k != w.kid {
			ops = append(ops, pop{Kind: "kidfile:" + k})
		}
	}
	if w.parent == "loose" {
		ops = append(ops, pop{Kind: "parent:tight"})
	} else {
		ops = append(ops, pop{Kind: "parent:loose"})
	}
	return ops
}

func (w *sworld) Apply(x seqx.Op) *core.Violation {
	o := x.(pop)
	kv := strings.SplitN(o.Kind, ":", 2)
	w.outcome = o.Kind
	switch kv[0] {
	case "kidfile":
		p := filepath.Join(glife.Dir(), "groups", "g", "kid.json")
		if kv[1] == "" {
			os.Remove(p)
		} else {
			os.MkdirAll(filepath.Dir(p), 0700)
			glife.WriteGroup("g/kid", kidDescs[kv[1]])
		}
		w.kid = kv[1]
	case "parent":
		if kv[1] == "tight" {
			glife.WriteGroup("g", kidDescs["expired"][:1]+`"auto-subgroups":true,`+kidDescs["expired"][1:])
		} else {
			glife.WriteGroup("g", `{"auto-subgroups":true,`+usersJSON+`}`)
		}
		w.parent = kv[1]
	case "leave":
		c := w.clients[kv[1]]
		group.DelClient(c)
		delete(w.clients, kv[1])
	case "join":
		u := kv[1]
		c := &glife.Fake{ID: u[:1]}
		before := len(w.clients)
		_, err := group.AddClient("g/kid", c, glife.Creds(u, "p"))
		if err == nil {
			c.G = group.Get("g/kid")
			w.clients[u] = c
		}
		w.outcome += fmt.Sprintf("=%v", err == nil)
		if err != nil || isOp(u) {
			return nil
		}
		// the description the hierarchy yields now
		eff := w.kid
		if eff == "" {
			eff = map[string]string{"loose": "plain", "tight": "expired"}[w.parent]
		}
		src := "the parent's description (g.json)"
		if w.kid != "" {
			src = "the group's own description file (g/kid.json)"
		}
		switch {
		case eff == "expired":
			return &core.Violation{Signature: "C10/subgroup/non-op-admitted-after-expiry",
				What: fmt.Sprintf("non-operator %s was admitted to g/kid although %s says the group has expired", u, src)}
		case eff == "max1" && before >= 1:
			return &core.Violation{Signature: "C10/subgroup/non-op-admitted-to-full-group",
				What: fmt.Sprintf("non-operator %s was admitted to g/kid as member number %d although %s says max-clients 1", u, before+1, src)}
		}
	}
	return nil
}

func (w *sworld) Canon() string {
	var ms []string
	for u := range w.clients {
		ms = append(ms, u)
	}
	sort.Strings(ms)
	inforce := "-"
	if g := group.Get("g/kid"); g != nil {
		max, nb, exp, kick := g.VerifInForce()
		inforce = fmt.Sprint(max, nb != nil, exp != nil, kick, strings.TrimPrefix(g.VerifDescFile(), glife.Dir()))
	}
	return fmt.Sprint(w.parent, "|", w.kid, "|", ms, "|", inforce)
}

func (w *sworld) Outcome() string { return w.outcome }

func subgroupConfig() seqx.Config {
	return seqx.Config{Name: "subgroup/description-appears", Fresh: sfresh, MaxDepth: core.Pick(8, 12), Parallel: 1}
}

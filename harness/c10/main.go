// C10 — admission rules (lock, capacity, time window, autolock/autokick)
// always hold.
//
// Engine B: for every group configuration (locked, max-clients 1/2, inside /
// before / after the validity window, autolock, autokick, both) all pairs and
// triples of concurrent join / leave / lock / unlock / reload calls on the
// real group layer are run under every schedule with <=2 (thorough 3)
// preemptions.  The admission decision is observed where it is taken: the
// client's Joined("join") callback runs while AddClient holds the group lock,
// and reads the lock flag, the membership and the operator count that the
// decision was based on.  Engine D adds the protocol-visible side
// (joined{join|fail|redirect}, user{add}) over sequences of joins, leaves and
// lock changes through the real websocket handlers.
package main

import (
	"encoding/json"
	"fmt"
	"os"
	"sort"
	"strings"
	"time"

	"github.com/jech/galene/group"

	"verif/core"
	"verif/glife"
	"verif/seqx"
	"verif/sig"
	"verif/vrt"
	"verif/vtime"
)

const usersJSON = `"users":{"alice":{"password":"p","permissions":"op"},"oper":{"password":"p","permissions":"op"},"bob":{"password":"p","permissions":"present"},"carol":{"password":"p","permissions":"present"},"dave":{"password":"p","permissions":"message"}}`

type config struct {
	name    string
	desc    string
	prelock bool
	// tight: a stricter description an administrator installs while joins
	// are under way (the "tighten" thread): the same rules plus an expiry in
	// the past (or, where the description has an expiry already, max-clients 2)
	tight string
	// reference
	max                int
	open               bool // inside the validity window
	autolock, autokick bool
	// expires: the window closes this long after the start of the execution
	// (0 = never); the "tick" thread moves the clock past it
	expires time.Duration
}

func configs() []config {
	now := vtime.Base
	ts := func(d time.Duration) string { return now.Add(d).Format(time.RFC3339Nano) }
	cs := []config{
		{name: "plain", desc: `{` + usersJSON + `}`, open: true},
		{name: "locked", desc: `{` + usersJSON + `}`, prelock: true, open: true},
		{name: "max1", desc: `{"max-clients":1,` + usersJSON + `}`, max: 1, open: true},
		{name: "max2", desc: `{"max-clients":2,` + usersJSON + `}`, max: 2, open: true},
		{name: "max3", desc: `{"max-clients":3,` + usersJSON + `}`, max: 3, open: true},
		{name: "window-open", desc: `{"not-before":"` + ts(-time.Hour) + `","expires":"` + ts(time.Hour) + `",` + usersJSON + `}`, open: true, expires: time.Hour},
		{name: "not-yet-open", desc: `{"not-before":"` + ts(time.Nanosecond) + `",` + usersJSON + `}`, open: false},
		{name: "expired", desc: `{"expires":"` + ts(-time.Nanosecond) + `",` + usersJSON + `}`, open: false},
		{name: "autolock", desc: `{"autolock":true,` + usersJSON + `}`, open: true, autolock: true},
		{name: "autokick", desc: `{"autokick":true,` + usersJSON + `}`, open: true, autokick: true},
		{name: "autolock+autokick", desc: `{"autolock":true,"autokick":true,` + usersJSON + `}`, open: true, autolock: true, autokick: true},
	}
	for i := range cs {
		if strings.Contains(cs[i].desc, `"expires"`) {
			cs[i].tight = `{"max-clients":2,` + cs[i].desc[1:]
		} else {
			cs[i].tight = `{"expires":"` + ts(-time.Minute) + `",` + cs[i].desc[1:]
		}
	}
	return cs
}

type admission struct {
	id      string
	op      bool
	locked  bool
	members []string
	ops     int
}

type world struct {
	cfg      config
	clients  map[string]*glife.Fake
	errs     map[string]error
	admitted []admission
	viol     *core.Violation
	// the unlock thread ran (it stands for an operator's command, whoever is
	// still a member by then)
	unlockRan bool
}

func isOp(user string) bool { return user == "alice" || user == "oper" }

func (w *world) fail(sig, what string) {
	if w.viol == nil {
		w.viol = &core.Violation{Signature: "C10/" + sig + "/" + w.cfg.name, What: "configuration " + w.cfg.name + ": " + what}
	}
}

func newWorld(cfg config) *world {
	glife.Fresh(cfg.desc)
	vtime.Set(0)
	w := &world{cfg: cfg, clients: map[string]*glife.Fake{}, errs: map[string]error{}}
	// kicked fakes stay members until "their loop" runs (never, here): a
	// kicked client leaving from inside Kick would make the lock sequence
	// depend on Go's map iteration order
	glife.KickLeaves = false
	glife.JoinHook = func(c *glife.Fake, name string) {
		g := group.VerifGetUnlocked(name)
		if g == nil {
			return
		}
		locked, members, ops, _, _, _ := g.VerifPeek()
		op := false
		for _, p := range c.Perms {
			if p == "op" {
				op = true
			}
		}
		if c.System {
			return // the recorder is not subject to admission rules (but counts as a member)
		}
		a := admission{c.ID, op, locked, members, ops}
		w.admitted = append(w.admitted, a)
		if op {
			return // operators are exempt from every rule
		}
		if locked {
			w.fail("locked/non-op-admitted", fmt.Sprintf("non-operator %s was admitted while the group was locked (members %v)", c.ID, members))
		}
		if cfg.max > 0 && len(members) > cfg.max {
			w.fail("capacity/non-op-admitted-to-full-group", fmt.Sprintf("non-operator %s was admitted as member number %d of a group with max-clients %d (members %v)", c.ID, len(members), cfg.max, members))
		}
		if !cfg.open {
			w.fail("window/non-op-admitted-outside-window", fmt.Sprintf("non-operator %s was admitted outside the validity window", c.ID))
		}
		if cfg.expires > 0 && vtime.Now().After(vtime.Base.Add(cfg.expires)) {
			w.fail("window/non-op-admitted-after-expiry", fmt.Sprintf("non-operator %s was admitted %v after the group's expiry instant (the admission was decided with a clock value read before the wait for the group)", c.ID, vtime.Now().Sub(vtime.Base.Add(cfg.expires))))
		}
		if cfg.autokick && ops == 0 {
			w.fail("autokick/non-op-admitted-without-operator", fmt.Sprintf("non-operator %s was admitted to an autokick group with no operator present (members %v)", c.ID, members))
		}
		// the description in force at this instant (it may have been replaced
		// since the execution began)
		fmax, fnb, fexp, fkick := g.VerifInForce()
		now := vtime.Now()
		switch {
		case fmax > 0 && len(members) > fmax:
			w.fail("in-force/non-op-admitted-to-full-group", fmt.Sprintf("non-operator %s was admitted as member number %d while the description the group holds at that instant says max-clients %d (the decision was taken from a description that had been replaced)", c.ID, len(members), fmax))
		case fexp != nil && fexp.Before(now):
			w.fail("in-force/non-op-admitted-after-expiry", fmt.Sprintf("non-operator %s was admitted while the description the group holds at that instant expired at %v (the decision was taken from a description that had been replaced)", c.ID, fexp.Sub(vtime.Base)))
		case fnb != nil && fnb.After(now):
			w.fail("in-force/non-op-admitted-before-opening", fmt.Sprintf("non-operator %s was admitted while the description the group holds at that instant is not open yet", c.ID))
		case fkick && ops == 0:
			w.fail("in-force/non-op-admitted-without-operator", fmt.Sprintf("non-operator %s was admitted with no operator present while the description in force has autokick", c.ID))
		}
		if cfg.autolock && ops == 0 {
			w.fail("autolock/non-op-admitted-without-operator", fmt.Sprintf("non-operator %s was admitted to an autolock group after its last operator had left (members %v)", c.ID, members))
		}
	}
	return w
}

func (w *world) client(id string) *glife.Fake {
	c := w.clients[id]
	if c == nil {
		c = &glife.Fake{ID: id}
		w.clients[id] = c
	}
	return c
}

type thread struct {
	name string
	run  func(w *world)
}

func join(key, id, user string) thread {
	return thread{"join(" + key + ")", func(w *world) {
		c := &glife.Fake{ID: id}
		w.clients[key] = c
		w.errs[key] = glife.Join(c, user, "p")
	}}
}

func leave(key string) thread {
	return thread{"leave(" + key + ")", func(w *world) {
		if c := w.clients[key]; c != nil && c.G != nil {
			glife.Leave(c)
		}
	}}
}

func menu(cfg config) []thread {
	m := []thread{
		join("carol", "c", "carol"),
		join("dave", "d", "dave"),
		join("dup", "b", "carol"),  // same id as the pre-joined bob
		join("dupop", "b", "oper"), // an operator's credentials under bob's id: refused, and must leave no trace
		join("oper", "o", "oper"),
		leave("alice"),
		leave("bob"),
		{"lock", func(w *world) { group.Get("g").SetLocked(true, "") }},
		{"unlock", func(w *world) { w.unlockRan = true; group.Get("g").SetLocked(false, "") }},
	}
	// a recording starts: the disk writer joins as a system client (a member like any other for max-clients)
	m = append(m, thread{"recorder-joins", func(w *world) {
		c := &glife.Fake{ID: "rec", System: true}
		w.clients["rec"] = c
		w.errs["rec"] = glife.Join(c, "", "")
	}})
	// reload with a stricter description
	m = append(m, thread{"reload", func(w *world) { group.Add("g", nil) }})
	// an administrator installs a stricter description and the server notices it
	m = append(m, thread{"tighten", func(w *world) {
		glife.WriteGroup("g", cfg.tight)
		group.Add("g", nil)
	}})
	if cfg.expires > 0 {
		// the expiry instant passes
		m = append(m, thread{"clock-passes-expiry", func(w *world) { vtime.Advance(2 * cfg.expires) }})
	}
	return m
}

func (w *world) final() (string, *core.Violation) {
	if w.viol != nil {
		return "", w.viol
	}
	members := glife.Members()
	// a refused client is not a member and is announced to no one
	ids := map[string]int{}
	for key, c := range w.clients {
		err, tried := w.errs[key]
		if tried && err != nil {
			if c.Has("joined", "join") {
				return "", &core.Violation{Signature: "C10/refused-but-notified/" + w.cfg.name, What: fmt.Sprintf("%s was refused (%v) but was sent joined{join}", key, err)}
			}
			for k2, c2 := range w.clients {
				if k2 != key && c2.ID != c.ID && c2.Has("user", "add:"+c.ID) && !w.succeededWithID(c.ID) {
					return "", &core.Violation{Signature: "C10/refused-but-announced/" + w.cfg.name, What: fmt.Sprintf("%s was refused but %s was told user{add %s}", key, k2, c.ID)}
				}
			}
		}
		if tried && err == nil {
			ids[c.ID]++
		}
	}
	// two clients with the same id never both members
	for id, n := range ids {
		stillIn := 0
		for _, c := range w.clients {
			if c.ID == id && c.G != nil {
				stillIn++
			}
		}
		if n > 1 && stillIn > 1 {
			return "", &core.Violation{Signature: "C10/duplicate-id/" + w.cfg.name, What: fmt.Sprintf("%d clients with id %s joined successfully and are members at the same time", stillIn, id)}
		}
	}
	// final capacity: non-operators admitted never exceed max-clients
	if w.cfg.max > 0 {
		for _, a := range w.admitted {
			if !a.op && len(a.members) > w.cfg.max {
				return "", &core.Violation{Signature: "C10/capacity/non-op-admitted-to-full-group/" + w.cfg.name, What: fmt.Sprint(a)}
			}
		}
	}
	// autolock: a group without an operator is locked (unless somebody
	// unlocked it in this very execution)
	if w.cfg.autolock && !w.unlockRan {
		if g := group.Get("g"); g != nil {
			locked, ms, ops, _, _, _ := g.VerifPeek()
			if ops == 0 && !locked {
				return "", &core.Violation{Signature: "C10/autolock/unlocked-without-operator/" + w.cfg.name,
					What: fmt.Sprintf("configuration %s: at the end no operator is a member (members %v) and the group is not locked although nobody unlocked it after the last operator left", w.cfg.name, ms)}
			}
		}
	}
	var errs []string
	for k, e := range w.errs {
		errs = append(errs, fmt.Sprintf("%s:%v", k, e == nil))
	}
	sort.Strings(errs)
	l, _ := group.Get("g").Locked()
	return fmt.Sprintf("%v|%v|%v", members, errs, l), nil
}

func (w *world) succeededWithID(id string) bool {
	for key, c := range w.clients {
		if c.ID == id {
			if err, ok := w.errs[key]; ok && err == nil {
				return true
			}
		}
	}
	return false
}

func program(cfg config, ts []thread) vrt.Program {
	names := make([]string, len(ts))
	for i, t := range ts {
		names[i] = t.name
	}
	name := cfg.name + ":" + strings.Join(names, "|")
	return vrt.Program{
		Name: name, MaxPreempt: core.Pick(2, 3), MaxSteps: 20000,
		Setup: func() ([]func(), []string, func() (string, *core.Violation)) {
			w := newWorld(cfg)
			// pre-state: an operator and a user are members
			a := &glife.Fake{ID: "a"}
			w.clients["alice"] = a
			if err := glife.Join(a, "alice", "p"); err != nil {
				panic(err)
			}
			if cfg.autolock {
				// the operator opens the room
				group.Get("g").SetLocked(false, "")
			}
			if cfg.open && cfg.max != 1 {
				b := &glife.Fake{ID: "b"}
				w.clients["bob"] = b
				w.errs["bob"] = glife.Join(b, "bob", "p")
			}
			if cfg.prelock {
				group.Get("g").SetLocked(true, "closed")
			}
			w.admitted = nil
			if w.viol != nil {
				v := w.viol
				return nil, nil, func() (string, *core.Violation) { return "", v }
			}
			bodies := make([]func(), len(ts))
			for i, t := range ts {
				t := t
				bodies[i] = func() { t.run(w) }
			}
			return bodies, names, w.final
		},
		Classify: func(kind, info string) string { return "C10/" + kind + "/" + cfg.name },
	}
}

func allPrograms() []vrt.Program {
	var ps []vrt.Program
	for _, cfg := range configs() {
		m := menu(cfg)
		for i := 0; i < len(m); i++ {
			for j := i + 1; j < len(m); j++ {
				ps = append(ps, program(cfg, []thread{m[i], m[j]}))
			}
		}
		// triples: two joins with one other operation, and the classic races
		joins := []thread{m[0], m[1], m[2], m[3]}
		for i := 0; i < len(joins); i++ {
			for j := i + 1; j < len(joins); j++ {
				for k := 4; k < len(m); k++ {
					ps = append(ps, program(cfg, []thread{joins[i], joins[j], m[k]}))
				}
			}
		}
		ps = append(ps, program(cfg, []thread{m[0], m[1], m[2]}))
	}
	return ps
}

// ---------------------------------------------------------------------------
// Engine D: protocol-visible admission over message sequences

type pop struct {
	C    int    `json:"c"`
	Kind string `json:"k"`
}

type pworld struct {
	cfg     config
	w       *sig.World
	outcome string
	locked  bool
	in      map[int]bool
}

var pusers = []string{"alice", "bob", "carol"}

func pfresh(cfg config) func() seqx.World {
	return func() seqx.World {
		w := &pworld{cfg: cfg, w: sig.NewWorld(map[string]string{"g": cfg.desc}, 3), in: map[int]bool{}}
		w.locked = cfg.autolock
		return w
	}
}

func (w *pworld) Close() { w.w.Close() }

func (w *pworld) Ops() []seqx.Op {
	var ops []seqx.Op
	for i, c := range w.w.Clients {
		if c.V.Closed {
			continue
		}
		if !w.in[i] {
			ops = append(ops, pop{i, "join"})
		} else {
			ops = append(ops, pop{i, "leave"}, pop{i, "disconnect"})
			if i == 0 {
				ops = append(ops, pop{i, "lock"}, pop{i, "unlock"})
			}
		}
	}
	return ops
}

func (w *pworld) ops() int {
	if w.in[0] {
		return 1
	}
	return 0
}

func (w *pworld) Apply(x seqx.Op) *core.Violation {
	o := x.(pop)
	c := w.w.Clients[o.C]
	u := pusers[o.C]
	var obs sig.Obs
	switch o.Kind {
	case "join":
		obs = w.w.Send(o.C, sig.Join("g", u, "p"))
	case "leave":
		obs = w.w.Send(o.C, sig.Msg{"type": "join", "kind": "leave", "group": "g"})
	case "disconnect":
		obs = w.w.Disconnect(o.C)
	case "lock", "unlock":
		obs = w.w.Send(o.C, sig.Msg{"type": "groupaction", "kind": o.Kind, "source": c.ID, "username": u})
	}
	if obs.Panic != "" {
		return &core.Violation{Signature: "C10/panic/" + sig.PanicSite(obs.Panic), What: obs.Panic}
	}
	all := make([][]sig.Msg, len(w.w.Clients))
	for k := range all {
		all[k] = append(all[k], obs.New[k]...)
	}
	if p := w.w.Settle(func(_ string, _ int, so sig.Obs) {
		for k := range so.New {
			all[k] = append(all[k], so.New[k]...)
		}
	}); p != "" {
		return &core.Violation{Signature: "C10/panic/" + sig.PanicSite(p), What: p}
	}
	// reference decision
	switch o.Kind {
	case "join":
		n := 0
		for _, v := range w.in {
			if v {
				n++
			}
		}
		admit := true
		if o.C != 0 { // not an operator
			if w.locked || !w.cfg.open || (w.cfg.max > 0 && n >= w.cfg.max) || (w.cfg.autokick && w.ops() == 0) {
				admit = false
			}
		}
		got := ""
		for _, m := range all[o.C] {
			if m["type"] == "joined" {
				got = fmt.Sprint(m["kind"])
			}
		}
		member := false
		for _, id := range sig.Members("g") {
			if id == c.ID {
				member = true
			}
		}
		announced := false
		for k := range all {
			if k == o.C {
				continue
			}
			for _, m := range all[k] {
				if m["type"] == "user" && m["kind"] == "add" && m["id"] == c.ID {
					announced = true
				}
			}
		}
		desc := fmt.Sprintf("configuration %s: join of %s (operator: %v) with %d members, locked=%v", w.cfg.name, u, o.C == 0, n, w.locked)
		if !admit {
			if got == "join" || member {
				return &core.Violation{Signature: "C10/protocol/non-op-admitted/" + w.cfg.name, What: desc + ": admitted although the rules refuse it (reply joined{" + got + "}, member: " + fmt.Sprint(member) + ")"}
			}
			if announced {
				return &core.Violation{Signature: "C10/protocol/refused-but-announced/" + w.cfg.name, What: desc + ": refused but announced to other members"}
			}
			if got != "fail" {
				return &core.Violation{Signature: "C10/protocol/no-fail-reply/" + w.cfg.name, What: desc + ": refused without joined{fail} (got " + got + ")"}
			}
		} else {
			if got != "join" || !member {
				return &core.Violation{Signature: "C10/protocol/admissible-join-refused/" + w.cfg.name, What: desc + ": the rules admit it but the reply was joined{" + got + "}, member: " + fmt.Sprint(member)}
			}
			w.in[o.C] = true
		}
		w.outcome = fmt.Sprintf("join/%v", admit)
	case "leave", "disconnect":
		if w.in[o.C] {
			w.in[o.C] = false
			if o.C == 0 {
				if w.cfg.autolock {
					w.locked = true
				}
				if w.cfg.autokick {
					// everybody is kicked out
					for k := range w.in {
						if w.in[k] && w.w.Clients[k].V.Closed {
							w.in[k] = false
						}
					}
				}
			}
		}
		w.outcome = o.Kind
	case "lock":
		w.locked = true
	case "unlock":
		w.locked = false
	}
	// the lock state must agree with the reference at every step
	if g := group.Get("g"); g != nil {
		if l, _ := g.Locked(); l != w.locked {
			return &core.Violation{Signature: "C10/protocol/lock-state/" + w.cfg.name, What: fmt.Sprintf("configuration %s after %v: the group is locked=%v, the reference says %v", w.cfg.name, o, l, w.locked)}
		}
	}
	// membership agrees with the reference
	var want []string
	for k, v := range w.in {
		if v && !w.w.Clients[k].V.Closed {
			want = append(want, w.w.Clients[k].ID)
		} else if v {
			w.in[k] = false
		}
	}
	sort.Strings(want)
	if got := sig.Members("g"); fmt.Sprint(got) != fmt.Sprint(want) {
		return &core.Violation{Signature: "C10/protocol/membership/" + w.cfg.name, What: fmt.Sprintf("configuration %s after %v: members %v, reference %v", w.cfg.name, o, got, want)}
	}
	return nil
}

func (w *pworld) Canon() string {
	return w.w.Canon() + fmt.Sprint(w.locked, w.in)
}
func (w *pworld) Outcome() string { return w.outcome }

const redirectDesc = `{"redirect":"https://example.org/other/",` + usersJSON + `}`

// redirectCheck: a join that ends in a redirect leaves the client outside.
func redirectCheck(res *core.Result) core.Sub {
	sub := core.Sub{Name: "protocol/redirect", Exhaustive: true, Bound: "2 clients x {join, join+join, join+leave}"}
	for _, script := range [][]pop{{{0, "join"}}, {{0, "join"}, {1, "join"}}, {{1, "join"}, {1, "leave"}, {0, "join"}}} {
		w := sig.NewWorld(map[string]string{"g": redirectDesc}, 2)
		for _, o := range script {
			var obs sig.Obs
			if o.Kind == "join" {
				obs = w.Send(o.C, sig.Join("g", pusers[o.C], "p"))
			} else {
				obs = w.Send(o.C, sig.Msg{"type": "join", "kind": "leave", "group": "g"})
			}
			p := obs.Panic
			if p == "" {
				p = w.Settle(nil)
			}
			sub.Executions++
			if p != "" {
				res.Violate(core.Violation{Signature: "C10/panic/" + sig.PanicSite(p) + "/redirect", What: "group with a redirect: " + p})
				break
			}
		}
		if m := sig.Members("g"); len(m) > 0 {
			res.Violate(core.Violation{Signature: "C10/protocol/redirected-client-is-member",
				What: fmt.Sprintf("group with a redirect: after %v the clients were told joined{redirect} but %v are members of the group (never removed, announced to later joiners)", script, m)})
		}
		w.Close()
	}
	sub.States, sub.Transitions, sub.Outcomes = sub.Executions, sub.Executions, 2
	sub.Samples = []any{"join of a group whose description has a redirect"}
	return sub
}

func main() {
	t0 := time.Now()
	o := core.ParseFlags(100, 1500)
	res := &core.Result{Property: "C10", Tier: o.Tier,
		Technique: "schedule enumeration with preemption bounding of concurrent join/leave/lock/reload calls on the real group layer, admission observed under the group lock; explicit-state BFS of the protocol-visible admission through the real websocket handlers"}
	defer glife.Cleanup()
	defer sig.Cleanup()
	if o.Replay != "" {
		replay(o.Replay)
		return
	}
	if o.Shard < 0 {
		core.RunShards(res, core.NCPU(), nil, nil)
		res.Assume("the admission decision is observed in the Joined(join) callback, which AddClient invokes while holding the group lock; clients are recording fakes; a kicked fake leaves at once")
		core.Finish(res, t0)
	}
	ps := allPrograms()
	agg := map[string]*core.Sub{}
	for i, p := range ps {
		if i%o.Shards != o.Shard || !core.Want("sched") {
			continue
		}
		if !core.TimeLeft() {
			for _, a := range agg {
				a.Exhaustive = false
			}
			break
		}
		s := vrt.Explore(p, res, 0, 1)
		cfgname := strings.SplitN(p.Name, ":", 2)[0]
		a := agg[cfgname]
		if a == nil {
			s.Name = "sched/" + cfgname
			s.Bound += fmt.Sprintf(" x all pairs and selected triples of %d thread bodies", len(menu(configs()[0])))
			agg[cfgname] = &s
			continue
		}
		a.States += s.States
		a.Transitions += s.Transitions
		a.Executions += s.Executions
		a.Outcomes += s.Outcomes
		a.Exhaustive = a.Exhaustive && s.Exhaustive
	}
	for _, c := range configs() {
		if a := agg[c.name]; a != nil {
			res.AddSub(*a)
		}
	}
	// Engine D
	sig.BaseDir()
	vrt.SetMode(vrt.Tasks)
	for i, c := range configs() {
		if i%o.Shards != o.Shard || !core.Want("protocol") {
			continue
		}
		res.AddSub(seqx.Explore(seqx.Config{Name: "protocol/" + c.name, Fresh: pfresh(c), MaxDepth: core.Pick(6, 8), Parallel: 1}, res))
	}
	if o.Shard == 0 && core.Want("protocol") {
		res.AddSub(redirectCheck(res))
	}
	if o.Shard == 1%o.Shards && core.Want("subgroup") {
		res.AddSub(seqx.Explore(subgroupConfig(), res))
	}
	glife.Cleanup()
	sig.Cleanup()
	core.Finish(res, t0)
}

func replay(path string) {
	data, err := os.ReadFile(path)
	if err != nil {
		fmt.Println(err)
		os.Exit(2)
	}
	var a struct {
		Replay struct {
			Program string `json:"program"`
			Choices []int  `json:"choices"`
			Config  string `json:"config"`
			Ops     []pop  `json:"ops"`
		} `json:"replay"`
	}
	if err := json.Unmarshal(data, &a); err != nil {
		fmt.Println(err)
		os.Exit(2)
	}
	if a.Replay.Program != "" {
		for _, p := range allPrograms() {
			if p.Name == a.Replay.Program {
				_, out, v := vrt.ReplayChoices(p, a.Replay.Choices)
				if v != nil {
					fmt.Printf("VIOLATION property=C10 replay=%s\n  %s\n", path, v.What)
					os.Exit(1)
				}
				fmt.Println("replay: no violation; outcome", out)
				return
			}
		}
	}
	for _, c := range configs() {
		if "protocol/"+c.name == a.Replay.Config {
			ops := make([]seqx.Op, len(a.Replay.Ops))
			for i, x := range a.Replay.Ops {
				ops[i] = x
			}
			if v := seqx.Replay(seqx.Config{Name: a.Replay.Config, Fresh: pfresh(c), MaxDepth: 8, Parallel: 1}, ops); v != nil {
				fmt.Printf("VIOLATION property=C10 replay=%s\n  %s\n", path, v.What)
				os.Exit(1)
			}
			fmt.Println("replay: no violation")
			return
		}
	}
	if c := subgroupConfig(); c.Name == a.Replay.Config {
		ops := make([]seqx.Op, len(a.Replay.Ops))
		for i, x := range a.Replay.Ops {
			ops[i] = x
		}
		if v := seqx.Replay(c, ops); v != nil {
			fmt.Printf("VIOLATION property=C10 replay=%s\n  %s\n", path, v.What)
			os.Exit(1)
		}
		fmt.Println("replay: no violation")
		return
	}
	fmt.Println("unknown artefact")
	os.Exit(2)
}

package main

import (
	"encoding/binary"
	"fmt"
	"runtime/debug"
	"sync"

	"github.com/jech/galene/rtpconn"

	"verif/core"
	"verif/vrt"
)

// writer-pool: the publisher's read loop hands every packet to the writer
// pool (rtpWriterPool.write), whose writers die when their last subscriber
// leaves; add() and write() both reap dead writers from the list they are
// walking.  Subscribing and leaving are client actions, and readLoop has no
// recover, so a stale visit (send on a closed channel) kills the server.
//
// Alphabet: pools of 2..4 writers (4 subscribers each - beyond 16 subscribers
// the pool packs writers differently and the harness's map of who is served
// by which writer no longer holds - real writer
// goroutines), every ordered choice of up to `kills` distinct writers whose
// subscribers all leave (in reverse or forward order of subscription),
// optionally one late subscriber afterwards, packets before and after.
// At most 32 packets are written in all, the capacity of a writer's queue,
// so that no writer is ever congested whatever the goroutines' progress, and
// the harness waits on the writers' own done channels, never on time.
// Oracle: no panic; every subscriber that stayed receives every packet
// exactly once and in order (a writer skipped or visited twice while the
// list is being edited shows as a missing or doubled packet); the list ends
// up without the dead writers' subscribers.
//
// Not owned: when a dead writer's queue still has room, Go's select picks
// between queueing and noticing the death at random.  The oracle does not
// depend on that choice on a correct pool; a defective walk is reported
// whenever the death is noticed within the packets written (all but 2^-24
// of the runtime's choices).
type poolTrack struct {
	mu  sync.Mutex
	got []uint16
}

func (t *poolTrack) Write(buf []byte) (int, error) {
	t.mu.Lock()
	t.got = append(t.got, binary.BigEndian.Uint16(buf[2:4]))
	t.mu.Unlock()
	return len(buf), nil
}
func (t *poolTrack) SetTimeOffset(ntp uint64, rtp uint32) {}
func (t *poolTrack) SetCname(string)                      {}
func (t *poolTrack) GetMaxBitrate() (uint64, int, int)    { return ^uint64(0), -1, -1 }

type poolCase struct {
	Writers int   `json:"writers"`
	Kills   []int `json:"kills"`
	Forward bool  `json:"forward"`
	Late    bool  `json:"late"`
	Video   bool  `json:"video"`
}

func runPoolCase(c poolCase) (outcome string, bad string) {
	defer func() {
		if r := recover(); r != nil {
			outcome = "panic"
			bad = fmt.Sprintf("panic: %v\n%s", r, head(string(debug.Stack()), 600))
		}
	}()
	const before, after = 4, 26
	p := rtpconn.VerifNewPool(64)
	tracks := make([]*poolTrack, 4*c.Writers)
	for i := range tracks {
		tracks[i] = &poolTrack{}
		if err := p.Add(tracks[i], true); err != nil {
			return "fault", ""
		}
	}
	if w, n := p.Count(); w != c.Writers || n != len(tracks) {
		return "shape", fmt.Sprintf("%d subscribers are served by %d writers counting %d, expected %d writers", len(tracks), w, n, c.Writers)
	}
	all := p.Done()
	seq := uint16(65530)
	var sent []uint16
	send := func(n int) {
		for i := 0; i < n; i++ {
			buf := make([]byte, 20)
			buf[0], buf[1] = 0x80, 96
			binary.BigEndian.PutUint16(buf[2:4], seq)
			idx := p.Store(seq, buf)
			p.Write(seq, idx, c.Video, true)
			sent = append(sent, seq)
			seq++
		}
	}
	send(before)
	left := map[int]bool{}
	for _, k := range c.Kills {
		for j := 0; j < 4; j++ {
			i := 4*k + 3 - j
			if c.Forward {
				i = 4*k + j
			}
			if err := p.Add(tracks[i], false); err != nil {
				return "leave-error", fmt.Sprintf("subscriber %d leaving: %v", i, err)
			}
			left[i] = true
		}
		<-all[k] // the writer has terminated
	}
	var late *poolTrack
	lateFrom := len(sent)
	if c.Late {
		late = &poolTrack{}
		if err := p.Add(late, true); err != nil {
			return "late-error", fmt.Sprintf("late subscriber: %v", err)
		}
	}
	send(after)
	_, n := p.Count()
	want := len(tracks) - len(left)
	if c.Late {
		want++
	}
	// terminate the writers: they drain their queues first
	rest := p.Done()
	p.Close()
	for _, d := range rest {
		<-d
	}
	if n != want {
		return "count", fmt.Sprintf("the pool counts %d subscribers, %d are subscribed", n, want)
	}
	check := func(name string, t *poolTrack, exp []uint16) string {
		t.mu.Lock()
		defer t.mu.Unlock()
		if len(t.got) != len(exp) {
			return fmt.Sprintf("%s received %d packets %v, %d were forwarded to the pool while it was subscribed", name, len(t.got), t.got, len(exp))
		}
		for i := range exp {
			if t.got[i] != exp[i] {
				return fmt.Sprintf("%s: packet %d is %d, expected %d (%v)", name, i, t.got[i], exp[i], t.got)
			}
		}
		return ""
	}
	for i, t := range tracks {
		if left[i] {
			continue
		}
		if s := check(fmt.Sprintf("subscriber %d", i), t, sent); s != "" {
			return "delivery", s
		}
	}
	if late != nil {
		// a late subscriber that joins an existing writer may also be
		// served packets still queued there: a contiguous tail of what
		// was sent, at least everything sent after it subscribed
		late.mu.Lock()
		n := len(late.got)
		late.mu.Unlock()
		if n > len(sent) {
			n = len(sent)
		}
		if n < len(sent)-lateFrom {
			n = len(sent) - lateFrom
		}
		if s := check("the late subscriber", late, sent[len(sent)-n:]); s != "" {
			return "delivery", s
		}
	}
	return fmt.Sprintf("ok/%d", want), ""
}

func poolCases() []poolCase {
	var cases []poolCase
	maxKills := core.Pick(2, 3)
	for w := 2; w <= 4; w++ {
		var rec func(kills []int)
		rec = func(kills []int) {
			for _, fwd := range []bool{false, true} {
				for _, late := range []bool{false, true} {
					for _, video := range []bool{true, false} {
						cases = append(cases, poolCase{w, append([]int(nil), kills...), fwd, late, video})
					}
				}
			}
			if len(kills) == maxKills || len(kills) == w-1 {
				return
			}
		next:
			for k := 0; k < w; k++ {
				for _, x := range kills {
					if x == k {
						continue next
					}
				}
				rec(append(kills, k))
			}
		}
		rec(nil)
	}
	return cases
}

func runWriterPool(res *core.Result) {
	// the writers are real goroutines: the HTTP part of this shard runs with
	// go statements queued as tasks
	prev := vrt.GetMode()
	vrt.SetMode(vrt.Passthrough)
	defer vrt.SetMode(prev)
	sub := core.Sub{Name: "writer-pool", Exhaustive: true}
	var outc core.Outcomes
	cases := poolCases()
	for _, c := range cases {
		sub.Executions++
		sub.Transitions += int64(4*c.Writers + 4*len(c.Kills) + 30)
		o, bad := runPoolCase(c)
		outc.Add(o)
		if o == "fault" {
			continue
		}
		if bad != "" {
			res.Violate(core.Violation{Signature: "C12/writer-pool/" + o, Sub: sub.Name,
				What:   fmt.Sprintf("writer pool with %d writers, subscribers of writers %v leave (forward=%v), late subscriber=%v, video=%v: %s", c.Writers, c.Kills, c.Forward, c.Late, c.Video, bad),
				Replay: c})
			break
		}
		if len(sub.Samples) < 2 && len(c.Kills) == 2 {
			sub.Samples = append(sub.Samples, fmt.Sprintf("%+v -> %s", c, o))
		}
	}
	sub.Outcomes = outc.N()
	sub.Bound = fmt.Sprintf("pools of 2..4 writers x every ordered choice of up to %d writers emptied (both leave orders) x late subscriber x audio/video; 30 packets per case", core.Pick(2, 3))
	res.AddSub(sub)
}

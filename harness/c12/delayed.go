package main

import (
	"fmt"

	"github.com/pion/webrtc/v4"

	"verif/core"
	"verif/seqx"
	"verif/sig"
)

// Sub-check (b3), delayed delivery: well-typed messages of three members
// interleaved with the server's own delayed work.  A new stream is announced
// to the other members by a goroutine that sleeps first (pushConn); here that
// goroutine is a pending task that the search runs at every possible later
// point -- after the publisher has closed or replaced the stream, lost the
// right to present, left, been kicked or lost its connection.  Oracle: no
// panic, and the connection of a member that did nothing wrong (the two
// viewers) is never closed.

type dop struct {
	Kind string `json:"k"`
	N    int    `json:"n"`
}

func (o dop) String() string {
	if o.Kind == "task" {
		return fmt.Sprintf("task%d", o.N)
	}
	return o.Kind
}

type dworld struct {
	w       *sig.World
	pan     string
	tracks  map[string]bool
	offered map[string]bool
	outcome string
	nops    int
	kicked  bool // a kick of the publisher has been issued
}

func dfresh() seqx.World {
	w, pan := sig.Setup("speaker", "joined", false)
	d := &dworld{w: w, pan: pan, tracks: map[string]bool{}, offered: map[string]bool{}}
	if pan == "" {
		for _, step := range []struct {
			c int
			m sig.Msg
		}{
			{1, sig.Msg{"type": "request", "request": map[string]any{"": []any{"audio", "video"}}}},
			{2, sig.Msg{"type": "request", "request": map[string]any{"": []any{"audio"}}}},
		} {
			if o := w.Send(step.c, step.m); o.Panic != "" {
				d.pan = o.Panic
			}
			if p := w.Settle(nil); p != "" {
				d.pan = p
			}
		}
	}
	return d
}

func (w *dworld) Close() { w.w.Close() }

func (w *dworld) Ops() []seqx.Op {
	if w.pan != "" {
		return nil
	}
	var ops []seqx.Op
	add := func(k string) { ops = append(ops, dop{Kind: k}) }
	if !w.offered["s1"] {
		add("offer-s1")
	} else {
		if !w.tracks["s1"] {
			add("track-s1")
		}
		add("close-s1")
		if !w.offered["s2"] {
			add("replace-s1-by-s2")
		} else if !w.tracks["s2"] {
			add("track-s2")
		}
	}
	for k := range w.w.Tasks() {
		if k < 3 {
			ops = append(ops, dop{Kind: "task", N: k})
		}
	}
	if w.w.Clients[0].V.Signalled() && !w.w.Clients[0].V.Closed {
		add("publisher-handles-one-batch")
	}
	if !core.Quick() && w.w.Clients[1].V.Signalled() && !w.w.Clients[1].V.Closed {
		add("viewer-handles-one-batch")
	}
	add("publisher-leaves")
	add("publisher-disconnects")
	add("op-unpresents-publisher")
	add("op-kicks-publisher")
	add("viewer-aborts-s1")
	add("viewer-requests-nothing")
	add("other-viewer-leaves")
	return ops
}

func (w *dworld) Apply(x seqx.Op) *core.Violation {
	o := x.(dop)
	w.nops++
	w.outcome = o.Kind
	var obs sig.Obs
	track := func(id string) {
		w.tracks[id] = true
		obs = w.w.Do(func() { w.w.Clients[0].V.Track(id, webrtc.RTPCodecTypeAudio, "audio0", "", sigOpus) })
	}
	sender := -1
	var was [3]bool
	for k := range was {
		was[k] = w.w.Clients[k].V.Closed
	}
	switch o.Kind {
	case "offer-s1":
		w.offered["s1"] = true
		obs = w.w.Send(0, sig.Msg{"type": "offer", "id": "s1", "label": "camera", "source": "c0", "username": "speaker", "sdp": sig.OfferSDP("a")})
	case "replace-s1-by-s2":
		w.offered["s2"] = true
		obs = w.w.Send(0, sig.Msg{"type": "offer", "id": "s2", "label": "camera", "replace": "s1", "source": "c0", "username": "speaker", "sdp": sig.OfferSDP("a")})
	case "track-s1":
		track("s1")
	case "track-s2":
		track("s2")
	case "close-s1":
		obs = w.w.Send(0, sig.Msg{"type": "close", "id": "s1", "source": "c0"})
	case "task":
		if o.N >= len(w.w.Tasks()) {
			return nil
		}
		obs = w.w.RunTask(o.N)
	case "publisher-handles-one-batch":
		obs = w.w.Drain(0)
		if obs.Err != "" && !w.kicked {
			return &core.Violation{Signature: "C12/sender-closed-without-offence/signalling/delayed-delivery",
				What: fmt.Sprintf("delayed delivery: the publisher sent only well-formed messages in states that allow them and was not kicked, yet handling its queued actions ended its loop with %q and closed its connection", obs.Err)}
		}
	case "viewer-handles-one-batch":
		obs = w.w.Drain(1)
		if obs.Err != "" {
			return &core.Violation{Signature: "C12/bystander-closed/signalling/delayed-delivery",
				What: fmt.Sprintf("delayed delivery: handling the actions queued for viewer c1 ended its loop with %q and closed its connection, although it sent nothing wrong", obs.Err)}
		}
	case "publisher-leaves":
		obs = w.w.Send(0, sig.Msg{"type": "join", "kind": "leave", "group": "g"})
	case "publisher-disconnects":
		obs = w.w.Disconnect(0)
	case "op-unpresents-publisher":
		obs = w.w.Send(1, sig.Msg{"type": "useraction", "kind": "unpresent", "source": "c1", "username": "alice", "dest": "c0"})
	case "op-kicks-publisher":
		obs = w.w.Send(1, sig.Msg{"type": "useraction", "kind": "kick", "source": "c1", "username": "alice", "dest": "c0", "value": "out"})
		w.kicked = true
	case "viewer-aborts-s1":
		obs = w.w.Send(1, sig.Msg{"type": "abort", "id": "s1"})
	case "viewer-requests-nothing":
		obs = w.w.Send(1, sig.Msg{"type": "request", "request": map[string]any{}})
	case "other-viewer-leaves":
		obs = w.w.Send(2, sig.Msg{"type": "join", "kind": "leave", "group": "g"})
	}
	switch o.Kind {
	case "op-unpresents-publisher", "op-kicks-publisher", "viewer-aborts-s1", "viewer-requests-nothing":
		sender = 1
	case "other-viewer-leaves":
		sender = 2
	}
	if obs.Panic != "" {
		return &core.Violation{Signature: "C12/panic/signalling/" + sig.PanicSite(obs.Panic) + "/delayed-delivery", What: "delayed delivery: " + o.String() + ": " + obs.Panic}
	}
	// the viewers' queued actions are handled at once; the delayed goroutines
	// and the publisher's own loop are explicit transitions
	for n := 0; n < 200; n++ {
		var s []int
		for _, i := range w.w.Signalled() {
			// the publisher's loop is lazy (explicit transitions); in the
			// thorough tier the first viewer's as well
			if i != 0 && (i != 1 || core.Quick()) {
				s = append(s, i)
			}
		}
		if len(s) == 0 {
			break
		}
		so := w.w.Drain(s[0])
		if so.Panic != "" {
			return &core.Violation{Signature: "C12/panic/signalling/" + sig.PanicSite(so.Panic) + "/delayed-delivery", What: "delayed delivery: handling the actions queued by " + o.String() + ": " + so.Panic}
		}
		if so.Err != "" && s[0] != 0 && s[0] != sender {
			return &core.Violation{Signature: "C12/bystander-closed/signalling/delayed-delivery",
				What: fmt.Sprintf("delayed delivery: after %s the loop of viewer c%d ended with %q and its connection was closed, although it sent nothing", o, s[0], so.Err)}
		}
	}
	for k := 1; k <= 2; k++ {
		if w.w.Clients[k].V.Closed && !was[k] && k != sender {
			return &core.Violation{Signature: "C12/bystander-closed/signalling/delayed-delivery",
				What: fmt.Sprintf("delayed delivery: after %s the connection of viewer c%d was closed, although it sent nothing", o, k)}
		}
	}
	return nil
}

func (w *dworld) Canon() string {
	return fmt.Sprint(w.w.Canon(), w.tracks, w.offered, w.kicked)
}

func (w *dworld) Outcome() string { return w.outcome }

func delayedConfig() seqx.Config {
	return seqx.Config{Name: "signalling/delayed-delivery", Fresh: dfresh, MaxDepth: core.Pick(5, 7), Parallel: 1}
}

package main

// Sub-check (c): the HTTP surface, and (c2) sdpfrag.
//
// The real handlers are reached through a private mux carrying the routing
// table of webserver.Serve (all routes but /ws).  Every request of the full
// product
//
//	method x path (every route template x segment alphabets) x credentials x
//	content-type x body x precondition headers
//
// is executed in-process against a sandbox (groups, data, recordings, static
// directories), which is restored whenever a request changed the disk.
// Oracle: no panic leaves the handler (net/http would swallow it and drop the
// connection without a response) and a valid status code was produced.

import (
	"crypto/hmac"
	"crypto/sha256"
	"encoding/base64"
	"encoding/json"
	"fmt"
	"io"
	"net/http"
	"net/http/httptest"
	"net/url"
	"os"
	"path/filepath"
	"runtime/debug"
	"sort"
	"strings"
	"sync/atomic"
	"time"

	"github.com/pion/sdp/v3"

	"github.com/jech/galene/diskwriter"
	"github.com/jech/galene/group"
	"github.com/jech/galene/rtpconn"
	"github.com/jech/galene/sdpfrag"
	"github.com/jech/galene/token"
	"github.com/jech/galene/webserver"

	"verif/core"
	"verif/vos"
	"verif/vrt"
	"verif/vtime"
)

const httpPart = "http"

var httpSubs = []string{"http-requests", "sdpfrag", "precondition-headers", "rtcp-report-timing", "cache-resize", "sequence-map", "writer-pool"}

func runHTTP(res *core.Result) {
	if isCoordinator() {
		if !wantAny(httpSubs) {
			return
		}
		progressDir()
		core.RunShards(res, core.Pick(16, 32), []string{httpPart}, func(shard int, output string) *core.Violation {
			return httpCrash(shard, output)
		})
		collapseViolations(res)
		res.Assume("HTTP requests are executed in-process through a private mux with the registrations of webserver.Serve (without /ws): TLS, the HTTP/1.1 and HTTP/2 wire parsers of net/http and connection handling are outside the check; request URLs are parsed with url.ParseRequestURI as the server does")
		res.Assume("WHIP: POST bodies are limited to {empty, garbage, a syntactically valid SDP without media, oversize}, so no WebRTC session ever exists; the WHIP resource handler is exercised on a WHIP client without connection (token check, OPTIONS, DELETE, preconditions, fragment parsing, the no-connection error of PATCH); trickle ICE and ICE restart on a live PeerConnection are not reached over HTTP (sdpfrag itself is enumerated separately)")
		return
	}
	if shardPart() != httpPart {
		return
	}
	runHTTPShard(res)
}

func httpCrash(shard int, output string) *core.Violation {
	rec := readProgress(httpPart, shard)
	method, _ := rec["method"].(string)
	tmpl, _ := rec["template"].(string)
	if strings.Contains(output, "C12-HANG") {
		return &core.Violation{
			Signature: fmt.Sprintf("C12/no-response/http/%s %s/hang", method, tmpl),
			What:      fmt.Sprintf("the handler did not return within 60 s of wall time: the request never receives a response; request %v", rec),
			Sub:       "http-requests",
			Replay:    map[string]any{"rank": "", "input": rec},
		}
	}
	pi := crashInfo(output)
	sub, _ := rec["sub"].(string)
	if sub == "" {
		sub = "http-requests"
	}
	return &core.Violation{
		Signature: fmt.Sprintf("C12/crash/http/%s %s/%s:%s", method, tmpl, pi.Func, pi.Kind),
		What: fmt.Sprintf("the process died while serving this request (a panic outside the handler's goroutine or a fatal error kills the server): %s; request %v",
			pi.Val, rec),
		Sub:    sub,
		Replay: map[string]any{"rank": "", "input": rec, "stack": head(pi.Stack, 1500)},
	}
}

// ---------------------------------------------------------------------------
// sandbox

type sandbox struct {
	root  string
	files map[string]string // relative path -> content (groups/, data/, recordings/)
}

func (s *sandbox) dir(n string) string { return filepath.Join(s.root, n) }

func newSandbox() (*sandbox, error) {
	root, err := os.MkdirTemp("", "c12http")
	if err != nil {
		return nil, err
	}
	key := base64.RawURLEncoding.EncodeToString([]byte("secret-secret-secret-secret-32by"))
	s := &sandbox{root: root, files: map[string]string{
		"groups/pub.json":   `{"public":true,"displayName":"Public group","description":"d","wildcard-user":{"password":{"type":"wildcard"},"permissions":"present"}}`,
		"groups/priv.json":  `{"allow-recording":true,"users":{"alice":{"password":"apw","permissions":"op"},"bob":{"password":{"type":"plain","key":"bpw"},"permissions":"present"}},"authKeys":[{"kty":"oct","alg":"HS256","kid":"k1","k":"` + key + `"}]}`,
		"groups/redir.json": `{"redirect":"https://elsewhere.example/group/x/"}`,
		"groups/auto.json":  `{"auto-subgroups":true,"users":{"alice":{"password":"apw","permissions":"op"}}}`,
		"data/config.json":  `{"writableGroups":true,"users":{"root":{"password":"pw","permissions":"admin"}}}`,
		"data/var/tokens.jsonl": `{"token":"tok1","group":"priv","permissions":["present"],"expires":"2035-01-01T00:00:00Z"}` + "\n" +
			`{"token":"admintok","group":"","includeSubgroups":true,"permissions":["admin"],"expires":"2035-01-01T00:00:00Z"}` + "\n",
		"recordings/priv/rec.webm": "not really webm",
		"recordings/priv/.hidden":  "x",
		"recordings/auto/a.webm":   "y",
	}}
	static := map[string]string{
		"index.html": "<html>index</html>", "galene.html": "<html>galene</html>", "404.html": "<html>404</html>",
		"common.css": "body{}", "sub/file.txt": "f", "withindex/index.html": "<html>i</html>", "third-party/x.js": "x",
		".x": "dotfile",
	}
	for p, c := range static {
		f := filepath.Join(root, "static", p)
		os.MkdirAll(filepath.Dir(f), 0755)
		if err := os.WriteFile(f, []byte(c), 0644); err != nil {
			return nil, err
		}
		t := vos.LogicalBase.Add(-time.Hour)
		os.Chtimes(f, t, t)
	}
	if err := s.restore(); err != nil {
		return nil, err
	}
	return s, nil
}

// restore puts groups/, data/ and recordings/ back to the template; every
// file gets a fresh logical mtime so that the server's caches notice.
func (s *sandbox) restore() error {
	for _, d := range []string{"groups", "data", "recordings"} {
		if err := os.RemoveAll(s.dir(d)); err != nil {
			return err
		}
	}
	paths := make([]string, 0, len(s.files))
	for p := range s.files {
		paths = append(paths, p)
	}
	sort.Strings(paths)
	for _, p := range paths {
		f := filepath.Join(s.root, p)
		if err := os.MkdirAll(filepath.Dir(f), 0755); err != nil {
			return err
		}
		if err := os.WriteFile(f, []byte(s.files[p]), 0644); err != nil {
			return err
		}
		vos.Stamp(f)
	}
	token.SetStatefulFilename(filepath.Join(s.root, "data", "var", "tokens.jsonl"))
	return nil
}

func mutating(st vos.StepInfo) bool {
	switch st.Op {
	case "open", "stat", "lstat", "readfile", "readdir", "openroot", "close",
		"root.open", "root.stat", "root.lstat", "root.openroot":
		return false
	case "openfile", "root.openfile":
		return st.Arg != ""
	}
	return true
}

// ---------------------------------------------------------------------------
// request alphabet

type seg struct {
	Class string // existing | missing | empty | dot | dotdot | dotx | slash | backslash | long
	Wire  string // as sent on the request line
}

func segs(existing []string, missing string, quick bool) []seg {
	var out []seg
	for _, e := range existing {
		out = append(out, seg{"existing", e})
	}
	long := strings.Repeat("g", 300)
	all := []seg{{"missing", missing}, {"empty", ""}, {"dot", "."}, {"dotdot", ".."}, {"dotx", ".x"},
		{"slash", "a%2Fb"}, {"backslash", `a\b`}, {"long", long}}
	for _, s := range all {
		if quick && (s.Class == "dot" || s.Class == "dotx" || s.Class == "backslash") {
			continue
		}
		out = append(out, s)
	}
	return out
}

type route struct {
	Tmpl string // e.g. /galene-api/v0/.groups/<g>/.users/<u>
	Kind string // selects the right content-type and the valid body
}

type reqPath struct {
	Tmpl  string
	Kind  string
	Wire  string
	Class string // classes of the variable segments
}

func validWhipID() string {
	id := base64.RawURLEncoding.EncodeToString([]byte("0123456789abcdef"))
	o, err := webserver.VerifC12Obfuscate(id)
	if err != nil {
		return id
	}
	return o
}

var nRouteTemplates int

// A WHIP client without any connection is registered in group "pub" (through
// the public group API, no PeerConnection is ever created), so that the
// resource handler gets past its lookup: token comparison, OPTIONS, DELETE,
// preconditions, content-type, the fragment parser, and the "no connection"
// error path of PATCH.
const whipRawID = "whip-client-0001" // 16 bytes

const (
	phExisting = "WHIP-ID-OF-THE-REGISTERED-CLIENT"
	phUnknown  = "WHIP-ID-WELL-FORMED-BUT-UNKNOWN"
)

func resolveIDs(path string) string {
	if strings.Contains(path, phExisting) {
		path = strings.Replace(path, phExisting, existingWhipID(), 1)
	}
	if strings.Contains(path, phUnknown) {
		path = strings.Replace(path, phUnknown, validWhipID(), 1)
	}
	return path
}

func whipClientID() string { return base64.RawURLEncoding.EncodeToString([]byte(whipRawID)) }

func existingWhipID() string {
	o, err := webserver.VerifC12Obfuscate(whipClientID())
	if err != nil {
		panic(err)
	}
	return o
}

func ensureWhipClient() error {
	if g := group.Get("pub"); g != nil && g.GetClient(whipClientID()) != nil {
		return nil
	}
	g, err := group.Add("pub", nil)
	if err != nil {
		return err
	}
	c := rtpconn.NewWhipClient(g, whipClientID(), "tok1", nil)
	whip := "whip"
	_, err = group.AddClient(g.Name(), c, group.ClientCredentials{Username: &whip})
	return err
}

func buildPaths() []reqPath {
	q := core.Quick()
	gs := segs(core.Pick([]string{"pub", "priv", "redir", "auto/sub"}, []string{"pub", "priv", "redir", "auto", "auto/sub"}), "nosuch", q)
	us := segs([]string{"alice"}, "nobody", q)
	ts := segs([]string{"tok1"}, "newtok", q)
	fs := segs([]string{"rec.webm"}, "nosuch.webm", q)
	ss := segs([]string{"index.html", "sub", "withindex"}, "nosuch.html", q)
	// the obfuscated ids depend on the per-process random key of the
	// webserver package: paths carry placeholders, resolved when sending
	ids := []seg{{"existing", phExisting}, {"unknown", phUnknown}, {"wrong-length", "AAAA"}, {"not-base64", "!!!!"}, {"empty", ""}}

	routes := []route{
		{"/", "static"}, {"/<file>", "static"}, {"/<file>/", "static"},
		{"/group/", "group"}, {"/group/<g>", "group"}, {"/group/<g>/", "group"},
		{"/group/<g>/.status", "group"}, {"/group/<g>/.status.json", "group"}, {"/group/<g>/.status/x", "group"},
		{"/group/<g>/.whip", "whip"}, {"/group/<g>/.whip/<id>", "whip-resource"}, {"/group/<g>/.other", "group"},
		{"/recordings", "recordings"}, {"/recordings/", "recordings"}, {"/recordings/<g>", "recordings"},
		{"/recordings/<g>/", "recordings"}, {"/recordings/<g>/<f>", "recordings"},
		{"/public-groups.json", "group"},
		{"/galene-api", "api"}, {"/galene-api/", "api"}, {"/galene-api/v0", "api"}, {"/galene-api/v0/", "api"},
		{"/galene-api/v1/.stats", "api"}, {"/galene-api/v0/.stats", "api"}, {"/galene-api/v0/.stats/x", "api"},
		{"/galene-api/v0/.other", "api"}, {"/galene-api/v0/.groups", "api"}, {"/galene-api/v0/.groups/", "api"},
		{"/galene-api/v0/.groups/<g>", "api-group"}, {"/galene-api/v0/.groups/<g>/", "api-group"},
		{"/galene-api/v0/.groups/<g>/.users", "api"}, {"/galene-api/v0/.groups/<g>/.users/", "api"},
		{"/galene-api/v0/.groups/<g>/.users/<u>", "api-user"},
		{"/galene-api/v0/.groups/<g>/.users/<u>/.password", "api-password"},
		{"/galene-api/v0/.groups/<g>/.users/<u>/.other", "api"},
		{"/galene-api/v0/.groups/<g>/.empty-user", "api-user"}, {"/galene-api/v0/.groups/<g>/.empty-user/.password", "api-password"},
		{"/galene-api/v0/.groups/<g>/.empty-user/x", "api"},
		{"/galene-api/v0/.groups/<g>/.wildcard-user", "api-user"}, {"/galene-api/v0/.groups/<g>/.wildcard-user/.password", "api-password"},
		{"/galene-api/v0/.groups/<g>/.keys", "api-keys"}, {"/galene-api/v0/.groups/<g>/.keys/x", "api"},
		{"/galene-api/v0/.groups/<g>/.tokens", "api-token"}, {"/galene-api/v0/.groups/<g>/.tokens/", "api-token"},
		{"/galene-api/v0/.groups/<g>/.tokens/<t>", "api-token"},
		{"/galene-api/v0/.groups/<g>/.other", "api"},
	}
	nRouteTemplates = len(routes)
	vars := map[string][]seg{"<g>": gs, "<u>": us, "<t>": ts, "<f>": fs, "<file>": ss, "<id>": ids}
	var out []reqPath
	for _, r := range routes {
		cur := []reqPath{{Tmpl: r.Tmpl, Kind: r.Kind, Wire: r.Tmpl}}
		for _, v := range []string{"<g>", "<u>", "<t>", "<f>", "<file>", "<id>"} {
			if !strings.Contains(r.Tmpl, v) {
				continue
			}
			var next []reqPath
			for _, c := range cur {
				for _, s := range vars[v] {
					n := c
					n.Wire = strings.Replace(c.Wire, v, s.Wire, 1)
					n.Class += strings.Trim(v, "<>") + "=" + s.Class + " "
					next = append(next, n)
				}
			}
			cur = next
		}
		out = append(out, cur...)
	}
	// the same request line can arise from two templates (an empty segment):
	// keep the first
	seen := map[string]bool{}
	uniq := out[:0]
	for _, p := range out {
		if !seen[p.Wire] {
			seen[p.Wire] = true
			uniq = append(uniq, p)
		}
	}
	return uniq
}

var methods = []string{"GET", "HEAD", "PUT", "POST", "DELETE", "PATCH", "OPTIONS", "FOO"}

type cred struct {
	Name   string
	Header string
}

func b64(s string) string { return base64.StdEncoding.EncodeToString([]byte(s)) }

func makeJWT(key []byte, goodSig bool) string {
	enc := base64.RawURLEncoding.EncodeToString
	h := enc([]byte(`{"alg":"HS256","typ":"JWT","kid":"k1"}`))
	p := enc([]byte(`{"sub":"jwtuser","aud":"https://galene.example:8443/group/priv/","permissions":["admin","present"],"exp":2000000000,"iat":1700000000,"iss":"https://auth.example/"}`))
	mac := hmac.New(sha256.New, key)
	mac.Write([]byte(h + "." + p))
	sig := mac.Sum(nil)
	if !goodSig {
		sig[0] ^= 0xFF
	}
	return h + "." + p + "." + enc(sig)
}

func buildCreds() []cred {
	key := []byte("secret-secret-secret-secret-32by")
	all := []cred{
		{"none", ""},
		{"bad-basic", "Basic " + b64("root:wrong")},
		{"admin-basic", "Basic " + b64("root:pw")},
		{"group-op-basic", "Basic " + b64("alice:apw")},
		{"bearer-garbage", "Bearer xyz"},
		{"bearer-jwt-bad-signature", "Bearer " + makeJWT(key, false)},
		{"bearer-group-token", "Bearer tok1"},
		{"bearer-admin-token", "Bearer admintok"},
		{"bearer-jwt-valid", "Bearer " + makeJWT(key, true)},
	}
	if core.Quick() {
		return []cred{all[0], all[2], all[3], all[4], all[6]}
	}
	return all
}

var ctypeNames = []string{"none", "right", "wrong", "malformed"}
var bodyNames = []string{"empty", "{}", "valid", "malformed-json", "wrong-types", "null", "array", "oversize"}
var preconds = [][2]string{{"", ""}, {"If-Match", "*"}, {"If-None-Match", "*"}, {"If-Match", `"x"`}}

func rightCtype(kind, method string) string {
	switch kind {
	case "api-keys":
		return "application/jwk-set+json"
	case "api-password":
		if method == "POST" {
			return "text/plain"
		}
		return "application/json"
	case "whip":
		return "application/sdp"
	case "whip-resource":
		return "application/trickle-ice-sdpfrag"
	case "recordings":
		return "application/x-www-form-urlencoded"
	}
	return "application/json"
}

func wrongCtype(kind, method string) string {
	if rightCtype(kind, method) == "text/plain" {
		return "application/json"
	}
	return "text/plain"
}

const minimalSDP = "v=0\r\no=- 0 0 IN IP4 127.0.0.1\r\ns=-\r\nt=0 0\r\n"

var oversize = `{"description":"` + strings.Repeat("a", 1100*1024)

func validBody(kind, method string) string {
	switch kind {
	case "api-group":
		return `{"displayName":"New name","public":true,"max-clients":5}`
	case "api-user":
		return `{"permissions":"present"}`
	case "api-password":
		if method == "POST" {
			return "secret"
		}
		return `{"type":"plain","key":"secret"}`
	case "api-keys":
		return `{"keys":[{"kty":"oct","alg":"HS256","kid":"k2","k":"` + base64.RawURLEncoding.EncodeToString([]byte("another-another-another-key-32by")) + `"}]}`
	case "api-token":
		return `{"permissions":["present"],"expires":"2035-01-01T00:00:00Z"}`
	case "recordings":
		return "q=delete&filename=rec.webm"
	case "whip":
		return minimalSDP
	case "whip-resource":
		return "a=ice-ufrag:u\r\na=ice-pwd:p\r\na=candidate:1 1 UDP 1 192.0.2.1 1 typ host\r\n"
	}
	return `{"a":1}`
}

func bodyFor(name, kind, method string) string {
	switch name {
	case "empty":
		return ""
	case "{}":
		return "{}"
	case "valid":
		return validBody(kind, method)
	case "malformed-json":
		if kind == "whip" || kind == "whip-resource" {
			return "\x00\xff garbage =\r\n=\r\nv=\r\n"
		}
		return `{"displayName": "x", `
	case "wrong-types":
		if kind == "recordings" {
			return "q=delete&filename=..%2F..%2Fx&q=%zz"
		}
		return `{"displayName":5,"public":"yes","users":[],"wildcard-user":7,"authKeys":{},"permissions":{"a":1},"password":[1],"expires":7,"not-before":[],"keys":5,"type":[],"key":{},"username":5,"token":1,"group":2,"codecs":"vp8","max-clients":"many"}`
	case "null":
		return "null"
	case "array":
		return `[1,"a",null,{}]`
	case "oversize":
		return oversize
	}
	panic(name)
}

// ---------------------------------------------------------------------------
// shard

type httpReq struct {
	Sub      string `json:"sub"`
	Method   string `json:"method"`
	Template string `json:"template"`
	Path     string `json:"path"`
	Class    string `json:"class"`
	Cred     string `json:"cred"`
	Auth     string `json:"authorization,omitempty"`
	Ctype    string `json:"content_type"`
	CtypeVal string `json:"content_type_value,omitempty"`
	Body     string `json:"body"`
	Precond  string `json:"precondition"`
	Kind     string `json:"kind"`
}

type httpWorld struct {
	sb       *sandbox
	mux      *http.ServeMux
	mutated  bool
	reqNo    atomic.Int64
	setupErr error
}

func newHTTPWorld() (*httpWorld, error) {
	vrt.SetMode(vrt.Tasks)
	vtime.SetVirtual(true)
	vos.SetLogicalMtime(true)
	sb, err := newSandbox()
	if err != nil {
		return nil, err
	}
	group.Directory = sb.dir("groups")
	group.DataDirectory = sb.dir("data")
	diskwriter.Directory = sb.dir("recordings")
	mux, err := webserver.VerifC12Mux(sb.dir("static"))
	if err != nil {
		return nil, err
	}
	w := &httpWorld{sb: sb, mux: mux}
	if err := ensureWhipClient(); err != nil {
		return nil, fmt.Errorf("registering the WHIP client: %w", err)
	}
	return w, nil
}

func (w *httpWorld) close() { os.RemoveAll(w.sb.root) }

func (w *httpWorld) reset() {
	if w.mutated {
		w.sb.restore()
		w.mutated = false
	}
	for _, n := range group.GetNames() {
		group.Delete(n) // refuses groups that still have a client
	}
	if err := ensureWhipClient(); err != nil && w.setupErr == nil {
		w.setupErr = err
	}
	vrt.ResetTasks()
}

func ctypeValue(name, kind, method string) string {
	switch name {
	case "right":
		return rightCtype(kind, method)
	case "wrong":
		return wrongCtype(kind, method)
	case "malformed":
		return "application/json; charset"
	}
	return ""
}

// do executes one request; it returns the status code or the panic.
func (w *httpWorld) do(q httpReq) (int, *panicInfo, error) {
	wire := resolveIDs(q.Path)
	u, err := url.ParseRequestURI(wire)
	if err != nil {
		return 0, nil, err
	}
	body := bodyFor(q.Body, q.Kind, q.Method)
	r := &http.Request{
		Method: q.Method, URL: u, Proto: "HTTP/1.1", ProtoMajor: 1, ProtoMinor: 1,
		Header: http.Header{}, Body: io.NopCloser(strings.NewReader(body)), ContentLength: int64(len(body)),
		Host: "galene.example:8443", RemoteAddr: "192.0.2.7:40000", RequestURI: wire,
	}
	if q.Auth != "" {
		r.Header.Set("Authorization", q.Auth)
	}
	if q.CtypeVal != "" {
		r.Header.Set("Content-Type", q.CtypeVal)
	}
	if q.Precond != "" {
		i := strings.Index(q.Precond, ":")
		r.Header.Set(q.Precond[:i], q.Precond[i+1:])
	}
	rec := httptest.NewRecorder()
	vos.SetHook(func(st vos.StepInfo) error {
		if mutating(st) {
			w.mutated = true
		}
		return nil
	})
	w.reqNo.Add(1)
	pi := func() (pi *panicInfo) {
		defer func() {
			if r := recover(); r != nil {
				pi = capturePanic(r)
			}
		}()
		w.mux.ServeHTTP(rec, r)
		return nil
	}()
	w.reqNo.Add(1)
	vos.SetHook(nil)
	if pi != nil {
		w.mutated = true // a handler that died half-way may have left anything behind
	}
	w.reset()
	return rec.Code, pi, nil
}

func (c *pctx) evalHTTP(a *acc, w *httpWorld, q httpReq, pathIdx, methodIdx int) {
	a.inputs++
	a.execs++
	c.prog.SetRaw('H', []byte(q.Sub), []byte(q.Method), []byte(q.Template), []byte(head(q.Path, 400)), []byte(q.Class), []byte(q.Cred),
		[]byte(q.Auth), []byte(q.Ctype), []byte(q.CtypeVal), []byte(q.Body), []byte(q.Precond), []byte(q.Kind))
	code, pi, err := w.do(q)
	if dumpFile != nil {
		fmt.Fprintf(dumpFile, "%d\t%s\t%s\t%s\t%s\t%s\t%s\t%s\n", code, q.Method, q.Template, head(q.Path, 60), q.Cred, q.Ctype, q.Body, q.Precond)
	}
	odd := 0
	for _, f := range strings.Fields(q.Class) {
		if !strings.HasSuffix(f, "=existing") && !strings.HasSuffix(f, "=missing") && !strings.HasSuffix(f, "=unknown") {
			odd++
		}
	}
	rank := fmt.Sprintf("%d%04d%s|%s|%s|%s|%s", odd, len(q.Path), q.Path, q.Cred, q.Ctype, q.Body, q.Precond)
	switch {
	case err != nil:
		// the server's request parser rejects this request line itself (400)
		a.out(uint64(pathIdx)<<32 | uint64(methodIdx)<<16 | 0xFFFF)
		return
	case pi != nil:
		what := fmt.Sprintf("%s %s (%scredentials %s, content-type %s, body %s, %s) panics in the handler: %s (in %s); net/http recovers the panic and closes the connection, the request gets no HTTP response",
			q.Method, head(q.Path, 200), q.Class, q.Cred, q.Ctype, q.Body, orNone(q.Precond), pi.Val, pi.Func)
		site := pi.Func + ":" + pi.Kind
		if c.httpPanics == nil {
			c.httpPanics = map[string]map[string]ranked{}
		}
		if c.httpPanics[site] == nil {
			c.httpPanics[site] = map[string]ranked{}
		}
		if old, ok := c.httpPanics[site][q.Method]; !ok || !rankLess(old.rank, rank) {
			c.httpPanics[site][q.Method] = ranked{core.Violation{What: what, Sub: a.name, Replay: q}, rank}
		}
	case code < 100 || code >= 600:
		c.violate(fmt.Sprintf("C12/no-status/http/%s %s", q.Method, q.Template),
			fmt.Sprintf("%s %s produced status %d", q.Method, head(q.Path, 200), code), a.name, rank, q)
	}
	a.out(uint64(c.strID(q.Template))<<32 | uint64(methodIdx)<<16 | uint64(code&0xFFFF))
	if len(a.samples) < 3 && (code == 201 || code == 204 || code == 412) {
		a.samples = append(a.samples, map[string]any{"request": q.Method + " " + head(q.Path, 80), "cred": q.Cred, "content_type": q.Ctype,
			"body": q.Body, "precondition": q.Precond, "status": code})
	}
}

// dumpFile (debugging aid): C12_HTTP_DUMP=<file> lists every request and status.
var dumpFile = func() *os.File {
	if p := os.Getenv("C12_HTTP_DUMP"); p != "" {
		f, _ := os.OpenFile(fmt.Sprintf("%s.%d", p, os.Getpid()), os.O_CREATE|os.O_WRONLY|os.O_TRUNC, 0644)
		return f
	}
	return nil
}()

// flushHTTPPanics is called after all requests of one path: a panic site hit
// under every method is one method-independent defect (METHOD "*").
func (c *pctx) flushHTTPPanics(tmpl string) {
	for site, byMethod := range c.httpPanics {
		if len(byMethod) == len(methods) {
			best := byMethod[methods[0]]
			for _, m := range methods {
				if r := byMethod[m]; !rankLess(best.rank, r.rank) {
					best = r
				}
			}
			c.violate(fmt.Sprintf("C12/panic/http/* %s/%s", tmpl, site), best.v.What+" (every method panics alike)", best.v.Sub, best.rank, best.v.Replay)
			continue
		}
		for m, r := range byMethod {
			c.violate(fmt.Sprintf("C12/panic/http/%s %s/%s", m, tmpl, site), r.v.What, r.v.Sub, r.rank, r.v.Replay)
		}
	}
	c.httpPanics = nil
}

func orNone(s string) string {
	if s == "" {
		return "no precondition"
	}
	return s
}

func runHTTPShard(res *core.Result) {
	o := core.Opts()
	debug.SetGCPercent(800) // request bodies of 1.1 MB make a lot of short-lived garbage
	c := newPctx(res, httpPart)
	if core.Want("http-requests") {
		runHTTPRequests(c, o)
	}
	if core.Want("sdpfrag") {
		runSDPFrag(c, o)
	}
	c.flush()
	if core.Want("precondition-headers") && o.Shard == 0 {
		runPrecondHeaders(res)
	}
	if core.Want("rtcp-report-timing") && o.Shard == 1%o.Shards {
		runReportTiming(res)
	}
	if core.Want("cache-resize") && o.Shard == 2%o.Shards {
		runCacheResize(res)
	}
	if core.Want("sequence-map") && o.Shard == 3%o.Shards {
		runMapSequences(res)
	}
	if core.Want("writer-pool") && o.Shard == 4%o.Shards {
		runWriterPool(res)
	}
}

func runHTTPRequests(c *pctx, o *core.Options) {
	paths := buildPaths()
	creds := buildCreds()
	ctypes := core.Pick([]string{"none", "right", "wrong"}, ctypeNames)
	bodies := core.Pick([]string{"empty", "valid", "malformed-json", "wrong-types", "oversize"}, bodyNames)
	pcs := preconds
	if core.Quick() {
		pcs = [][2]string{preconds[0], preconds[2], preconds[3]}
	}
	bound := fmt.Sprintf("full product: %d methods %v x %d distinct paths (%d route templates of webserver.go/api.go/whip.go x segment alphabets) x %d credentials x %d content-types %v x %d bodies %v x %d precondition headers",
		len(methods), methods, len(paths), nRouteTemplates, len(creds), len(ctypes), ctypes, len(bodies), bodies, len(pcs))
	a := c.acc("http-requests", bound)
	a.note = "path segments: group in {existing pub/priv/redir/auto/auto-sub, missing, empty, ., .., .x, a%2Fb, a\\b, 300 chars} (quick: without ., .x, a\\b and group auto), same classes for user, token, recording and static file names; WHIP id in {existing (a connection-less WHIP client registered in group pub), well-formed unknown, wrong length, not base64, empty}"
	w, err := newHTTPWorld()
	if err != nil {
		c.res.Fault = "http world: " + err.Error()
		return
	}
	defer w.close()

	// watchdog: a handler that never returns is a request without response
	go func() {
		last, since := int64(-1), time.Now()
		for {
			time.Sleep(2 * time.Second)
			n := w.reqNo.Load()
			if n != last || n%2 == 0 {
				last, since = n, time.Now()
				continue
			}
			if time.Since(since) > 60*time.Second {
				fmt.Fprintln(os.Stderr, "C12-HANG")
				os.Exit(7)
			}
		}
	}()

	onePath := func(pi int, p reqPath) bool {
		for mi, m := range methods {
			for _, cr := range creds {
				for _, ct := range ctypes {
					for _, b := range bodies {
						for _, pc := range pcs {
							if c.timeUp() {
								return false
							}
							q := httpReq{Sub: "http-requests", Method: m, Template: p.Tmpl, Path: p.Wire, Class: p.Class, Cred: cr.Name, Auth: cr.Header,
								Ctype: ct, CtypeVal: ctypeValue(ct, p.Kind, m), Body: b, Kind: p.Kind}
							if pc[0] != "" {
								q.Precond = pc[0] + ":" + pc[1]
							}
							c.evalHTTP(a, w, q, pi, mi)
						}
					}
				}
			}
		}
		return true
	}
	for pi, p := range paths {
		if pi%o.Shards != o.Shard {
			continue
		}
		ok := !c.stop && onePath(pi, p)
		c.flushHTTPPanics(p.Tmpl)
		if w.setupErr != nil {
			c.res.Fault = "http world: re-registering the WHIP client: " + w.setupErr.Error()
			return
		}
		if !ok {
			a.exhaustive = false
			break
		}
	}
}

// ---------------------------------------------------------------------------
// (c2) sdpfrag

var fragLines = []string{"a=ice-ufrag:u", "a=ice-pwd:p", "a=ice-options:trickle", "m=audio 9 UDP/TLS/RTP/SAVPF 0", "a=mid:0",
	"a=candidate:1 1 UDP 1 192.0.2.1 1 typ host", "a=end-of-candidates", "a=", "=", "x", "m=", "a=mid:", "a=candidate:", ""}

func minimalSessions() []sdp.SessionDescription {
	var bare, media sdp.SessionDescription
	if err := bare.Unmarshal([]byte(minimalSDP)); err != nil {
		panic(err)
	}
	full := minimalSDP + "a=ice-ufrag:u\r\na=ice-pwd:p\r\na=candidate:9 1 UDP 1 192.0.2.9 9 typ host\r\n" +
		"m=audio 9 UDP/TLS/RTP/SAVPF 111\r\nc=IN IP4 0.0.0.0\r\na=mid:0\r\na=ice-ufrag:u2\r\na=ice-pwd:p2\r\na=candidate:8 1 UDP 1 192.0.2.8 8 typ host\r\n" +
		"m=video 9 UDP/TLS/RTP/SAVPF 96\r\nc=IN IP4 0.0.0.0\r\na=mid:1\r\n"
	if err := media.Unmarshal([]byte(full)); err != nil {
		panic(err)
	}
	return []sdp.SessionDescription{bare, media}
}

type fragInput struct {
	Sub   string   `json:"sub"`
	Lines []string `json:"lines"`
	Sep   string   `json:"sep"`
	Term  bool     `json:"terminated"`
}

func (c *pctx) evalFrag(a *acc, sessions []sdp.SessionDescription, in fragInput) {
	a.inputs++
	text := strings.Join(in.Lines, in.Sep)
	if in.Term {
		text += in.Sep
	}
	step := "Unmarshal"
	var outcome string
	pi := func() (pi *panicInfo) {
		defer func() {
			if r := recover(); r != nil {
				pi = capturePanic(r)
			}
		}()
		var f sdpfrag.SDPFrag
		a.execs++
		err := f.Unmarshal([]byte(text))
		if err != nil {
			outcome = "err:" + err.Error()
			return nil
		}
		step = "Marshal"
		a.execs++
		m, err := f.Marshal()
		if err != nil {
			outcome = "marshal-err"
			return nil
		}
		step = "UFragPwd"
		a.execs++
		u, p := f.UFragPwd()
		step = "AllCandidates"
		a.execs++
		cs := f.AllCandidates()
		outcome = fmt.Sprintf("ok u=%v p=%v cands=%d media=%d", u != "", p != "", len(cs), len(f.MediaDescriptions))
		step = "PatchSDP"
		for i, s := range sessions {
			a.execs++
			s2, over := sdpfrag.PatchSDP(s, f)
			outcome += fmt.Sprintf(" patch%d=%v/%d", i, over, len(s2.MediaDescriptions))
			step = "PatchSDP+Marshal"
			a.execs++
			if _, err := s2.Marshal(); err != nil {
				outcome += "/unmarshalable"
			}
			step = "FromSDP"
			a.execs++
			f2 := sdpfrag.FromSDP(s2)
			f2.Marshal()
			step = "PatchSDP"
		}
		step = "Unmarshal(Marshal)"
		a.execs++
		var g sdpfrag.SDPFrag
		if err := g.Unmarshal(m); err != nil {
			outcome += " reparse-err"
		}
		return nil
	}()
	if pi != nil {
		cls := "multi-line"
		for _, l := range append([]string{""}, in.Lines...) {
			if fragLinePanics(l) {
				cls = fmt.Sprintf("line=%q", l)
				break
			}
		}
		c.violate(fmt.Sprintf("C12/panic/sdpfrag.%s/%s:%s/%s", step, pi.Func, pi.Kind, cls),
			fmt.Sprintf("sdpfrag %s panics on the fragment %q: %s (in %s); reached from PATCH /group/<g>/.whip/<id>", step, text, pi.Val, pi.Func),
			a.name, fmt.Sprintf("%04d%s", len(text), text), in)
		return
	}
	a.out(c.strID(outcome))
	if len(a.samples) < 2 && len(in.Lines) == 4 && strings.Contains(outcome, "cands=1") {
		a.samples = append(a.samples, map[string]any{"fragment": text, "outcome": outcome})
	}
}

// fragLinePanics: does this line alone crash Unmarshal?
func fragLinePanics(l string) (p bool) {
	defer func() {
		if recover() != nil {
			p = true
		}
	}()
	var f sdpfrag.SDPFrag
	f.Unmarshal([]byte(l + "\r\n"))
	return false
}

func runSDPFrag(c *pctx, o *core.Options) {
	maxLines := 4
	a := c.acc("sdpfrag", fmt.Sprintf("all sequences of 0..%d lines over %d lines %q x separators {CRLF, LF} x {terminated, unterminated}; each through Unmarshal, Marshal, UFragPwd, AllCandidates, PatchSDP on 2 session descriptions (+Marshal, FromSDP), Unmarshal(Marshal)",
		maxLines, len(fragLines), fragLines))
	sessions := minimalSessions()
	n := 0
	var rec func(prefix []string)
	rec = func(prefix []string) {
		if c.stop {
			return
		}
		n++
		if n%o.Shards == o.Shard {
			for _, sep := range []string{"\r\n", "\n"} {
				for _, term := range []bool{true, false} {
					if len(prefix) == 0 && (sep == "\n" || !term) {
						continue // the empty fragment once
					}
					if c.timeUp() {
						a.exhaustive = false
						return
					}
					in := fragInput{Sub: "sdpfrag", Lines: append([]string(nil), prefix...), Sep: sep, Term: term}
					c.evalFrag(a, sessions, in)
				}
			}
		}
		if len(prefix) == maxLines {
			return
		}
		for _, l := range fragLines {
			rec(append(prefix, l))
		}
	}
	rec(nil)
}

// ---------------------------------------------------------------------------
// replay

func replayHTTP(sub string, artefact json.RawMessage) *core.Violation {
	var a struct {
		Input json.RawMessage `json:"input"`
	}
	if err := json.Unmarshal(artefact, &a); err != nil {
		fmt.Println("bad artefact:", err)
		return nil
	}
	res := &core.Result{}
	c := newPctx(res, httpPart)
	ac := c.acc(sub, "")
	if sub == "sdpfrag" {
		var in fragInput
		json.Unmarshal(a.Input, &in)
		c.evalFrag(ac, minimalSessions(), in)
	} else {
		var q httpReq
		json.Unmarshal(a.Input, &q)
		w, err := newHTTPWorld()
		if err != nil {
			fmt.Println(err)
			return nil
		}
		defer w.close()
		c.evalHTTP(ac, w, q, 0, 0)
		c.flushHTTPPanics(q.Template)
	}
	for _, r := range c.viols {
		v := r.v
		return &v
	}
	return nil
}

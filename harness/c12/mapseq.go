package main

import (
	"fmt"
	"runtime/debug"

	"github.com/jech/galene/packetmap"

	"verif/core"
)

// sequence-map: the per-receiver sequence map is driven by the publisher's
// packets (client input): forwarded packets go through Map, withheld ones
// through Drop, retransmission requests through Reverse, and a jump of the
// publisher's numbers by more than 8192 resets it.  Every sequence of up to
// 7/9 steps over {forward, withhold, late copy, outage forwards, outage
// backwards, reverse lookup} from several start numbers.  Oracle: no panic
// (Write runs in the writer goroutine and in the NACK path, neither recovers).
func runMapSequences(res *core.Result) {
	sub := core.Sub{Name: "sequence-map", Exhaustive: true}
	var outc core.Outcomes
	depth := core.Pick(7, 9)
	const nops = 6
	reported := false
	for _, start := range []uint16{0, 65530, 57344, 32760} {
		seq := make([]int, 0, depth)
		var rec func()
		rec = func() {
			if len(seq) > 0 && !reported {
				sub.Executions++
				sub.Transitions += int64(len(seq))
				var pan string
				func() {
					defer func() {
						if r := recover(); r != nil {
							pan = fmt.Sprintf("%v\n%s", r, debug.Stack())
						}
					}()
					var m packetmap.Map
					next, pid := start, uint16(100)
					last := start
					for _, o := range seq {
						switch o {
						case 0:
							m.Map(next, pid)
							last = next
							next++
							pid++
						case 1:
							m.Drop(next, pid)
							next++
							pid++
						case 2:
							m.Map(last, pid-1)
						case 3:
							next += 10000
						case 4:
							next -= 10000
						case 5:
							m.Reverse(last)
							m.Reverse(next - 3)
						}
					}
				}()
				if pan != "" {
					reported = true
					res.Violate(core.Violation{Signature: "C12/panic/packetmap/sequence", Sub: sub.Name,
						What:   fmt.Sprintf("sequence map from start %d, steps %v (0 forward, 1 withhold, 2 late copy, 3 outage +10000, 4 outage -10000, 5 reverse lookups): %s; Write has no recover, the server dies", start, seq, head(pan, 200)),
						Replay: map[string]any{"family": "sequence-map", "start": start, "steps": append([]int(nil), seq...)}})
					outc.Add("panic")
				} else {
					outc.Add("ok")
				}
			}
			if len(seq) == depth || reported {
				return
			}
			for o := 0; o < nops; o++ {
				seq = append(seq, o)
				rec()
				seq = seq[:len(seq)-1]
			}
		}
		rec()
	}
	sub.States, sub.Outcomes = sub.Executions, outc.N()
	sub.Bound = fmt.Sprintf("every sequence of 1..%d steps over 6 operations from 4 start numbers", depth)
	res.AddSub(sub)
}

package main

import (
	"fmt"
	"strings"

	"github.com/jech/galene/diskwriter"
	"github.com/jech/galene/group"
	"github.com/jech/galene/rtpconn"

	"verif/core"
	"verif/glife"
	"verif/vrt"
)

// Sub-check (d), liveness of the group layer behind the HTTP surface: the
// status, statistics and WHIP endpoints all take the group lock, so a request
// gets a response only if nothing holds that lock for ever.  For every
// combination of the lock/kick features of a group description and of the
// member types that are not web clients (a WHIP session, the recorder), the
// events that make the server act on its own members (the last operator
// leaves; shutdown) run under the controlled scheduler next to a status
// request, every schedule with at most one preemption.  No enabled thread
// before the end = the request never gets its response.

func livenessPrograms() []vrt.Program {
	users := `"users":{"alice":{"password":"pa","permissions":"op"},"bob":{"password":"pb","permissions":"present"}}`
	descs := map[string]string{
		"plain":             `{` + users + `}`,
		"autokick":          `{"autokick":true,` + users + `}`,
		"autolock":          `{"autolock":true,` + users + `}`,
		"autolock+autokick": `{"autolock":true,"autokick":true,` + users + `}`,
	}
	var ps []vrt.Program
	for _, dn := range []string{"plain", "autokick", "autolock", "autolock+autokick"} {
		for _, special := range []string{"none", "whip", "recorder", "whip+recorder"} {
			for _, event := range []string{"last-operator-leaves", "operator-kicked-out"} {
				dn, special, event := dn, special, event
				name := fmt.Sprintf("liveness/%s/%s/%s", dn, special, event)
				ps = append(ps, vrt.Program{
					Name: name, MaxPreempt: 1, MaxSteps: 20000,
					Setup: func() ([]func(), []string, func() (string, *core.Violation)) {
						glife.Fresh(descs[dn])
						g, err := group.Add("g", nil)
						if err != nil {
							panic(err)
						}
						alice := &glife.Fake{ID: "a"}
						if err := glife.Join(alice, "alice", "pa"); err != nil {
							panic(err)
						}
						g.SetLocked(false, "")
						bob := &glife.Fake{ID: "b"}
						if err := glife.Join(bob, "bob", "pb"); err != nil {
							panic(err)
						}
						if strings.Contains(special, "whip") {
							wc := rtpconn.NewWhipClient(g, "w", "", nil)
							if _, err := group.AddClient("g", wc, glife.Creds("bob", "pb")); err != nil {
								panic(err)
							}
						}
						if strings.Contains(special, "recorder") {
							d, err := diskwriter.New(g)
							if err != nil {
								panic(err)
							}
							if _, err := group.AddClient("g", d, group.ClientCredentials{System: true}); err != nil {
								panic(err)
							}
						}
						responded := false
						return []func(){
								func() {
									if event == "last-operator-leaves" {
										glife.Leave(alice)
									} else {
										group.DelClient(alice)
									}
								},
								func() {
									// what GET /group/g/.status and the statistics page do
									if g := group.Get("g"); g != nil {
										g.Status(false, nil)
										g.GetClients(nil)
									}
									responded = true
								},
							}, []string{event, "status-request"}, func() (string, *core.Violation) {
								if !responded {
									return "", &core.Violation{Signature: "C12/no-response/" + dn + "/" + special, What: "the status request did not complete"}
								}
								return "ok", nil
							}
					},
					Classify: func(kind, info string) string {
						return "C12/no-response/" + kind + "/group-with-" + special
					},
				})
			}
		}
	}
	return ps
}

func runLiveness(res *core.Result) {
	if !core.Want("liveness") {
		return
	}
	defer vrt.SetMode(vrt.Tasks)
	agg := core.Sub{Name: "liveness", Exhaustive: true}
	for _, p := range livenessPrograms() {
		s := vrt.Explore(p, res, 0, 1)
		agg.States += s.States
		agg.Transitions += s.Transitions
		agg.Executions += s.Executions
		agg.Exhaustive = agg.Exhaustive && s.Exhaustive
		if s.Outcomes > agg.Outcomes {
			agg.Outcomes = s.Outcomes
		}
	}
	agg.Bound = fmt.Sprintf("%d programs (4 descriptions x 4 member mixes x 2 events) x a status request, preemptions<=1", len(livenessPrograms()))
	res.AddSub(agg)
	glife.Cleanup()
}

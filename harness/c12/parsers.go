package main

// Sub-check (a): packet parsers.
//
// Every byte string of a shape grammar (see the families below; every input is
// counted) is fed to
//
//   - codecs.PacketFlags, codecs.RewritePacket (setMarker x delta), and — after
//     rtp.Packet.Unmarshal succeeded, as readLoop does — codecs.Keyframe and
//     codecs.KeyframeDimensions, under seven codec names          (rtp-pure-*)
//   - the real rtpDownTrack.Write of a forwarding world whose sequence-number
//     and picture-id deltas are non-zero                           (rtp-write)
//   - the real readLoop through the scripted RTP reader            (rtp-readloop)
//   - the real rtcpDownListener / rtcpUpListener through the scripted RTCP
//     readers (RTCP compound alphabet)                             (rtcp-down, rtcp-up)
//
// Inputs are always handed over in a slice with cap == len, so that a reslice
// beyond the packet is caught by Go's bounds checks.

import (
	"bytes"
	"encoding/hex"
	"encoding/json"
	"errors"
	"fmt"
	"os"
	"reflect"
	"runtime"
	"sort"
	"strings"

	"github.com/pion/rtcp"
	"github.com/pion/rtp"
	pcodecs "github.com/pion/rtp/codecs"
	"github.com/pion/webrtc/v4"

	"github.com/jech/galene/codecs"
	"github.com/jech/galene/rtpconn"

	"verif/core"
	"verif/fwd"
	"verif/media"
	"verif/vrt"
)

const parsersPart = "parsers"

var parserSubs = []string{"rtp-pure-descriptor", "rtp-pure-headers", "rtp-pure-av1-h264",
	"rtp-write", "rtp-readloop", "rtcp-down", "rtcp-up"}

func wantAny(names []string) bool {
	for _, n := range names {
		if core.Want(n) {
			return true
		}
	}
	return false
}

func runParsers(res *core.Result) {
	if isCoordinator() {
		if !wantAny(parserSubs) {
			return
		}
		progressDir()
		core.RunShards(res, core.Pick(16, 48), []string{parsersPart}, func(shard int, output string) *core.Violation {
			return shardCrash(parsersPart, shard, output)
		})
		collapseViolations(res)
		res.Assume("RTP inputs are the byte strings of the stated shape grammar (version 2; header shapes, extension length words, descriptor alphabets and every truncation point as listed in each sub-check's bound); byte strings outside the grammar are not covered")
		res.Assume("rtp-write: the down track's layer is pinned to tid=0 of 2 and one TID-1 frame was withheld first, so sequence-number and picture-id deltas are non-zero for VP8/VP9; H264, AV1 and opus worlds never withhold, so RewritePacket is not reached there")
		res.Assume("RTCP listeners run on pion shells (scripted interceptor readers, no transport); SRTP, the interceptor chain and pion's own receive path are outside the check")
		return
	}
	if shardPart() != parsersPart {
		return
	}
	runParsersShard(res)
}

// ---------------------------------------------------------------------------
// shard-side context

type acc struct {
	name       string
	inputs     int64
	execs      int64
	outcomes   map[uint64]struct{}
	samples    []any
	exhaustive bool
	bound      string
	note       string
}

func (a *acc) out(k uint64) { a.outcomes[k] = struct{}{} }

type ranked struct {
	v    core.Violation
	rank string
}

type pctx struct {
	res     *core.Result
	prog    *progress
	accs    map[string]*acc
	order   []string
	viols   map[string]ranked
	scratch [][]byte // exact-capacity work buffers by length
	indbuf  [][]byte
	ind     indep
	errIDs  map[error]uint64
	errStr  map[string]uint64
	strIDs  map[string]uint64
	stop    bool // deadline reached
	// panics of the current HTTP path: site -> method -> best violation
	httpPanics map[string]map[string]ranked
	tick       int
}

func newPctx(res *core.Result, part string) *pctx {
	return &pctx{res: res, prog: openProgress(part), accs: map[string]*acc{}, viols: map[string]ranked{},
		errIDs: map[error]uint64{}, errStr: map[string]uint64{}, strIDs: map[string]uint64{}}
}

func (c *pctx) acc(name, bound string) *acc {
	a := c.accs[name]
	if a == nil {
		a = &acc{name: name, outcomes: map[uint64]struct{}{}, exhaustive: true, bound: bound}
		c.accs[name] = a
		c.order = append(c.order, name)
	}
	return a
}

// timeUp is polled inside the enumerations (cheaply).
func (c *pctx) timeUp() bool {
	if c.stop {
		return true
	}
	c.tick++
	if c.tick&0x3FF == 0 && !core.TimeLeft() {
		c.stop = true
	}
	return c.stop
}

func exact(pool *[][]byte, n int) []byte {
	for len(*pool) <= n {
		*pool = append(*pool, nil)
	}
	if (*pool)[n] == nil {
		(*pool)[n] = make([]byte, n) // cap == len
	}
	return (*pool)[n]
}

func (c *pctx) work(in []byte) []byte {
	w := exact(&c.scratch, len(in))
	copy(w, in)
	return w
}

// violate keeps, per signature, the violation with the smallest rank
// (shortest input first).  The shard index is appended to the signature so
// that the coordinator sees the candidates of all shards (collapseViolations
// then keeps the globally smallest one).
func (c *pctx) violate(sig, what, sub, rank string, replay any) {
	if old, ok := c.viols[sig]; ok && rankLess(old.rank, rank) {
		return
	}
	c.viols[sig] = ranked{core.Violation{Signature: sig, What: what, Sub: sub,
		Replay: map[string]any{"rank": rank, "input": replay}}, rank}
}

// rankLess: ranks start with fixed-width numeric fields (oddness, input
// length), so plain string order puts the simplest, shortest input first.
func rankLess(a, b string) bool { return a <= b }

func (c *pctx) flush() {
	if os.Getenv("C12_DEBUG_OUTCOMES") != "" {
		for k := range c.strIDs {
			fmt.Fprintf(os.Stderr, "OUTCOME %s\n", k)
		}
	}
	sigs := make([]string, 0, len(c.viols))
	for s := range c.viols {
		sigs = append(sigs, s)
	}
	sort.Strings(sigs)
	for _, s := range sigs {
		v := c.viols[s].v
		v.Signature = fmt.Sprintf("%s\x00%d", s, core.Opts().Shard)
		c.res.Violate(v)
	}
	for _, n := range c.order {
		a := c.accs[n]
		c.res.AddSub(core.Sub{Name: a.name, States: a.inputs, Transitions: a.execs, Executions: a.execs,
			Outcomes: int64(len(a.outcomes)), Exhaustive: a.exhaustive, Bound: a.bound, Note: a.note, Samples: a.samples})
	}
}

// collapseViolations (coordinator) undoes the per-shard signature suffix and
// keeps the smallest-ranked violation per signature.
func collapseViolations(res *core.Result) {
	best := map[string]core.Violation{}
	rank := func(v core.Violation) string {
		if m, ok := v.Replay.(map[string]any); ok {
			if r, ok := m["rank"].(string); ok {
				return r
			}
		}
		return ""
	}
	var keep []core.Violation
	for _, v := range res.Violations {
		i := strings.IndexByte(v.Signature, 0)
		if i < 0 {
			keep = append(keep, v)
			continue
		}
		sig := v.Signature[:i]
		v.Signature = sig
		if old, ok := best[sig]; !ok || !rankLess(rank(old), rank(v)) {
			best[sig] = v
		}
	}
	sigs := make([]string, 0, len(best))
	for s := range best {
		sigs = append(sigs, s)
	}
	sort.Strings(sigs)
	for _, s := range sigs {
		keep = append(keep, best[s])
	}
	res.Violations = keep
}

// shardCrash turns a dead shard into a violation from its progress record.
func shardCrash(part string, shard int, output string) *core.Violation {
	pi := crashInfo(output)
	rec := readProgress(part, shard)
	sub, _ := rec["sub"].(string)
	class, _ := rec["class"].(string)
	if sub == "" {
		sub = part
	}
	where, _ := rec["where"].(string)
	if where == "" {
		where = sub
	}
	if where == "readLoop" {
		cn, _ := rec["codec"].(string)
		hx, _ := rec["hex"].(string)
		b, _ := hex.DecodeString(hx)
		class = cn + "/" + rtpClass(b, worldCodec(cn).codec.MimeType)
	}
	return &core.Violation{
		Signature: fmt.Sprintf("C12/panic/%s/%s:%s/%s", where, pi.Func, pi.Kind, class),
		What: fmt.Sprintf("the process died while executing this input (a panic outside any recover: in galene it kills the server): %s; input %v",
			pi.Val, rec),
		Sub:    sub,
		Replay: map[string]any{"rank": "", "input": rec, "stack": head(pi.Stack, 1500)},
	}
}

func head(s string, n int) string {
	if len(s) > n {
		return s[:n]
	}
	return s
}

// ---------------------------------------------------------------------------
// error / string interning for outcome keys

func (c *pctx) errID(err error) uint64 {
	if err == nil {
		return 0
	}
	base := err
	for {
		u := errors.Unwrap(base)
		if u == nil {
			break
		}
		base = u
	}
	if reflect.TypeOf(base).Comparable() {
		if id, ok := c.errIDs[base]; ok {
			return id
		}
	}
	s := stripDigits(base.Error())
	id, ok := c.errStr[s]
	if !ok {
		id = uint64(len(c.errStr) + 1)
		c.errStr[s] = id
	}
	if reflect.TypeOf(base).Comparable() && base == err {
		// only static errors are cached by identity
		c.errIDs[base] = id
	}
	return id
}

func stripDigits(s string) string {
	b := make([]byte, 0, len(s))
	for i := 0; i < len(s); i++ {
		if s[i] < '0' || s[i] > '9' {
			b = append(b, s[i])
		}
	}
	return string(b)
}

func (c *pctx) strID(s string) uint64 {
	id, ok := c.strIDs[s]
	if !ok {
		id = uint64(len(c.strIDs) + 1)
		c.strIDs[s] = id
	}
	return id
}

// ---------------------------------------------------------------------------
// RTP shape grammar

type shape struct {
	P, X    bool
	CC      int
	M       bool
	Profile uint16
	ExtLen  int  // extension length word
	ExtByte byte // first byte of the extension body when ExtLen == 1
}

const testSeq = 103 // the in-order successor in the forwarding worlds

func (s shape) header(pt uint8) []byte {
	b := make([]byte, 12, 128)
	b[0] = 0x80 | byte(s.CC&0xF)
	if s.P {
		b[0] |= 0x20
	}
	if s.X {
		b[0] |= 0x10
	}
	b[1] = pt & 0x7F
	if s.M {
		b[1] |= 0x80
	}
	b[2], b[3] = byte(testSeq>>8), byte(testSeq&0xFF)
	b[4], b[5], b[6], b[7] = 0x00, 0x01, 0x5F, 0x90
	b[8], b[9], b[10], b[11] = byte(fwd.UpSSRC>>24), byte(fwd.UpSSRC>>16&0xFF), byte(fwd.UpSSRC>>8&0xFF), byte(fwd.UpSSRC&0xFF)
	for i := 0; i < s.CC; i++ {
		b = append(b, 0xC0, byte(i), 0x5A, byte(0xA0+i))
	}
	if s.X {
		b = append(b, byte(s.Profile>>8), byte(s.Profile), byte(s.ExtLen>>8), byte(s.ExtLen))
		if s.ExtLen == 1 {
			b = append(b, s.ExtByte, 0xAB, 0xCD, 0x00)
		}
	}
	return b
}

func (s shape) String() string {
	x := ""
	if s.X {
		x = fmt.Sprintf(",profile=%04X,extlen=%d,ext0=%02X", s.Profile, s.ExtLen, s.ExtByte)
	}
	return fmt.Sprintf("P=%v,X=%v,CC=%d,M=%v%s", s.P, s.X, s.CC, s.M, x)
}

func plainShapes() []shape {
	return []shape{{M: false}, {M: true}}
}

func allShapes() []shape {
	var out []shape
	for _, p := range []bool{false, true} {
		for _, cc := range []int{0, 1, 15} {
			for _, m := range []bool{false, true} {
				out = append(out, shape{P: p, CC: cc, M: m})
				for _, prof := range []uint16{0xBEDE, 0x1000} {
					out = append(out, shape{P: p, X: true, CC: cc, M: m, Profile: prof, ExtLen: 0})
					out = append(out, shape{P: p, X: true, CC: cc, M: m, Profile: prof, ExtLen: 0xFFFF})
					for _, e := range []byte{0x00, 0x10, 0x12, 0x1F, 0xF0} {
						out = append(out, shape{P: p, X: true, CC: cc, M: m, Profile: prof, ExtLen: 1, ExtByte: e})
					}
				}
			}
		}
	}
	return out
}

func allBytes() []byte {
	b := make([]byte, 256)
	for i := range b {
		b[i] = byte(i)
	}
	return b
}

// family is one sub-grammar: header shapes x payload positions, each position
// with its own alphabet; the inputs are ALL distinct prefixes of all full
// packets (every truncation point from 0 to header+len(pos)).
type family struct {
	sub    string
	shapes []shape
	pos    [][]byte
	codecs []string
	desc   string
}

var allCodecs = []string{"", "video/VP8", "video/vp8", "video/VP9", "video/AV1", "video/H264", "audio/opus"}

func hexs(b []byte) string {
	var s []string
	for _, x := range b {
		s = append(s, fmt.Sprintf("%02X", x))
	}
	return strings.Join(s, ",")
}

func famDescriptor() family {
	tail := core.Pick([]byte{0x00, 0xFF}, []byte{0x00, 0x7F, 0x80, 0xFF})
	// filler bytes double as padding counts and as a VP8/VP9 payload header
	pos := [][]byte{allBytes(), allBytes(), tail, tail, {0x10}, {0x02}, {0x9D}, {0x01}}
	return family{sub: "rtp-pure-descriptor", shapes: plainShapes(), pos: pos, codecs: allCodecs,
		desc: fmt.Sprintf("header {V=2,P=0,X=0,CC=0,M in {0,1}} x payload bytes 0-1 over all 65536 values x bytes 2,3 in {%s} x bytes 4-7 = 10,02,9D,01 x every prefix length 0..20", hexs(tail))}
}

func famHeaders() family {
	d := []byte{0x00, 0x10, 0x80, 0x90, 0xC0, 0xE0, 0xF0, 0xFF}
	t := []byte{0x00, 0x7F, 0x80, 0xFF}
	pos := [][]byte{d, d, t, t, {0x01}, {0x02}, {0x04}, {0x09}}
	return family{sub: "rtp-pure-headers", shapes: allShapes(), pos: pos, codecs: allCodecs,
		desc: "header {V=2} x P in {0,1} x CC in {0,1,15} x M in {0,1} x (X=0 | X=1 with profile in {BEDE,1000} x length word in {0, 1 (body byte 0 in {00,10,12,1F,F0}), FFFF}) x payload bytes 0,1 in {00,10,80,90,C0,E0,F0,FF} x bytes 2,3 in {00,7F,80,FF} x bytes 4-7 = 01,02,04,09 x every prefix length 0..full"}
}

func famAggregation() family {
	a := core.Pick([]byte{0x00, 0x01, 0x80, 0xFF}, []byte{0x00, 0x01, 0x02, 0x7F, 0x80, 0x81, 0xFF})
	pos := [][]byte{allBytes(), a, a, a, a, {0x01}, {0x67}, {0x00}, {0x05}, {0x67}, {0x00}, {0x00}}
	return family{sub: "rtp-pure-av1-h264", shapes: []shape{{}}, pos: pos,
		codecs: []string{"", "video/AV1", "video/H264"},
		desc:   fmt.Sprintf("plain header x payload byte 0 over all 256 values x bytes 1-4 in {%s} x bytes 5-11 = 01,67,00,05,67,00,00 x every prefix length 0..24 (AV1 aggregation header/LEB128 lengths; H264 STAP/MTAP/FU 16-bit lengths)", hexs(a))}
}

// famAV1OBU: payloads that get past the AV1 aggregation header and the
// sequence-header test of the keyframe classifier: OBU element lengths and
// OBU header bytes (type, extension flag) as symbols.
func famAV1OBU() family {
	pos := [][]byte{
		{0x08, 0x18, 0x28, 0x38, 0x48, 0x98}, // aggregation header: W=0..3 with Z=0,N=1; N=0; Z=1
		{0x00, 0x01, 0x02, 0x80},             // length of the first OBU element (LEB128)
		{0x08, 0x0C, 0x30, 0x00},             // its header: sequence header (without / with extension flag), frame, reserved
		{0x00, 0x01, 0x02, 0x34, 0x30, 0x1C}, // second byte of OBU 1, or length / header of OBU 2
		{0x00, 0x30, 0x34, 0x18, 0x1C, 0x80}, // OBU 2 header (frame / frame header, with and without extension flag)
		{0x00, 0x80, 0x34, 0x60},             // frame header byte (show_existing_frame, frame_type) or an extension byte
		{0x00, 0x34},
	}
	return family{sub: "rtp-pure-av1-h264", shapes: []shape{{}}, pos: pos,
		codecs: []string{"video/AV1"},
		desc:   "AV1 OBU grammar: aggregation header in {08,18,28,38,48,98} x element length in {00,01,02,80} x OBU header bytes (sequence header / frame / frame header, with and without the extension flag) x frame-header bytes, every prefix length 0..7"}
}

// prefixes enumerates the distinct prefixes of the packets of one shape whose
// first payload byte is pos[0][first]; the header-only prefixes (lengths
// 0..len(hdr)) are emitted with first == 0.  f returns false to stop.
func prefixes(hdr []byte, pos [][]byte, first int, f func(buf []byte) bool) bool {
	if first == 0 {
		for l := 0; l <= len(hdr); l++ {
			if !f(hdr[:l]) {
				return false
			}
		}
	}
	full := make([]byte, len(hdr)+len(pos))
	copy(full, hdr)
	pay := full[len(hdr):]
	for k := 1; k <= len(pos); k++ {
		idx := make([]int, k)
		idx[0] = first
		for {
			for i := 0; i < k; i++ {
				pay[i] = pos[i][idx[i]]
			}
			if !f(full[:len(hdr)+k]) {
				return false
			}
			i := k - 1
			for i >= 1 {
				idx[i]++
				if idx[i] < len(pos[i]) {
					break
				}
				idx[i] = 0
				i--
			}
			if i < 1 {
				break
			}
		}
	}
	return true
}

// ---------------------------------------------------------------------------
// independent parse (pion only) and input classes

type indep struct {
	buf    []byte
	ok     bool
	err    error
	pkt    rtp.Packet
	payOff int // offset of the payload, -1 if the header is cut before it
	vp8ok  bool
	pidOff int
	pidLen int
}

func rfcPayloadOffset(b []byte) int {
	n := len(b)
	if n < 12 {
		return -1
	}
	off := 12 + 4*int(b[0]&0xF)
	if n < off {
		return -1
	}
	if b[0]&0x10 != 0 {
		if n < off+4 {
			return -1
		}
		off += 4 + 4*(int(b[off+2])<<8|int(b[off+3]))
	}
	return off
}

func (c *pctx) indepParse(in []byte) *indep {
	d := &c.ind
	d.buf = exact(&c.indbuf, len(in))
	copy(d.buf, in)
	d.payOff = rfcPayloadOffset(in)
	d.vp8ok, d.pidOff, d.pidLen = false, 0, 0
	func() {
		defer func() {
			if r := recover(); r != nil {
				d.err = fmt.Errorf("panic in pion: %v", r)
			}
		}()
		d.err = d.pkt.Unmarshal(d.buf)
	}()
	d.ok = d.err == nil
	if d.ok {
		d.payOff = len(d.buf) - cap(d.pkt.Payload)
		func() {
			defer func() { recover() }()
			var v pcodecs.VP8Packet
			if _, err := v.Unmarshal(d.pkt.Payload); err == nil {
				d.vp8ok = true
				desc := len(d.pkt.Payload) - len(v.Payload)
				if v.I == 1 {
					tk := 0
					if v.T == 1 || v.K == 1 {
						tk = 1
					}
					d.pidLen = desc - 2 - int(v.L) - tk
					d.pidOff = d.payOff + 2
				}
			}
		}()
	}
	return d
}

// rtpClass is the short class of an input used in signatures.
func rtpClass(b []byte, codec string) string {
	n := len(b)
	if n < 12 {
		return "short-header"
	}
	off := 12 + 4*int(b[0]&0xF)
	if n < off {
		return "truncated-csrc"
	}
	if b[0]&0x10 != 0 {
		if n < off+4 {
			return "X-bit-truncated-extension"
		}
		off += 4 + 4*(int(b[off+2])<<8|int(b[off+3]))
		if n < off {
			return "X-bit-truncated-extension-body"
		}
	}
	pay := n - off
	pre := ""
	if b[0]&0x20 != 0 {
		if pay == 0 {
			return "P-bit-no-payload"
		}
		pad := int(b[n-1])
		if pad == 0 {
			return "P-bit-zero-padding"
		}
		if pad > pay {
			return "P-bit-padding-overrun"
		}
		pay -= pad
		pre = "padded-"
	}
	var cls string
	switch {
	case pay == 0:
		cls = "empty-payload"
	case pay < 4:
		cls = fmt.Sprintf("payload-%dB", pay)
	default:
		cls = "payload>=4B"
	}
	if pay > 0 {
		p0 := b[off]
		switch strings.ToLower(codec) {
		case "video/vp8", "video/vp9":
			// class by what pion makes of the descriptor, not by size
			cls = descriptorClass(strings.ToLower(codec), b[off:off+pay])
		case "video/h264":
			t := p0 & 0x1F
			switch {
			case t == 0 || t > 29:
				cls = "nal-reserved/" + cls
			case t <= 23:
				cls = "nal-single/" + cls
			case t <= 27:
				cls = "nal-aggregation/" + cls
			default:
				cls = "nal-fragmentation/" + cls
			}
		case "video/av1":
			cls = fmt.Sprintf("av1-W%d/%s", (p0>>4)&3, cls)
		}
	}
	return pre + cls
}

func descriptorClass(codec string, payload []byte) (cls string) {
	defer func() {
		if recover() != nil {
			cls = "descriptor-crashes-pion"
		}
	}()
	var body []byte
	var err error
	if codec == "video/vp8" {
		var v pcodecs.VP8Packet
		_, err = v.Unmarshal(payload)
		body = v.Payload
	} else {
		var v pcodecs.VP9Packet
		_, err = v.Unmarshal(payload)
		body = v.Payload
	}
	switch {
	case err != nil:
		return "descriptor-truncated"
	case len(body) == 0:
		return "descriptor-without-body"
	}
	return "descriptor+body"
}

func codecLabel(codec string) string {
	if codec == "" {
		return "none"
	}
	return strings.ToLower(codec)
}

// ---------------------------------------------------------------------------
// guarded calls

func safeFlags(codec string, buf []byte) (f codecs.Flags, err error, pi *panicInfo) {
	defer func() {
		if r := recover(); r != nil {
			pi = capturePanic(r)
		}
	}()
	f, err = codecs.PacketFlags(codec, buf)
	return
}

func safeRewrite(codec string, buf []byte, sm bool, seq, delta uint16) (err error, pi *panicInfo) {
	defer func() {
		if r := recover(); r != nil {
			pi = capturePanic(r)
		}
	}()
	err = codecs.RewritePacket(codec, buf, sm, seq, delta)
	return
}

func safeKeyframe(codec string, p *rtp.Packet) (kf, known bool, pi *panicInfo) {
	defer func() {
		if r := recover(); r != nil {
			pi = capturePanic(r)
		}
	}()
	kf, known = codecs.Keyframe(codec, p)
	return
}

func safeDims(codec string, p *rtp.Packet) (w, h uint32, pi *panicInfo) {
	defer func() {
		if r := recover(); r != nil {
			pi = capturePanic(r)
		}
	}()
	w, h = codecs.KeyframeDimensions(codec, p)
	return
}

// ---------------------------------------------------------------------------
// pure functions

var pureDeltas = []uint16{0, 1, 0x7FFF}

const pureSeq = 0xA55A

type pureCall struct {
	Func      string `json:"func"`
	Codec     string `json:"codec"`
	Hex       string `json:"hex"`
	SetMarker bool   `json:"setMarker,omitempty"`
	Seqno     uint16 `json:"seqno,omitempty"`
	Delta     uint16 `json:"delta,omitempty"`
}

func (c *pctx) purePanic(a *acc, fn, codec string, generic bool, in []byte, pi *panicInfo, call pureCall) {
	label := codecLabel(codec)
	if generic {
		label = "any"
	}
	cls := rtpClass(in, codec)
	sig := fmt.Sprintf("C12/panic/codecs.%s/%s/%s", fn, label, cls)
	if !strings.HasPrefix(pi.Func, "codecs.") {
		sig += "/in:" + pi.Func
	}
	what := fmt.Sprintf("codecs.%s(%q, % X", fn, codec, in)
	if fn == "RewritePacket" {
		what += fmt.Sprintf(", setMarker=%v, seqno=%#x, delta=%#x", call.SetMarker, call.Seqno, call.Delta)
	}
	what += fmt.Sprintf(") panics: %s (in %s); input of %d bytes, class %s", pi.Val, pi.Func, len(in), cls)
	c.violate(sig, what, a.name, fmt.Sprintf("%04d%s|%s|%d|%05d", len(in), hex.EncodeToString(in), fn, b2i(call.SetMarker), call.Delta), call)
}

func b2i(b bool) int {
	if b {
		return 1
	}
	return 0
}

func isVP8(codec string) bool { return strings.EqualFold(codec, "video/vp8") }

func (c *pctx) evalPure(a *acc, in []byte, codecList []string) {
	a.inputs++
	ind := c.indepParse(in)
	a.out(5<<60 | c.errID(ind.err))
	// panics seen under the codec-less baseline on this input: the same panic
	// under another codec name is the same (codec-independent) defect
	var genFlags, genKF, genDims bool
	var genRW [6]bool
	var genRWF [6]string
	for ci, codec := range codecList {
		cid := uint64(ci) << 52

		w := c.work(in)
		fl, err, pi := safeFlags(codec, w)
		a.execs++
		if pi != nil {
			if codec == "" {
				genFlags = true
			}
			if codec == "" || !genFlags {
				c.purePanic(a, "PacketFlags", codec, codec == "" && len(codecList) > 1, in, pi, pureCall{Func: "PacketFlags", Codec: codec, Hex: hex.EncodeToString(in)})
			}
		} else {
			if !bytes.Equal(w, in) {
				c.violate(fmt.Sprintf("C12/classify-writes/codecs.PacketFlags/%s/%s", codecLabel(codec), rtpClass(in, codec)),
					fmt.Sprintf("PacketFlags(%q) modified its input % X -> % X", codec, in, w), a.name,
					fmt.Sprintf("%04d%s", len(in), hex.EncodeToString(in)), pureCall{Func: "PacketFlags", Codec: codec, Hex: hex.EncodeToString(in)})
			}
			a.out(1<<60 | cid | c.errID(err)<<32 | flagBits(fl))
		}

		vi := 0
		for _, sm := range []bool{false, true} {
			for _, delta := range pureDeltas {
				w := c.work(in)
				err, pi := safeRewrite(codec, w, sm, pureSeq, delta)
				a.execs++
				call := pureCall{Func: "RewritePacket", Codec: codec, SetMarker: sm, Seqno: pureSeq, Delta: delta}
				if pi != nil {
					call.Hex = hex.EncodeToString(in)
					if codec == "" {
						genRW[vi] = true
					}
					if codec == "" || !genRW[vi] {
						c.purePanic(a, "RewritePacket", codec, codec == "" && len(codecList) > 1, in, pi, call)
					}
				} else {
					mask, f := checkRewrite(codec, in, w, sm, delta, err, ind)
					if f != nil {
						if codec == "" {
							genRWF[vi] = f.rule + f.field
						}
						if codec == "" || genRWF[vi] != f.rule+f.field {
							label := codecLabel(codec)
							if codec == "" && len(codecList) > 1 {
								label = "any"
							}
							call.Hex = hex.EncodeToString(in)
							c.violate(fmt.Sprintf("C12/%s/codecs.RewritePacket/%s/%s", f.rule, label, f.field),
								fmt.Sprintf("RewritePacket(%q, % X, setMarker=%v, seqno=%#x, delta=%#x) = %v changed byte %d (%02X -> %02X): %s",
									codec, in, sm, pureSeq, delta, err, f.pos, in[f.pos], w[f.pos], f.why),
								a.name, fmt.Sprintf("%04d%s|%d|%05d", len(in), hex.EncodeToString(in), b2i(sm), delta), call)
						}
					}
					e := uint64(0)
					if err != nil {
						e = 1
					}
					a.out(2<<60 | cid | uint64(vi)<<44 | e<<43 | mask)
				}
				vi++
			}
		}

		if ind.ok {
			kf, known, pi := safeKeyframe(codec, &ind.pkt)
			a.execs++
			if pi != nil {
				if codec == "" {
					genKF = true
				}
				if codec == "" || !genKF {
					c.purePanic(a, "Keyframe", codec, codec == "" && len(codecList) > 1, in, pi, pureCall{Func: "Keyframe", Codec: codec, Hex: hex.EncodeToString(in)})
				}
			} else {
				k := uint64(0)
				if kf {
					k |= 2
				}
				if known {
					k |= 1
				}
				a.out(3<<60 | cid | k)
			}
			wd, ht, pi := safeDims(codec, &ind.pkt)
			a.execs++
			if pi != nil {
				if codec == "" {
					genDims = true
				}
				if codec == "" || !genDims {
					c.purePanic(a, "KeyframeDimensions", codec, codec == "" && len(codecList) > 1, in, pi, pureCall{Func: "KeyframeDimensions", Codec: codec, Hex: hex.EncodeToString(in)})
				}
			} else {
				a.out(4<<60 | cid | uint64(wd&0xFFFF)<<16 | uint64(ht&0xFFFF))
			}
			if !bytes.Equal(ind.buf, in) {
				c.violate(fmt.Sprintf("C12/classify-writes/codecs.Keyframe/%s/%s", codecLabel(codec), rtpClass(in, codec)),
					fmt.Sprintf("Keyframe/KeyframeDimensions(%q) modified the packet % X -> % X", codec, in, ind.buf), a.name,
					fmt.Sprintf("%04d%s", len(in), hex.EncodeToString(in)), pureCall{Func: "Keyframe", Codec: codec, Hex: hex.EncodeToString(in)})
				copy(ind.buf, in)
			}
		}
	}
}

func flagBits(f codecs.Flags) uint64 {
	var k uint64
	for i, b := range []bool{f.Marker, f.Start, f.End, f.Keyframe, f.TidUpSync, f.SidUpSync, f.SidNonReference, f.Discardable} {
		if b {
			k |= 1 << uint(i)
		}
	}
	return k | uint64(f.Tid)<<8 | uint64(f.Sid)<<16
}

// fieldClass names the field a byte position belongs to (for signatures).
func fieldClass(i, payOff int) string {
	switch {
	case i < 12:
		return fmt.Sprintf("header-byte-%d", i)
	case payOff < 0:
		return "byte-after-fixed-header"
	case i < payOff:
		return "csrc-or-extension"
	case i < payOff+4:
		return fmt.Sprintf("descriptor-byte-%d", i-payOff)
	}
	return "payload-beyond-descriptor"
}

type rwFinding struct {
	rule, field, why string
	pos              int
}

// checkRewrite is the oracle on RewritePacket's writes.  It returns a small
// mask describing which fields changed (for the outcome count) and the first
// rule broken, if any.
func checkRewrite(codec string, in, out []byte, sm bool, delta uint16, err error, ind *indep) (uint64, *rwFinding) {
	var mask uint64
	var f *rwFinding
	bad := func(rule, why string, i int) {
		if f == nil {
			f = &rwFinding{rule, fieldClass(i, ind.payOff), why, i}
		}
	}
	for i := range in {
		if in[i] == out[i] {
			continue
		}
		switch {
		case i == 1:
			mask |= 1
			if (in[1]^out[1])&0x7F != 0 || out[1]&0x80 == 0 || !sm {
				bad("rewrite-out-of-field", "only the marker bit may be set, and only when asked", i)
			}
		case i == 2 || i == 3:
			mask |= 2
		default:
			mask |= 4 << uint(min(i-max(ind.payOff, 0), 7)&7)
			switch {
			case err != nil:
				bad("rewrite-on-error", "a packet rejected with an error was modified beyond marker/seqno", i)
			case !isVP8(codec) || delta == 0:
				bad("rewrite-out-of-field", "no payload byte may change for this codec/delta", i)
			case ind.vp8ok:
				if i < ind.pidOff || i >= ind.pidOff+ind.pidLen {
					bad("rewrite-out-of-field", fmt.Sprintf("pion locates the picture id at [%d,%d)", ind.pidOff, ind.pidOff+ind.pidLen), i)
				}
			default:
				if ind.payOff < 0 || i < ind.payOff || i >= ind.payOff+4 {
					bad("rewrite-out-of-field", "malformed packet: only the first four descriptor bytes may be touched", i)
				}
			}
		}
	}
	return mask, f
}

// ---------------------------------------------------------------------------
// forwarding worlds (rtpDownTrack.Write)

var codecAV1 = webrtc.RTPCodecParameters{RTPCodecCapability: webrtc.RTPCodecCapability{
	MimeType: "video/AV1", ClockRate: 90000,
	RTCPFeedback: []webrtc.RTCPFeedback{{Type: "goog-remb"}, {Type: "nack"}, {Type: "nack", Parameter: "pli"}},
}, PayloadType: 45}

type namedCodec struct {
	name  string
	codec webrtc.RTPCodecParameters
}

var worldCodecs = []namedCodec{{"vp8", fwd.VP8}, {"vp9", fwd.VP9}, {"h264", fwd.H264}, {"av1", codecAV1}, {"opus", fwd.Opus}}

func worldCodec(name string) namedCodec {
	for _, c := range worldCodecs {
		if c.name == name {
			return c
		}
	}
	panic(name)
}

// prefixPackets: three well-formed packets, the middle one above the selected
// temporal layer for VP8/VP9 (it is withheld, so later packets are renumbered).
func prefixPackets(nc namedCodec) [][]byte {
	pt := uint8(nc.codec.PayloadType)
	h := func(seq uint16) media.Hdr {
		return media.Hdr{Seq: seq, TS: uint32(seq) * 3000, Marker: true, PT: pt, SSRC: fwd.UpSSRC}
	}
	switch nc.name {
	case "vp8":
		mk := func(seq, pid uint16, tid uint8, kf bool) []byte {
			return media.VP8{Hdr: h(seq), X: true, I: true, M: true, PictureID: pid, T: true, TID: tid, S: true, Keyframe: kf,
				Body: []byte{1, 2, 3}}.Bytes()
		}
		return [][]byte{mk(100, 10, 0, true), mk(101, 11, 1, false), mk(102, 12, 0, false)}
	case "vp9":
		mk := func(seq, pid uint16, tid uint8, kf bool) []byte {
			return media.VP9{Hdr: h(seq), I: true, M: true, PictureID: pid, L: true, TID: tid, B: true, E: true, P: !kf, Keyframe: kf,
				Body: []byte{1, 2, 3}}.Bytes()
		}
		return [][]byte{mk(100, 10, 0, true), mk(101, 11, 1, false), mk(102, 12, 0, false)}
	}
	mk := func(seq uint16) []byte { return media.Opaque{Hdr: h(seq), Body: []byte{0x65, 1, 2, 3}}.Bytes() }
	return [][]byte{mk(100), mk(101), mk(102)}
}

type writeWorld struct {
	nc   namedCodec
	tmpl *fwd.World
	w    *fwd.World
}

func newWriteWorld(nc namedCodec) (*writeWorld, error) {
	mk := func() *fwd.World {
		w := fwd.New(nc.codec, 0)
		w.Down.SetLayer(rtpconn.VerifLayer{Tid: 0, WantedTid: 0, MaxTid: 2})
		return w
	}
	ww := &writeWorld{nc: nc, tmpl: mk(), w: mk()}
	sent := 0
	for _, p := range prefixPackets(nc) {
		if _, err := ww.tmpl.Down.Write(p); err != nil {
			return nil, fmt.Errorf("prefix packet rejected: %v", err)
		}
		sent += len(ww.tmpl.Rec.Take())
	}
	want := 3
	if nc.name == "vp8" || nc.name == "vp9" {
		want = 2
	}
	if sent != want {
		return nil, fmt.Errorf("%s prefix: %d packets forwarded, expected %d", nc.name, sent, want)
	}
	return ww, nil
}

func safeWrite(w *fwd.World, buf []byte) (n int, err error, pi *panicInfo) {
	defer func() {
		if r := recover(); r != nil {
			pi = capturePanic(r)
		}
	}()
	n, err = w.Down.Write(buf)
	return
}

type worldInput struct {
	Sub   string `json:"sub"`
	Where string `json:"where"`
	Codec string `json:"codec"`
	Hex   string `json:"hex"`
	Class string `json:"class"`
}

func (c *pctx) evalWrite(a *acc, ww *writeWorld, in []byte) {
	a.inputs++
	a.execs++
	mime := ww.nc.codec.MimeType
	ind := c.indepParse(in)
	ww.w.Down.CopyFrom(ww.tmpl.Down)
	ww.w.Rec.Take()
	w := c.work(in)
	n, err, pi := safeWrite(ww.w, w)
	out := ww.w.Rec.Take()
	if pi == nil && bytes.Equal(w, in) && len(out) == 0 {
		// fast path: rejected or withheld, nothing to compare
		a.out(7<<60 | c.errID(err)<<32)
		return
	}
	rec := worldInput{Sub: a.name, Where: "rtpDownTrack.Write", Codec: ww.nc.name, Hex: hex.EncodeToString(in), Class: ww.nc.name + "/" + rtpClass(in, mime)}
	rank := fmt.Sprintf("%04d%s", len(in), rec.Hex)
	if pi != nil {
		c.violate(fmt.Sprintf("C12/panic/rtpDownTrack.Write/%s:%s/%s", pi.Func, pi.Kind, rec.Class),
			fmt.Sprintf("rtpDownTrack.Write(% X) on a %s track (seqno delta -1, picture-id delta non-zero) panics: %s (in %s)", in, mime, pi.Val, pi.Func),
			a.name, rank, rec)
		// the world may be in an inconsistent state (locks held)
		if nw, e := newWriteWorld(ww.nc); e == nil {
			*ww = *nw
		}
		return
	}
	if !bytes.Equal(w, in) {
		c.violate(fmt.Sprintf("C12/write-modifies-input/rtpDownTrack.Write/%s", rec.Class),
			fmt.Sprintf("Write modified the caller's (cached) packet % X -> % X", in, w), a.name, rank, rec)
	}
	key := 7<<60 | c.errID(err)<<32 | uint64(len(out))<<8
	if len(out) > 1 {
		c.violate("C12/write-duplicates/rtpDownTrack.Write/"+rec.Class, fmt.Sprintf("one Write produced %d packets", len(out)), a.name, rank, rec)
	}
	if len(out) == 1 {
		o := out[0]
		switch {
		case !ind.ok:
			c.violate("C12/write-forwards-unparseable/rtpDownTrack.Write/"+rec.Class,
				fmt.Sprintf("Write forwarded % X, which pion cannot parse (%v)", in, ind.err), a.name, rank, rec)
		case n != len(in):
			c.violate("C12/write-length/rtpDownTrack.Write/"+rec.Class,
				fmt.Sprintf("Write(% X) returned %d, packet has %d bytes", in, n, len(in)), a.name, rank, rec)
		case len(o.Payload) != len(ind.pkt.Payload):
			c.violate("C12/write-length/rtpDownTrack.Write/"+rec.Class,
				fmt.Sprintf("Write(% X) forwarded a payload of %d bytes, the packet's payload has %d", in, len(o.Payload), len(ind.pkt.Payload)), a.name, rank, rec)
		default:
			for i := range o.Payload {
				if o.Payload[i] == ind.pkt.Payload[i] {
					continue
				}
				key |= 2
				abs := ind.payOff + i
				if !(strings.EqualFold(mime, "video/vp8") && ind.vp8ok && abs >= ind.pidOff && abs < ind.pidOff+ind.pidLen) {
					c.violate("C12/rewrite-out-of-field/rtpDownTrack.Write/"+ww.nc.name+"/"+fieldClass(abs, ind.payOff),
						fmt.Sprintf("Write(% X) changed payload byte %d (%02X -> %02X), which is not part of the picture id", in, i, ind.pkt.Payload[i], o.Payload[i]),
						a.name, rank, rec)
					break
				}
			}
			if o.Header.SequenceNumber != ind.pkt.SequenceNumber {
				key |= 1
			}
			if o.Header.Marker != ind.pkt.Marker {
				key |= 4
			}
		}
	}
	a.out(key)
	if len(a.samples) < 2 && len(out) == 1 && len(in) > 14 {
		a.samples = append(a.samples, map[string]any{"codec": ww.nc.name, "input": hex.EncodeToString(in),
			"forwarded_seq": out[0].Header.SequenceNumber, "payload": hex.EncodeToString(out[0].Payload)})
	}
}

// ---------------------------------------------------------------------------
// loops run as in galene (their own goroutine); a panic is caught by the
// wrapper instead of killing the process, and reported exactly once.

type exitInfo struct {
	pi *panicInfo
}

func startLoop(fn func()) chan exitInfo {
	ch := make(chan exitInfo, 1)
	go func() {
		defer func() {
			if r := recover(); r != nil {
				ch <- exitInfo{capturePanic(r)}
				return
			}
			ch <- exitInfo{}
		}()
		fn()
	}()
	return ch
}

// feeder delivers datagrams to one scripted reader from its own goroutine, so
// that the harness is not stuck in Feed when the consuming loop dies.
type feeder struct {
	req  chan []byte
	done chan struct{}
}

func newFeeder(sr *media.ScriptReader) *feeder {
	f := &feeder{req: make(chan []byte), done: make(chan struct{})}
	go func() {
		for d := range f.req {
			sr.Feed(d)
			f.done <- struct{}{}
		}
	}()
	return f
}

// feed delivers one datagram and waits until the loop is back in Read, or
// until the loop has ended (the feeder is then abandoned with its world).
func (f *feeder) feed(d []byte, exit chan exitInfo) *exitInfo {
	f.req <- d
	select {
	case <-f.done:
		return nil
	case e := <-exit:
		return &e
	}
}

func (f *feeder) close() { close(f.req) }

// runTasks runs the goroutines galene started (`go` statements are pending
// tasks in this mode); a panic in one of them kills the real server.
func runTasks() *panicInfo {
	var first *panicInfo
	for i := 0; i < 16; i++ {
		if len(vrt.Pending()) == 0 {
			break
		}
		t := vrt.TakeTask(0)
		func() {
			defer func() {
				if r := recover(); r != nil && first == nil {
					first = capturePanic(r)
					first.Func += " (goroutine " + t.Pos + ")"
				}
			}()
			t.Fn()
		}()
	}
	vrt.ResetTasks()
	return first
}

type readWorld struct {
	nc   namedCodec
	w    *fwd.World
	exit chan exitInfo
	fd   *feeder
}

func newReadWorld(nc namedCodec) *readWorld {
	rw := &readWorld{nc: nc, w: fwd.New(nc.codec, 0)}
	rw.exit = startLoop(rw.w.Up.ReadLoop)
	rw.fd = newFeeder(rw.w.RTPIn)
	for _, p := range prefixPackets(nc)[:1] {
		rw.fd.feed(p, rw.exit)
	}
	rw.w.UpRTCP.Take()
	return rw
}

func (c *pctx) evalRead(a *acc, rw *readWorld, in []byte) {
	a.inputs++
	a.execs++
	mime := rw.nc.codec.MimeType
	c.prog.SetRaw('R', []byte(a.name), []byte("readLoop"), []byte(rw.nc.name), in, []byte(rw.nc.name+"/"))
	e := rw.fd.feed(in, rw.exit)
	key := uint64(6) << 60
	var rec worldInput
	var rank string
	if e != nil || len(vrt.Pending()) > 0 {
		rec = worldInput{Sub: a.name, Where: "readLoop", Codec: rw.nc.name, Hex: hex.EncodeToString(in), Class: rw.nc.name + "/" + rtpClass(in, mime)}
		rank = fmt.Sprintf("%04d%s", len(in), rec.Hex)
	}
	if e != nil {
		key |= 1
		if e.pi != nil {
			c.violate(fmt.Sprintf("C12/panic/readLoop/%s:%s/%s", e.pi.Func, e.pi.Kind, rec.Class),
				fmt.Sprintf("readLoop of a %s track panics on the RTP packet % X: %s (in %s); the goroutine has no recover, the server dies",
					mime, in, e.pi.Val, e.pi.Func), a.name, rank, rec)
			key |= 2
		}
		rw.w.Close()
		*rw = *newReadWorld(rw.nc)
	} else if len(vrt.Pending()) == 0 {
	} else if pi := runTasks(); pi != nil {
		c.violate(fmt.Sprintf("C12/panic/readLoop/%s:%s/%s", pi.Func, pi.Kind, rec.Class),
			fmt.Sprintf("a goroutine started by readLoop panics after the RTP packet % X: %s", in, pi.Val), a.name, rank, rec)
	}
	if n := len(rw.w.UpRTCP.Take()); n > 0 {
		key |= 4
	}
	var p rtp.Packet
	var perr error
	func() {
		defer func() { recover() }()
		perr = p.Unmarshal(c.work(in))
	}()
	a.out(key | c.errID(perr)<<8)
}

// ---------------------------------------------------------------------------
// RTCP alphabet

type rtcpBase struct {
	name string
	raw  []byte
}

func mustMarshal(p rtcp.Packet) []byte {
	b, err := p.Marshal()
	if err != nil {
		panic(fmt.Sprintf("marshal %T: %v", p, err))
	}
	return b
}

func rtcpBases(lsr uint32) []rtcpBase {
	var out []rtcpBase
	add := func(name string, p rtcp.Packet) { out = append(out, rtcpBase{name, mustMarshal(p)}) }
	ssrcs := []struct {
		n string
		v uint32
	}{{"down", fwd.DownSSRC}, {"up", fwd.UpSSRC}, {"other", 0xDEADBEEF}}
	rep := func(ssrc uint32, lost uint8, lsr, delay uint32) rtcp.ReceptionReport {
		return rtcp.ReceptionReport{SSRC: ssrc, FractionLost: lost, TotalLost: 7, LastSequenceNumber: 102, Jitter: 9,
			LastSenderReport: lsr, Delay: delay}
	}
	for _, s := range ssrcs {
		add("SR0/"+s.n, &rtcp.SenderReport{SSRC: s.v, NTPTime: 0xE8B1_0000_8000_0000, RTPTime: 90000, PacketCount: 3, OctetCount: 300})
		add("SR1/"+s.n, &rtcp.SenderReport{SSRC: s.v, NTPTime: 0xE8B1_0000_8000_0000, RTPTime: 90000,
			Reports: []rtcp.ReceptionReport{rep(s.v, 30, lsr, 1)}})
		add("SR2/"+s.n, &rtcp.SenderReport{SSRC: 1, NTPTime: 1, RTPTime: 1,
			Reports: []rtcp.ReceptionReport{rep(0xDEADBEEF, 0, 0, 0), rep(s.v, 255, lsr, 0xFFFFFFFF)}})
		add("RR0/"+s.n, &rtcp.ReceiverReport{SSRC: s.v})
		add("RR1-noloss/"+s.n, &rtcp.ReceiverReport{SSRC: 1, Reports: []rtcp.ReceptionReport{rep(s.v, 0, lsr, 1)}})
		add("RR1-loss/"+s.n, &rtcp.ReceiverReport{SSRC: 1, Reports: []rtcp.ReceptionReport{rep(s.v, 64, 0, 0)}})
		add("RR2/"+s.n, &rtcp.ReceiverReport{SSRC: 1, Reports: []rtcp.ReceptionReport{rep(s.v, 255, lsr, 0xFFFFFFFF), rep(s.v, 3, 1, 1)}})
		add("PLI/"+s.n, &rtcp.PictureLossIndication{SenderSSRC: 1, MediaSSRC: s.v})
		add("FIR1/"+s.n, &rtcp.FullIntraRequest{SenderSSRC: 1, MediaSSRC: s.v, FIR: []rtcp.FIREntry{{SSRC: s.v, SequenceNumber: 1}}})
		add("FIR2/"+s.n, &rtcp.FullIntraRequest{SenderSSRC: 1, MediaSSRC: s.v, FIR: []rtcp.FIREntry{{SSRC: 2, SequenceNumber: 0}, {SSRC: s.v, SequenceNumber: 0}}})
		add("REMB1/"+s.n, &rtcp.ReceiverEstimatedMaximumBitrate{SenderSSRC: 1, Bitrate: 1e6, SSRCs: []uint32{s.v}})
		add("NACK-mapped/"+s.n, &rtcp.TransportLayerNack{SenderSSRC: 1, MediaSSRC: s.v, Nacks: []rtcp.NackPair{{PacketID: 100, LostPackets: 0xFFFF}}})
		add("NACK-far/"+s.n, &rtcp.TransportLayerNack{SenderSSRC: 1, MediaSSRC: s.v, Nacks: []rtcp.NackPair{{PacketID: 5000, LostPackets: 0}, {PacketID: 101, LostPackets: 1}}})
		add("SDES-cname/"+s.n, &rtcp.SourceDescription{Chunks: []rtcp.SourceDescriptionChunk{{Source: s.v,
			Items: []rtcp.SourceDescriptionItem{{Type: rtcp.SDESCNAME, Text: "cname@example"}}}}})
		add("SDES-2chunks/"+s.n, &rtcp.SourceDescription{Chunks: []rtcp.SourceDescriptionChunk{
			{Source: 2, Items: []rtcp.SourceDescriptionItem{{Type: rtcp.SDESNote, Text: "n"}}},
			{Source: s.v, Items: []rtcp.SourceDescriptionItem{{Type: rtcp.SDESCNAME, Text: strings.Repeat("c", 255)}, {Type: rtcp.SDESEmail, Text: ""}}}}})
	}
	add("FIR0", &rtcp.FullIntraRequest{SenderSSRC: 1, MediaSSRC: 2})
	add("REMB0", &rtcp.ReceiverEstimatedMaximumBitrate{SenderSSRC: 1, Bitrate: 0})
	add("REMB2", &rtcp.ReceiverEstimatedMaximumBitrate{SenderSSRC: 1, Bitrate: 3e9, SSRCs: []uint32{fwd.DownSSRC, 5}})
	// REMB with the largest exponent and mantissa (patched: Marshal refuses it)
	big := mustMarshal(&rtcp.ReceiverEstimatedMaximumBitrate{SenderSSRC: 1, Bitrate: 1e6, SSRCs: []uint32{fwd.DownSSRC}})
	big[17], big[18], big[19] = 0xFF, 0xFF, 0xFF
	out = append(out, rtcpBase{"REMB-max", big})
	add("NACK0", &rtcp.TransportLayerNack{SenderSSRC: 1, MediaSSRC: fwd.DownSSRC})
	add("SDES0", &rtcp.SourceDescription{})
	add("SDES-chunk-without-items", &rtcp.SourceDescription{Chunks: []rtcp.SourceDescriptionChunk{{Source: fwd.UpSSRC}, {Source: fwd.DownSSRC}}})
	add("SDES-emptycname", &rtcp.SourceDescription{Chunks: []rtcp.SourceDescriptionChunk{{Source: fwd.UpSSRC,
		Items: []rtcp.SourceDescriptionItem{{Type: rtcp.SDESCNAME, Text: ""}}}}})
	add("BYE", &rtcp.Goodbye{Sources: []uint32{fwd.DownSSRC, 2}, Reason: "bye"})
	add("RRR", &rtcp.RapidResynchronizationRequest{SenderSSRC: 1, MediaSSRC: fwd.DownSSRC})
	add("SLI", &rtcp.SliceLossIndication{SenderSSRC: 1, MediaSSRC: fwd.DownSSRC, SLI: []rtcp.SLIEntry{{First: 1, Number: 2, Picture: 3}}})
	add("TWCC", &rtcp.TransportLayerCC{SenderSSRC: 1, MediaSSRC: fwd.DownSSRC, BaseSequenceNumber: 1, PacketStatusCount: 2, ReferenceTime: 3, FbPktCount: 4,
		PacketChunks: []rtcp.PacketStatusChunk{&rtcp.RunLengthChunk{PacketStatusSymbol: rtcp.TypeTCCPacketReceivedSmallDelta, RunLength: 2}},
		RecvDeltas:   []*rtcp.RecvDelta{{Type: rtcp.TypeTCCPacketReceivedSmallDelta, Delta: 250}, {Type: rtcp.TypeTCCPacketReceivedSmallDelta, Delta: 500}}})
	add("XR", &rtcp.ExtendedReport{SenderSSRC: 1, Reports: []rtcp.ReportBlock{
		&rtcp.ReceiverReferenceTimeReportBlock{NTPTimestamp: 5},
		&rtcp.DLRRReportBlock{Reports: []rtcp.DLRRReport{{SSRC: fwd.DownSSRC, LastRR: 1, DLRR: 2}}}}})
	add("APP", &rtcp.ApplicationDefined{SubType: 1, SSRC: fwd.DownSSRC, Name: "GALN", Data: []byte{1, 2, 3, 4}})
	add("CCFB", &rtcp.CCFeedbackReport{SenderSSRC: 1, ReportTimestamp: 7, ReportBlocks: []rtcp.CCFeedbackReportBlock{{MediaSSRC: fwd.DownSSRC, BeginSequence: 100,
		MetricBlocks: []rtcp.CCFeedbackMetricBlock{{Received: true, ECN: rtcp.ECNECT0, ArrivalTimeOffset: 1}, {Received: false}}}}})
	out = append(out, rtcpBase{"unknown-pt199", []byte{0x80, 199, 0x00, 0x01, 1, 2, 3, 4}})
	out = append(out, rtcpBase{"v1-header", []byte{0x40, 200, 0x00, 0x01, 1, 2, 3, 4}})
	return out
}

type rtcpMut struct {
	count  int // -1 keep
	length int // -1 keep
	pbit   bool
}

func rtcpMutations() []rtcpMut {
	var ms []rtcpMut
	for _, c := range []int{-1, 0, 1, 31} {
		for _, l := range []int{-1, 0, 1, 31, 0xFFFF} {
			for _, p := range []bool{false, true} {
				ms = append(ms, rtcpMut{c, l, p})
			}
		}
	}
	return ms
}

func (m rtcpMut) apply(raw []byte) []byte {
	b := append([]byte(nil), raw...)
	if len(b) < 4 {
		return b
	}
	if m.count >= 0 {
		b[0] = b[0]&0xE0 | byte(m.count)
	}
	if m.length >= 0 {
		b[2], b[3] = byte(m.length>>8), byte(m.length)
	}
	if m.pbit {
		b[0] |= 0x20
	}
	return b
}

func (m rtcpMut) String() string {
	s := []string{}
	if m.count >= 0 {
		s = append(s, fmt.Sprintf("count=%d", m.count))
	}
	if m.length >= 0 {
		s = append(s, fmt.Sprintf("length=%d", m.length))
	}
	if m.pbit {
		s = append(s, "P")
	}
	if len(s) == 0 {
		return "intact"
	}
	return strings.Join(s, ",")
}

func rtcpClass(b []byte) string {
	if len(b) < 4 {
		return "short-header"
	}
	names := map[byte]string{200: "SR", 201: "RR", 202: "SDES", 203: "BYE", 204: "APP", 205: "RTPFB", 206: "PSFB", 207: "XR"}
	n := names[b[1]]
	if n == "" {
		n = fmt.Sprintf("pt%d", b[1])
	}
	if b[1] == 205 || b[1] == 206 {
		n += fmt.Sprintf("-fmt%d", b[0]&0x1F)
	}
	return n
}

type rtcpWorld struct {
	tmpl *fwd.World
	w    *fwd.World
	exit chan exitInfo
	fd   *feeder
	up   bool
	lsr  uint32
}

// newRTCPWorld: a VP8 forwarding world with three packets in the publisher's
// cache (one withheld downstream), the down track registered as a local of
// the up track, a sender report exchanged in both directions, and the real
// listener running.
func newRTCPWorld(up bool) (*rtcpWorld, error) {
	nc := worldCodec("vp8")
	build := func() (*fwd.World, error) {
		w := fwd.New(nc.codec, 0)
		w.Down.SetLayer(rtpconn.VerifLayer{Tid: 0, WantedTid: 0, MaxTid: 2})
		for i, p := range prefixPackets(nc) {
			var pk rtp.Packet
			if err := pk.Unmarshal(p); err != nil {
				return nil, err
			}
			w.Up.Cache().Store(pk.SequenceNumber, pk.Timestamp, i == 0, pk.Marker, p)
			if _, err := w.Down.Write(p); err != nil {
				return nil, err
			}
		}
		w.Rec.Take()
		if err := w.Up.UpTrack().AddLocal(w.Down.DownTrack()); err != nil {
			return nil, err
		}
		if err := w.Up.VerifC12AddLocalConn(w.Down); err != nil {
			return nil, err
		}
		w.Down.DownTrack().SetTimeOffset(0xE8B1_0000_0000_0000, 90000)
		w.Down.DownTrack().SetCname("cname@example")
		if err := w.Down.VerifC12SendSR(); err != nil {
			return nil, err
		}
		w.DnRTCP.Take()
		return w, nil
	}
	rw := &rtcpWorld{up: up}
	var err error
	if rw.tmpl, err = build(); err != nil {
		return nil, err
	}
	if rw.w, err = build(); err != nil {
		return nil, err
	}
	_, ntp := rw.tmpl.Down.VerifC12SRTime()
	rw.lsr = uint32(ntp >> 16)
	if up {
		rw.exit = startLoop(rw.w.Up.RTCPListener)
		rw.fd = newFeeder(rw.w.UpCtl)
	} else {
		rw.exit = startLoop(rw.w.Down.RTCPListener)
		rw.fd = newFeeder(rw.w.DownCtl)
	}
	return rw, nil
}

func (c *pctx) evalRTCP(a *acc, rw *rtcpWorld, in []byte, label string) {
	a.inputs++
	a.execs++
	where := "rtcpDownListener"
	if rw.up {
		where = "rtcpUpListener"
	}
	rec := worldInput{Sub: a.name, Where: where, Codec: label, Hex: hex.EncodeToString(in), Class: rtcpClass(in)}
	c.prog.SetRaw('R', []byte(a.name), []byte(where), []byte(label), in, []byte(rec.Class))
	rw.w.Down.CopyFrom(rw.tmpl.Down)
	rw.w.Rec.Take()
	e := rw.fd.feed(in, rw.exit)
	rank := fmt.Sprintf("%04d%s", len(in), rec.Hex)
	var key string
	if e != nil {
		key = "exit"
		if e.pi != nil {
			key = "panic"
			c.violate(fmt.Sprintf("C12/panic/%s/%s:%s/%s", where, e.pi.Func, e.pi.Kind, rec.Class),
				fmt.Sprintf("%s panics on the RTCP datagram % X (%s): %s (in %s); the goroutine has no recover, the server dies",
					where, in, label, e.pi.Val, e.pi.Func), a.name, rank, rec)
		}
		nw, err := newRTCPWorld(rw.up)
		if err != nil {
			c.res.Fault = "rebuilding RTCP world: " + err.Error()
			c.stop = true
			return
		}
		rw.w.Close()
		*rw = *nw
	} else if pi := runTasks(); pi != nil {
		c.violate(fmt.Sprintf("C12/panic/%s/%s:%s/%s", where, pi.Func, pi.Kind, rec.Class),
			fmt.Sprintf("a goroutine started by %s panics after the RTCP datagram % X: %s", where, in, pi.Val), a.name, rank, rec)
	}
	// observable outcome: what pion makes of the datagram + what the server did
	var types []string
	func() {
		defer func() {
			if r := recover(); r != nil {
				types = []string{"pion-panic"}
			}
		}()
		ps, err := rtcp.Unmarshal(c.work(in))
		if err != nil {
			types = []string{"err:" + stripDigits(err.Error())}
			return
		}
		for _, p := range ps {
			types = append(types, strings.TrimPrefix(fmt.Sprintf("%T", p), "*rtcp."))
		}
	}()
	rtx := len(rw.w.Rec.Take())
	upOut := len(rw.w.UpRTCP.Take())
	dnOut := len(rw.w.DnRTCP.Take())
	remb, _ := rw.w.Down.REMB()
	loss, _ := rw.w.Down.LossCeiling()
	tr, _ := rw.tmpl.Down.REMB()
	tl, _ := rw.tmpl.Down.LossCeiling()
	key += fmt.Sprintf("|%s|rtx%d|up%d|dn%d|remb%v|loss%v", strings.Join(types, "+"), rtx, upOut, dnOut, remb != tr, loss != tl)
	a.out(c.strID(key))
	if len(a.samples) < 3 && (rtx > 0 || remb != tr || (rw.up && strings.Contains(key, "SourceDescription"))) && !strings.Contains(label, "+") {
		a.samples = append(a.samples, map[string]any{"input": label, "hex": rec.Hex, "outcome": key})
	}
}

// ---------------------------------------------------------------------------
// units

type unit struct {
	sub string
	run func(c *pctx)
}

func pureUnits(f family) []unit {
	var us []unit
	bound := f.desc + fmt.Sprintf("; each input through PacketFlags, RewritePacket (setMarker in {false,true} x delta in {0,1,0x7FFF}), Keyframe, KeyframeDimensions under codec names %q", f.codecs)
	for si := range f.shapes {
		for first := range f.pos[0] {
			sh, first := f.shapes[si], first
			us = append(us, unit{f.sub, func(c *pctx) {
				a := c.acc(f.sub, bound)
				hdr := sh.header(96)
				ok := prefixes(hdr, f.pos, first, func(buf []byte) bool {
					if c.timeUp() {
						return false
					}
					c.evalPure(a, buf, f.codecs)
					return true
				})
				if !ok {
					a.exhaustive = false
				}
				if len(a.samples) < 2 && first == 0x90%len(f.pos[0]) {
					a.samples = append(a.samples, map[string]any{"shape": sh.String(), "first_payload_byte": fmt.Sprintf("%02X", f.pos[0][first]),
						"inputs_so_far": a.inputs})
				}
			}})
		}
	}
	return us
}

func writeUnits(f family, codecsFor []string, worlds map[string]*writeWorld) []unit {
	var us []unit
	const sub = "rtp-write"
	for _, cn := range codecsFor {
		nc := worldCodec(cn)
		for si := range f.shapes {
			for first := range f.pos[0] {
				sh, first := f.shapes[si], first
				us = append(us, unit{sub, func(c *pctx) {
					a := c.acc(sub, "")
					ww := worlds[nc.name]
					if ww == nil {
						var err error
						if ww, err = newWriteWorld(nc); err != nil {
							c.res.Fault = "rtp-write world: " + err.Error()
							return
						}
						worlds[nc.name] = ww
					}
					hdr := sh.header(uint8(nc.codec.PayloadType))
					if !prefixes(hdr, f.pos, first, func(buf []byte) bool {
						if c.timeUp() {
							return false
						}
						c.evalWrite(a, ww, buf)
						return true
					}) {
						a.exhaustive = false
					}
				}})
			}
		}
	}
	return us
}

func readUnits(f family, codecsFor []string, worlds map[string]*readWorld) []unit {
	var us []unit
	const sub = "rtp-readloop"
	for _, cn := range codecsFor {
		nc := worldCodec(cn)
		for si := range f.shapes {
			for first := range f.pos[0] {
				sh, first := f.shapes[si], first
				us = append(us, unit{sub, func(c *pctx) {
					a := c.acc(sub, "")
					rw := worlds[nc.name]
					if rw == nil {
						rw = newReadWorld(nc)
						worlds[nc.name] = rw
					}
					hdr := sh.header(uint8(nc.codec.PayloadType))
					if !prefixes(hdr, f.pos, first, func(buf []byte) bool {
						if c.timeUp() {
							return false
						}
						c.evalRead(a, rw, buf)
						return true
					}) {
						a.exhaustive = false
					}
				}})
			}
		}
	}
	return us
}

func rtcpUnits(up bool, pairs bool, world **rtcpWorld) []unit {
	sub := "rtcp-down"
	if up {
		sub = "rtcp-up"
	}
	get := func(c *pctx) *rtcpWorld {
		if *world == nil {
			w, err := newRTCPWorld(up)
			if err != nil {
				c.res.Fault = sub + " world: " + err.Error()
				c.stop = true
				return nil
			}
			*world = w
		}
		return *world
	}
	// the base alphabet needs the LSR of the world's sender report, which is
	// deterministic (virtual clock); build a throw-away world to learn it
	probe, err := newRTCPWorld(up)
	if err != nil {
		return []unit{{sub, func(c *pctx) { c.res.Fault = sub + " world: " + err.Error() }}}
	}
	bases := rtcpBases(probe.lsr)
	probe.w.Close()
	muts := rtcpMutations()
	var us []unit
	for bi := range bases {
		b := bases[bi]
		us = append(us, unit{sub, func(c *pctx) {
			a := c.acc(sub, "")
			rw := get(c)
			if rw == nil {
				return
			}
			seen := map[string]bool{}
			for _, m := range muts {
				mb := m.apply(b.raw)
				for l := 0; l <= len(mb); l++ {
					if c.timeUp() {
						a.exhaustive = false
						return
					}
					k := string(mb[:l])
					if seen[k] {
						continue
					}
					seen[k] = true
					c.evalRTCP(a, rw, mb[:l], fmt.Sprintf("%s[%s][:%d]", b.name, m, l))
				}
			}
		}})
		if !pairs {
			continue
		}
		us = append(us, unit{sub, func(c *pctx) {
			a := c.acc(sub, "")
			rw := get(c)
			if rw == nil {
				return
			}
			for _, b2 := range bases {
				full := append(append([]byte(nil), b.raw...), b2.raw...)
				for l := len(b.raw) + 1; l <= len(full); l++ {
					if c.timeUp() {
						a.exhaustive = false
						return
					}
					c.evalRTCP(a, rw, full[:l], fmt.Sprintf("%s+%s[:%d]", b.name, b2.name, l))
				}
			}
		}})
	}
	return us
}

func runParsersShard(res *core.Result) {
	o := core.Opts()
	c := newPctx(res, parsersPart)
	fwd.Init()
	// every input is a strict hand-over between the harness and one loop
	// goroutine: a single P avoids cross-thread wake-ups
	runtime.GOMAXPROCS(1)

	fd, fh, fa := famDescriptor(), famHeaders(), famAggregation()
	var units []unit
	units = append(units, pureUnits(fd)...)
	units = append(units, pureUnits(fh)...)
	units = append(units, pureUnits(fa)...)
	fo := famAV1OBU()
	units = append(units, pureUnits(fo)...)

	wworlds := map[string]*writeWorld{}
	units = append(units, writeUnits(fh, []string{"vp8", "vp9", "h264", "av1", "opus"}, wworlds)...)
	units = append(units, writeUnits(fd, core.Pick([]string{"vp8"}, []string{"vp8", "vp9"}), wworlds)...)
	rworlds := map[string]*readWorld{}
	units = append(units, readUnits(fh, core.Pick([]string{"vp8", "h264"}, []string{"vp8", "vp9", "h264", "av1", "opus"}), rworlds)...)
	units = append(units, readUnits(fa, []string{"av1", "h264"}, rworlds)...)
	units = append(units, readUnits(fo, []string{"av1"}, rworlds)...)
	if !core.Quick() {
		units = append(units, readUnits(fd, []string{"vp8", "vp9"}, rworlds)...)
	}
	var dworld, uworld *rtcpWorld
	if core.Want("rtcp-down") {
		units = append(units, rtcpUnits(false, !core.Quick(), &dworld)...)
	}
	if core.Want("rtcp-up") {
		units = append(units, rtcpUnits(true, !core.Quick(), &uworld)...)
	}

	wbound := fmt.Sprintf("real rtpDownTrack.Write after 3 well-formed packets (one TID-1 frame withheld: seqno delta -1) x {rtp-pure-headers grammar x codecs vp8,vp9,h264,av1,opus; rtp-pure-descriptor grammar x %v}, state reset before every input", core.Pick([]string{"vp8"}, []string{"vp8", "vp9"}))
	rbound := fmt.Sprintf("real readLoop on scripted RTP reader x {rtp-pure-headers grammar x %v; rtp-pure-av1-h264 grammar x av1,h264%s}",
		core.Pick([]string{"vp8", "h264"}, []string{"vp8", "vp9", "h264", "av1", "opus"}), core.Pick("", "; rtp-pure-descriptor grammar x vp8,vp9"))
	cbound := "RTCP base packets (SR/RR/REMB/NACK/PLI/FIR/SDES with 0,1,2 entries and SSRC in {down track, up track, other}; BYE, RRR, SLI, TWCC, XR, APP, CCFB, unknown type, version 1) x count field in {kept,0,1,31} x length field in {kept,0,1,31,65535} x P bit in {kept,set} x every truncation" +
		core.Pick("", "; plus every ordered pair of base packets as a compound, truncated at every point of the second packet")

	for i, u := range units {
		if i%o.Shards != o.Shard || !core.Want(u.sub) {
			continue
		}
		if c.stop || res.Fault != "" {
			if a := c.accs[u.sub]; a != nil {
				a.exhaustive = false
			} else {
				c.acc(u.sub, "").exhaustive = false
			}
			continue
		}
		c.prog.Set(map[string]any{"sub": u.sub, "class": "unit-" + fmt.Sprint(i)})
		u.run(c)
	}
	for n, b := range map[string]string{"rtp-write": wbound, "rtp-readloop": rbound, "rtcp-down": cbound, "rtcp-up": cbound} {
		if a := c.accs[n]; a != nil {
			a.bound = b
		}
	}
	c.flush()
}

// ---------------------------------------------------------------------------
// replay

func replayParsers(sub string, artefact json.RawMessage) *core.Violation {
	var a struct {
		Input json.RawMessage `json:"input"`
	}
	if err := json.Unmarshal(artefact, &a); err != nil {
		fmt.Println("bad artefact:", err)
		return nil
	}
	res := &core.Result{}
	c := newPctx(res, parsersPart)
	fwd.Init()
	ac := c.acc(sub, "")
	var pc pureCall
	var wi worldInput
	json.Unmarshal(a.Input, &pc)
	json.Unmarshal(a.Input, &wi)
	switch {
	case pc.Func != "":
		in, _ := hex.DecodeString(pc.Hex)
		c.evalPure(ac, in, []string{"", pc.Codec})
	case wi.Where == "rtpDownTrack.Write":
		in, _ := hex.DecodeString(wi.Hex)
		ww, err := newWriteWorld(worldCodec(wi.Codec))
		if err != nil {
			fmt.Println(err)
			return nil
		}
		c.evalWrite(ac, ww, in)
	case wi.Where == "readLoop":
		in, _ := hex.DecodeString(wi.Hex)
		c.evalRead(ac, newReadWorld(worldCodec(wi.Codec)), in)
	case wi.Where == "rtcpDownListener" || wi.Where == "rtcpUpListener":
		in, _ := hex.DecodeString(wi.Hex)
		rw, err := newRTCPWorld(wi.Where == "rtcpUpListener")
		if err != nil {
			fmt.Println(err)
			return nil
		}
		c.evalRTCP(ac, rw, in, wi.Codec)
	}
	for _, r := range c.viols {
		v := r.v
		return &v
	}
	return nil
}

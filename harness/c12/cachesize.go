package main

import (
	"fmt"
	"runtime/debug"

	"github.com/jech/galene/packetcache"

	"verif/core"
)

// cache-resize: the publisher's packet cache is resized by the RTCP path
// (receivers' jitter and round-trip time, i.e. client input, drive
// updateUpTrack -> ResizeCond) while the read loop keeps storing packets and
// NACKs look packets up.  Every combination of an initial capacity, a number
// of packets stored, a conditional or unconditional resize to another
// capacity, and further stores and lookups.  Oracle: no panic (the read loop
// has no recover: a panic there kills the server).
func runCacheResize(res *core.Result) {
	sub := core.Sub{Name: "cache-resize", Exhaustive: true}
	var outc core.Outcomes
	caps := core.Pick([]int{1, 2, 3, 4, 8, 24, 96}, []int{1, 2, 3, 4, 5, 8, 16, 24, 48, 96, 128})
	seen := map[string]bool{}
	buf := make([]byte, packetcache.BufSize)
	pkt := make([]byte, 20)
	for _, c1 := range caps {
		for _, grow := range append([]int{0}, caps...) { // an earlier resize (0 = none)
			for _, c2 := range caps {
				for _, cond := range []bool{true, false} {
					maxN := 2*c1 + 2
					if grow > c1 {
						maxN = 2*grow + 2
					}
					if maxN > 200 {
						maxN = 200
					}
					for n := 0; n <= maxN; n++ {
						sub.Executions++
						var pan string
						func() {
							defer func() {
								if r := recover(); r != nil {
									pan = fmt.Sprintf("%v\n%s", r, debug.Stack())
								}
							}()
							cache := packetcache.New(c1)
							if grow > 0 {
								cache.ResizeCond(grow)
							}
							seq := uint16(65530)
							for i := 0; i < n; i++ {
								cache.Store(seq, 1, false, true, pkt)
								seq++
							}
							if cond {
								cache.ResizeCond(c2)
							} else {
								cache.Resize(c2)
							}
							for i := 0; i < 3; i++ {
								_, idx := cache.Store(seq, 1, false, true, pkt)
								cache.Get(seq, buf)
								cache.GetAt(seq, idx, buf)
								cache.Get(seq-uint16(c2), buf)
								seq++
							}
						}()
						if pan != "" {
							sig := "C12/panic/packetcache/store-after-resize"
							if !seen[sig] {
								seen[sig] = true
								res.Violate(core.Violation{Signature: sig, Sub: sub.Name,
									What: fmt.Sprintf("a cache of capacity %d (first resized to %d), %d packets stored, then resized (conditional: %v) to %d: the next Store/Get panics (%s); the read loop has no recover, the server dies",
										c1, grow, n, cond, c2, head(pan, 160)),
									Replay: map[string]any{"family": "cache-resize", "c1": c1, "grow": grow, "n": n, "cond": cond, "c2": c2}})
							}
							outc.Add("panic")
						} else {
							outc.Add("ok")
						}
					}
				}
			}
		}
	}
	sub.States, sub.Transitions, sub.Outcomes = sub.Executions, sub.Executions, outc.N()
	sub.Bound = fmt.Sprintf("initial capacity x earlier resize x new capacity in %v x conditional/unconditional x every number of stored packets 0..2*capacity+2 (<=200), then 3 stores with lookups", caps)
	res.AddSub(sub)
}

package main

import (
	"encoding/json"

	"verif/core"
)

// Sub-check (b), signalling messages: placeholder, replaced by the signalling
// explorer.  Contract with main.go: runSignalling is called in the coordinator
// (isCoordinator()) and in every shard process; in a shard it must return
// immediately unless shardPart() == "signalling".  Shards are started with
// core.RunShards(res, n, []string{"signalling"}, onCrash).
func runSignalling(res *core.Result) {}

// replaySignalling re-runs one replay artefact of this family.
func replaySignalling(sub string, artefact json.RawMessage) *core.Violation { return nil }

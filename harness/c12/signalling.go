package main

import (
	"encoding/json"
	"fmt"
	"sort"
	"strings"
	"time"

	"github.com/pion/webrtc/v4"

	"verif/core"
	"verif/fwd"
	"verif/seqx"
	"verif/sig"
)

var sigOpus = fwd.Opus

// Sub-check (b), signalling messages (Engine D): every message type with
// each field absent / of the wrong JSON type / empty / naming an unknown id /
// huge, in every membership state of the actor (never joined, join refused
// for each cause, joined, left, kicked, in another group, permission revoked,
// publishing, subscribed), as single messages (quick) and as sequences of two
// (thorough), through the real JSON decoder and handleClientMessage /
// handleAction.  Oracle: no panic; only the sender's connection may be
// closed.
//
// Contract with main.go: runSignalling is called in the coordinator and in
// every shard process; in a shard it returns immediately unless shardPart()
// == "signalling".

type sigCase struct {
	Role   string   `json:"role"`
	Prefix string   `json:"prefix"`
	Msgs   []string `json:"msgs"` // raw JSON
}

// base valid messages (actor is c0)
func sigBase() []map[string]any {
	off := sig.OfferSDP("a")
	return []map[string]any{
		{"type": "handshake", "version": []any{"2"}, "id": "c0"},
		{"type": "join", "kind": "join", "group": "g", "username": "speaker", "password": "p", "data": map[string]any{"k": "v"}},
		{"type": "join", "kind": "leave", "group": "g"},
		{"type": "request", "request": map[string]any{"": []any{"audio", "video"}, "camera": []any{"video-low"}}},
		{"type": "requestStream", "id": "s2", "request": []any{"audio"}},
		{"type": "offer", "id": "s1", "label": "camera", "source": "c0", "sdp": off, "replace": "s0"},
		{"type": "answer", "id": "s2", "sdp": off},
		{"type": "renegotiate", "id": "s2"},
		{"type": "close", "id": "s1"},
		{"type": "abort", "id": "s2"},
		{"type": "ice", "id": "s1", "candidate": map[string]any{"candidate": "candidate:1 1 UDP 1 192.0.2.1 1 typ host", "sdpMid": "0", "sdpMLineIndex": 0}},
		{"type": "chat", "source": "c0", "dest": "c2", "value": "hi", "kind": "me", "id": "m1", "noecho": true},
		{"type": "usermessage", "kind": "x", "source": "c0", "dest": "c2", "value": map[string]any{"a": 1}},
		{"type": "groupaction", "kind": "clearchat", "source": "c0", "value": map[string]any{"id": "m1", "userId": "c2"}},
		{"type": "groupaction", "kind": "lock", "source": "c0", "value": "msg"},
		{"type": "groupaction", "kind": "unlock", "source": "c0"},
		{"type": "groupaction", "kind": "record", "source": "c0"},
		{"type": "groupaction", "kind": "unrecord", "source": "c0"},
		{"type": "groupaction", "kind": "subgroups", "source": "c0"},
		{"type": "groupaction", "kind": "setdata", "source": "c0", "value": map[string]any{"k": "v", "x": nil}},
		{"type": "groupaction", "kind": "maketoken", "source": "c0", "value": map[string]any{"group": "g", "permissions": []any{"present"}, "expires": "2030-01-01T02:00:00Z", "not-before": 1000.0, "username": "u"}},
		{"type": "groupaction", "kind": "edittoken", "source": "c0", "value": map[string]any{"token": "tok-g", "expires": 3600000.0}},
		{"type": "groupaction", "kind": "listtokens", "source": "c0"},
		{"type": "groupaction", "kind": "nonsense", "source": "c0"},
		{"type": "useraction", "kind": "op", "source": "c0", "dest": "c2"},
		{"type": "useraction", "kind": "unpresent", "source": "c0", "dest": "c2"},
		{"type": "useraction", "kind": "identify", "source": "c0", "dest": "c2"},
		{"type": "useraction", "kind": "setdata", "source": "c0", "dest": "c0", "value": map[string]any{"k": "v", "x": nil}},
		{"type": "useraction", "kind": "nonsense", "source": "c0", "dest": "c2"},
		{"type": "ping"},
		{"type": "pong"},
		{"type": "nonsense"},
		{},
	}
}

var wrongValues = []any{nil, 5.0, true, "", "zzz", []any{}, []any{5.0}, []any{"x"}, map[string]any{}, map[string]any{"": 5.0}, map[string]any{"": []any{5.0}}, map[string]any{"": nil}}

// sigAlphabet derives the ill-typed variants of every base message.
func sigAlphabet() []string {
	seen := map[string]bool{}
	var out []string
	add := func(m any) {
		b, err := json.Marshal(m)
		if err != nil {
			return
		}
		if !seen[string(b)] {
			seen[string(b)] = true
			out = append(out, string(b))
		}
	}
	huge := strings.Repeat("A", 20000)
	for _, base := range sigBase() {
		add(base)
		keys := make([]string, 0, len(base))
		for k := range base {
			keys = append(keys, k)
		}
		sort.Strings(keys)
		for _, k := range keys {
			if k == "type" || k == "kind" {
				continue
			}
			cp := func() map[string]any {
				c := map[string]any{}
				for kk, vv := range base {
					c[kk] = vv
				}
				return c
			}
			c := cp()
			delete(c, k)
			add(c)
			for _, v := range wrongValues {
				c := cp()
				c[k] = v
				add(c)
			}
			c = cp()
			c[k] = huge
			add(c)
			// nested maps: mutate each member too
			if inner, ok := base[k].(map[string]any); ok {
				for ik := range inner {
					for _, v := range wrongValues {
						c := cp()
						in := map[string]any{}
						for a, b := range inner {
							in[a] = b
						}
						in[ik] = v
						c[k] = in
						add(c)
					}
					c := cp()
					in := map[string]any{}
					for a, b := range inner {
						in[a] = b
					}
					in[ik] = 1e308
					c[k] = in
					add(c)
					c2 := cp()
					in2 := map[string]any{}
					for a, b := range inner {
						in2[a] = b
					}
					in2[ik] = -1e308
					c2[k] = in2
					add(c2)
				}
			}
		}
	}
	// malformed JSON and odd top-level values
	for _, raw := range []string{``, `{`, `[]`, `5`, `null`, `"x"`, `{"type":5}`, `{"type":"chat","value":` + strings.Repeat("[", 2000) + strings.Repeat("]", 2000) + `}`} {
		if !seen[raw] {
			seen[raw] = true
			out = append(out, raw)
		}
	}
	return out
}

// extra prefixes with media state on top of sig.Prefixes
var sigPrefixes = append(append([]string{}, sig.Prefixes...), "publishing", "subscribed")

func sigSetup(role, prefix string) (*sig.World, string) {
	switch prefix {
	case "publishing", "subscribed":
		w, pan := sig.Setup(role, "joined", false)
		if pan != "" {
			return w, pan
		}
		do := func(o sig.Obs) {
			if o.Panic != "" && pan == "" {
				pan = o.Panic
			}
			if p := w.Settle(nil); p != "" && pan == "" {
				pan = p
			}
		}
		if prefix == "publishing" {
			do(w.Send(0, sig.Msg{"type": "offer", "id": "s1", "label": "camera", "source": "c0", "sdp": sig.OfferSDP("a")}))
			do(w.Send(0, sig.Msg{"type": "offer", "id": "s0", "label": "screenshare", "source": "c0", "sdp": sig.OfferSDP("v")}))
		} else {
			do(w.Send(0, sig.Msg{"type": "request", "request": map[string]any{"": []any{"audio", "video"}}}))
			do(w.Send(2, sig.Msg{"type": "offer", "id": "s2", "label": "camera", "source": "c2", "username": "bob", "sdp": sig.OfferSDP("a")}))
			w.Clients[2].V.Track("s2", webrtc.RTPCodecTypeAudio, "audio0", "", sigOpus)
			do(sig.Obs{})
		}
		return w, pan
	}
	return sig.Setup(role, prefix, false)
}

func sigRun(c sigCase) (string, string) {
	w, pan := sigSetup(c.Role, c.Prefix)
	defer w.Close()
	if pan != "" {
		return "setup", pan
	}
	for i, raw := range c.Msgs {
		kick := strings.Contains(raw, `"kick"`)
		o := w.SendRaw(0, []byte(raw))
		if o.Panic != "" {
			return fmt.Sprintf("message %d", i), o.Panic
		}
		if p := w.Settle(nil); p != "" {
			return fmt.Sprintf("settling after message %d", i), p
		}
		if !kick {
			for k := 1; k < len(w.Clients); k++ {
				if w.Clients[k].V.Closed {
					return fmt.Sprintf("message %d", i), fmt.Sprintf("BYSTANDER-CLOSED c%d", k)
				}
			}
		}
	}
	return "", ""
}

// msgClass names a raw message by its type/kind and the mutated field.
func msgClass(raw string) string {
	var m map[string]any
	if json.Unmarshal([]byte(raw), &m) != nil {
		return "malformed-json"
	}
	t, _ := m["type"].(string)
	k, _ := m["kind"].(string)
	if k != "" {
		return t + "/" + k
	}
	return t
}

func sigViolation(c sigCase, where, pan string) core.Violation {
	cls := msgClass(c.Msgs[len(c.Msgs)-1])
	state := c.Prefix
	if strings.HasPrefix(state, "refused") {
		state = "join-refused"
	}
	if strings.HasPrefix(pan, "BYSTANDER-CLOSED") {
		return core.Violation{Signature: "C12/bystander-closed/signalling/" + cls + "/" + state,
			What:   fmt.Sprintf("signalling: actor %s in state %s sent %s and the connection of another client was closed (%s)", c.Role, c.Prefix, trunc(strings.Join(c.Msgs, " ; "), 600), pan),
			Replay: map[string]any{"family": "signalling", "case": c}}
	}
	return core.Violation{Signature: "C12/panic/signalling/" + sig.PanicSite(pan) + "/" + cls + "/" + state,
		What:   fmt.Sprintf("signalling: actor %s in state %s, %s, messages %s: %s", c.Role, c.Prefix, where, trunc(strings.Join(c.Msgs, " ; "), 600), pan),
		Replay: map[string]any{"family": "signalling", "case": c}}
}

func trunc(s string, n int) string {
	if len(s) > n {
		return s[:n] + "…"
	}
	return s
}

func runSignalling(res *core.Result) {
	if isCoordinator() {
		if !core.Want("signalling") && !core.Want("liveness") {
			return
		}
		core.RunShards(res, core.NCPU(), []string{"signalling"}, func(shard int, out string) *core.Violation {
			rec := readProgress("signalling", shard)
			b, _ := json.Marshal(rec)
			return &core.Violation{Signature: "C12/process-died/signalling",
				What:   "a signalling shard died; last input: " + trunc(string(b), 1500) + "\n" + trunc(out, 1500),
				Replay: map[string]any{"family": "signalling", "case": rec}}
		})
		return
	}
	if shardPart() != "signalling" {
		return
	}
	defer sig.Cleanup()
	o := core.Opts()
	prog := openProgress("signalling")
	alpha := sigAlphabet()
	roles := []string{"speaker", "oper"}
	t0 := time.Now()
	single := core.Sub{Name: "signalling/single-message", Exhaustive: true}
	var outc core.Outcomes
	n := 0
	for _, role := range roles {
		for _, prefix := range sigPrefixes {
			for _, raw := range alpha {
				n++
				if n%o.Shards != o.Shard || !core.Want("signalling/single-message") {
					continue
				}
				if !core.TimeLeft() {
					single.Exhaustive = false
					continue
				}
				c := sigCase{role, prefix, []string{raw}}
				prog.Set(c)
				where, pan := sigRun(c)
				single.Executions++
				outc.Add(fmt.Sprintf("%s/%s/%v", prefix, msgClass(raw), pan != ""))
				if pan != "" {
					res.Violate(sigViolation(c, where, pan))
				}
				if len(single.Samples) < 2 {
					single.Samples = append(single.Samples, map[string]any{"role": role, "state": prefix, "message": trunc(raw, 200)})
				}
			}
		}
	}
	single.States, single.Transitions, single.Outcomes = single.Executions, single.Executions, outc.N()
	single.Bound = fmt.Sprintf("full product: roles(%d) x states(%d) x messages(%d)", len(roles), len(sigPrefixes), len(alpha))
	single.WallS = time.Since(t0).Seconds()
	res.AddSub(single)

	// sequences of two: the first message from a smaller alphabet of
	// state-changing messages, the second from the whole alphabet
	t1 := time.Now()
	pairs := core.Sub{Name: "signalling/message-pairs", Exhaustive: true}
	var firsts []string
	for _, raw := range alpha {
		cls := msgClass(raw)
		switch cls {
		case "join/join", "join/leave", "offer", "request", "close", "abort", "groupaction/record", "groupaction/lock", "useraction/unpresent":
			if len(raw) < 3000 {
				firsts = append(firsts, raw)
			}
		}
	}
	if core.Quick() {
		// quick: only the unmodified base messages as first message
		var f2 []string
		for _, b := range sigBase() {
			j, _ := json.Marshal(b)
			switch msgClass(string(j)) {
			case "join/join", "join/leave", "offer", "request", "close", "groupaction/record":
				f2 = append(f2, string(j))
			}
		}
		firsts = f2
	}
	var outp core.Outcomes
	n = 0
	pprefixes := core.Pick([]string{"never-joined", "joined", "refused-locked", "publishing"}, sigPrefixes)
	for _, prefix := range pprefixes {
		for _, f := range firsts {
			for _, raw := range alpha {
				n++
				if n%o.Shards != o.Shard || !core.Want("signalling/message-pairs") {
					continue
				}
				if !core.TimeLeft() {
					pairs.Exhaustive = false
					continue
				}
				c := sigCase{"speaker", prefix, []string{f, raw}}
				prog.Set(c)
				where, pan := sigRun(c)
				pairs.Executions++
				outp.Add(fmt.Sprintf("%s/%s/%s/%v", prefix, msgClass(f), msgClass(raw), pan != ""))
				if pan != "" {
					res.Violate(sigViolation(c, where, pan))
				}
			}
		}
	}
	pairs.States, pairs.Transitions, pairs.Outcomes = pairs.Executions, pairs.Executions, outp.N()
	pairs.Bound = fmt.Sprintf("full product: states(%d) x first messages(%d) x second messages(%d)", len(pprefixes), len(firsts), len(alpha))
	pairs.WallS = time.Since(t1).Seconds()
	res.AddSub(pairs)

	if o.Shard == o.Shards-1 && core.Want("signalling/delayed-delivery") {
		res.AddSub(seqx.Explore(delayedConfig(), res))
	}
	if o.Shard == (o.Shards+1)/2 {
		runLiveness(res) // last in this process: switches it to the scheduler
	}
}

// replaySignalling re-runs one replay artefact of this family.
func replaySignalling(sub string, artefact json.RawMessage) *core.Violation {
	var a struct {
		Case sigCase `json:"case"`
	}
	if err := json.Unmarshal(artefact, &a); err != nil {
		return nil
	}
	defer sig.Cleanup()
	where, pan := sigRun(a.Case)
	if pan == "" {
		return nil
	}
	v := sigViolation(a.Case, where, pan)
	return &v
}

package main

import (
	"encoding/json"
	"fmt"
	"net/http/httptest"
	"runtime/debug"
	"strings"

	"github.com/jech/galene/webserver"

	"verif/core"
)

// precondition-headers: every string of at most N characters over the
// characters that matter to the entity-tag scanner, as the value of If-Match
// and of If-None-Match, for GET and PUT, with and without a current tag,
// through the real checkPreconditions (which every admin-API handler and the
// WHIP resource handler call with the client's header values).  Oracle: no
// panic (net/http would drop the connection: a request without a response).
func runPrecondHeaders(res *core.Result) {
	chars := []string{"W", "/", `"`, "x", "*", ",", " "}
	n := core.Pick(5, 7)
	sub := core.Sub{Name: "precondition-headers", Exhaustive: true,
		Bound: fmt.Sprintf("all strings of <=%d characters over %v x {If-Match, If-None-Match} x {GET, PUT} x current tag in {absent, \"x\"} through checkPreconditions", n, chars)}
	var outc core.Outcomes
	seen := map[string]bool{}
	var rec func(s string, k int)
	call := func(method, hdr, val, etag string) (code int, pan string) {
		defer func() {
			if r := recover(); r != nil {
				pan = fmt.Sprintf("%v\n%s", r, debug.Stack())
			}
		}()
		w := httptest.NewRecorder()
		r := httptest.NewRequest(method, "/galene-api/v0/.groups/g", nil)
		r.Header.Set(hdr, val)
		done := webserver.VerifC18CheckPreconditions(w, r, etag)
		if !done {
			return 0, ""
		}
		return w.Code, ""
	}
	rec = func(s string, k int) {
		for _, method := range []string{"GET", "PUT"} {
			for _, hdr := range []string{"If-Match", "If-None-Match"} {
				for _, etag := range []string{"", `"x"`} {
					sub.Executions++
					code, pan := call(method, hdr, s, etag)
					if pan != "" {
						line := strings.SplitN(pan, "\n", 2)[0]
						sig := "C12/panic/http/precondition-header/" + hdr
						if !seen[sig] {
							seen[sig] = true
							res.Violate(core.Violation{Signature: sig, Sub: sub.Name,
								What:   fmt.Sprintf("%s request with header %s: %q (current entity tag %q): checkPreconditions panics (%s): net/http drops the connection, the request gets no response", method, hdr, s, etag, line),
								Replay: map[string]any{"family": "precondition-headers", "method": method, "header": hdr, "value": s, "etag": etag, "stack": head(pan, 1200)}})
						}
						outc.Add("panic")
						continue
					}
					outc.Add(fmt.Sprint(method, hdr, etag != "", code))
				}
			}
		}
		if k == n {
			return
		}
		for _, c := range chars {
			rec(s+c, k+1)
		}
	}
	rec("", 0)
	sub.States, sub.Transitions, sub.Outcomes = sub.Executions, sub.Executions, outc.N()
	res.AddSub(sub)
}

func replayPrecond(raw []byte) (v *core.Violation) {
	var in struct{ Method, Header, Value, Etag string }
	if err := json.Unmarshal(raw, &in); err != nil {
		return &core.Violation{Signature: "HARNESS-FAULT", What: err.Error()}
	}
	defer func() {
		if r := recover(); r != nil {
			v = &core.Violation{Signature: "C12/panic/http/precondition-header/" + in.Header,
				What: fmt.Sprintf("%s with %s: %q: checkPreconditions panics: %v", in.Method, in.Header, in.Value, r)}
		}
	}()
	w := httptest.NewRecorder()
	r := httptest.NewRequest(in.Method, "/galene-api/v0/.groups/g", nil)
	r.Header.Set(in.Header, in.Value)
	webserver.VerifC18CheckPreconditions(w, r, in.Etag)
	return nil
}

// C12 — no client input can crash the server or a request handler.
//
// Three sub-check families, each in its own file:
//
//	parsers.go     (a) full enumeration of a shape grammar of RTP byte strings
//	               through codecs.PacketFlags / RewritePacket / Keyframe /
//	               KeyframeDimensions, the real rtpDownTrack.Write, readLoop
//	               and the real RTCP listeners
//	http.go        (c) full product of HTTP requests through the real handlers
//	               behind the routing table of webserver.Serve; sdpfrag
//	signalling.go  (b) ill-typed signalling messages (Engine D)
//
// Process layout: the coordinator (no --shard) calls each run* function, which
// re-executes the binary as shard subprocesses with core.RunShards and one
// positional argument naming the family ("parsers", "http", "signalling").  In a
// shard process every run* function is called as well, and each one returns
// immediately unless shardPart() names its family.  A shard that dies (a panic in
// a goroutine nobody can recover, a fatal runtime error, a hang) is turned into a
// violation by the family's onCrash callback from the progress file it kept.
package main

import (
	"encoding/hex"
	"encoding/json"
	"flag"
	"fmt"
	"io"
	"log"
	"os"
	"path/filepath"
	"regexp"
	"runtime"
	"strings"
	"syscall"
	"time"

	"verif/core"
	"verif/glife"
	"verif/seqx"
	"verif/sig"
	"verif/vrt"
)

// shardPart names the family this shard process works for ("" in the
// coordinator).
func shardPart() string {
	if core.Opts().Shard < 0 {
		return ""
	}
	return flag.Arg(0)
}

func isCoordinator() bool { return core.Opts().Shard < 0 }

func main() {
	start := time.Now()
	o := core.ParseFlags(150, 1500)
	res := &core.Result{Property: "C12", Tier: o.Tier,
		Technique: "bounded exhaustive enumeration of client inputs (RTP/RTCP byte-string grammar, HTTP request product, sdpfrag line sequences, signalling messages) through the real parsers, forwarding path, listeners and HTTP handlers; oracle = no panic, a response for every request, packet length and non-rewritable bytes unchanged"}
	if o.Replay != "" {
		replay(o.Replay)
		return
	}
	if !isCoordinator() {
		// handlers and listeners log every rejected input
		log.SetOutput(io.Discard)
	}
	runParsers(res)
	runHTTP(res)
	runSignalling(res)
	if isCoordinator() {
		if d := os.Getenv("C12_PROGRESS_DIR"); strings.Contains(d, "c12prog") {
			os.RemoveAll(d)
		}
	}
	core.Finish(res, start)
}

// ---------------------------------------------------------------------------
// progress files: a shard overwrites one small file with the input it is
// about to execute, so that the coordinator can name the input that killed it.

func progressDir() string {
	d := os.Getenv("C12_PROGRESS_DIR")
	if d == "" && isCoordinator() {
		d, _ = os.MkdirTemp("", "c12prog")
		os.Setenv("C12_PROGRESS_DIR", d)
	}
	return d
}

func progressPath(part string, shard int) string {
	return filepath.Join(progressDir(), fmt.Sprintf("%s-%d.json", part, shard))
}

type progress struct {
	mem []byte // shared mapping of the progress file: no system call per input
}

const progressSize = 8192

func openProgress(part string) *progress {
	if isCoordinator() || progressDir() == "" {
		return &progress{}
	}
	f, err := os.OpenFile(progressPath(part, core.Opts().Shard), os.O_CREATE|os.O_RDWR|os.O_TRUNC, 0600)
	if err != nil {
		return &progress{}
	}
	defer f.Close()
	if f.Truncate(progressSize) != nil {
		return &progress{}
	}
	mem, err := syscall.Mmap(int(f.Fd()), 0, progressSize, syscall.PROT_READ|syscall.PROT_WRITE, syscall.MAP_SHARED)
	if err != nil {
		return &progress{}
	}
	return &progress{mem}
}

// Set records the input about to be executed as JSON.
func (p *progress) Set(v any) {
	if p.mem == nil {
		return
	}
	b, _ := json.Marshal(v)
	p.SetRaw('J', b)
}

// SetRaw stores kind + payload (truncated to the file size); the payload
// length is written last so that a torn record is never read as complete.
func (p *progress) SetRaw(kind byte, fields ...[]byte) {
	if p.mem == nil {
		return
	}
	p.mem[0], p.mem[1], p.mem[2] = 0, 0, 0
	n := 4
	for i, f := range fields {
		if i > 0 && n < progressSize {
			p.mem[n] = 0x1F
			n++
		}
		n += copy(p.mem[n:], f)
	}
	p.mem[3] = kind
	p.mem[0], p.mem[1], p.mem[2] = byte(n>>16), byte(n>>8), byte(n)
}

// readProgress returns the last record of a shard: JSON records as a map,
// raw records as {"sub","where","codec","hex","class"} (see worldRecord).
func readProgress(part string, shard int) map[string]any {
	data, err := os.ReadFile(progressPath(part, shard))
	if err != nil || len(data) < 4 {
		return nil
	}
	n := int(data[0])<<16 | int(data[1])<<8 | int(data[2])
	if n < 4 || n > len(data) {
		return nil
	}
	body := data[4:n]
	if data[3] == 'J' {
		var m map[string]any
		if json.Unmarshal(body, &m) != nil {
			return nil
		}
		return m
	}
	f := strings.Split(string(body), "\x1f")
	if data[3] == 'H' {
		names := []string{"sub", "method", "template", "path", "class", "cred", "authorization", "content_type", "content_type_value", "body", "precondition", "kind"}
		m := map[string]any{}
		for i, n := range names {
			if i < len(f) {
				m[n] = f[i]
			}
		}
		return m
	}
	for len(f) < 5 {
		f = append(f, "")
	}
	return map[string]any{"sub": f[0], "where": f[1], "codec": f[2], "hex": hex.EncodeToString([]byte(f[3])), "class": f[4]}
}

// ---------------------------------------------------------------------------
// panic classification shared by the families

type panicInfo struct {
	Val   string // panic value, normalised
	Kind  string // nil-deref | index-out-of-range | slice-bounds | other
	Func  string // innermost frame in galene or a third-party module
	Stack string
}

var reHex = regexp.MustCompile(`0x[0-9a-fA-F]+`)
var reNum = regexp.MustCompile(`\[[-0-9:]*\]|\b[0-9]+\b`)

func panicKind(msg string) string {
	switch {
	case strings.Contains(msg, "nil pointer dereference"), strings.Contains(msg, "nil map"):
		return "nil-deref"
	case strings.Contains(msg, "index out of range"):
		return "index-out-of-range"
	case strings.Contains(msg, "slice bounds out of range"):
		return "slice-bounds"
	case strings.Contains(msg, "integer divide by zero"):
		return "divide-by-zero"
	case strings.Contains(msg, "interface conversion"):
		return "type-assertion"
	case strings.Contains(msg, "invalid WriteHeader code"), strings.Contains(msg, "WriteHeader"):
		return "bad-status-code"
	}
	return "other"
}

// shortFunc turns "github.com/jech/galene/webserver.tokensHandler" into
// "webserver.tokensHandler" and keeps the module path of third-party code.
func shortFunc(fn string) string {
	fn = strings.TrimPrefix(fn, "github.com/jech/galene/")
	// closures: webserver.f.func1 -> webserver.f
	for {
		i := strings.LastIndex(fn, ".func")
		if i < 0 {
			break
		}
		fn = fn[:i]
	}
	return fn
}

func interesting(fn string) bool {
	if strings.HasPrefix(fn, "runtime.") || strings.HasPrefix(fn, "main.") ||
		strings.HasPrefix(fn, "verif/") || strings.HasPrefix(fn, "testing.") {
		return false
	}
	return true
}

// capturePanic must be called from the deferred function that recovered r.
func capturePanic(r any) *panicInfo {
	msg := fmt.Sprint(r)
	pi := &panicInfo{Val: reHex.ReplaceAllString(msg, "0x?"), Kind: panicKind(msg)}
	pcs := make([]uintptr, 64)
	n := runtime.Callers(2, pcs)
	frames := runtime.CallersFrames(pcs[:n])
	var sb strings.Builder
	var fns []string
	for {
		f, more := frames.Next()
		if f.Function != "" {
			fmt.Fprintf(&sb, "%s\n", f.Function)
			fns = append(fns, f.Function)
		}
		if !more {
			break
		}
	}
	pi.Func = pickFunc(fns)
	pi.Stack = sb.String()
	return pi
}

func isGalene(fn string) bool { return strings.HasPrefix(fn, "github.com/jech/galene/") }
func isThirdParty(fn string) bool {
	return !isGalene(fn) && (strings.HasPrefix(fn, "github.com/") || strings.HasPrefix(fn, "golang.org/") ||
		strings.HasPrefix(fn, "gopkg.in/"))
}

// pickFunc names the panic site from a stack (innermost first): the innermost
// galene or third-party frame; a standard-library frame is reported through
// the galene function that called it.
func pickFunc(fns []string) string {
	inner := ""
	for _, fn := range fns {
		if !interesting(fn) || fn == "panic" {
			continue
		}
		if inner == "" {
			inner = fn
		}
		if isGalene(fn) || isThirdParty(fn) {
			if inner == fn {
				return shortFunc(fn)
			}
			return shortFunc(fn) + " via " + shortFunc(inner)
		}
	}
	return shortFunc(inner)
}

// crashInfo extracts the same from the stderr of a dead shard.
func crashInfo(output string) *panicInfo {
	pi := &panicInfo{Kind: "other"}
	lines := strings.Split(output, "\n")
	start := -1
	for i, l := range lines {
		if strings.HasPrefix(l, "panic: ") || strings.HasPrefix(l, "fatal error: ") {
			pi.Val = reHex.ReplaceAllString(strings.TrimSpace(l), "0x?")
			pi.Kind = panicKind(l)
			start = i
			break
		}
	}
	if start < 0 {
		pi.Val = "shard died without a Go panic message"
		return pi
	}
	reFrame := regexp.MustCompile(`^([A-Za-z0-9_./\-]+(\(\*?[A-Za-z0-9_\[\].]+\))?[A-Za-z0-9_.\[\]]*)\(`)
	var sb strings.Builder
	var fns []string
	seenGoroutine := false
	for _, l := range lines[start:] {
		if strings.HasPrefix(l, "goroutine ") {
			if seenGoroutine {
				break // only the panicking goroutine (printed first)
			}
			seenGoroutine = true
			continue
		}
		if m := reFrame.FindStringSubmatch(l); m != nil {
			fn := m[1]
			sb.WriteString(fn + "\n")
			fns = append(fns, fn)
		}
	}
	pi.Func = pickFunc(fns)
	pi.Stack = sb.String()
	return pi
}

func normNum(s string) string { return reNum.ReplaceAllString(s, "N") }

// ---------------------------------------------------------------------------
// replay: re-run one artefact

func replay(path string) {
	data, err := os.ReadFile(path)
	if err != nil {
		fmt.Println(err)
		os.Exit(2)
	}
	var a struct {
		Signature string          `json:"signature"`
		Sub       string          `json:"sub"`
		Replay    json.RawMessage `json:"replay"`
	}
	if err := json.Unmarshal(data, &a); err != nil {
		fmt.Println(err)
		os.Exit(2)
	}
	log.SetOutput(io.Discard)
	var v *core.Violation
	switch {
	case strings.HasPrefix(a.Sub, "parsers") || strings.HasPrefix(a.Sub, "rtp") || strings.HasPrefix(a.Sub, "rtcp"):
		v = replayParsers(a.Sub, a.Replay)
	case a.Sub == "precondition-headers":
		v = replayPrecond(a.Replay)
	case a.Sub == "cache-resize" || a.Sub == "sequence-map" || a.Sub == "rtcp-report-timing":
		// short enumerations: the whole sub-check is the replay
		r := &core.Result{Property: "C12"}
		switch a.Sub {
		case "cache-resize":
			runCacheResize(r)
		case "sequence-map":
			runMapSequences(r)
		default:
			runReportTiming(r)
		}
		if len(r.Violations) > 0 {
			v = &r.Violations[0]
		}
	case a.Sub == "writer-pool":
		var c poolCase
		if err := json.Unmarshal(a.Replay, &c); err != nil {
			fmt.Println(err)
			os.Exit(2)
		}
		if o, bad := runPoolCase(c); bad != "" {
			v = &core.Violation{Signature: "C12/writer-pool/" + o, Sub: a.Sub, What: bad, Replay: c}
		}
	case strings.HasPrefix(a.Sub, "liveness"):
		var r struct {
			Program string `json:"program"`
			Choices []int  `json:"choices"`
		}
		if err := json.Unmarshal(a.Replay, &r); err != nil {
			fmt.Println(err)
			os.Exit(2)
		}
		for _, p := range livenessPrograms() {
			if p.Name == r.Program {
				_, _, v = vrt.ReplayChoices(p, r.Choices)
			}
		}
		glife.Cleanup()
	case a.Sub == delayedConfig().Name:
		var r struct {
			Ops []dop `json:"ops"`
		}
		if err := json.Unmarshal(a.Replay, &r); err != nil {
			fmt.Println(err)
			os.Exit(2)
		}
		ops := make([]seqx.Op, len(r.Ops))
		for i, x := range r.Ops {
			ops[i] = x
		}
		v = seqx.Replay(delayedConfig(), ops)
		sig.Cleanup()
	case strings.HasPrefix(a.Sub, "http") || strings.HasPrefix(a.Sub, "sdpfrag"):
		v = replayHTTP(a.Sub, a.Replay)
	default:
		v = replaySignalling(a.Sub, a.Replay)
	}
	if v != nil {
		fmt.Printf("VIOLATION property=C12 replay=%s\n  signature: %s\n  what: %s\n", path, v.Signature, v.What)
		os.Exit(1)
	}
	fmt.Println("replay: no violation")
}

package main

import (
	"fmt"
	"runtime/debug"
	"time"

	"github.com/pion/rtcp"

	"github.com/jech/galene/rtptime"

	"verif/core"
	"verif/fwd"
	"verif/vtime"
)

// report-timing: receiver reports whose "delay since last sender report" lies
// around the time that has really elapsed since the server's last sender
// report (a receiver is free to send any value), once or twice in a row, on a
// fresh down track; after each
// history the statistics the HTTP endpoint serialises are computed with the
// real webClient.GetStats.  Oracle: no panic (net/http would drop the
// connection: a request without a response), and a round-trip time that is
// not larger than the time elapsed since the sender report.
func runReportTiming(res *core.Result) {
	sub := core.Sub{Name: "rtcp-report-timing", Exhaustive: true}
	var outc core.Outcomes
	unit := uint64(rtptime.JiffiesPerSec / 0x10000)
	elapsedList := []time.Duration{0, time.Microsecond, 100 * time.Millisecond, 7 * time.Second, 9 * time.Second}
	seen := map[string]bool{}
	for _, elapsed := range elapsedList {
		ej := uint64(rtptime.FromDuration(elapsed, rtptime.JiffiesPerSec))
		base := uint32(ej / unit)
		delays := []uint32{0, base, base + 1, base + 2, 0xFFFFFFFF}
		if base > 0 {
			delays = append(delays, base-1)
		}
		{
			for _, d1 := range delays {
				for _, d2 := range append([]uint32{0xFFFFFFFE}, delays...) { // FFFFFFFE: no second report
					for _, lsrOK := range []bool{true, false} {
						sub.Executions++
						func() {
							w := fwd.New(fwd.VP8, 1)
							defer w.Close()
							go w.Down.RTCPListener()
							vtime.Set(time.Hour)
							ntp := uint64(0x1234567890ABCDEF)
							w.Down.SetSRTime(rtptime.Jiffies(), ntp)
							vtime.Advance(elapsed)
							lsr := uint32(ntp >> 16)
							if !lsrOK {
								lsr++
							}
							var pan string
							func() {
								defer func() {
									if r := recover(); r != nil {
										pan = fmt.Sprintf("%v\n%s", r, debug.Stack())
									}
								}()
								for i, d := range []uint32{d1, d2} {
									if i == 1 && d == 0xFFFFFFFE {
										break
									}
									rr := &rtcp.ReceiverReport{SSRC: 1, Reports: []rtcp.ReceptionReport{{SSRC: fwd.DownSSRC, LastSenderReport: lsr, Delay: d}}}
									b, err := rr.Marshal()
									if err != nil {
										panic(err)
									}
									w.DownCtl.Feed(b)
								}
								w.Down.ClientStats()
							}()
							rtt := w.Down.RTT()
							switch {
							case pan != "":
								sig := "C12/panic/http/stats-after-receiver-report"
								if !seen[sig] {
									seen[sig] = true
									res.Violate(core.Violation{Signature: sig, Sub: sub.Name,
										What:   fmt.Sprintf("receiver reports with delay-since-last-SR %d and %d units of 1/65536 s, %v after the sender report they name (that is %d units), make the statistics computation panic: the statistics request gets no response (%s)", d1, d2, elapsed, base, head(pan, 160)),
										Replay: map[string]any{"family": "rtcp-report-timing", "elapsed": elapsed.String(), "d1": d1, "d2": d2}})
								}
								outc.Add("panic")
							case rtt > ej+unit:
								sig := "C12/rtt-larger-than-elapsed"
								if !seen[sig] {
									seen[sig] = true
									res.Violate(core.Violation{Signature: sig, Sub: sub.Name,
										What:   fmt.Sprintf("after receiver reports with delays %d and %d units, %v after the sender report, the round-trip time is %d jiffies although only %d have elapsed (an unsigned difference wrapped around)", d1, d2, elapsed, rtt, ej),
										Replay: map[string]any{"family": "rtcp-report-timing", "elapsed": elapsed.String(), "d1": d1, "d2": d2}})
								}
								outc.Add("rtt-wrapped")
							default:
								outc.Add(fmt.Sprint(rtt > 0))
							}
						}()
					}
				}
			}
		}
	}
	sub.States, sub.Transitions, sub.Outcomes = sub.Executions, sub.Executions, outc.N()
	sub.Bound = "elapsed since the sender report in {0, 1us, 100ms, 7s, 9s} x delay of the first and of an optional second report in {0, e-1, e, e+1, e+2, 2^32-1} units x matching / non-matching LSR; statistics computed after each"
	res.AddSub(sub)
}

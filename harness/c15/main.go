// C15 — chat messages are authentic, correctly addressed, and history is
// bounded.
//
// Engine D: BFS over sequences of join/leave/chat/usermessage/clearchat/tick
// by three clients with different roles in two groups; every message goes
// through the real handleClientMessage; everything written to every client is
// compared with a small reference model of the chat (recipients, source,
// username, privileged flag, history replay).
package main

import (
	"encoding/json"
	"flag"
	"fmt"
	"os"
	"sort"
	"strings"
	"time"

	"verif/core"
	"verif/seqx"
	"verif/sig"
	"verif/vrt"
	"verif/vtime"
)

const groupG = `{"users":{"alice":{"password":"pa","permissions":"op"},"bob":{"password":"pb","permissions":"present"},"carol":{"password":"pc","permissions":"observe"}},"max-history-age":10}`
const groupH = `{"users":{"alice":{"password":"pa","permissions":"op"},"bob":{"password":"pb","permissions":"present"}}}`

var users = []string{"alice", "bob", "carol"}
var pws = map[string]string{"alice": "pa", "bob": "pb", "carol": "pc"}

type op struct {
	C    int    `json:"c"`
	Kind string `json:"k"`
	Arg  string `json:"a,omitempty"`
	N    int    `json:"n,omitempty"`
}

type entry struct {
	id, source, username, kind, value string
	at                                int // virtual seconds
}

type member struct {
	group, username string
	perms           map[string]bool
}

type world struct {
	w       *sig.World
	hist    map[string][]entry // reference history per group
	mem     map[int]*member    // reference membership (joined clients)
	now     int                // virtual seconds since start
	nchat   int
	ndead   int // members whose websocket writer has died
	outcome string
	alpha   string
}

func fresh(alpha string) func() seqx.World {
	return func() seqx.World {
		return &world{w: sig.NewWorld(map[string]string{"g": groupG, "h": groupH}, 3),
			hist: map[string][]entry{}, mem: map[int]*member{}, alpha: alpha}
	}
}

func (w *world) Close() { w.w.Close() }

func (w *world) Ops() []seqx.Op {
	var ops []seqx.Op
	for i := range w.w.Clients {
		c := w.w.Clients[i]
		if c.V.Closed {
			continue
		}
		m := w.mem[i]
		if m == nil {
			// client i always logs in as users[i]
			ops = append(ops, op{C: i, Kind: "join", Arg: "g"})
			if i == 1 {
				ops = append(ops, op{C: i, Kind: "join", Arg: "h"})
			}
			if w.alpha == "full" {
				ops = append(ops, op{C: i, Kind: "chat"}) // chat while not joined
			}
			continue
		}
		if c.V.WriterDead {
			// its loop will end; until then it stays a member
			ops = append(ops, op{C: i, Kind: "leave"})
			continue
		}
		if i < 2 && w.ndead == 0 {
			ops = append(ops, op{C: i, Kind: "writer-dies"})
		}
		if i == 2 && w.alpha != "full" {
			continue // the observer only listens in the small alphabet
		}
		ops = append(ops, op{C: i, Kind: "chat"}, op{C: i, Kind: "chat-noecho"},
			op{C: i, Kind: "chat-to", Arg: "c0"}, op{C: i, Kind: "chat-to", Arg: "c1"},
			op{C: i, Kind: "spoof-source"}, op{C: i, Kind: "spoof-username"},
			op{C: i, Kind: "chat-anon"}, op{C: i, Kind: "umsg"}, op{C: i, Kind: "umsg-to", Arg: "c1"},
			op{C: i, Kind: "clear-all"}, op{C: i, Kind: "clear-user", Arg: "c0"}, op{C: i, Kind: "clear-one"},
			op{C: i, Kind: "leave"})
		if w.alpha == "full" {
			ops = append(ops, op{C: i, Kind: "chat-to", Arg: "zz"}, op{C: i, Kind: "chat-caption"}, op{C: i, Kind: "chat-me"},
				op{C: i, Kind: "chat-id"}, op{C: i, Kind: "clear-idonly"}, op{C: i, Kind: "clear-bad"},
				op{C: i, Kind: "clear-user", Arg: "c1"}, op{C: i, Kind: "umsg-to", Arg: "c2"}, op{C: i, Kind: "chat-to", Arg: "c2"})
		}
		if i == 0 && w.nchat < 60 {
			ops = append(ops, op{C: i, Kind: "chat49"})
		}
	}
	ops = append(ops, op{C: -1, Kind: "tick", N: 9}, op{C: -1, Kind: "tick", N: 2})
	return ops
}

func viol(sig, what string) *core.Violation {
	return &core.Violation{Signature: "C15/" + sig, What: what}
}

func (w *world) Apply(x seqx.Op) *core.Violation {
	o := x.(op)
	w.outcome = o.Kind
	if o.Kind == "tick" {
		vtime.Advance(time.Duration(o.N) * time.Second)
		w.now += o.N
		w.w.Tick += o.N
		return nil
	}
	if o.Kind == "writer-dies" {
		// the member's websocket writer dies (write error or time-out); the
		// member itself stays in the group until its loop notices
		w.w.WriterDies(o.C)
		w.ndead++
		return nil
	}
	if o.Kind == "chat49" {
		for k := 0; k < 49; k++ {
			if v := w.one(op{C: o.C, Kind: "chat"}); v != nil {
				return v
			}
		}
		return nil
	}
	return w.one(o)
}

func s(v any) string {
	x, _ := v.(string)
	return x
}

func (w *world) one(o op) *core.Violation {
	i := o.C
	c := w.w.Clients[i]
	me := w.mem[i]
	user := users[i]
	val := fmt.Sprintf("%s#%d", c.ID, w.nchat)
	// every chat and user message claims to be privileged: the flag that is
	// delivered must be the server's (operator status), never the client's
	var m sig.Msg
	switch o.Kind {
	case "join":
		m = sig.Join(o.Arg, user, pws[user])
	case "leave":
		m = sig.Msg{"type": "join", "kind": "leave", "group": me.group}
	case "chat":
		m = sig.Msg{"type": "chat", "privileged": true, "source": c.ID, "username": user, "value": val}
	case "chat-noecho":
		m = sig.Msg{"type": "chat", "privileged": true, "source": c.ID, "username": user, "value": val, "noecho": true}
	case "chat-to":
		m = sig.Msg{"type": "chat", "privileged": true, "source": c.ID, "username": user, "dest": o.Arg, "value": val}
	case "chat-caption":
		m = sig.Msg{"type": "chat", "privileged": true, "kind": "caption", "source": c.ID, "username": user, "value": val}
	case "chat-me":
		m = sig.Msg{"type": "chat", "privileged": true, "kind": "me", "source": c.ID, "username": user, "value": val}
	case "chat-id":
		m = sig.Msg{"type": "chat", "privileged": true, "id": "fixed", "source": c.ID, "username": user, "value": val}
	case "chat-anon":
		m = sig.Msg{"type": "chat", "privileged": true, "value": val}
	case "spoof-source":
		m = sig.Msg{"type": "chat", "privileged": true, "source": w.w.Clients[(i+1)%3].ID, "username": user, "value": val}
	case "spoof-username":
		m = sig.Msg{"type": "chat", "privileged": true, "source": c.ID, "username": users[(i+1)%3], "value": val}
	case "umsg":
		m = sig.Msg{"type": "usermessage", "privileged": true, "kind": "x", "source": c.ID, "username": user, "value": val}
	case "umsg-to":
		m = sig.Msg{"type": "usermessage", "privileged": true, "kind": "x", "source": c.ID, "username": user, "dest": o.Arg, "value": val}
	case "clear-all":
		m = sig.Msg{"type": "groupaction", "kind": "clearchat", "source": c.ID, "username": user}
	case "clear-user":
		m = sig.Msg{"type": "groupaction", "kind": "clearchat", "source": c.ID, "username": user, "value": map[string]any{"userId": o.Arg}}
	case "clear-one":
		// the oldest entry of the reference history of my group
		id, src := "nope", c.ID
		if me != nil && len(w.hist[me.group]) > 0 {
			id, src = w.hist[me.group][0].id, w.hist[me.group][0].source
		}
		m = sig.Msg{"type": "groupaction", "kind": "clearchat", "source": c.ID, "username": user, "value": map[string]any{"userId": src, "id": id}}
	case "clear-idonly":
		m = sig.Msg{"type": "groupaction", "kind": "clearchat", "source": c.ID, "username": user, "value": map[string]any{"id": "x"}}
	case "clear-bad":
		m = sig.Msg{"type": "groupaction", "kind": "clearchat", "source": c.ID, "username": user, "value": "junk"}
	}
	w.nchat++
	obs := w.w.Send(i, m)
	if obs.Panic != "" {
		return &core.Violation{Signature: "C15/panic/" + sig.PanicSite(obs.Panic), What: "panic while handling " + fmt.Sprint(m) + ": " + obs.Panic}
	}
	// let every queued action be handled (the property quantifies over
	// histories, not schedules)
	settled := make([][]sig.Msg, len(w.w.Clients))
	for k := range settled {
		settled[k] = append(settled[k], obs.New[k]...)
	}
	if p := w.w.Settle(func(kind string, _ int, so sig.Obs) {
		for k := range so.New {
			settled[k] = append(settled[k], so.New[k]...)
		}
	}); p != "" {
		return &core.Violation{Signature: "C15/panic/" + sig.PanicSite(p), What: "panic while settling after " + fmt.Sprint(m) + ": " + p}
	}
	return w.check(o, i, m, obs.Err, settled)
}

// chats returns the chat-like messages written to client k.
func chats(ms []sig.Msg, types ...string) []sig.Msg {
	var r []sig.Msg
	for _, m := range ms {
		for _, t := range types {
			if m["type"] == t {
				r = append(r, m)
			}
		}
	}
	return r
}

func isErr(m sig.Msg) bool { return m["type"] == "usermessage" && (m["kind"] == "error") }

func (w *world) members(g string) []int {
	var r []int
	for i, m := range w.mem {
		if m.group == g {
			r = append(r, i)
		}
	}
	sort.Ints(r)
	return r
}

func (w *world) check(o op, i int, m sig.Msg, herr string, got [][]sig.Msg) *core.Violation {
	c := w.w.Clients[i]
	me := w.mem[i]
	// generic authenticity: any chat/usermessage (not server-generated
	// errors/warnings, which carry no source) written to anyone names the
	// true sender or nothing
	for k := range got {
		for _, x := range chats(got[k], "chat", "usermessage") {
			if s(x["source"]) == "" && x["username"] == nil {
				continue
			}
			if x["source"] != nil && s(x["source"]) != "" && s(x["source"]) != c.ID {
				return viol("forged-source", fmt.Sprintf("client c%d received a %v whose source %q is not the sender %s", k, x["type"], x["source"], c.ID))
			}
			if x["username"] != nil && me != nil && s(x["username"]) != me.username && s(x["username"]) != "" {
				return viol("forged-username", fmt.Sprintf("client c%d received a %v whose username %q is not the sender's (%s)", k, x["type"], x["username"], me.username))
			}
		}
	}
	userChats := func(k int) []sig.Msg {
		var r []sig.Msg
		for _, x := range chats(got[k], "chat", "usermessage") {
			if isErr(x) || x["kind"] == "clearchat" || x["kind"] == "warning" || x["kind"] == "kicked" {
				continue
			}
			r = append(r, x)
		}
		return r
	}
	expectNone := func(why string) *core.Violation {
		for k := range got {
			if len(userChats(k)) > 0 {
				return viol("forwarded-despite-"+why, fmt.Sprintf("%s: message %v by %s was forwarded to c%d", why, m, c.ID, k))
			}
		}
		return nil
	}
	switch o.Kind {
	case "join":
		// refused joins do not concern chat; accepted ones replay history
		joined := false
		for _, x := range got[i] {
			if x["type"] == "joined" && x["kind"] == "join" {
				joined = true
			}
		}
		if !joined {
			return nil
		}
		perms := map[string]bool{}
		for _, x := range got[i] {
			if x["type"] == "joined" && x["kind"] == "join" {
				ps, _ := x["permissions"].([]any)
				for _, p := range ps {
					perms[s(p)] = true
				}
			}
		}
		w.mem[i] = &member{group: o.Arg, username: users[i], perms: perms}
		// expected replay: entries not older than the age, at most 50
		age := 4 * 3600
		if o.Arg == "g" {
			age = 10
		}
		var exp []entry
		for _, e := range w.hist[o.Arg] {
			if w.now-e.at <= age {
				exp = append(exp, e)
			}
		}
		rep := chats(got[i], "chathistory")
		if len(rep) > 50 {
			return viol("history-too-long", fmt.Sprintf("%d history entries replayed", len(rep)))
		}
		for _, x := range rep {
			t, err := time.Parse(time.RFC3339, s(x["time"]))
			if err == nil && vtime.Now().Sub(t) > time.Duration(age)*time.Second+time.Second {
				return viol("history-too-old", fmt.Sprintf("replayed entry %v is older than the configured age %ds", x["value"], age))
			}
		}
		if len(rep) != len(exp) {
			var a, b []string
			for _, x := range rep {
				a = append(a, s(x["value"]))
			}
			for _, e := range exp {
				b = append(b, e.value)
			}
			cls := "history-replay-differs"
			if len(rep) < len(exp) {
				cls = "history-entry-missing"
			}
			return viol(cls, fmt.Sprintf("joiner %s of %s was replayed %v, expected %v", c.ID, o.Arg, a, b))
		}
		for k, x := range rep {
			e := exp[k]
			if s(x["value"]) != e.value || s(x["source"]) != e.source || s(x["kind"]) != e.kind ||
				(x["username"] != nil && s(x["username"]) != e.username) {
				return viol("history-replay-differs", fmt.Sprintf("history entry %d is %v, expected %+v", k, x, e))
			}
		}
		w.outcome = fmt.Sprintf("join/%d", len(rep))
		return nil
	case "leave":
		if me != nil {
			delete(w.mem, i)
		}
		return nil
	case "spoof-source", "spoof-username":
		if v := expectNone("spoof"); v != nil {
			return v
		}
		if !c.V.Closed {
			return viol("spoofer-not-disconnected", fmt.Sprintf("%s claimed another client's id/name in %v and was not disconnected", c.ID, m))
		}
		delete(w.mem, i)
		return nil
	}
	if me == nil {
		// not a member: nothing may be forwarded
		return expectNone("non-member")
	}
	if herr != "" {
		delete(w.mem, i)
	}
	switch o.Kind {
	case "chat", "chat-noecho", "chat-caption", "chat-me", "chat-id", "chat-anon", "umsg":
		need := "message"
		if o.Kind == "chat-caption" {
			need = "caption"
		}
		if !me.perms[need] {
			return expectNone("missing-permission")
		}
		want := map[int]bool{}
		for _, k := range w.members(me.group) {
			if !w.w.Clients[k].V.WriterDead {
				want[k] = true
			}
		}
		if o.Kind == "chat-noecho" {
			delete(want, i)
		}
		var sample sig.Msg
		for k := range got {
			uc := userChats(k)
			if want[k] && len(uc) != 1 {
				return viol("broadcast-not-delivered", fmt.Sprintf("%v by %s: member c%d of %s received %d copies", m["type"], c.ID, k, me.group, len(uc)))
			}
			if !want[k] && len(uc) != 0 {
				cls := "delivered-to-non-recipient"
				if k == i {
					cls = "echoed-despite-noecho"
				} else if w.mem[k] == nil || w.mem[k].group != me.group {
					cls = "delivered-outside-group"
				}
				return viol(cls, fmt.Sprintf("%v by %s (group %s) was delivered to c%d", m["type"], c.ID, me.group, k))
			}
			if len(uc) == 1 {
				sample = uc[0]
				if s(uc[0]["value"]) != s(m["value"]) {
					return viol("value-changed", "chat value changed in transit")
				}
				p, _ := uc[0]["privileged"].(bool)
				if p != me.perms["op"] {
					return viol("privileged-flag-wrong", fmt.Sprintf("message by %s (op=%v) delivered with privileged=%v", c.ID, me.perms["op"], p))
				}
			}
		}
		if m["type"] == "chat" {
			id := ""
			if sample != nil {
				id = s(sample["id"])
			}
			h := append(w.hist[me.group], entry{id: id, source: s(m["source"]), username: s(m["username"]), kind: s(m["kind"]), value: s(m["value"]), at: w.now})
			if len(h) > 50 {
				h = h[len(h)-50:]
			}
			w.hist[me.group] = h
		}
		w.outcome = fmt.Sprintf("%s/%d", o.Kind, len(want))
	case "chat-to", "umsg-to":
		if !me.perms["message"] {
			return expectNone("missing-permission")
		}
		dest := -1
		for k, cl := range w.w.Clients {
			if cl.ID == o.Arg && w.mem[k] != nil && w.mem[k].group == me.group {
				dest = k
			}
		}
		for k := range got {
			uc := userChats(k)
			if k == dest && w.w.Clients[k].V.WriterDead {
				// nothing can be written to a member whose writer has died
				if len(uc) != 0 {
					return viol("unicast-leaked", "a message was written to a dead writer's channel")
				}
			} else if k == dest {
				if len(uc) != 1 {
					return viol("unicast-not-delivered", fmt.Sprintf("private %v by %s to member %s: %d copies delivered", m["type"], c.ID, o.Arg, len(uc)))
				}
				p, _ := uc[0]["privileged"].(bool)
				if p != me.perms["op"] {
					return viol("privileged-flag-wrong", fmt.Sprintf("message by %s (op=%v) delivered with privileged=%v", c.ID, me.perms["op"], p))
				}
			} else if len(uc) != 0 {
				return viol("unicast-leaked", fmt.Sprintf("private %v by %s to %s was also delivered to c%d", m["type"], c.ID, o.Arg, k))
			}
		}
		w.outcome = fmt.Sprintf("%s/%v", o.Kind, dest >= 0)
	case "clear-all", "clear-user", "clear-one", "clear-idonly", "clear-bad":
		if v, ok := m["value"].(map[string]any); ok && s(v["userId"]) == "" && s(v["id"]) != "" {
			return nil // a message id without a user id is refused by the protocol
		}
		if !me.perms["op"] || o.Kind == "clear-idonly" || o.Kind == "clear-bad" {
			// nothing changes; checked at the next join by the replay oracle
			return nil
		}
		var nh []entry
		v, _ := m["value"].(map[string]any)
		uid, id := "", ""
		if v != nil {
			uid, id = s(v["userId"]), s(v["id"])
		}
		if m["value"] != nil {
			for _, e := range w.hist[me.group] {
				if !(e.source == uid && (id == "" || e.id == id)) {
					nh = append(nh, e)
				}
			}
		}
		w.hist[me.group] = nh
	}
	return nil
}

func (w *world) Canon() string {
	var b strings.Builder
	b.WriteString(w.w.Canon())
	fmt.Fprintf(&b, "\nnow=%d", w.now)
	for i, c := range w.w.Clients {
		if c.V.WriterDead {
			fmt.Fprintf(&b, "|dead%d", i)
		}
	}
	for _, g := range []string{"g", "h"} {
		for _, e := range w.hist[g] {
			fmt.Fprintf(&b, "|%s:%s:%d", g, e.value, w.now-e.at)
		}
	}
	return b.String()
}

func (w *world) Outcome() string { return w.outcome }

func cfg(alpha string) seqx.Config {
	d := core.Pick(4, 7)
	if alpha == "full" {
		d = core.Pick(3, 5)
	}
	return seqx.Config{Name: "chat/" + alpha, Fresh: fresh(alpha), MaxDepth: d, Parallel: 1}
}

// racePrograms: message handlers of different clients interleaved at every
// lock operation (Engine D world under the Engine B scheduler).
func racePrograms() []sig.RaceProgram {
	groups := map[string]string{"g": groupG, "h": groupH}
	chatSeen := func(w *sig.World, k int, value string) (live, replayed int) {
		for _, m := range w.Clients[k].Out {
			if s(m["value"]) == value {
				if m["type"] == "chat" {
					live++
				} else if m["type"] == "chathistory" {
					replayed++
				}
			}
		}
		return
	}
	joined := func(w *sig.World) {
		w.Send(0, sig.Join("g", "alice", "pa"))
		w.Send(1, sig.Join("g", "bob", "pb"))
	}
	drain := func(w *sig.World, i int) {
		for n := 0; n < 20; n++ {
			o := w.Drain(i)
			if len(w.Signalled()) == 0 || o.Panic != "" {
				return
			}
		}
	}
	return []sig.RaceProgram{
		{Name: "chat-vs-join", Groups: groups, Clients: 3, Setup: joined, MaxPreempt: core.Pick(2, 3),
			Names: []string{"c0:chat", "c2:join+replay"},
			Threads: []func(w *sig.World){
				func(w *sig.World) {
					w.Send(0, sig.Msg{"type": "chat", "source": "c0", "username": "alice", "value": "hello"})
				},
				func(w *sig.World) { w.Send(2, sig.Join("g", "carol", "pc")); drain(w, 2) },
			},
			Final: func(w *sig.World) (string, *core.Violation) {
				live, rep := chatSeen(w, 2, "hello")
				if live+rep == 0 {
					return "", &core.Violation{Signature: "C15/race/broadcast-lost-for-concurrent-joiner",
						What: "a client that joined while a broadcast chat was being handled received it neither live nor in its history replay"}
				}
				l1, _ := chatSeen(w, 1, "hello")
				if l1 != 1 {
					return "", &core.Violation{Signature: "C15/race/broadcast-not-delivered", What: "an established member did not receive the broadcast exactly once"}
				}
				return fmt.Sprintf("live%d/replay%d", live, rep), nil
			}},
		{Name: "full-history-chat-vs-join", Groups: groups, Clients: 3, Setup: func(w *sig.World) {
			joined(w)
			for k := 0; k < 50; k++ {
				w.Send(1, sig.Msg{"type": "chat", "source": "c1", "username": "bob", "value": fmt.Sprintf("m%02d", k)})
			}
		}, MaxPreempt: core.Pick(1, 2),
			Names: []string{"c0:chat", "c2:join+replay"},
			Threads: []func(w *sig.World){
				func(w *sig.World) {
					w.Send(0, sig.Msg{"type": "chat", "source": "c0", "username": "alice", "value": "m50"})
				},
				func(w *sig.World) { w.Send(2, sig.Join("g", "carol", "pc")); drain(w, 2) },
			},
			Final: func(w *sig.World) (string, *core.Violation) {
				// the replay is an in-order run of consecutive messages without
				// repeats, blanks or holes
				var vals []string
				for _, m := range w.Clients[2].Out {
					if m["type"] == "chathistory" {
						vals = append(vals, s(m["value"]))
					}
				}
				if len(vals) > 50 {
					return "", &core.Violation{Signature: "C15/race/history-too-long", What: fmt.Sprint(len(vals))}
				}
				for k := range vals {
					var n, prev int
					if _, err := fmt.Sscanf(vals[k], "m%d", &n); err != nil {
						return "", &core.Violation{Signature: "C15/race/history-entry-corrupted", What: fmt.Sprintf("history replay contains %q: %v", vals[k], vals)}
					}
					if k > 0 {
						fmt.Sscanf(vals[k-1], "m%d", &prev)
						if n != prev+1 {
							return "", &core.Violation{Signature: "C15/race/history-entry-repeated-or-skipped", What: fmt.Sprintf("history replayed to a joiner while a message was posted to a full history is not a run of consecutive messages: %v", vals)}
						}
					}
				}
				return fmt.Sprint(len(vals)), nil
			}},
		{Name: "chat-vs-clearchat-vs-join", Groups: groups, Clients: 3, Setup: func(w *sig.World) {
			joined(w)
			w.Send(1, sig.Msg{"type": "chat", "source": "c1", "username": "bob", "value": "old"})
		}, MaxPreempt: core.Pick(2, 3),
			Names: []string{"c0:clearchat", "c1:chat", "c2:join+replay"},
			Threads: []func(w *sig.World){
				func(w *sig.World) {
					w.Send(0, sig.Msg{"type": "groupaction", "kind": "clearchat", "source": "c0", "username": "alice"})
				},
				func(w *sig.World) {
					w.Send(1, sig.Msg{"type": "chat", "source": "c1", "username": "bob", "value": "new"})
				},
				func(w *sig.World) { w.Send(2, sig.Join("g", "carol", "pc")); drain(w, 2) },
			},
			Final: func(w *sig.World) (string, *core.Violation) {
				// replay is an in-order subsequence of what was broadcast: "old" never after "new"
				var vals []string
				for _, m := range w.Clients[2].Out {
					if m["type"] == "chathistory" {
						vals = append(vals, s(m["value"]))
					}
				}
				if strings.Join(vals, ",") == "new,old" {
					return "", &core.Violation{Signature: "C15/race/history-out-of-order", What: "history replayed out of order: " + strings.Join(vals, ",")}
				}
				for _, m := range w.Clients[2].Out {
					if (m["type"] == "chat" || m["type"] == "chathistory") && s(m["source"]) != "c1" {
						return "", &core.Violation{Signature: "C15/race/forged-source", What: fmt.Sprint(m)}
					}
				}
				return strings.Join(vals, ","), nil
			}},
	}
}

func runRaces(res *core.Result, shard, shards int) {
	sig.Scheduled = true
	for _, p := range racePrograms() {
		if !core.Want("race/" + p.Name) {
			continue
		}
		sub := vrt.Explore(p.Program("C15/race"), res, shard, shards)
		sub.Name = "race/" + p.Name
		res.AddSub(sub)
	}
	sig.Cleanup()
}

func main() {
	t0 := time.Now()
	o := core.ParseFlags(80, 1200)
	res := &core.Result{Property: "C15", Tier: o.Tier,
		Technique: "explicit-state BFS over chat/usermessage/clearchat/join/leave/tick sequences through the real handleClientMessage; all websocket output compared with a reference chat model; conformance of the handler mirror against the real StartClient over websockets on all ordered message pairs"}
	defer sig.Cleanup()
	if o.Replay != "" {
		replay(o.Replay)
		return
	}
	if o.Shard >= 0 && flag.Arg(0) == "race" {
		runRaces(res, o.Shard, o.Shards)
		core.Finish(res, t0)
	}
	if o.Shard >= 0 && flag.Arg(0) == "wire" {
		if core.Want("wire/pairs") {
			runWire(res, o.Shard, o.Shards)
		}
		runBackpressure(res, o.Shard, o.Shards)
		sig.Cleanup()
		core.Finish(res, t0)
	}
	if o.Shard < 0 {
		core.RunShards(res, core.NCPU(), nil, nil)
		core.RunShards(res, 4, []string{"race"}, nil)
		core.RunShards(res, 4, []string{"wire"}, nil)
		res.Assume("queued actions are handled to quiescence after every message (the property quantifies over histories and inputs, not schedules); client k always logs in as the k-th configured user")
		core.Finish(res, t0)
	}
	// shard by (alphabet, preset, first operation after the preset)
	job := 0
	agg := map[string]*core.Sub{}
	presets := map[string][]seqx.Op{
		"empty":      nil,
		"two-joined": {op{C: 0, Kind: "join", Arg: "g"}, op{C: 1, Kind: "join", Arg: "g"}},
		"two-groups": {op{C: 0, Kind: "join", Arg: "g"}, op{C: 1, Kind: "join", Arg: "h"}, op{C: 2, Kind: "join", Arg: "g"}},
		"chatted":    {op{C: 0, Kind: "join", Arg: "g"}, op{C: 1, Kind: "join", Arg: "g"}, op{C: 0, Kind: "chat-id"}, op{C: 1, Kind: "chat-id"}, op{C: 1, Kind: "chat"}},
	}
	pnames := []string{"empty", "two-joined", "two-groups", "chatted"}
	for _, a := range []string{"small", "full"} {
		for _, pn := range pnames {
			pre := presets[pn]
			w0 := fresh(a)()
			for _, x := range pre {
				if v := w0.Apply(x); v != nil {
					v.Replay = map[string]any{"config": "chat/" + a, "ops": pre}
					res.Violate(*v)
				}
			}
			first := w0.Ops()
			w0.(*world).Close()
			for _, f := range first {
				job++
				if job%o.Shards != o.Shard {
					continue
				}
				c := cfg(a)
				c.Prefix = append(append([]seqx.Op{}, pre...), f)
				if pn != "empty" {
					c.MaxDepth = len(pre) + core.Pick(3, 5)
				}
				sub := seqx.Explore(c, res)
				if x := agg[a]; x == nil {
					sub.Name = "chat/" + a
					sub.Bound = fmt.Sprintf("from the empty state (depth<=%d) and 3 presets (depth<=%d beyond the preset)", cfg(a).MaxDepth, core.Pick(3, 5))
					agg[a] = &sub
				} else {
					x.States += sub.States
					x.Transitions += sub.Transitions
					x.Executions += sub.Executions
					x.Exhaustive = x.Exhaustive && sub.Exhaustive
					if sub.Outcomes > x.Outcomes {
						x.Outcomes = sub.Outcomes
					}
				}
			}
		}
	}
	for _, a := range []string{"small", "full"} {
		if x := agg[a]; x != nil {
			res.AddSub(*x)
		}
	}
	if s := sig.RoleTableCorruption; s != "" {
		res.Assume("note: role table was modified by moderation actions during exploration (C08/C11 report this): " + s)
	}
	sig.Cleanup()
	core.Finish(res, t0)
}

func replay(path string) {
	data, err := os.ReadFile(path)
	if err != nil {
		fmt.Println(err)
		os.Exit(2)
	}
	var a struct {
		Replay struct {
			Config string `json:"config"`
			Ops    []op   `json:"ops"`
			Wire   []int  `json:"wire_pair"`
			BackP  int    `json:"back_pressure"`
		} `json:"replay"`
	}
	if err := json.Unmarshal(data, &a); err != nil {
		fmt.Println(err)
		os.Exit(2)
	}
	if a.Replay.Wire != nil || a.Replay.BackP > 0 {
		// short conformance sub-checks: the whole sub-check is the replay
		r := &core.Result{Property: "C15"}
		if a.Replay.Wire != nil {
			runWire(r, 0, 1)
		} else {
			runBackpressure(r, 0, 1)
		}
		sig.Cleanup()
		if len(r.Violations) > 0 {
			fmt.Printf("VIOLATION property=C15 replay=%s\n  %s\n", path, r.Violations[0].What)
			os.Exit(1)
		}
		fmt.Println("replay: no violation")
		return
	}
	ops := make([]seqx.Op, len(a.Replay.Ops))
	for i, x := range a.Replay.Ops {
		ops[i] = x
	}
	v := seqx.Replay(cfg(strings.TrimPrefix(a.Replay.Config, "chat/")), ops)
	sig.Cleanup()
	if v != nil {
		fmt.Printf("VIOLATION property=C15 replay=%s\n  %s\n", path, v.What)
		os.Exit(1)
	}
	fmt.Println("replay: no violation")
}

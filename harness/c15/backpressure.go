package main

import (
	"encoding/json"
	"fmt"
	"time"

	"verif/core"
	"verif/sig"
	"verif/vrt"
	"verif/vtime"
)

// Back-pressure.  Every other sub-check takes the messages out of a member's
// write queue after every step, so the queue (100 slots in the server) is
// never full.  Here one member's websocket writer stalls: n broadcasts pile
// up in its queue, one more is sent (in the server the sender's loop waits
// for a slot), then the writer resumes.  For every n around the capacity of
// the queue the stalled member must, in the end, have received every
// broadcast, in order.  The sender runs as a real goroutine (the wait is a
// real channel operation); the verdict does not depend on timing: only on
// what the stalled member has received once everything has drained.

func runBackpressure(res *core.Result, shard, shards int) {
	if !core.Want("wire/back-pressure") || shard != 1%shards {
		return
	}
	sub := core.Sub{Name: "wire/back-pressure", Exhaustive: true}
	var outc core.Outcomes
	vrt.SetMode(vrt.Passthrough)
	vtime.SetVirtual(false)
	defer func() {
		vtime.SetVirtual(true)
		vrt.SetMode(vrt.Tasks)
	}()
	for _, n := range []int{1, 50, 98, 99, 100, 101, 102, 150, 250} {
		for _, kind := range []string{"chat", "usermessage"} {
			sub.Executions++
			w := sig.NewWorld(map[string]string{"g": groupG}, 3)
			for i, u := range users {
				w.Send(i, sig.Join("g", u, pws[u]))
				w.Settle(nil)
			}
			got := []int{}
			take := func() {
				for _, b := range w.Clients[1].V.Written() {
					var m map[string]any
					if json.Unmarshal(b, &m) == nil && m["type"] == kind {
						if v, ok := m["value"].(float64); ok {
							got = append(got, int(v))
						}
					}
				}
			}
			take()
			w.Clients[1].V.SetWriteCap(100) // as StartClient
			msg := func(k int) []byte {
				m := map[string]any{"type": kind, "source": "c0", "username": "alice", "value": k}
				if kind == "usermessage" {
					m["kind"] = "x"
				}
				b, _ := json.Marshal(m)
				return b
			}
			done := make(chan string, 1)
			go func() {
				defer func() {
					if r := recover(); r != nil {
						done <- fmt.Sprint("panic: ", r)
					}
				}()
				for k := 0; k <= n; k++ {
					if err := w.Clients[0].V.Handle(msg(k)); err != nil {
						done <- err.Error()
						return
					}
					// the sender's own and the third member's writers keep up
					w.Clients[0].V.Written()
					w.Clients[2].V.Written()
				}
				done <- ""
			}()
			// the stalled member's writer resumes a little later
			fault := ""
			finished := false
			select {
			case fault = <-done:
				finished = true
			case <-time.After(30 * time.Millisecond):
			}
			for t0 := time.Now(); !finished && time.Since(t0) < 10*time.Second; {
				take()
				select {
				case fault = <-done:
					finished = true
				case <-time.After(time.Millisecond):
				}
			}
			take()
			w.Close()
			if !finished {
				sub.Exhaustive = false
				sub.Note = "a sender did not finish within 10 s (environment)"
				continue
			}
			if fault != "" {
				res.Violate(core.Violation{Signature: "C15/back-pressure/sender-failed", Sub: sub.Name,
					What: fmt.Sprintf("%d %s broadcasts to a member whose writer is stalled, then one more: the sender's handler failed: %s", n, kind, fault)})
				continue
			}
			ok := len(got) == n+1
			for k := range got {
				if got[k] != k {
					ok = false
				}
			}
			outc.Add(fmt.Sprint(n >= 100, ok))
			if !ok {
				res.Violate(core.Violation{Signature: "C15/back-pressure/broadcast-lost-for-slow-member", Sub: sub.Name,
					What:   fmt.Sprintf("%d %s broadcasts pile up for a member whose websocket writer is momentarily stalled, one more is sent, the writer resumes: the member received %d of %d broadcasts (the queue holds 100): a broadcast sent while the queue was full was not delivered to a connected member", n, kind, len(got), n+1),
					Replay: map[string]any{"back_pressure": n}})
			}
		}
	}
	sub.States, sub.Transitions, sub.Outcomes = sub.Executions, sub.Executions, outc.N()
	sub.Bound = "queued broadcasts n in {1,50,98..102,150,250} x {chat, usermessage}, then one more, then the writer resumes"
	res.AddSub(sub)
}

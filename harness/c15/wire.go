package main

import (
	"encoding/json"
	"fmt"
	"net/http"
	"net/http/httptest"
	"sort"
	"strings"
	"time"

	"github.com/gorilla/websocket"

	"github.com/jech/galene/group"
	"github.com/jech/galene/rtpconn"

	"verif/core"
	"verif/sig"
	"verif/vrt"
	"verif/vtime"
)

// Conformance of the signalling mirror.  Every other sub-check drives the
// real handleClientMessage/handleAction through a mirror of clientLoop that
// decodes each message into a fresh value (as the reader does) and never runs
// the websocket reader, writer and loop goroutines.  Here the same short
// histories run twice: through the mirror, and over real websockets through
// the real StartClient (reader, writer, loop, JSON on the wire).  Every
// ordered pair of chat/user messages of a 9-message alphabet (optional fields
// present in one message and absent in the next, in both orders) is sent by
// one member; what each of the three members receives must be the same on
// both paths.

type wireMsg = map[string]any

func wireAlphabet() []wireMsg {
	return []wireMsg{
		{"type": "chat", "source": "c0", "username": "alice", "value": "A"},
		{"type": "chat", "source": "c0", "username": "alice", "dest": "c1", "value": "B"},
		{"type": "chat", "source": "c0", "username": "alice", "noecho": true, "value": "C"},
		{"type": "chat", "source": "c0", "username": "alice", "id": "fixed-id", "value": "D"},
		{"type": "chat", "kind": "me", "source": "c0", "username": "alice", "value": "E"},
		{"type": "usermessage", "kind": "x", "source": "c0", "username": "alice", "value": "F"},
		{"type": "usermessage", "kind": "y", "source": "c0", "username": "alice", "dest": "c2", "noecho": true, "value": "G"},
		{"type": "chat", "source": "c0", "username": "alice", "privileged": true, "value": "H"},
		{"type": "chat", "source": "c0", "value": "I"},
	}
}

// digest keeps what the property is about (and drops server-chosen ids and times).
func digest(m map[string]any) string {
	id := ""
	if s, _ := m["id"].(string); s == "fixed-id" {
		id = s
	}
	return fmt.Sprintf("%v/%v src=%v user=%v dest=%v priv=%v noecho=%v id=%v val=%v",
		m["type"], m["kind"], m["source"], m["username"], m["dest"], m["privileged"], m["noecho"], id, m["value"])
}

func isChat(m map[string]any) bool {
	t, _ := m["type"].(string)
	if t != "chat" && t != "usermessage" {
		return false
	}
	if k, _ := m["kind"].(string); k == "error" || k == "warning" {
		return false
	}
	return true
}

// mirrorRun: the pair through the mirror.
func mirrorRun(a, b wireMsg) [3][]string {
	w := sig.NewWorld(map[string]string{"g": groupG}, 3)
	defer w.Close()
	for i, u := range users {
		w.Send(i, sig.Join("g", u, pws[u]))
		w.Settle(nil)
	}
	var out [3][]string
	for _, m := range []wireMsg{a, b} {
		o := w.Send(0, sig.Msg(m))
		w.Settle(nil)
		for k := 0; k < 3; k++ {
			for _, x := range o.New[k] {
				if isChat(x) {
					out[k] = append(out[k], digest(x))
				}
			}
		}
	}
	// anything written while settling is in the clients' logs
	return out
}

type wireClient struct {
	conn *websocket.Conn
	in   chan map[string]any
}

func dial(url, id string) (*wireClient, error) {
	c, _, err := websocket.DefaultDialer.Dial(url, nil)
	if err != nil {
		return nil, err
	}
	wc := &wireClient{conn: c, in: make(chan map[string]any, 256)}
	go func() {
		defer close(wc.in)
		for {
			var m map[string]any
			if err := c.ReadJSON(&m); err != nil {
				return
			}
			wc.in <- m
		}
	}()
	if err := c.WriteJSON(map[string]any{"type": "handshake", "version": []string{"2"}, "id": id}); err != nil {
		return nil, err
	}
	return wc, nil
}

// until reads messages until pred is true for one of them (which is returned
// with everything before it) or the timeout expires.
func (c *wireClient) until(pred func(map[string]any) bool, d time.Duration) ([]map[string]any, bool) {
	var l []map[string]any
	t := time.After(d)
	for {
		select {
		case m, ok := <-c.in:
			if !ok {
				return l, false
			}
			l = append(l, m)
			if pred(m) {
				return l, true
			}
		case <-t:
			return l, false
		}
	}
}

// wireRun: the pair over real websockets; "" if the environment (not the
// server) failed.
func wireRun(url string, a, b wireMsg) ([3][]string, string) {
	var out [3][]string
	var cs [3]*wireClient
	for i, u := range users {
		c, err := dial(url, fmt.Sprintf("c%d", i))
		if err != nil {
			return out, "dial: " + err.Error()
		}
		defer c.conn.Close()
		cs[i] = c
		if _, ok := c.until(func(m map[string]any) bool { return m["type"] == "handshake" }, 5*time.Second); !ok {
			return out, "no handshake reply"
		}
		c.conn.WriteJSON(map[string]any{"type": "join", "kind": "join", "group": "g", "username": u, "password": pws[u]})
		if _, ok := c.until(func(m map[string]any) bool { return m["type"] == "joined" && m["kind"] == "join" }, 5*time.Second); !ok {
			return out, "join of " + u + " not acknowledged"
		}
	}
	// every earlier member must have learnt about the last joiner before the pair is sent
	for i := 0; i < 2; i++ {
		if _, ok := cs[i].until(func(m map[string]any) bool { return m["type"] == "user" && m["kind"] == "add" && m["id"] == "c2" }, 5*time.Second); !ok {
			return out, "membership did not settle"
		}
	}
	end := wireMsg{"type": "chat", "source": "c0", "username": "alice", "dest": "", "noecho": false, "id": "end-marker", "kind": "", "value": "END"}
	for _, m := range []wireMsg{a, b, end} {
		if err := cs[0].conn.WriteJSON(m); err != nil {
			return out, "write: " + err.Error()
		}
	}
	for k := 0; k < 3; k++ {
		l, ok := cs[k].until(func(m map[string]any) bool { return m["type"] == "chat" && m["value"] == "END" }, 5*time.Second)
		for _, x := range l {
			if isChat(x) && x["value"] != "END" {
				out[k] = append(out[k], digest(x))
			}
		}
		if !ok {
			out[k] = append(out[k], "<the broadcast that followed the pair never arrived>")
		}
	}
	return out, ""
}

func runWire(res *core.Result, shard, shards int) {
	sub := core.Sub{Name: "wire/pairs", Exhaustive: true}
	var outc core.Outcomes
	alpha := wireAlphabet()
	type pair struct{ i, j int }
	var pairs []pair
	for i := range alpha {
		for j := range alpha {
			pairs = append(pairs, pair{i, j})
		}
	}
	// 1. the mirror (Tasks mode, virtual clock)
	expected := map[pair][3][]string{}
	for n, p := range pairs {
		if n%shards != shard {
			continue
		}
		expected[p] = mirrorRun(alpha[p.i], alpha[p.j])
	}
	// 2. the wire (real goroutines, real clock)
	sig.NewWorld(map[string]string{"g": groupG}, 0) // directories and group file
	vrt.SetMode(vrt.Passthrough)
	vtime.SetVirtual(false)
	defer func() {
		vtime.SetVirtual(true)
		vrt.SetMode(vrt.Tasks)
	}()
	up := websocket.Upgrader{}
	srv := httptest.NewServer(http.HandlerFunc(func(w http.ResponseWriter, r *http.Request) {
		c, err := up.Upgrade(w, r, nil)
		if err != nil {
			return
		}
		go rtpconn.StartClient(c, nil)
	}))
	defer srv.Close()
	url := "ws" + strings.TrimPrefix(srv.URL, "http")
	envFailures := 0
	var keys []pair
	for p := range expected {
		keys = append(keys, p)
	}
	sort.Slice(keys, func(a, b int) bool { return keys[a].i*100+keys[a].j < keys[b].i*100+keys[b].j })
	for _, p := range keys {
		sub.Executions++
		got, env := wireRun(url, alpha[p.i], alpha[p.j])
		if env != "" {
			envFailures++
			continue
		}
		want := expected[p]
		for k := 0; k < 3; k++ {
			if strings.Join(got[k], "\n") != strings.Join(want[k], "\n") {
				a, _ := json.Marshal(alpha[p.i])
				b, _ := json.Marshal(alpha[p.j])
				res.Violate(core.Violation{Signature: "C15/wire-differs-from-handlers", Sub: sub.Name,
					What: fmt.Sprintf("alice sends %s then %s on one connection: over a real websocket (StartClient: reader, loop, writer) member c%d receives %q, while the handlers given each message decoded on its own deliver %q — something carried over from one message to the next, or was lost, between the socket and the handlers",
						a, b, k, got[k], want[k]),
					Replay: map[string]any{"wire_pair": []int{p.i, p.j}}})
				break
			}
		}
		outc.Add(fmt.Sprint(len(got[0]), len(got[1]), len(got[2])))
		// let the group empty itself before the next pair
		for n := 0; n < 200; n++ {
			if g := group.Get("g"); g == nil || len(g.GetClients(nil)) == 0 {
				break
			}
			time.Sleep(2 * time.Millisecond)
		}
	}
	if envFailures > 0 {
		sub.Exhaustive = false
		sub.Note = fmt.Sprintf("%d pairs could not be run (websocket environment)", envFailures)
	}
	sub.States, sub.Transitions, sub.Outcomes = sub.Executions, sub.Executions, outc.N()
	sub.Bound = fmt.Sprintf("all %d ordered pairs of a %d-message alphabet sent by one member on one connection, three members; mirror vs real websocket", len(pairs), len(alpha))
	res.AddSub(sub)
}

// C09 — a token authorises only its own group scope, validity window and
// permissions.
//
// Full Cartesian products of small alphabets are driven through the real
// token.Stateful.Check, token.Parse(...).Check, group.Description.GetPermission
// and webserver.checkGlobalAdminToken, and every evaluation is compared with a
// reference written from the property statement (see "reference" below).
//
// The property is an "only if": an acceptance that the reference forbids, or
// an acceptance that grants another username / other permissions than the
// token carries, is a violation.  A refusal that the reference would have
// allowed is counted and reported ("stricter"), never alarmed on.
//
// Stateful tokens run on the virtual clock (exact instants).  Signed tokens
// are checked by the third-party JWT library against the REAL clock; their
// time claims keep margins of >= 60 s and no verdict is asserted at a boundary.
package main

import (
	"crypto/ecdsa"
	"crypto/elliptic"
	"crypto/rand"
	"crypto/rsa"
	"crypto/x509"
	"encoding/base64"
	"encoding/json"
	"encoding/pem"
	"fmt"
	"os"
	"path/filepath"
	"sort"
	"strings"
	"time"

	jwt "github.com/golang-jwt/jwt/v5"

	"github.com/jech/galene/group"
	"github.com/jech/galene/token"
	"github.com/jech/galene/webserver"

	"verif/core"
	"verif/seqx"
	"verif/vtime"
)

// ===================================================================
// reference (written from the property statement, independent of galene)
// ===================================================================

const configuredUser = "alice"

// refCovers: does a token scoped to group `named` (covering subgroups iff sub)
// authorise group g?  Whole path components; the root scope "" is only
// covered by a root token that covers subgroups.
func refCovers(named string, sub bool, g string) bool {
	if g == "" {
		return named == "" && sub
	}
	if named == g {
		return true
	}
	if !sub {
		return false
	}
	if named == "" {
		return true
	}
	return isAncestor(named, g)
}

// isAncestor: a is a proper ancestor of g by whole path components.
func isAncestor(a, g string) bool {
	if a == "" || g == "" {
		return false
	}
	ac, gc := strings.Split(a, "/"), strings.Split(g, "/")
	if len(ac) >= len(gc) {
		return false
	}
	for i := range ac {
		if ac[i] != gc[i] {
			return false
		}
	}
	return true
}

// scopeClass names the class of a scope mismatch (only called when
// refCovers is false); it is the narrow part of a violation signature.
func scopeClass(named string, sub bool, g string) string {
	switch {
	case g == "":
		return "root-scope-by-lesser-token"
	case named == "" && !sub:
		return "root-token-without-subgroups"
	case isAncestor(named, g) && !sub:
		return "ancestor-without-subgroups"
	case strings.HasPrefix(g, named):
		return "prefix-without-slash"
	case isAncestor(g, named) || strings.HasPrefix(named, g):
		return "descendant-token-for-ancestor"
	}
	return "unrelated-group"
}

// refWindow returns "" when now lies within [nb, exp] (a token without
// expiry is never valid), else the class of the failure.
func refWindow(now time.Time, exp, nb *time.Time) string {
	if exp == nil {
		return "no-expiry"
	}
	if now.UnixNano() > exp.UnixNano() {
		return "after-expiry"
	}
	if nb != nil && now.UnixNano() < nb.UnixNano() {
		return "before-not-before"
	}
	return ""
}

// refUser: the token's username if set (non-empty), else the client's; a
// client-chosen username equal to a configured user is refused (shadow).
func refUser(tokUser string, cli *string) (user string, shadow bool) {
	if tokUser != "" {
		return tokUser, false
	}
	if cli == nil {
		return "", false
	}
	if *cli == configuredUser {
		return "", true
	}
	return *cli, false
}

type audEntry struct{ Host, Path string } // Host "" = URL without scheme and host

func (e audEntry) url() string {
	if e.Host == "" {
		return e.Path
	}
	return "https://" + e.Host + e.Path
}

// refAudience: some audience entry names this server (when a canonical host
// is configured; case-insensitive) AND this group or, with include-subgroups,
// an ancestor of it (whole components).  A missing trailing slash is not held
// against the token (the statement only asks that the audience names the
// group).
func refAudience(aud []audEntry, canon, g string, incl bool) (bool, string) {
	if len(aud) == 0 {
		return false, "no-audience"
	}
	anyHost, anyPath := false, false
	pathClass, hostClass := "", ""
	for _, e := range aud {
		h := canon == "" || strings.ToLower(e.Host) == strings.ToLower(canon)
		p, c := false, "not-under-group"
		if strings.HasPrefix(e.Path, "/group/") {
			named := strings.TrimSuffix(strings.TrimPrefix(e.Path, "/group/"), "/")
			p = refCovers(named, incl, g)
			c = scopeClass(named, incl, g)
		}
		if h && p {
			return true, ""
		}
		if h {
			anyHost = true
			if pathClass == "" {
				pathClass = c
			}
		}
		if p {
			anyPath = true
			if e.Host == "" {
				hostClass = "no-host"
			} else {
				hostClass = "other-host"
			}
		}
	}
	switch {
	case anyHost && anyPath:
		return false, "host-and-group-from-different-entries"
	case anyPath:
		return false, hostClass
	case anyHost:
		return false, pathClass
	}
	return false, "wrong-host-and-group"
}

// refSignature: the token is a properly signed token whose signature was made
// with the material of one of the group's keys, and the algorithm declared in
// its header is the algorithm declared for that key.  Known by construction
// (the harness signed the token), no cryptography here.  kidOK additionally
// reports whether the header's key id (if any) is that key's id; it is not
// part of the statement and only counted.
func refSignature(s *signer, ks *keyset) (ok bool, class string, kidOK bool) {
	if !s.Intact {
		return false, s.Defect, false
	}
	inSet := false
	for _, e := range ks.E {
		if e.Key != s.KeyName {
			continue
		}
		inSet = true
		if keyAlg[e.Key] == s.HeaderAlg {
			kid := e.kid()
			return true, "", s.Kid == "" || s.Kid == kid
		}
	}
	if inSet {
		if s.Defect != "" {
			return false, s.Defect, false
		}
		return false, "header-alg-differs-from-key-alg", false
	}
	return false, "key-not-in-set", false
}

func equalPerms(a, b []string) bool {
	if len(a) != len(b) {
		return false
	}
	for i := range a {
		if a[i] != b[i] {
			return false
		}
	}
	return true
}

func permsClass(got, want []string) string {
	in := func(x string, l []string) bool {
		for _, y := range l {
			if x == y {
				return true
			}
		}
		return false
	}
	for _, g := range got {
		if !in(g, want) {
			return "extra-permission"
		}
	}
	for _, w := range want {
		if !in(w, got) {
			return "missing-permission"
		}
	}
	return "different-list"
}

// ===================================================================
// alphabets
// ===================================================================

var groupsA = []string{"", "a", "ab", "a/b", "a/bc", "a/b/c", "b"}

func dur(d time.Duration) *time.Duration { return &d }
func str(s string) *string               { return &s }

var expOffs = []*time.Duration{nil, dur(-1), dur(0), dur(1), dur(time.Hour)}
var expNames = []string{"nil", "now-1ns", "now", "now+1ns", "now+1h"}
var nbOffs = []*time.Duration{nil, dur(-1), dur(0), dur(1)}
var nbNames = []string{"nil", "now-1ns", "now", "now+1ns"}
var tokUsers = []*string{nil, str(""), str("alice"), str("zed")}
var cliUsers = []*string{nil, str("alice"), str("zed"), str("")}
var stPerms = [][]string{nil, {}, {"present"}, {"op", "present"}, {"admin"}}

func pstr(p *string) string {
	if p == nil {
		return "nil"
	}
	return fmt.Sprintf("%q", *p)
}

// stTok identifies one stateful token of the product (indices into the
// alphabets above).
type stTok struct {
	TG  int  `json:"tokenGroup"`
	Sub bool `json:"includeSubgroups"`
	Exp int  `json:"expires"`
	NB  int  `json:"notBefore"`
	TU  int  `json:"tokenUsername"`
	P   int  `json:"permissions"`
}

func (t stTok) name() string {
	s := 0
	if t.Sub {
		s = 1
	}
	return fmt.Sprintf("st%d-%d-%d-%d-%d-%d", t.TG, s, t.Exp, t.NB, t.TU, t.P)
}

func (t stTok) String() string {
	return fmt.Sprintf("token{group=%q includeSubgroups=%v expires=%s not-before=%s username=%s permissions=%v}",
		groupsA[t.TG], t.Sub, expNames[t.Exp], nbNames[t.NB], pstr(tokUsers[t.TU]), stPerms[t.P])
}

func (t stTok) build(now time.Time) *token.Stateful {
	st := &token.Stateful{Token: t.name(), Group: groupsA[t.TG], IncludeSubgroups: t.Sub,
		Username: tokUsers[t.TU], Permissions: stPerms[t.P]}
	if o := expOffs[t.Exp]; o != nil {
		e := now.Add(*o)
		st.Expires = &e
	}
	if o := nbOffs[t.NB]; o != nil {
		n := now.Add(*o)
		st.NotBefore = &n
	}
	return st
}

func allStToks() []stTok {
	var l []stTok
	for tg := range groupsA {
		for _, sub := range []bool{false, true} {
			for e := range expOffs {
				for n := range nbOffs {
					for u := range tokUsers {
						for p := range stPerms {
							l = append(l, stTok{tg, sub, e, n, u, p})
						}
					}
				}
			}
		}
	}
	return l
}

// ---- signed tokens ----

var keyAlg = map[string]string{
	"hs256": "HS256", "hs256b": "HS256", "hs384": "HS384", "hs512": "HS512",
	"es256": "ES256", "es256b": "ES256", "rs256": "RS256", "rs256b": "RS256",
	"hs256x": "HS256", "es256x": "ES256", "rs256x": "RS256",
}

var sibling = map[string]string{
	"hs256": "hs256b", "hs256b": "hs256", "hs384": "hs512", "hs512": "hs384",
	"es256": "es256b", "es256b": "es256", "rs256": "rs256b", "rs256b": "rs256",
}

type ksEntry struct {
	Key     string
	WithKid bool
	// Kid, if set, is the key id the entry carries instead of its own
	// ("kid-<other key>"): two groups may well use the same key id for
	// different keys, and nothing learnt from one group's keys may be
	// applied to another's.
	Kid string
}

func (e ksEntry) kid() string {
	if e.Kid != "" {
		return e.Kid
	}
	if e.WithKid {
		return "kid-" + e.Key
	}
	return ""
}

type keyset struct {
	Name  string
	E     []ksEntry
	descs map[string]*group.Description // per checked group, loaded from a JSON group file
	dir   string                        // the group directory holding those files
}

func ksDefs() []*keyset {
	k := func(n string) ksEntry { return ksEntry{Key: n} }
	kk := func(n string) ksEntry { return ksEntry{Key: n, WithKid: true} }
	as := func(n, other string) ksEntry { return ksEntry{Key: n, Kid: "kid-" + other} }
	return []*keyset{
		{Name: "hs256", E: []ksEntry{k("hs256")}},
		{Name: "hs384", E: []ksEntry{k("hs384")}},
		{Name: "hs512", E: []ksEntry{k("hs512")}},
		{Name: "es256", E: []ksEntry{k("es256")}},
		{Name: "rs256", E: []ksEntry{k("rs256")}},
		{Name: "hs256+kid", E: []ksEntry{kk("hs256")}},
		{Name: "es256+kid", E: []ksEntry{kk("es256")}},
		{Name: "rs256+kid", E: []ksEntry{kk("rs256")}},
		{Name: "hs256,es256", E: []ksEntry{k("hs256"), k("es256")}},
		{Name: "hs256+kid,rs256+kid", E: []ksEntry{kk("hs256"), kk("rs256")}},
		{Name: "hs256+kid,hs256b+kid", E: []ksEntry{kk("hs256"), kk("hs256b")}},
		{Name: "es256+kid,es256b+kid", E: []ksEntry{kk("es256"), kk("es256b")}},
		{Name: "rs256+kid,rs256b+kid", E: []ksEntry{kk("rs256"), kk("rs256b")}},
		{Name: "hs256,hs256b", E: []ksEntry{k("hs256"), k("hs256b")}},
		{Name: "hs384+kid,hs512+kid", E: []ksEntry{kk("hs384"), kk("hs512")}},
		{Name: "hs256,es256+kid,rs256", E: []ksEntry{k("hs256"), kk("es256"), k("rs256")}},
		// the same key id as another key set, bound to a different key
		{Name: "hs256b@kid-hs256", E: []ksEntry{as("hs256b", "hs256")}},
		{Name: "rs256b@kid-rs256", E: []ksEntry{as("rs256b", "rs256")}},
		{Name: "es256b@kid-es256,hs256", E: []ksEntry{as("es256b", "es256"), k("hs256")}},
		{Name: "empty", E: nil},
	}
}

// signer describes how a token string is produced; the fields are the ground
// truth the reference uses.
type signer struct {
	Name      string
	HeaderAlg string // alg in the token header
	KeyName   string // key whose material produced the signature ("" = none)
	Kid       string // kid in the header ("" = absent)
	Intact    bool   // a complete signature over exactly the presented header and claims
	Defect    string // class name when !Intact, or the confusion class
	method    jwt.SigningMethod
	key       func(*keys) any
	post      func(signed string, claims jwt.MapClaims) string
}

type keys struct {
	sign map[string]any            // signing key per key name
	jwk  map[string]map[string]any // JWK (without kid) per key name
	pub  map[string][]byte         // public-key encodings used as HMAC secrets
}

func b64(b []byte) string { return base64.RawURLEncoding.EncodeToString(b) }

func genKeys() (*keys, error) {
	ks := &keys{sign: map[string]any{}, jwk: map[string]map[string]any{}, pub: map[string][]byte{}}
	for n, l := range map[string]int{"hs256": 32, "hs256b": 32, "hs256x": 32, "hs384": 48, "hs512": 64} {
		b := make([]byte, l)
		if _, err := rand.Read(b); err != nil {
			return nil, err
		}
		ks.sign[n] = b
		ks.jwk[n] = map[string]any{"kty": "oct", "alg": keyAlg[n], "k": b64(b)}
	}
	for _, n := range []string{"es256", "es256b", "es256x"} {
		k, err := ecdsa.GenerateKey(elliptic.P256(), rand.Reader)
		if err != nil {
			return nil, err
		}
		ks.sign[n] = k
		x, y := k.PublicKey.X.FillBytes(make([]byte, 32)), k.PublicKey.Y.FillBytes(make([]byte, 32))
		ks.jwk[n] = map[string]any{"kty": "EC", "alg": "ES256", "crv": "P-256", "x": b64(x), "y": b64(y)}
		if n == "es256" {
			ks.pub["ec-point"] = append([]byte{4}, append(append([]byte{}, x...), y...)...)
			ks.pub["ec-xy"] = append(append([]byte{}, x...), y...)
			der, err := x509.MarshalPKIXPublicKey(&k.PublicKey)
			if err != nil {
				return nil, err
			}
			ks.pub["ec-pem"] = pem.EncodeToMemory(&pem.Block{Type: "PUBLIC KEY", Bytes: der})
		}
	}
	for _, n := range []string{"rs256", "rs256b", "rs256x"} {
		k, err := rsa.GenerateKey(rand.Reader, 2048)
		if err != nil {
			return nil, err
		}
		ks.sign[n] = k
		e := []byte{byte(k.PublicKey.E >> 16), byte(k.PublicKey.E >> 8), byte(k.PublicKey.E)}
		ks.jwk[n] = map[string]any{"kty": "RSA", "alg": "RS256", "n": b64(k.PublicKey.N.Bytes()), "e": b64(e)}
		if n == "rs256" {
			der, err := x509.MarshalPKIXPublicKey(&k.PublicKey)
			if err != nil {
				return nil, err
			}
			ks.pub["rsa-der"] = der
			ks.pub["rsa-pem"] = pem.EncodeToMemory(&pem.Block{Type: "PUBLIC KEY", Bytes: der})
			ks.pub["rsa-n"] = k.PublicKey.N.Bytes()
		}
	}
	return ks, nil
}

func methodFor(alg string) jwt.SigningMethod {
	switch alg {
	case "HS256":
		return jwt.SigningMethodHS256
	case "HS384":
		return jwt.SigningMethodHS384
	case "HS512":
		return jwt.SigningMethodHS512
	case "ES256":
		return jwt.SigningMethodES256
	case "RS256":
		return jwt.SigningMethodRS256
	}
	return jwt.SigningMethodNone
}

func encodeSegment(v any) string {
	b, _ := json.Marshal(v)
	return b64(b)
}

func signerDefs() []*signer {
	var l []*signer
	named := func(n string) func(*keys) any { return func(k *keys) any { return k.sign[n] } }
	// properly signed tokens, header kid absent / own / sibling's / unknown
	for _, n := range []string{"hs256", "hs256b", "hs384", "hs512", "es256", "es256b", "rs256", "rs256b"} {
		for _, kid := range []string{"", "kid-" + n, "kid-" + sibling[n], "kid-unknown"} {
			nm := n
			if kid != "" {
				nm += "/" + kid
			}
			l = append(l, &signer{Name: nm, HeaderAlg: keyAlg[n], KeyName: n, Kid: kid, Intact: true,
				method: methodFor(keyAlg[n]), key: named(n)})
		}
	}
	// alg "none"
	for _, kid := range []string{"", "kid-hs256"} {
		l = append(l, &signer{Name: "none/" + kid, HeaderAlg: "none", Kid: kid, Defect: "alg-none",
			method: jwt.SigningMethodNone, key: func(*keys) any { return jwt.UnsafeAllowNoneSignatureType }})
	}
	// forged header {"alg":"None"} / {"alg":"NONE"} without signature
	for _, a := range []string{"None", "NONE"} {
		alg := a
		l = append(l, &signer{Name: "forged-" + alg, HeaderAlg: alg, Defect: "alg-none",
			method: jwt.SigningMethodNone, key: func(*keys) any { return jwt.UnsafeAllowNoneSignatureType },
			post: func(s string, c jwt.MapClaims) string {
				return encodeSegment(map[string]any{"alg": alg, "typ": "JWT"}) + "." + encodeSegment(c) + "."
			}})
	}
	// a group's HMAC secret used with another HMAC algorithm than the one declared for it
	for _, n := range []string{"hs256", "hs384", "hs512"} {
		for _, alg := range []string{"HS256", "HS384", "HS512"} {
			if alg == keyAlg[n] {
				continue
			}
			for _, kid := range []string{"", "kid-" + n} {
				l = append(l, &signer{Name: n + "-as-" + alg + "/" + kid, HeaderAlg: alg, KeyName: n, Kid: kid, Intact: true,
					method: methodFor(alg), key: named(n)})
			}
		}
	}
	// HMAC keyed with the bytes of an RSA / EC public key of the group
	for _, c := range []struct{ enc, key, alg, kid string }{
		{"rsa-der", "rs256", "HS256", ""}, {"rsa-pem", "rs256", "HS256", ""}, {"rsa-pem", "rs256", "HS256", "kid-rs256"},
		{"rsa-n", "rs256", "HS256", ""}, {"rsa-pem", "rs256", "HS512", ""},
		{"ec-point", "es256", "HS256", ""}, {"ec-xy", "es256", "HS256", ""}, {"ec-pem", "es256", "HS256", ""},
		{"ec-pem", "es256", "HS256", "kid-es256"},
	} {
		enc := c.enc
		l = append(l, &signer{Name: c.alg + "-over-" + c.enc + "/" + c.kid, HeaderAlg: c.alg, KeyName: c.key, Kid: c.kid,
			Intact: true, Defect: "hmac-keyed-with-public-key",
			method: methodFor(c.alg), key: func(k *keys) any { return k.pub[enc] }})
	}
	// keys that belong to no key set
	for _, n := range []string{"hs256x", "es256x", "rs256x"} {
		for _, kid := range []string{"", "kid-" + strings.TrimSuffix(n, "x")} {
			l = append(l, &signer{Name: n + "/" + kid, HeaderAlg: keyAlg[n], KeyName: n, Kid: kid, Intact: true,
				method: methodFor(keyAlg[n]), key: named(n)})
		}
	}
	// signature removed; claims replaced after signing
	for _, n := range []string{"hs256", "es256", "rs256"} {
		l = append(l, &signer{Name: n + "-stripped", HeaderAlg: keyAlg[n], KeyName: n, Defect: "signature-stripped",
			method: methodFor(keyAlg[n]), key: named(n),
			post: func(s string, c jwt.MapClaims) string {
				p := strings.Split(s, ".")
				return p[0] + "." + p[1] + "."
			}})
		l = append(l, &signer{Name: n + "-tampered", HeaderAlg: keyAlg[n], KeyName: n, Defect: "claims-replaced-after-signing",
			method: methodFor(keyAlg[n]), key: named(n),
			post: func(s string, c jwt.MapClaims) string {
				p := strings.Split(s, ".")
				c2 := jwt.MapClaims{}
				for k, v := range c {
					c2[k] = v
				}
				c2["jti"] = "other"
				return p[0] + "." + encodeSegment(c2) + "." + p[2]
			}})
	}
	return l
}

type timeSpec struct {
	Name string
	Exp  string // valid | none | past | bad
	NBF  string // "" | past | future
	IAT  string // "" | past | future
}

var timeSpecs = []timeSpec{
	{"exp=now+2h", "valid", "", ""},
	{"no exp", "none", "", ""},
	{"exp=now-60s", "past", "", ""},
	{"exp=now+2h,nbf=now+1h", "valid", "future", ""},
	{"exp=now+2h,nbf=now-60s", "valid", "past", ""},
	{"exp=now+2h,iat=now+1h", "valid", "", "future"},
	{"exp=now+2h,iat=now-60s", "valid", "", "past"},
	{"exp=\"2099\" (string)", "bad", "", ""},
}

func (t timeSpec) refClass() string {
	switch t.Exp {
	case "none":
		return "no-exp"
	case "past":
		return "expired"
	case "bad":
		return "exp-not-a-date"
	}
	if t.NBF == "future" {
		return "nbf-in-future"
	}
	return ""
}

var audSpecs = [][]audEntry{
	{{"host", "/group/a/"}},
	{{"other", "/group/a/"}},
	{{"", "/group/a/"}},
	{{"host", "/group/ab/"}},
	{{"host", "/group/"}},
	{{"host", "/group/a"}},
	{{"other", "/group/a/"}, {"host", "/group/ab/"}},
	{{"other", "/group/b/"}, {"host", "/group/a/"}},
	{{"HOST", "/group/a/"}},
	{},
	{{"host", "/group/a/b/"}},
	{{"host", "/"}},
	{{"other", "/group/"}},
}

func audName(a []audEntry) string {
	if len(a) == 0 {
		return "(absent)"
	}
	var s []string
	for _, e := range a {
		s = append(s, e.url())
	}
	return strings.Join(s, ",")
}

var inclNames = []string{"absent", "true", "false"}
var subSpecs = []*string{nil, str(""), str("alice"), str("zed")}

type jwPerm struct {
	Name    string
	Absent  bool
	Invalid bool
	List    []string
}

var jwPerms = []jwPerm{
	{Name: "absent", Absent: true},
	{Name: "[]", List: []string{}},
	{Name: "[present]", List: []string{"present"}},
	{Name: "[op present]", List: []string{"op", "present"}},
	{Name: "[admin]", List: []string{"admin"}},
	{Name: "\"op\" (not a list)", Invalid: true},
}

// ===================================================================
// world
// ===================================================================

type harness struct {
	root       string
	tokenFile  string
	mtime      time.Time
	host       string
	hostKnown  bool
	keys       *keys
	keysets    []*keyset
	signers    []*signer
	nokeys     map[string]*group.Description
	base       time.Time // real time at start: JWT time claims are relative to it
	registered map[string]bool
	signed     map[[6]int]string
}

func fault(res *core.Result, start time.Time, format string, a ...any) {
	res.Fault = fmt.Sprintf(format, a...)
	core.Finish(res, start)
}

func newHarness() (*harness, error) {
	root, err := os.MkdirTemp("", "c09-")
	if err != nil {
		return nil, err
	}
	h := &harness{root: root, registered: map[string]bool{}, signed: map[[6]int]string{},
		mtime: time.Date(2020, 1, 1, 0, 0, 0, 0, time.UTC), base: time.Now()}
	group.DataDirectory = filepath.Join(root, "data")
	if err := os.MkdirAll(group.DataDirectory, 0700); err != nil {
		return nil, err
	}
	h.tokenFile = filepath.Join(root, "data", "var", "tokens.jsonl")
	token.SetStatefulFilename(h.tokenFile)
	// exact instants for stateful tokens
	vtime.SetVirtual(true)
	vtime.Set(36*time.Hour + 123456789)
	if h.nokeys, err = h.loadDescs("nokeys", nil); err != nil {
		return nil, err
	}
	if err := h.setHost(""); err != nil {
		return nil, err
	}
	return h, nil
}

func (h *harness) withKeys() error {
	if h.keys != nil {
		return nil
	}
	k, err := genKeys()
	if err != nil {
		return err
	}
	h.keys = k
	h.signers = signerDefs()
	h.keysets = ksDefs()
	for i, ks := range h.keysets {
		jwks := []map[string]any{}
		for _, e := range ks.E {
			m := map[string]any{}
			for a, b := range k.jwk[e.Key] {
				m[a] = b
			}
			if kid := e.kid(); kid != "" {
				m["kid"] = kid
			}
			jwks = append(jwks, m)
		}
		if ks.descs, err = h.loadDescs(fmt.Sprintf("ks%d", i), jwks); err != nil {
			return err
		}
		ks.dir = group.Directory
	}
	return nil
}

// loadDescs writes group files a.json, ab.json, b.json (user alice
// configured, automatic subgroups, the given authKeys) into a fresh group
// directory and loads the description of every group of the alphabet through
// group.GetDescription.  The root scope "" has no description of its own
// (GetPermission is never reached for it in galene); a's is used.
func (h *harness) loadDescs(name string, jwks []map[string]any) (map[string]*group.Description, error) {
	dir := filepath.Join(h.root, "groups-"+name)
	if err := os.MkdirAll(dir, 0700); err != nil {
		return nil, err
	}
	body := map[string]any{
		"auto-subgroups": true,
		"users":          map[string]any{configuredUser: map[string]any{"password": "pw", "permissions": "op"}},
	}
	if jwks != nil {
		body["authKeys"] = jwks
	}
	b, _ := json.Marshal(body)
	for _, g := range []string{"a", "ab", "b"} {
		if err := os.WriteFile(filepath.Join(dir, g+".json"), b, 0600); err != nil {
			return nil, err
		}
	}
	group.Directory = dir
	m := map[string]*group.Description{}
	for _, g := range groupsA {
		if g == "" {
			continue
		}
		d, err := group.GetDescription(g)
		if err != nil {
			return nil, fmt.Errorf("GetDescription(%q): %v", g, err)
		}
		if _, ok := d.Users[configuredUser]; !ok {
			return nil, fmt.Errorf("description of %q lacks the configured user", g)
		}
		if len(d.AuthKeys) != len(jwks) {
			return nil, fmt.Errorf("description of %q has %d keys, want %d", g, len(d.AuthKeys), len(jwks))
		}
		m[g] = d
	}
	m[""] = m["a"]
	return m, nil
}

// setHost writes <DataDirectory>/config.json; every version gets its own
// mtime so that a (mtime,size) cache in galene can never go stale.
func (h *harness) setHost(host string) error {
	if h.hostKnown && h.host == host {
		return nil
	}
	p := filepath.Join(group.DataDirectory, "config.json")
	// An unset canonicalHost is written as a config file without the field
	// (not by deleting the file: galene keeps the last configuration it
	// loaded when config.json disappears).
	body := map[string]any{}
	if host != "" {
		body["canonicalHost"] = host
	}
	b, _ := json.Marshal(body)
	if err := os.WriteFile(p, b, 0600); err != nil {
		return err
	}
	h.mtime = h.mtime.Add(time.Second)
	if err := os.Chtimes(p, h.mtime, h.mtime); err != nil {
		return err
	}
	conf, err := group.GetConfiguration()
	if err != nil {
		return err
	}
	if conf.CanonicalHost != host {
		return fmt.Errorf("canonicalHost is %q after configuring %q", conf.CanonicalHost, host)
	}
	h.host, h.hostKnown = host, true
	return nil
}

// register stores stateful tokens in the token file through token.Update and
// then makes galene forget its in-memory copy, so that every later lookup
// goes through the JSON file.
func (h *harness) register(toks []stTok) error {
	now := vtime.Now()
	n := 0
	for _, t := range toks {
		if h.registered[t.name()] {
			continue
		}
		if _, err := token.Update(t.build(now), ""); err != nil {
			return fmt.Errorf("token.Update(%s): %v", t.name(), err)
		}
		h.registered[t.name()] = true
		n++
	}
	if n > 0 {
		token.SetStatefulFilename(h.tokenFile)
	}
	return nil
}

func (h *harness) sign(S, T, A, I, U, P int) (string, error) {
	k := [6]int{S, T, A, I, U, P}
	if s, ok := h.signed[k]; ok {
		return s, nil
	}
	c := jwt.MapClaims{}
	ts := timeSpecs[T]
	switch ts.Exp {
	case "valid":
		c["exp"] = h.base.Add(2 * time.Hour).Unix()
	case "past":
		c["exp"] = h.base.Add(-60 * time.Second).Unix()
	case "bad":
		c["exp"] = "2099"
	}
	rel := map[string]time.Duration{"past": -60 * time.Second, "future": time.Hour}
	if ts.NBF != "" {
		c["nbf"] = h.base.Add(rel[ts.NBF]).Unix()
	}
	if ts.IAT != "" {
		c["iat"] = h.base.Add(rel[ts.IAT]).Unix()
	}
	switch aud := audSpecs[A]; len(aud) {
	case 0:
	case 1:
		c["aud"] = aud[0].url()
	default:
		var l []string
		for _, e := range aud {
			l = append(l, e.url())
		}
		c["aud"] = l
	}
	switch I {
	case 1:
		c["include-subgroups"] = true
	case 2:
		c["include-subgroups"] = false
	}
	if u := subSpecs[U]; u != nil {
		c["sub"] = *u
	}
	if p := jwPerms[P]; p.Invalid {
		c["permissions"] = "op"
	} else if !p.Absent {
		c["permissions"] = p.List
	}
	sg := h.signers[S]
	t := jwt.NewWithClaims(sg.method, c)
	if sg.Kid != "" {
		t.Header["kid"] = sg.Kid
	}
	s, err := t.SignedString(sg.key(h.keys))
	if err != nil {
		return "", fmt.Errorf("signing with %s: %v", sg.Name, err)
	}
	if sg.post != nil {
		s = sg.post(s, c)
	}
	h.signed[k] = s
	return s, nil
}

// ===================================================================
// evaluation of one case against the real code
// ===================================================================

type stCase struct {
	Route string `json:"route"` // check | parse | getperm | admin
	Tok   stTok  `json:"token"`
	Group string `json:"group"`
	Cli   int    `json:"clientUsername"`
	Host  string `json:"canonicalHost,omitempty"`
}

func (c stCase) String() string {
	s := fmt.Sprintf("%s for group %q via %s", c.Tok, c.Group, c.Route)
	if c.Route == "getperm" {
		s += " with client username " + pstr(cliUsers[c.Cli])
	}
	return s
}

type jwCase struct {
	Route string `json:"route"` // check | getperm | admin
	Host  string `json:"canonicalHost"`
	KS    int    `json:"keyset"`
	S     int    `json:"signer"`
	T     int    `json:"time"`
	A     int    `json:"aud"`
	I     int    `json:"includeSubgroups"`
	U     int    `json:"sub"`
	P     int    `json:"permissions"`
	Group string `json:"group"`
	Cli   int    `json:"clientUsername"`
	// readable copies (ignored on replay)
	Desc string `json:"desc,omitempty"`
}

func (h *harness) describe(c jwCase) string {
	s := fmt.Sprintf("JWT{signer=%s header-alg=%s kid=%q %s aud=%s include-subgroups=%s sub=%s permissions=%s}",
		h.signers[c.S].Name, h.signers[c.S].HeaderAlg, h.signers[c.S].Kid, timeSpecs[c.T].Name, audName(audSpecs[c.A]),
		inclNames[c.I], pstr(subSpecs[c.U]), jwPerms[c.P].Name)
	if c.Route == "admin" {
		return s + fmt.Sprintf(" canonicalHost=%q via checkGlobalAdminToken (groups on disk have keys {%s})", c.Host, h.keysets[c.KS].Name)
	}
	s += fmt.Sprintf(" group keys {%s} canonicalHost=%q group %q via %s", h.keysets[c.KS].Name, c.Host, c.Group, c.Route)
	if c.Route == "getperm" {
		s += " with client username " + pstr(cliUsers[c.Cli])
	}
	return s
}

// result of one evaluation
type evalOut struct {
	outcome  string // distinct-outcome key
	accepted bool
	stricter string // non-empty: the real code refused a case the reference allows (error text)
	kidLoose bool   // accepted although the header kid is not the verifying key's kid
	v        *core.Violation
}

func errText(err error) string {
	s := err.Error()
	if len(s) > 70 {
		s = s[:70]
	}
	return s
}

func userClass(got, tokUser string) string {
	if tokUser != "" {
		return "token-username-not-granted"
	}
	if got == configuredUser {
		return "client-shadows-configured-user"
	}
	return "wrong-username"
}

func (h *harness) evalStateful(c stCase) (evalOut, error) {
	var out evalOut
	if err := h.register([]stTok{c.Tok}); err != nil {
		return out, err
	}
	now := vtime.Now()
	st := c.Tok.build(now)
	name := c.Tok.name()
	var user string
	var perms []string
	var err error
	switch c.Route {
	case "check":
		user, perms, err = st.Check("host", c.Group)
	case "parse":
		tk, perr := token.Parse(name, nil)
		if perr != nil || tk == nil {
			return out, fmt.Errorf("token.Parse(%s) of a stored token: %v", name, perr)
		}
		user, perms, err = tk.Check("host", c.Group)
	case "getperm":
		user, perms, err = h.nokeys[c.Group].GetPermission(c.Group,
			group.ClientCredentials{Token: name, Username: cliUsers[c.Cli]})
	default:
		return out, fmt.Errorf("unknown route %q", c.Route)
	}
	tg := groupsA[c.Tok.TG]
	var fails []string
	if !refCovers(tg, c.Tok.Sub, c.Group) {
		fails = append(fails, "stateful-scope/"+scopeClass(tg, c.Tok.Sub, c.Group))
	}
	if w := refWindow(now, st.Expires, st.NotBefore); w != "" {
		fails = append(fails, "stateful-window/"+w)
	}
	tokUser := ""
	if u := tokUsers[c.Tok.TU]; u != nil {
		tokUser = *u
	}
	wantUser := tokUser
	if c.Route == "getperm" {
		var shadow bool
		wantUser, shadow = refUser(tokUser, cliUsers[c.Cli])
		if shadow {
			fails = append(fails, "stateful-username/client-shadows-configured-user")
		}
	}
	out.accepted = err == nil
	ref := "ref-allows"
	if len(fails) > 0 {
		ref = "ref-forbids:" + strings.SplitN(fails[0], "/", 2)[0]
	}
	if !out.accepted {
		out.outcome = "refused: " + errText(err) + " | " + ref
		if len(fails) == 0 {
			out.stricter = errText(err)
		}
		return out, nil
	}
	out.outcome = fmt.Sprintf("accepted user=%q perms=%v | %s", user, perms, ref)
	switch {
	case len(fails) > 0:
		out.v = &core.Violation{Signature: "C09/" + strings.Join(fails, "+"),
			What: fmt.Sprintf("%s was ACCEPTED (user %q, permissions %v) although the property forbids it: %s", c, user, perms, strings.Join(fails, ", "))}
	case user != wantUser:
		out.v = &core.Violation{Signature: "C09/stateful-username/" + userClass(user, tokUser),
			What: fmt.Sprintf("%s granted username %q, the property says %q", c, user, wantUser)}
	case !equalPerms(perms, stPerms[c.Tok.P]):
		out.v = &core.Violation{Signature: "C09/stateful-permissions/" + permsClass(perms, stPerms[c.Tok.P]),
			What: fmt.Sprintf("%s granted permissions %v, the token carries %v", c, perms, stPerms[c.Tok.P])}
	}
	if out.v != nil {
		out.v.Replay = map[string]any{"kind": "stateful", "case": c}
	}
	return out, nil
}

func (h *harness) evalAdminStateful(c stCase) (evalOut, error) {
	var out evalOut
	if err := h.register([]stTok{c.Tok}); err != nil {
		return out, err
	}
	if err := h.setHost(c.Host); err != nil {
		return out, err
	}
	now := vtime.Now()
	st := c.Tok.build(now)
	ok, err := webserver.VerifC09CheckGlobalAdminToken(c.Tok.name())
	var fails []string
	if st.Group != "" {
		fails = append(fails, "non-root-token")
	}
	if !st.IncludeSubgroups {
		fails = append(fails, "without-subgroups")
	}
	if w := refWindow(now, st.Expires, st.NotBefore); w != "" {
		fails = append(fails, w)
	}
	admin := false
	for _, p := range st.Permissions {
		admin = admin || p == "admin"
	}
	if !admin {
		fails = append(fails, "no-admin-permission")
	}
	out.accepted = ok
	ref := "ref-allows"
	if len(fails) > 0 {
		ref = "ref-forbids:" + fails[0]
	}
	if !ok {
		e := "false"
		if err != nil {
			e = errText(err)
		}
		out.outcome = "not admin: " + e + " | " + ref
		if len(fails) == 0 {
			out.stricter = e
		}
		return out, nil
	}
	out.outcome = "global admin | " + ref
	if len(fails) > 0 {
		out.v = &core.Violation{Signature: "C09/global-admin/" + strings.Join(fails, "+"),
			What: fmt.Sprintf("checkGlobalAdminToken(%s) with canonicalHost %q returned true although: %s",
				c.Tok, c.Host, strings.Join(fails, ", ")),
			Replay: map[string]any{"kind": "stateful", "case": c}}
	}
	return out, nil
}

func (h *harness) evalJWT(c jwCase) (evalOut, error) {
	var out evalOut
	tok, err := h.sign(c.S, c.T, c.A, c.I, c.U, c.P)
	if err != nil {
		return out, err
	}
	sg := h.signers[c.S]
	if c.Route == "admin" {
		if err := h.setHost(c.Host); err != nil {
			return out, err
		}
		// groups a, ab, b exist on disk with the keys of key set c.KS
		group.Directory = h.keysets[c.KS].dir
		ok, err := webserver.VerifC09CheckGlobalAdminToken(tok)
		out.accepted = ok
		if ok {
			out.outcome = "global admin"
			out.v = &core.Violation{Signature: "C09/global-admin/signed-token",
				What:   "checkGlobalAdminToken returned true for a signed token (no key can be configured for the root scope): " + h.describe(c),
				Replay: map[string]any{"kind": "jwt", "case": c}}
		} else if err != nil {
			out.outcome = "not admin: " + errText(err)
		} else {
			out.outcome = "not admin: false"
		}
		return out, nil
	}
	ks := h.keysets[c.KS]
	desc := ks.descs[c.Group]
	var user string
	var perms []string
	switch c.Route {
	case "check":
		tk, perr := token.Parse(tok, desc.AuthKeys)
		if perr != nil {
			err = perr
		} else if tk == nil {
			err = fmt.Errorf("nil token")
		} else {
			user, perms, err = tk.Check(c.Host, c.Group)
		}
	case "getperm":
		if err := h.setHost(c.Host); err != nil {
			return out, err
		}
		user, perms, err = desc.GetPermission(c.Group, group.ClientCredentials{Token: tok, Username: cliUsers[c.Cli]})
	default:
		return out, fmt.Errorf("unknown route %q", c.Route)
	}

	var fails []string
	sigOK, sigClass, kidOK := refSignature(sg, ks)
	if !sigOK {
		fails = append(fails, "jwt-signature/"+sigClass)
	}
	if tc := timeSpecs[c.T].refClass(); tc != "" {
		fails = append(fails, "jwt-time/"+tc)
	}
	if ok, ac := refAudience(audSpecs[c.A], c.Host, c.Group, c.I == 1); !ok {
		fails = append(fails, "jwt-audience/"+ac)
	}
	sub := ""
	if u := subSpecs[c.U]; u != nil {
		sub = *u
	}
	wantUser := sub
	if c.Route == "getperm" {
		var shadow bool
		wantUser, shadow = refUser(sub, cliUsers[c.Cli])
		if shadow {
			fails = append(fails, "jwt-username/client-shadows-configured-user")
		}
	}
	wantPerms := jwPerms[c.P].List
	out.accepted = err == nil
	ref := "ref-allows"
	if len(fails) > 0 {
		ref = "ref-forbids:" + strings.SplitN(fails[0], "/", 2)[0]
	}
	if !out.accepted {
		out.outcome = "refused: " + errText(err) + " | " + ref
		if len(fails) == 0 {
			out.stricter = errText(err)
		}
		return out, nil
	}
	out.outcome = fmt.Sprintf("accepted user=%q perms=%v | %s", user, perms, ref)
	out.kidLoose = sigOK && !kidOK
	switch {
	case len(fails) > 0:
		out.v = &core.Violation{Signature: "C09/" + strings.Join(fails, "+"),
			What: fmt.Sprintf("%s was ACCEPTED (user %q, permissions %v) although the property forbids it: %s", h.describe(c), user, perms, strings.Join(fails, ", "))}
	case user != wantUser:
		out.v = &core.Violation{Signature: "C09/jwt-username/" + userClass(user, sub),
			What: fmt.Sprintf("%s granted username %q, the property says %q", h.describe(c), user, wantUser)}
	case !equalPerms(perms, wantPerms):
		out.v = &core.Violation{Signature: "C09/jwt-permissions/" + permsClass(perms, wantPerms),
			What: fmt.Sprintf("%s granted permissions %v, the token carries %v", h.describe(c), perms, wantPerms)}
	}
	if out.v != nil {
		c.Desc = h.describe(c)
		out.v.Replay = map[string]any{"kind": "jwt", "case": c}
	}
	return out, nil
}

// ===================================================================
// sub-checks
// ===================================================================

// tally accumulates the measured numbers of one sub-check (in one shard).
// Besides the core.Sub that core merges (sums of counts), every shard writes
// its tallies to $C09_STATS_DIR so that the coordinator can report the exact
// union of distinct outcomes and the summed accept / stricter counters.
type tally struct {
	Name      string           `json:"name"`
	Accepted  int64            `json:"accepted"`
	Stricter  map[string]int64 `json:"stricter"`
	KidLoose  int64            `json:"kidLoose"`
	Outcomes  map[string]int64 `json:"outcomes"`
	SampleAcc any              `json:"sampleAccepted,omitempty"`
	SampleRef any              `json:"sampleRefused,omitempty"`
	SampleStr any              `json:"sampleStricter,omitempty"`
	points    int64
	execs     int64
	exhausted bool
}

var tallies []*tally

func newTally(name string) *tally {
	t := &tally{Name: name, Stricter: map[string]int64{}, Outcomes: map[string]int64{}, exhausted: true}
	tallies = append(tallies, t)
	return t
}

func (t *tally) add(res *core.Result, o evalOut, sample func() any) {
	t.execs++
	t.Outcomes[o.outcome]++
	if o.accepted {
		t.Accepted++
		if t.SampleAcc == nil && o.v == nil {
			t.SampleAcc = map[string]any{"case": sample(), "outcome": o.outcome}
		}
	} else if o.stricter != "" {
		t.Stricter[o.stricter]++
		if t.SampleStr == nil {
			t.SampleStr = map[string]any{"case": sample(), "outcome": o.outcome}
		}
	} else if t.SampleRef == nil {
		t.SampleRef = map[string]any{"case": sample(), "outcome": o.outcome}
	}
	if o.kidLoose {
		t.KidLoose++
	}
	if o.v != nil {
		o.v.Sub = t.Name
		res.Violate(*o.v)
	}
}

func (t *tally) note() string {
	var ks []string
	var ns int64
	for k, n := range t.Stricter {
		ks = append(ks, fmt.Sprintf("%q x%d", k, n))
		ns += n
	}
	sort.Strings(ks)
	note := fmt.Sprintf("accepted=%d; refused although the reference allows (not a violation: the property is an only-if)=%d", t.Accepted, ns)
	if len(ks) > 0 {
		if len(ks) > 8 {
			ks = append(ks[:8], "...")
		}
		note += " [" + strings.Join(ks, "; ") + "]"
	}
	if strings.HasPrefix(t.Name, "jwt") {
		note += fmt.Sprintf("; accepted with a header kid that is not the verifying key's (not in the statement, counted only)=%d", t.KidLoose)
	}
	return note
}

func (t *tally) samples() []any {
	var l []any
	for _, x := range []any{t.SampleAcc, t.SampleRef, t.SampleStr} {
		if x != nil {
			l = append(l, x)
		}
	}
	return l
}

func (t *tally) sub(bound string) core.Sub {
	return core.Sub{Name: t.Name, States: t.points, Transitions: t.execs, Executions: t.execs,
		Outcomes: int64(len(t.Outcomes)), Exhaustive: t.exhausted, Bound: bound, Note: t.note(), Samples: t.samples()}
}

// writeStats (shard) / mergeStats (coordinator): see tally.
type shardFile struct {
	Tallies    []*tally         `json:"tallies"`
	Violations []core.Violation `json:"violations"`
}

func writeStats(res *core.Result) {
	dir := os.Getenv("C09_STATS_DIR")
	if dir == "" || core.Opts().Shard < 0 {
		return
	}
	b, _ := json.Marshal(shardFile{tallies, res.Violations})
	os.WriteFile(filepath.Join(dir, fmt.Sprintf("shard%03d.json", core.Opts().Shard)), b, 0600)
}

func mergeStats(res *core.Result, dir string) {
	files, _ := filepath.Glob(filepath.Join(dir, "shard*.json"))
	sort.Strings(files)
	agg := map[string]*tally{}
	// the example kept for a signature does not depend on which shard
	// finished first: the one with the smallest description wins
	best := map[string]core.Violation{}
	for _, f := range files {
		b, err := os.ReadFile(f)
		if err != nil {
			continue
		}
		var sf shardFile
		if json.Unmarshal(b, &sf) != nil {
			continue
		}
		for _, v := range sf.Violations {
			if w, ok := best[v.Signature]; !ok || v.What < w.What {
				best[v.Signature] = v
			}
		}
		for _, t := range sf.Tallies {
			a := agg[t.Name]
			if a == nil {
				a = &tally{Name: t.Name, Stricter: map[string]int64{}, Outcomes: map[string]int64{}}
				agg[t.Name] = a
			}
			a.Accepted += t.Accepted
			a.KidLoose += t.KidLoose
			for k, n := range t.Stricter {
				a.Stricter[k] += n
			}
			for k, n := range t.Outcomes {
				a.Outcomes[k] += n
			}
			if a.SampleAcc == nil {
				a.SampleAcc = t.SampleAcc
			}
			if a.SampleRef == nil {
				a.SampleRef = t.SampleRef
			}
			if a.SampleStr == nil {
				a.SampleStr = t.SampleStr
			}
		}
	}
	for i := range res.Subs {
		if a := agg[res.Subs[i].Name]; a != nil {
			res.Subs[i].Outcomes = int64(len(a.Outcomes))
			res.Subs[i].Note = a.note()
			res.Subs[i].Samples = a.samples()
		}
	}
	sort.Slice(res.Subs, func(i, j int) bool { return res.Subs[i].Name < res.Subs[j].Name })
	for i := range res.Violations {
		if v, ok := best[res.Violations[i].Signature]; ok {
			res.Violations[i] = v
		}
	}
}

func mine(i int64) bool {
	o := core.Opts()
	if o.Shard < 0 || o.Shards <= 1 {
		return true
	}
	return int(i%int64(o.Shards)) == o.Shard
}

func pickIdx(n int, quick []int) []int {
	if !core.Quick() {
		l := make([]int, n)
		for i := range l {
			l[i] = i
		}
		return l
	}
	return quick
}

func runStateful(h *harness, res *core.Result) error {
	all := allStToks()
	var my []stTok
	for i, t := range all {
		if mine(int64(i)) {
			my = append(my, t)
		}
	}
	if err := h.register(my); err != nil {
		return err
	}
	for _, route := range []string{"check", "parse", "getperm"} {
		name := "stateful/" + route
		if !core.Want(name) {
			continue
		}
		t := newTally(name)
		clis := []int{0}
		if route == "getperm" {
			clis = []int{0, 1, 2, 3}
		}
		var ferr error
		_, done := seqx.Product([]int{len(my), len(groupsA), len(clis)}, func(ix []int) bool {
			if t.execs%4096 == 0 && !core.TimeLeft() {
				return false
			}
			c := stCase{Route: route, Tok: my[ix[0]], Group: groupsA[ix[1]], Cli: clis[ix[2]]}
			o, err := h.evalStateful(c)
			if err != nil {
				ferr = err
				return false
			}
			t.points++
			t.add(res, o, func() any { return c.String() })
			return true
		})
		if ferr != nil {
			return ferr
		}
		t.exhausted = done
		b := fmt.Sprintf("full product: group(%d) x token.Group(%d) x includeSubgroups(2) x expires%v x not-before%v x token username(%d) x permission lists(%d)",
			len(groupsA), len(groupsA), expNames, nbNames, len(tokUsers), len(stPerms))
		if route == "getperm" {
			b += fmt.Sprintf(" x client username(%d)", len(clis))
		}
		res.AddSub(t.sub(b))
	}

	if core.Want("global-admin") {
		t := newTally("global-admin")
		var ferr error
		hosts := []string{"", "host"}
		// stateful tokens: everything that matters to the decision (the
		// token username is irrelevant to it; two values are kept)
		var adm []stTok
		for _, k := range my {
			if k.TU == 0 || k.TU == 2 {
				adm = append(adm, k)
			}
		}
		_, done := seqx.Product([]int{len(hosts), len(adm)}, func(ix []int) bool {
			if t.execs%1024 == 0 && !core.TimeLeft() {
				return false
			}
			c := stCase{Route: "admin", Tok: adm[ix[1]], Host: hosts[ix[0]]}
			o, err := h.evalAdminStateful(c)
			if err != nil {
				ferr = err
				return false
			}
			t.points++
			t.add(res, o, func() any { return fmt.Sprintf("checkGlobalAdminToken(%s) canonicalHost=%q", c.Tok, c.Host) })
			return true
		})
		if ferr != nil {
			return ferr
		}
		// signed tokens: every signer, root/group audiences, admin permission
		if err := h.withKeys(); err != nil {
			return err
		}
		auds := []int{4, 0, 12}
		vtime.SetVirtual(false)
		defer vtime.SetVirtual(true)
		var idx int64
		_, done2 := seqx.Product([]int{len(hosts), len(h.signers), len(auds), 2}, func(ix []int) bool {
			idx++
			if !mine(idx) {
				return true
			}
			c := jwCase{Route: "admin", Host: hosts[ix[0]], S: ix[1], T: 0, A: auds[ix[2]], I: 1, U: 3, P: 4 - 2*ix[3],
				KS: h.keysetIdx("hs256,es256+kid,rs256")[0]}
			o, err := h.evalJWT(c)
			if err != nil {
				ferr = err
				return false
			}
			t.points++
			t.add(res, o, func() any { return h.describe(c) })
			return core.TimeLeft()
		})
		if ferr != nil {
			return ferr
		}
		t.exhausted = done && done2
		res.AddSub(t.sub(fmt.Sprintf("full product: canonicalHost(2) x [stateful token.Group(%d) x includeSubgroups(2) x expires(%d) x not-before(%d) x permission lists(%d) x token username(2)] + canonicalHost(2) x [signers(%d) x aud(3) x permissions(2)]",
			len(groupsA), len(expOffs), len(nbOffs), len(stPerms), len(h.signers))))
	}
	return nil
}

// jwtProduct enumerates host x (token-defining dims) x keyset x group x
// client username, through token.Parse(...).Check and through GetPermission.
type jwtAlpha struct {
	name                 string
	hosts                []string
	S, T, A, I, U, P, KS []int
	groups               []string
	clis                 []int
	checkRoute           bool
}

func runJWT(h *harness, res *core.Result, a jwtAlpha) error {
	if !core.Want(a.name) {
		return nil
	}
	if err := h.withKeys(); err != nil {
		return err
	}
	// signed tokens are judged by the JWT library against the real clock:
	// galene's own code must see the same clock while they are evaluated
	vtime.SetVirtual(false)
	defer vtime.SetVirtual(true)
	t := newTally(a.name)
	var ferr error
	dims := []int{len(a.hosts), len(a.S), len(a.T), len(a.A), len(a.I), len(a.U), len(a.P), len(a.KS), len(a.groups)}
	_, done := seqx.Product(dims, func(ix []int) bool {
		// the shard owns a token (signer, claims), with all its evaluations
		tokIdx := int64(((((ix[1]*len(a.T)+ix[2])*len(a.A)+ix[3])*len(a.I)+ix[4])*len(a.U)+ix[5])*len(a.P) + ix[6])
		if !mine(tokIdx) {
			return true
		}
		if t.points%512 == 0 && !core.TimeLeft() {
			return false
		}
		t.points++
		c := jwCase{Host: a.hosts[ix[0]], S: a.S[ix[1]], T: a.T[ix[2]], A: a.A[ix[3]], I: a.I[ix[4]],
			U: a.U[ix[5]], P: a.P[ix[6]], KS: a.KS[ix[7]], Group: a.groups[ix[8]]}
		if a.checkRoute {
			c.Route = "check"
			o, err := h.evalJWT(c)
			if err != nil {
				ferr = err
				return false
			}
			t.add(res, o, func() any { return h.describe(c) })
		}
		c.Route = "getperm"
		for _, cli := range a.clis {
			c.Cli = cli
			o, err := h.evalJWT(c)
			if err != nil {
				ferr = err
				return false
			}
			t.add(res, o, func() any { return h.describe(c) })
		}
		return true
	})
	if ferr != nil {
		return ferr
	}
	t.exhausted = done
	routes := fmt.Sprintf("GetPermission with client username(%d)", len(a.clis))
	if a.checkRoute {
		routes = "token.Parse+Check and " + routes
	}
	res.AddSub(t.sub(fmt.Sprintf("full product: canonicalHost(%d) x signer[header alg, signing key, kid](%d) x time claims(%d) x aud(%d) x include-subgroups(%d) x sub(%d) x permissions claim(%d) x key set(%d) x group(%d); each point through %s",
		len(a.hosts), len(a.S), len(a.T), len(a.A), len(a.I), len(a.U), len(a.P), len(a.KS), len(a.groups), routes)))
	return nil
}

func rangeN(n int) []int {
	l := make([]int, n)
	for i := range l {
		l[i] = i
	}
	return l
}

func (h *harness) signerIdx(names ...string) []int {
	var l []int
	for _, n := range names {
		found := false
		for i, s := range h.signers {
			if s.Name == n {
				l = append(l, i)
				found = true
			}
		}
		if !found {
			panic("unknown signer " + n)
		}
	}
	return l
}

func (h *harness) keysetIdx(names ...string) []int {
	var l []int
	for _, n := range names {
		found := false
		for i, s := range h.keysets {
			if s.Name == n {
				l = append(l, i)
				found = true
			}
		}
		if !found {
			panic("unknown key set " + n)
		}
	}
	return l
}

func jwtAlphabets(h *harness) []jwtAlpha {
	hosts := []string{"", "host"}
	// signature / key-selection layer: every signer x every key set, fully
	// crossed with time claims, audiences, include-subgroups, host and group
	sig := jwtAlpha{name: "jwt-signature", hosts: hosts, checkRoute: true,
		S:      rangeN(len(h.signers)),
		KS:     rangeN(len(h.keysets)),
		T:      pickIdx(len(timeSpecs), []int{0, 1, 2, 3}),
		A:      pickIdx(len(audSpecs), []int{0, 1, 2, 3, 4, 5, 6, 10}),
		I:      rangeN(len(inclNames)),
		U:      core.Pick([]int{3}, []int{0, 3}),
		P:      core.Pick([]int{2}, []int{0, 2, 4}),
		groups: core.Pick([]string{"a", "a/b", "ab"}, []string{"a", "a/b", "ab", ""}),
		clis:   core.Pick([]int{2}, []int{0, 2}),
	}
	// claims layer: a spine of signers (a good one of each key family, a
	// foreign key, alg none, two confusion attacks) x a few key sets, fully
	// crossed with every claim, host, group and client username
	claims := jwtAlpha{name: "jwt-claims", hosts: hosts, checkRoute: true,
		S: h.signerIdx(core.Pick(
			[]string{"hs256", "es256/kid-es256", "none/"},
			[]string{"hs256", "es256/kid-es256", "rs256", "hs256x/", "none/", "hs256-as-HS384/", "HS256-over-rsa-pem/", "rs256b/kid-rs256b"})...),
		KS: h.keysetIdx(core.Pick(
			[]string{"hs256,es256+kid,rs256"},
			[]string{"hs256,es256+kid,rs256", "hs256", "rs256+kid,rs256b+kid"})...),
		T:      pickIdx(len(timeSpecs), []int{0, 1, 2, 3}),
		A:      rangeN(len(audSpecs)),
		I:      rangeN(len(inclNames)),
		U:      rangeN(len(subSpecs)),
		P:      rangeN(len(jwPerms)),
		groups: core.Pick([]string{"a", "a/b", "ab", ""}, []string{"a", "a/b", "ab", "", "a/bc", "a/b/c"}),
		clis:   rangeN(len(cliUsers)),
	}
	return []jwtAlpha{sig, claims}
}

// ===================================================================
// main
// ===================================================================

func main() {
	start := time.Now()
	o := core.ParseFlags(40, 780)
	res := &core.Result{Property: "C09", Tier: o.Tier,
		Technique: "full Cartesian product enumeration of token/group/time/key/audience alphabets on the real token.Stateful.Check, token.Parse, Description.GetPermission and checkGlobalAdminToken (virtual clock for stateful tokens) against a reference written from the property statement"}
	if o.Replay != "" {
		replay(o.Replay)
		return
	}
	if o.Shard < 0 {
		sdir, err := os.MkdirTemp("", "c09-stats-")
		if err != nil {
			fault(res, start, "setup: %v", err)
		}
		os.Setenv("C09_STATS_DIR", sdir)
		core.RunShards(res, core.NCPU(), nil, nil)
		mergeStats(res, sdir)
		os.RemoveAll(sdir)
		res.Assume("the property is read as an only-if: acceptances the reference forbids and wrong granted username/permissions are violations; refusals of tokens the reference allows (e.g. a missing username, iat in the future, an audience without trailing slash, a header kid that selects no key) are counted in the sub-check notes, not alarmed on")
		res.Assume("the root scope \"\" is covered only by a token for group \"\" that includes subgroups (stateful) / by the audience path /group/ with include-subgroups (signed)")
		res.Assume("signed tokens are validated by the JWT library against the real clock: exp/nbf/iat claims are 60 s in the past or >= 1 h in the future, no verdict is asserted near a boundary; exact-instant boundaries (1 ns either side) are checked for stateful tokens on the virtual clock")
		res.Assume("which key made a signature is known by construction (the harness signs); the complete cross product of the signature layer (all signers x all key sets) and of the claims layer (all sub/permissions/client-username values) is enumerated as two full products sharing the dimensions time, audience, include-subgroups, host and group, not as one product")
		core.Finish(res, start)
	}
	h, err := newHarness()
	if err != nil {
		fault(res, start, "setup: %v", err)
	}
	defer os.RemoveAll(h.root)
	if err := runStateful(h, res); err != nil {
		os.RemoveAll(h.root)
		fault(res, start, "stateful: %v", err)
	}
	if core.Want("jwt-signature") || core.Want("jwt-claims") {
		if err := h.withKeys(); err != nil {
			os.RemoveAll(h.root)
			fault(res, start, "keys: %v", err)
		}
		for _, a := range jwtAlphabets(h) {
			if err := runJWT(h, res, a); err != nil {
				os.RemoveAll(h.root)
				fault(res, start, "%s: %v", a.name, err)
			}
		}
	}
	os.RemoveAll(h.root)
	writeStats(res)
	core.Finish(res, start)
}

func replay(path string) {
	data, err := os.ReadFile(path)
	if err != nil {
		fmt.Println(err)
		os.Exit(2)
	}
	var a struct {
		Replay struct {
			Kind string          `json:"kind"`
			Case json.RawMessage `json:"case"`
		} `json:"replay"`
	}
	if err := json.Unmarshal(data, &a); err != nil {
		fmt.Println(err)
		os.Exit(2)
	}
	h, err := newHarness()
	if err != nil {
		fmt.Println("setup:", err)
		os.Exit(3)
	}
	defer os.RemoveAll(h.root)
	var out evalOut
	switch a.Replay.Kind {
	case "stateful":
		var c stCase
		if err := json.Unmarshal(a.Replay.Case, &c); err != nil {
			fmt.Println(err)
			os.Exit(2)
		}
		if c.Route == "admin" {
			out, err = h.evalAdminStateful(c)
		} else {
			out, err = h.evalStateful(c)
		}
	case "jwt":
		var c jwCase
		if err := json.Unmarshal(a.Replay.Case, &c); err != nil {
			fmt.Println(err)
			os.Exit(2)
		}
		if err = h.withKeys(); err == nil {
			out, err = h.evalJWT(c)
		}
	default:
		fmt.Println("unknown replay kind", a.Replay.Kind)
		os.Exit(2)
	}
	os.RemoveAll(h.root)
	if err != nil {
		fmt.Println("replay:", err)
		os.Exit(3)
	}
	if out.v != nil {
		fmt.Printf("VIOLATION property=C09 replay=%s\n  signature: %s\n  what: %s\n", path, out.v.Signature, out.v.What)
		os.Exit(1)
	}
	fmt.Println("replay: no violation; outcome:", out.outcome)
}

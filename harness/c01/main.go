// C01 — forwarded sequence numbers stay gap-free, unique and ordered.
//
// Explicit-state BFS over arrival histories (in-order, above-layer, skipped,
// late, duplicate, bursts) of one VP8 stream fed to the real
// rtpDownTrack.Write (bound to a recording write stream), for a set of start
// sequence numbers around every 16-bit boundary; plus a deeper exploration of
// packetmap.Map on its public API with the same reference model.
package main

import (
	"bytes"
	"encoding/json"
	"errors"
	"fmt"
	"os"
	"sort"
	"strings"
	"time"

	"github.com/jech/galene/packetmap"
	"github.com/jech/galene/rtpconn"

	"verif/core"
	"verif/fwd"
	"verif/media"
	"verif/seqx"
)

type op struct {
	Kind string `json:"k"`
	N    int    `json:"n,omitempty"`
	Tid  int    `json:"tid,omitempty"`
}

// backend delivers one source packet to the code under test.
type backend interface {
	deliver(seq uint16, pid uint16, tid int) (forwarded bool, out uint16, err error)
	state() string
	close()
	clone() backend
}

// ---- backend 1: the real down track

var errSourceModified = errors.New("Write modified the caller's buffer")

// noPid: VP8 without the picture-id field (the I bit is optional): nothing
// but the sequence number is ever rewritten
type trackBackend struct {
	w     *fwd.World
	noPid bool
}

func newTrackBackend() backend { return newTrackBackendPid(false) }

func newTrackBackendPid(noPid bool) backend {
	w := fwd.New(fwd.VP8, 1)
	w.Down.SetLayer(rtpconn.VerifLayer{Tid: 0, WantedTid: 0, MaxTid: 2})
	return &trackBackend{w, noPid}
}

func (b *trackBackend) deliver(seq, pid uint16, tid int) (bool, uint16, error) {
	p := media.VP8{Hdr: media.Hdr{Seq: seq, TS: uint32(pid) * 3000, Marker: true, PT: 96, SSRC: fwd.UpSSRC},
		X: true, I: !b.noPid, M: !b.noPid, PictureID: pid & 0x7FFF, T: true, TID: uint8(tid), S: true,
		Body: []byte{byte(seq), byte(seq >> 8), 0x42}}
	b.w.Rec.Take()
	buf := p.Bytes()
	orig := append([]byte(nil), buf...)
	_, err := b.w.Down.Write(buf)
	out := b.w.Rec.Take()
	if err != nil {
		return false, 0, err
	}
	if !bytes.Equal(buf, orig) {
		// the writer loop hands the same buffer to every receiver of the
		// stream in turn: the next one would number a packet it never saw
		return false, 0, errSourceModified
	}
	if len(out) > 1 {
		return false, 0, fmt.Errorf("one Write produced %d packets", len(out))
	}
	if len(out) == 0 {
		return false, 0, nil
	}
	return true, out[0].Header.SequenceNumber, nil
}

func (b *trackBackend) state() string {
	l := b.w.Down.Layer()
	return fmt.Sprintf("%s L%v", b.w.Down.MapState(), l)
}
func (b *trackBackend) close() { b.w.Close() }
func (b *trackBackend) clone() backend {
	n := newTrackBackendPid(b.noPid).(*trackBackend)
	n.w.Down.CopyFrom(b.w.Down)
	return n
}

// ---- backend 2: packetmap alone, driven as Write drives it

// constPid: the codec has no picture id (everything but VP8): Write passes
// pid 0 for every packet, so the picture-id shift stays 0 whatever is dropped.
type mapBackend struct {
	m        packetmap.Map
	constPid bool
}

func (b *mapBackend) deliver(seq, pid uint16, tid int) (bool, uint16, error) {
	if b.constPid {
		pid = 0
	}
	if tid > 0 {
		if b.m.Drop(seq, pid) {
			return false, 0, nil
		}
	}
	ok, s, _ := b.m.Map(seq, pid)
	if !ok {
		return false, 0, nil
	}
	return true, s, nil
}
func (b *mapBackend) state() string { return b.m.VerifState() }
func (b *mapBackend) close()        {}
func (b *mapBackend) clone() backend {
	n := &mapBackend{constPid: b.constPid}
	n.m.VerifCopyFrom(&b.m)
	return n
}

// ---- the world

type posInfo struct {
	tid       int
	delivered bool
	withheld  bool
	forwarded bool
	out       uint16
}

type world struct {
	be        backend
	start     uint16
	cursor    int64 // next fresh source position
	highest   int64 // highest delivered position, -1 if none
	info      map[int64]*posInfo
	withheld  []int64          // sorted positions withheld
	outs      map[uint16]int64 // outgoing number -> source position (recent)
	nops      int
	macro     bool
	outcome   string
	lateHi    bool
	lastMacro bool
	long      bool
	cycle     bool // offers the 2^16-withheld macro (no-picture-id map backend)
	firstSeq  uint16
	haveFirst bool
}

const window = 8191

func (w *world) holes() []int64 {
	var h []int64
	for p := w.cursor - 1; p >= 0 && p >= w.cursor-64 && len(h) < 3; p-- {
		if i := w.info[p]; i == nil || !i.delivered {
			if w.highest-p <= window {
				h = append(h, p)
			}
		}
	}
	return h
}

func (w *world) recent() []int64 {
	var d []int64
	for p := w.cursor - 1; p >= 0 && p >= w.cursor-64 && len(d) < 3; p-- {
		if i := w.info[p]; i != nil && i.delivered {
			if w.highest-p <= window {
				d = append(d, p)
			}
		}
	}
	return d
}

func (w *world) Ops() []seqx.Op {
	ops := []seqx.Op{op{Kind: "fwd"}, op{Kind: "hi"}, op{Kind: "skip", N: 1}, op{Kind: "skip", N: 2}}
	for j := range w.holes() {
		ops = append(ops, op{Kind: "late", N: j, Tid: 0})
		if w.lateHi {
			ops = append(ops, op{Kind: "late", N: j, Tid: 1})
		}
	}
	for j := range w.recent() {
		ops = append(ops, op{Kind: "dup", N: j})
	}
	// after a long run: a duplicate of a packet that arrived 100 / 5000
	// positions ago (still within the reordering window)
	if w.long && w.nops <= 2 {
		for _, back := range []int64{100, 5000} {
			if i := w.info[w.cursor-back]; i != nil && i.delivered && w.highest-(w.cursor-back) <= window {
				ops = append(ops, op{Kind: "dupback", N: int(back)})
			}
		}
	}
	if w.cycle && w.nops == 0 {
		// exactly 2^16 packets withheld in all: the 16-bit seqno shift is 0
		// again although the interval table is not empty
		ops = append(ops, op{Kind: "alt", N: 65536})
		// a long run of withheld packets with nothing forwarded in between
		ops = append(ops, op{Kind: "hiburst", N: 57400}, op{Kind: "hiburst", N: 65536})
		// runs long enough for the interval table to be forgotten once (and twice) on the way
		ops = append(ops, op{Kind: "hiburst", N: 16400}, op{Kind: "hiburst", N: 20000}, op{Kind: "hiburst", N: 32800})
		if !core.Quick() {
			ops = append(ops, op{Kind: "alt", N: 65535}, op{Kind: "alt", N: 131072})
		}
	}
	if w.macro && w.nops == 0 {
		for _, n := range []int{120, 8190, 8192, 32767, 65530} {
			ops = append(ops, op{Kind: "burst", N: n})
		}
		ops = append(ops, op{Kind: "alt", N: 130})
		// sparse drops over more than 2^16 packets: the interval table still
		// holds entries that are a full seqno cycle old
		ops = append(ops, op{Kind: "sparse", N: 8000, Tid: 9}, op{Kind: "sparse", N: 1000, Tid: 66}, op{Kind: "sparse", N: 600, Tid: 110})
	}
	if w.macro && w.nops == 1 {
		for _, n := range []int{8192, 65530} {
			ops = append(ops, op{Kind: "burst", N: n})
		}
	}
	return ops
}

func viol(sig, what string) *core.Violation {
	return &core.Violation{Signature: "C01/" + sig, What: what}
}

// class names the failing input class for the signature: histories with a
// run of >=32767 packets (interval-table aliasing) vs short histories, the
// latter split by whether the stream's first seqno is in 57344..65535.
func (w *world) class() string {
	if w.long {
		return "after-run>=32767"
	}
	if w.firstSeq >= 57344 {
		return "first-seqno>=57344"
	}
	return "short-history"
}

func (w *world) withheldBefore(p int64) int64 {
	return int64(sort.Search(len(w.withheld), func(i int) bool { return w.withheld[i] >= p }))
}

func (w *world) deliver(p int64, tid int) *core.Violation {
	seq := w.start + uint16(p)
	pid := uint16(1000 + p)
	inf := w.info[p]
	first := inf == nil || !inf.delivered
	if inf == nil {
		inf = &posInfo{tid: tid}
		w.info[p] = inf
	}
	if !first {
		tid = inf.tid
	} else {
		inf.tid = tid
	}
	inorder := first && (w.highest < 0 || p == w.highest+1)
	if !w.haveFirst {
		w.haveFirst, w.firstSeq = true, seq
	}
	fw, out, err := w.be.deliver(seq, pid, tid)
	if err == errSourceModified {
		return viol("source-buffer-modified", fmt.Sprintf("delivering source seq %d to one receiver changed the source buffer, which the writer loop hands to the stream's other receivers next: they would compute their numbers from a sequence number that is not the incoming one", seq))
	}
	if err != nil {
		return viol("write-error", fmt.Sprintf("delivering source seq %d: %v", seq, err))
	}
	want := seq - uint16(w.withheldBefore(p))
	desc := fmt.Sprintf("source seq %d (position %d, tid %d, %s)", seq, p, tid, map[bool]string{true: "first copy", false: "duplicate"}[first])
	if first {
		inf.delivered = true
		if p > w.highest {
			w.highest = p
		}
		if fw {
			inf.forwarded, inf.out = true, out
		} else if tid > 0 && (inorder || p == w.highest) {
			// newer than everything seen so far and above the layer:
			// deliberately withheld
			inf.withheld = true
			if n := len(w.withheld); n == 0 || w.withheld[n-1] < p {
				w.withheld = append(w.withheld, p)
			} else {
				w.withheld = append(w.withheld, p)
				sort.Slice(w.withheld, func(i, j int) bool { return w.withheld[i] < w.withheld[j] })
			}
		} else if inorder {
			return viol("in-order-not-forwarded", desc+" arrived in order, is not above the selected layer, and was not forwarded")
		}
	} else {
		if inf.withheld && fw {
			return viol("withheld-forwarded-later", desc+" had been withheld and was forwarded later as "+fmt.Sprint(out))
		}
		if inf.forwarded && fw && out != inf.out {
			return viol("duplicate-renumbered", fmt.Sprintf("%s: first copy went out as %d, this copy as %d", desc, inf.out, out))
		}
	}
	if fw {
		if out != want {
			return viol("wrong-number", fmt.Sprintf("%s went out as %d, expected %d = source minus %d packets withheld before it",
				desc, out, want, w.withheldBefore(p)))
		}
		if q, ok := w.outs[out]; ok && q != p && abs(q-p) <= window {
			return viol("number-shared", fmt.Sprintf("%s went out as %d, which position %d already used", desc, out, q))
		}
		w.outs[out] = p
	}
	w.outcome = fmt.Sprintf("%v/%v/%v", first, inorder, fw)
	return nil
}

func abs(x int64) int64 {
	if x < 0 {
		return -x
	}
	return x
}

func (w *world) Apply(o seqx.Op) *core.Violation {
	v := w.apply(o)
	if v != nil {
		v.Signature += "/" + w.class()
	}
	return v
}

func (w *world) apply(o seqx.Op) *core.Violation {
	x := o.(op)
	w.nops++
	w.lastMacro = x.Kind == "burst" || x.Kind == "alt" || x.Kind == "sparse" || x.Kind == "hiburst"
	switch x.Kind {
	case "fwd", "hi":
		p := w.cursor
		w.cursor++
		tid := 0
		if x.Kind == "hi" {
			tid = 1
		}
		return w.deliver(p, tid)
	case "skip":
		w.cursor += int64(x.N)
		w.outcome = "skip"
	case "late":
		h := w.holes()
		if x.N >= len(h) {
			return nil
		}
		return w.deliver(h[x.N], x.Tid)
	case "dupback":
		p := w.cursor - int64(x.N)
		if i := w.info[p]; i == nil || !i.delivered {
			return nil
		}
		return w.deliver(p, 0)
	case "dup":
		d := w.recent()
		if x.N >= len(d) {
			return nil
		}
		return w.deliver(d[x.N], 0)
	case "burst":
		if x.N >= 32767 {
			w.long = true
		}
		for i := 0; i < x.N; i++ {
			p := w.cursor
			w.cursor++
			if v := w.deliver(p, 0); v != nil {
				return v
			}
		}
		w.gc()
	case "hiburst":
		w.long = true
		for i := 0; i < x.N; i++ {
			p := w.cursor
			w.cursor++
			if v := w.deliver(p, 1); v != nil {
				return v
			}
			if i&1023 == 1023 {
				w.gc()
			}
		}
		w.gc()
	case "sparse":
		// Tid repetitions of: N forwarded packets, one withheld
		w.long = true
		for r := 0; r < x.Tid; r++ {
			for i := 0; i <= x.N; i++ {
				p := w.cursor
				w.cursor++
				tid := 0
				if i == x.N {
					tid = 1
				}
				if v := w.deliver(p, tid); v != nil {
					return v
				}
			}
			w.gc()
		}
	case "alt":
		if x.N >= 16384 {
			w.long = true
		}
		for i := 0; i < x.N; i++ {
			for _, tid := range []int{0, 1} {
				p := w.cursor
				w.cursor++
				if v := w.deliver(p, tid); v != nil {
					return v
				}
			}
			if i&1023 == 1023 {
				w.gc()
			}
		}
		w.gc()
	}
	return nil
}

// gc forgets positions that left the re-synchronisation window.
func (w *world) gc() {
	for p := range w.info {
		if w.highest-p > window+10 {
			delete(w.info, p)
		}
	}
	for s, p := range w.outs {
		if w.highest-p > window+10 {
			delete(w.outs, s)
		}
	}
}

func (w *world) Canon() string {
	var b strings.Builder
	b.WriteString(w.be.state())
	fmt.Fprintf(&b, "#h%d c%d", w.start+uint16(w.highest), w.cursor-w.highest)
	lo := w.cursor - 12
	for p := w.cursor - 1; p >= 0 && p >= lo; p-- {
		i := w.info[p]
		if i == nil {
			fmt.Fprintf(&b, "|%d:-", w.cursor-p)
			continue
		}
		fmt.Fprintf(&b, "|%d:%d%v%v%v,%d", w.cursor-p, i.tid, i.delivered, i.withheld, i.forwarded, int64(len(w.withheld))-w.withheldBefore(p))
	}
	if (w.macro || w.cycle) && w.nops < 2 {
		fmt.Fprintf(&b, "#n%d", w.nops)
	}
	return b.String()
}

func (w *world) Outcome() string { return w.outcome }

func (w *world) Clone() seqx.World {
	n := &world{be: w.be.clone(), start: w.start, cursor: w.cursor, highest: w.highest,
		info: make(map[int64]*posInfo, len(w.info)), withheld: append([]int64(nil), w.withheld...),
		outs: make(map[uint16]int64, len(w.outs)), nops: w.nops, macro: w.macro, lateHi: w.lateHi,
		long: w.long, cycle: w.cycle, firstSeq: w.firstSeq, haveFirst: w.haveFirst}
	for p, i := range w.info {
		c := *i
		n.info[p] = &c
	}
	for s, p := range w.outs {
		n.outs[s] = p
	}
	return n
}

// Checkpoint: states reached by a macro operation are expensive to replay.
func (w *world) Checkpoint() bool { return w.lastMacro }
func (w *world) Close()           { w.be.close() }

func freshWorld(start uint16, track, macro bool) func() seqx.World {
	return func() seqx.World {
		var be backend
		if track {
			be = newTrackBackend()
		} else {
			be = &mapBackend{}
		}
		return &world{be: be, start: start, highest: -1, info: map[int64]*posInfo{},
			outs: map[uint16]int64{}, macro: macro, lateHi: true}
	}
}

func starts() []uint16 {
	set := map[uint16]bool{}
	add := func(s uint16) { set[s] = true }
	if core.Quick() {
		for _, b := range []int{0, 8192, 32768, 57344} {
			for _, d := range []int{-1, 0, 1} {
				add(uint16(b + d))
			}
		}
		add(65533)
		add(100)
	} else {
		for b := 0; b < 65536; b += 4096 {
			for _, d := range []int{-2, -1, 0, 1, 2} {
				add(uint16(b + d))
			}
		}
		add(65533)
		add(100)
	}
	var l []uint16
	for s := range set {
		l = append(l, s)
	}
	sort.Slice(l, func(i, j int) bool { return l[i] < l[j] })
	return l
}

func cfgFor(kind string, start uint16) seqx.Config {
	switch kind {
	case "track":
		return seqx.Config{Name: fmt.Sprintf("track/start%d", start), Fresh: freshWorld(start, true, false),
			MaxDepth: core.Pick(5, 7), Parallel: 1}
	case "trackmacro":
		return seqx.Config{Name: fmt.Sprintf("trackmacro/start%d", start), Fresh: freshWorld(start, true, true),
			MaxDepth: core.Pick(5, 6), Parallel: 1}
	case "map":
		return seqx.Config{Name: fmt.Sprintf("map/start%d", start), Fresh: freshWorld(start, false, false),
			MaxDepth: core.Pick(6, 8), Parallel: 1}
	case "mapmacro":
		return seqx.Config{Name: fmt.Sprintf("mapmacro/start%d", start), Fresh: freshWorld(start, false, true),
			MaxDepth: core.Pick(5, 7), Parallel: 1}
	case "tracknopid":
		return seqx.Config{Name: fmt.Sprintf("tracknopid/start%d", start), Fresh: func() seqx.World {
			return &world{be: newTrackBackendPid(true), start: start, highest: -1, info: map[int64]*posInfo{},
				outs: map[uint16]int64{}, lateHi: true}
		}, MaxDepth: core.Pick(4, 6), Parallel: 1}
	case "mapcycle":
		return seqx.Config{Name: fmt.Sprintf("mapcycle/start%d", start), Fresh: func() seqx.World {
			return &world{be: &mapBackend{constPid: true}, start: start, highest: -1, info: map[int64]*posInfo{},
				outs: map[uint16]int64{}, cycle: true, lateHi: true}
		}, MaxDepth: core.Pick(4, 5), Parallel: 1}
	}
	panic(kind)
}

var kinds = []string{"track", "trackmacro", "map", "mapmacro", "mapcycle", "tracknopid"}

func main() {
	t0 := time.Now()
	o := core.ParseFlags(90, 1500)
	res := &core.Result{Property: "C01", Tier: o.Tier,
		Technique: "explicit-state BFS over arrival histories on the real rtpDownTrack.Write and packetmap.Map vs an extended-position reference model"}
	if o.Replay != "" {
		replay(o.Replay)
		return
	}
	if o.Shard < 0 {
		core.RunShards(res, core.NCPU(), nil, nil)
		res.Assume("layer state pinned to tid=wantedTid=0,maxTid=2 so a packet is withheld exactly when its VP8 TID>0 and Drop accepts it; each packet is its own frame")
		res.Assume("in order = immediate successor of the highest position delivered so far; re-synchronisation jumps (>8192) are outside the quantifier and not in the alphabet")
		core.Finish(res, t0)
	}
	// shard: take every n-th (kind,start) configuration and fold the
	// coverage per kind
	ss := starts()
	i := 0
	agg := map[string]*core.Sub{}
	for _, k := range kinds {
		for _, s := range ss {
			if core.Quick() && strings.HasSuffix(k, "macro") && s != 1 && s != 8191 && s != 57344 && s != 65535 {
				continue
			}
			if (k == "mapcycle" || k == "tracknopid") && s != 1 && (core.Quick() || s != 65535) {
				continue
			}
			i++
			if i%o.Shards != o.Shard || !core.Want(k) {
				continue
			}
			sub := seqx.Explore(cfgFor(k, s), res)
			a := agg[k]
			if a == nil {
				sub.Name = k
				sub.Note = ""
				agg[k] = &sub
				continue
			}
			a.States += sub.States
			a.Transitions += sub.Transitions
			a.Executions += sub.Executions
			a.Exhaustive = a.Exhaustive && sub.Exhaustive
			if sub.Outcomes > a.Outcomes {
				a.Outcomes = sub.Outcomes
			}
		}
	}
	for _, k := range kinds {
		if a := agg[k]; a != nil {
			a.Bound += fmt.Sprintf(" x %d start seqnos", len(ss))
			res.AddSub(*a)
		}
	}
	core.Finish(res, t0)
}

func replay(path string) {
	data, err := os.ReadFile(path)
	if err != nil {
		fmt.Println(err)
		os.Exit(2)
	}
	var a struct {
		Replay struct {
			Config string `json:"config"`
			Ops    []op   `json:"ops"`
		} `json:"replay"`
	}
	if err := json.Unmarshal(data, &a); err != nil {
		fmt.Println(err)
		os.Exit(2)
	}
	var kind string
	var start int
	parts := strings.SplitN(a.Replay.Config, "/start", 2)
	kind = parts[0]
	fmt.Sscanf(parts[1], "%d", &start)
	ops := make([]seqx.Op, len(a.Replay.Ops))
	for i, x := range a.Replay.Ops {
		ops[i] = x
	}
	if v := seqx.Replay(cfgFor(kind, uint16(start)), ops); v != nil {
		fmt.Printf("VIOLATION property=C01 replay=%s\n  %s\n", path, v.What)
		os.Exit(1)
	}
	fmt.Println("replay: no violation")
}

package main

import (
	"encoding/json"
	"fmt"
	"net"
	"net/http"
	"net/http/httptest"
	"net/url"
	"os"
	"path/filepath"
	"runtime/debug"
	"strings"
	"time"

	"github.com/jech/galene/conn"
	"github.com/jech/galene/diskwriter"
	"github.com/jech/galene/group"
	"github.com/jech/galene/rtpconn"
	"github.com/jech/galene/token"
	"github.com/jech/galene/webserver"

	"verif/vos"
)

func (c *fakeClient) Group() *group.Group          { return c.g }
func (c *fakeClient) Addr() net.Addr               { return nil }
func (c *fakeClient) Id() string                   { return "c19-client" }
func (c *fakeClient) Username() string             { return c.user }
func (c *fakeClient) Init(u string, p []string)    { c.user, c.perms = u, p }
func (c *fakeClient) Permissions() []string        { return c.perms }
func (c *fakeClient) Data() map[string]interface{} { return nil }
func (c *fakeClient) PushConn(g *group.Group, id string, up conn.Up, tracks []conn.UpTrack, replace string) error {
	return nil
}
func (c *fakeClient) RequestConns(target group.Client, g *group.Group, id string) error { return nil }
func (c *fakeClient) Joined(group, kind string) error                                   { return nil }
func (c *fakeClient) PushClient(group, kind, id, username string, perms []string, data map[string]interface{}) error {
	return nil
}
func (c *fakeClient) Kick(id string, user *string, message string) error { return nil }

// ---- contexts

type ctxKind int

const (
	kGroup     ctxKind = iota // group layer, group pages, management API
	kRec                      // GET /recordings/...
	kRecDelete                // POST /recordings/<group>/ q=delete
	kStatic                   // static files
	kDisk                     // disk writer of one group
)

func (k ctxKind) category() string {
	switch k {
	case kGroup:
		return "groups"
	case kStatic:
		return "static"
	}
	return "recordings"
}

type octx struct {
	name  string // handler label (part of signatures)
	kind  ctxKind
	group string // kRecDelete/kDisk: the group whose directory may be touched ("" = none)
	http  bool   // driven through the HTTP mux (a panic aborts the request, as in net/http)
}

var mutating = map[string]bool{
	"create": true, "createtemp": true, "remove": true, "removeall": true, "rename": true,
	"mkdir": true, "mkdirall": true, "writefile": true, "write": true, "truncate": true, "chtimes": true,
	"root.create": true, "root.remove": true, "root.mkdir": true,
}

// run executes f with the vos log on, then applies the log, registry and
// sentinel oracles, empties the group registry and restores the sandbox.
func (w *world) run(c octx, f func(), post func()) {
	if dumpOutcomes {
		t0 := time.Now()
		defer func() { ctxTime[c.name] += time.Since(t0) }()
	}
	vos.SetHook(func(vos.StepInfo) error { return nil })
	func() {
		defer func() {
			if r := recover(); r != nil {
				if c.http {
					// net/http recovers a panicking handler and drops the
					// connection: nothing is served.  The log up to the
					// panic is still judged.
					w.aborted++
					w.outAdd(c.name + "/aborted")
					if w.firstAbort == "" {
						w.firstAbort = fmt.Sprintf("%s input %q: %v", c.name, w.input, r)
					}
					if dumpOutcomes {
						fmt.Fprintf(os.Stderr, "ABORT %s input %q: %v\n", c.name, w.input, r)
					}
					return
				}
				w.panics++
				if dumpOutcomes {
					fmt.Fprintf(os.Stderr, "PANIC %s input %q: %v\n%s\n", c.name, w.input, r, debug.Stack())
				}
				if w.firstPan == "" {
					w.firstPan = fmt.Sprintf("%s input %q: %v", c.name, w.input, r)
				}
			}
		}()
		f()
	}()
	lg := vos.Log()
	vos.SetHook(nil)
	w.execs++
	w.checkLog(c, lg)
	for _, n := range group.GetNames() {
		if !refGroup(n) {
			w.viol("invalid-group-instantiated/"+c.name,
				fmt.Sprintf("a group with the invalid name %q (%s) exists in the registry", n, refReason(n)), c.name)
		}
	}
	if post != nil {
		post()
	}
	group.VerifC19ResetGroups()
	if dirs, outside := w.mutatedDirs(lg); len(dirs) > 0 || outside {
		if outside {
			// a mutating operation aimed outside the four directories:
			// look at the sentinels right away so that the context is named
			if msg := w.sb.checkOutside(true); msg != "" {
				w.viol("sentinel-touched/"+c.name, msg, c.name)
				w.sb.repairOutside()
			}
			dirs = []string{w.sb.groups, w.sb.data, w.sb.rec, w.sb.static}
		}
		if err := w.sb.restore(dirs); err != nil {
			panic(fmt.Sprintf("sandbox restore: %v", err))
		}
	}
}

// mutatedDirs returns which of the four configured directories saw a
// mutating operation, and whether one was aimed anywhere else.
func (w *world) mutatedDirs(lg []vos.StepInfo) (dirs []string, outside bool) {
	sb := w.sb
	var hit [4]bool
	tops := [4]string{sb.groups, sb.data, sb.rec, sb.static}
	for _, e := range lg {
		if !mutating[e.Op] && !((e.Op == "openfile" || e.Op == "root.openfile") && e.Arg != "") {
			continue
		}
		ps := []string{e.Path}
		if e.Op == "rename" {
			ps = append(ps, e.Arg)
		}
		for _, p := range ps {
			p = filepath.Clean(strings.ReplaceAll(p, "//", "/"))
			found := false
			for i, t := range tops {
				if under(t, p) {
					hit[i], found = true, true
				}
			}
			if !found {
				outside = true
			}
		}
	}
	for i, t := range tops {
		if hit[i] {
			dirs = append(dirs, t)
		}
	}
	return
}

func (w *world) checkLog(c octx, lg []vos.StepInfo) {
	for _, e := range lg {
		w.fsops++
		w.checkPath(c, e.Op, e.Path)
		if e.Op == "rename" {
			w.checkPath(c, e.Op, e.Arg)
		}
	}
}

func (w *world) checkPath(c octx, op, p string) {
	sb := w.sb
	bad := func(why string) {
		w.viol("opened-outside/"+c.kind.category()+"/"+c.name,
			fmt.Sprintf("%s %s: %s", op, sb.rel(p), why), c.name)
	}
	if i := strings.Index(p, "//"); i >= 0 {
		// operation through an os.Root: "<root>//<name>"
		base := filepath.Clean(p[:i])
		name := strings.ReplaceAll(p[i+2:], "//", "/")
		resolved := filepath.Clean(base + "/" + name)
		escaping := strings.HasPrefix(name, "/") || !under(base, resolved)
		if escaping {
			w.refused++ // os.Root refuses it; the sentinels cross-check
		}
		fixedStatic := base == sb.static && (name == "404.html" || name == "galene.html")
		switch c.kind {
		case kStatic:
			if base != sb.static {
				bad("a static request used a root other than the static directory")
			}
		case kGroup:
			if !fixedStatic {
				bad("a group-name context reached a directory root with a client-derived name")
			}
		case kRec, kRecDelete:
			if fixedStatic {
				return
			}
			if base != sb.rec {
				bad("a recordings request used a root other than the recordings directory")
				return
			}
			if c.kind == kRecDelete && op == "root.remove" && !escaping && c.group != "" {
				// (a delete under an invalid group name is reported as
				// served-invalid-name by the caller)
				own := filepath.Join(sb.rec, c.group)
				if !under(own, resolved) {
					w.viol("delete-outside-group-dir/"+c.name,
						fmt.Sprintf("delete request removes %s, outside the recording directory of the authorised group %q", sb.rel(resolved), c.group), c.name)
				}
			}
		case kDisk:
			own := filepath.Join(sb.rec, c.group)
			if base != own {
				bad("the disk writer used a root other than the group's recording directory")
				return
			}
			if strings.ContainsAny(name, "/\\") {
				w.viol("recording-name-unsanitised",
					fmt.Sprintf("recording file name %q contains a path separator", name), c.name)
			}
		}
		return
	}
	p = filepath.Clean(p)
	ok := false
	switch c.kind {
	case kGroup:
		// the token store lives in its own directory under data/ (the file,
		// its directory and the temp files of a rewrite)
		ok = under(sb.groups, p) || p == sb.config || p == sb.tokens || p == filepath.Dir(sb.tokens) || under(filepath.Dir(sb.tokens), p)
	case kRec, kRecDelete:
		ok = under(sb.rec, p) || under(sb.groups, p) || p == sb.config
	case kStatic:
		ok = under(sb.static, p) || p == sb.config
	case kDisk:
		ok = under(filepath.Join(sb.rec, c.group), p)
	}
	if !ok {
		bad("path is outside the directory of its category")
	}
}

// ---- HTTP

type reqSpec struct {
	method         string
	prefix, suffix string
	form           int // 0: minimal escaping, 1: everything percent-encoded (RawPath)
	user, pass     string
	ctype, body    string
	subject        *string // the enumerated string when it is not in the URL
}

func (w *world) do(c octx, variant string, q reqSpec, s string) *httptest.ResponseRecorder {
	var body *strings.Reader
	body = strings.NewReader(q.body)
	r, err := http.NewRequest(q.method, "http://galene.test/", body)
	if err != nil {
		panic(err)
	}
	r.URL.Path = q.prefix + s + q.suffix
	if q.form == 1 {
		// (dots of the prefix too, so that the router's cleaning does not see them)
		r.URL.RawPath = strings.ReplaceAll(q.prefix, ".", "%2e") + encAll(s) + q.suffix
	}
	r.RequestURI = r.URL.EscapedPath()
	r.RemoteAddr = "192.0.2.1:1234"
	if q.user != "" {
		r.SetBasicAuth(q.user, q.pass)
	}
	if q.ctype != "" {
		r.Header.Set("Content-Type", q.ctype)
	}
	rr := httptest.NewRecorder()
	w.mux.ServeHTTP(rr, r)
	b := rr.Body.String()
	if strings.Contains(b, sentinelM) {
		w.viol("served-sentinel/"+c.name, fmt.Sprintf("%s %s answered %d with the content of a file outside the configured directories", q.method, r.URL.EscapedPath(), rr.Code), c.name+"/"+variant)
	}
	if rr.Code/100 == 2 || rr.Code == http.StatusSeeOther {
		w.served++
	}
	if sampleInputs[w.input] && variant == "encoded" && len(w.samples) < 3 && (c.name == "static" || c.name == "group-status" || c.name == "recordings-get") {
		w.samples = append(w.samples, fmt.Sprintf("%s %s -> %d", q.method, r.URL.EscapedPath(), rr.Code))
	}
	subj := s
	if q.subject != nil {
		subj = *q.subject
	}
	reason := refReason(subj)
	if reason == "" {
		reason = "valid"
	}
	w.outAdd(fmt.Sprintf("%s/%s/%s/%d/%s", c.name, variant, q.method, rr.Code, reason))
	return rr
}

func ok2(rr *httptest.ResponseRecorder) bool { return rr.Code/100 == 2 }

func (w *world) servedInvalid(c octx, variant, what, name string) {
	w.viol("served-invalid-name/"+c.name+"/"+refReason(name),
		fmt.Sprintf("%s although the name %q is invalid (%s)", what, name, refReason(name)), c.name+"/"+variant)
}

// apiName reports whether, by the grammar of the management API, the whole
// of s is the name (no keyword component inside).
func apiName(s string) bool {
	return s != "" && s[0] != '.' && !strings.Contains(s, "/.")
}

func (w *world) driveHTTP(s string, form int, v string) {
	op, admin := [2]string{"op", pwOp}, [2]string{"root", pwAdmin}
	get := func(prefix, suffix string, auth [2]string) reqSpec {
		return reqSpec{method: "GET", prefix: prefix, suffix: suffix, form: form, user: auth[0], pass: auth[1]}
	}
	none := [2]string{}

	// group page
	c := octx{http: true, name: "group-page", kind: kGroup}
	w.run(c, func() {
		rr := w.do(c, v, get("/group/", "/", none), s)
		if ok2(rr) && !refGroup(s) {
			w.servedInvalid(c, v, fmt.Sprintf("GET /group/<name>/ answered %d", rr.Code), s)
		}
	}, nil)

	// group status
	c = octx{http: true, name: "group-status", kind: kGroup}
	w.run(c, func() {
		rr := w.do(c, v, get("/group/", "/.status", none), s)
		if ok2(rr) {
			var st struct {
				Name string `json:"name"`
			}
			if err := json.Unmarshal(rr.Body.Bytes(), &st); err != nil {
				w.viol("status-unparsable", "status answer is not JSON", c.name+"/"+v)
			} else if !refGroup(st.Name) {
				w.servedInvalid(c, v, "GET /group/<name>/.status answered 200", st.Name)
			} else if st.Name != s {
				w.outAdd("group-status/alias")
			}
		}
	}, nil)

	// WHIP endpoint (GET: parses the name and instantiates the group, then 405)
	c = octx{http: true, name: "group-whip", kind: kGroup}
	w.run(c, func() {
		rr := w.do(c, v, get("/group/", "/.whip", none), s)
		if ok2(rr) && !refGroup(s) {
			w.servedInvalid(c, v, fmt.Sprintf("GET /group/<name>/.whip answered %d", rr.Code), s)
		}
	}, nil)

	// recordings: listing / file
	c = octx{http: true, name: "recordings-get", kind: kRec}
	w.run(c, func() {
		rr := w.do(c, v, get("/recordings/", "", op), s)
		if ok2(rr) {
			g := ""
			if i := strings.LastIndex(s, "/"); i >= 0 {
				g = s[:i]
			}
			if !refGroup(g) {
				w.servedInvalid(c, v, fmt.Sprintf("GET /recordings/<name>/<file> (%q) answered %d", s, rr.Code), g)
			}
		}
	}, nil)

	// recordings: delete form, filename = s in group a
	post := func(prefix, suffix, filename string) reqSpec {
		return reqSpec{method: "POST", prefix: prefix, suffix: suffix, form: form, user: op[0], pass: op[1],
			ctype: "application/x-www-form-urlencoded",
			body:  url.Values{"q": {"delete"}, "filename": {filename}}.Encode()}
	}
	if form == 0 { // the form field is not part of the URL: one wire form only
		c = octx{http: true, name: "recordings-delete", kind: kRecDelete, group: "a"}
		w.run(c, func() {
			q := post("/recordings/a/", "", s)
			q.subject = &s
			w.do(c, v, q, "")
		}, nil)
	}
	// recordings: delete form, group = s
	c = octx{http: true, name: "recordings-delete-group", kind: kRecDelete}
	if refGroup(s) {
		c.group = s
	}
	w.run(c, func() {
		rr := w.do(c, v, post("/recordings/", "/", "a"), s)
		if rr.Code == http.StatusSeeOther && !refGroup(s) {
			w.servedInvalid(c, v, "POST /recordings/<name>/ q=delete succeeded", s)
		}
	}, nil)

	// static files
	c = octx{http: true, name: "static", kind: kStatic}
	w.run(c, func() {
		w.do(c, v, get("/", "", none), s)
	}, nil)

	// static files below an existing sub-directory of the static root, with
	// zero, one or two climbs already in the prefix
	c = octx{http: true, name: "static-subdir", kind: kStatic}
	w.run(c, func() {
		for _, pre := range []string{"/third-party/", "/third-party/../", "/third-party/../../", "/b/../../"} {
			w.do(c, v, get(pre, "", none), s)
		}
	}, nil)

	// management API: group.  The documented URL of a group is
	// .groups/<name>/ (the trailing slash is optional), so at the end of the
	// URL one trailing slash is URL syntax, not part of the name.
	api := "/galene-api/v0/.groups/"
	c = octx{http: true, name: "api-group", kind: kGroup}
	w.run(c, func() {
		chk := func(what, name string, rr *httptest.ResponseRecorder) {
			if ok2(rr) && apiName(s) && !refGroup(name) {
				w.servedInvalid(c, v, fmt.Sprintf("%s answered %d", what, rr.Code), name)
			}
		}
		last := strings.TrimSuffix(s, "/")
		chk("GET .groups/<name>", last, w.do(c, v, get(api, "", admin), s))
		put := get(api, "", admin)
		put.method, put.ctype, put.body = "PUT", "application/json", "{}"
		chk("PUT .groups/<name>", last, w.do(c, v, put, s))
		chk("GET .groups/<name> after PUT", last, w.do(c, v, get(api, "", admin), s))
		chk("GET .groups/<name>/.users/", s, w.do(c, v, get(api, "/.users/", admin), s))
		chk("GET .groups/<name>/.tokens/", s, w.do(c, v, get(api, "/.tokens/", admin), s))
		del := get(api, "", admin)
		del.method = "DELETE"
		chk("DELETE .groups/<name>", last, w.do(c, v, del, s))
	}, nil)

	// management API: user of group a
	c = octx{http: true, name: "api-user", kind: kGroup}
	w.run(c, func() {
		chk := func(what string, rr *httptest.ResponseRecorder) {
			if ok2(rr) && apiName(s) && !refUser(s) {
				w.servedInvalid(c, v, fmt.Sprintf("%s answered %d", what, rr.Code), s)
			}
		}
		up := api + "a/.users/"
		chk("GET .users/<name>", w.do(c, v, get(up, "", admin), s))
		put := get(up, "", admin)
		put.method, put.ctype, put.body = "PUT", "application/json", `{"permissions":"present"}`
		chk("PUT .users/<name>", w.do(c, v, put, s))
		pw := get(up, "/.password", admin)
		pw.method, pw.ctype, pw.body = "PUT", "application/json", `"x"`
		chk("PUT .users/<name>/.password", w.do(c, v, pw, s))
		chk("GET .users/<name> after PUT", w.do(c, v, get(up, "", admin), s))
		del := get(up, "", admin)
		del.method = "DELETE"
		chk("DELETE .users/<name>", w.do(c, v, del, s))
	}, nil)

	// management API: token name
	c = octx{http: true, name: "api-token", kind: kGroup}
	w.run(c, func() {
		w.do(c, v, get(api+"a/.tokens/", "", admin), s)
	}, nil)
}

// ---- group layer

func (w *world) driveGroupLayer(s string) {
	reason := refReason(s)
	if reason == "" {
		reason = "valid"
	}
	note := func(ctx string, err error) {
		w.outAdd(fmt.Sprintf("%s/%v/%s", ctx, err == nil, reason))
	}

	c := octx{name: "group-add", kind: kGroup}
	w.run(c, func() {
		_, err := group.Add(s, nil)
		note(c.name, err)
		if err == nil && !refGroup(s) {
			w.viol("group-layer-accepts-invalid/add", fmt.Sprintf("group.Add accepted the invalid name %q (%s)", s, refReason(s)), c.name)
		}
	}, nil)

	c = octx{name: "get-description", kind: kGroup}
	w.run(c, func() {
		_, err := group.GetDescription(s)
		note(c.name, err)
		group.GetDescriptionTag(s)
	}, nil)

	c = octx{name: "update-description", kind: kGroup}
	w.run(c, func() {
		err := group.UpdateDescription(s, "", &group.Description{})
		note(c.name, err)
	}, nil)

	user, pw := "op", pwOp
	c = octx{name: "join-group", kind: kGroup}
	w.run(c, func() {
		fc := &fakeClient{}
		g, err := group.AddClient(s, fc, group.ClientCredentials{Username: &user, Password: pw})
		note(c.name, err)
		if err == nil {
			w.served++
			if !refGroup(s) || g.Name() != s {
				w.viol("joined-invalid-name/group", fmt.Sprintf("a client joined group %q under the invalid name %q (%s)", g.Name(), s, refReason(s)), c.name)
			}
		}
	}, nil)

	// the same through the signalling protocol: a real web client's join message
	c = octx{name: "join-group-websocket", kind: kGroup}
	w.run(c, func() {
		wc := rtpconn.VerifNewClient("c19-ws")
		raw, _ := json.Marshal(map[string]any{"type": "join", "kind": "join", "group": s, "username": user, "password": pw})
		err := wc.Handle(raw)
		note(c.name, err)
		if g := wc.Group(); g != nil {
			w.served++
			if !refGroup(s) || g.Name() != s {
				w.viol("joined-invalid-name/group-websocket", fmt.Sprintf("a join message naming group %q made the client a member of %q (%s)", s, g.Name(), refReason(s)), c.name)
			}
		}
		wc.Exit(fmt.Errorf("done"))
	}, nil)

	c = octx{name: "join-username", kind: kGroup}
	w.run(c, func() {
		fc := &fakeClient{}
		name := s
		_, err := group.AddClient("a", fc, group.ClientCredentials{Username: &name, Password: "x"})
		note(c.name, err)
		if err == nil {
			w.served++
			if !refUser(s) || fc.user != s {
				w.viol("joined-invalid-name/username-password", fmt.Sprintf("a client joined with the invalid username %q (%s)", fc.user, refReason(s)), c.name)
			}
		}
	}, nil)

	c = octx{name: "join-username-token", kind: kGroup}
	w.run(c, func() {
		fc := &fakeClient{}
		name := s
		_, err := group.AddClient("a", fc, group.ClientCredentials{Username: &name, Token: "tok"})
		note(c.name, err)
		if err == nil {
			w.served++
			if !refUser(s) || fc.user != s {
				w.viol("joined-invalid-name/username-token", fmt.Sprintf("a client joined (stateful token) with the invalid username %q (%s)", fc.user, refReason(s)), c.name)
			}
		}
	}, nil)

	// the username embedded in a stateful token (tokens are minted by members
	// through maketoken, which does not validate it): it must be validated
	// when the token is used
	c = octx{name: "join-token-embedded-username", kind: kGroup}
	w.run(c, func() {
		name := s
		exp := time.Date(2031, 1, 1, 0, 0, 0, 0, time.UTC)
		if _, err := token.Update(&token.Stateful{Token: "tok-embedded", Group: "a", Username: &name, Permissions: []string{"present"}, Expires: &exp}, ""); err != nil {
			note(c.name, err)
			return
		}
		fc := &fakeClient{}
		other := "harmless"
		for _, creds := range []group.ClientCredentials{{Token: "tok-embedded"}, {Username: &other, Token: "tok-embedded"}} {
			_, err := group.AddClient("a", fc, creds)
			note(c.name, err)
			if err == nil {
				w.served++
				if !refUser(fc.user) {
					w.viol("joined-invalid-name/username-in-token", fmt.Sprintf("a client joined with a stateful token carrying the invalid username %q (%s)", fc.user, refReason(fc.user)), c.name)
				}
				group.DelClient(fc)
			}
		}
		if _, etag, err := token.Get("tok-embedded"); err == nil {
			token.Delete("tok-embedded", etag)
		}
	}, nil)

	c = octx{name: "join-token", kind: kGroup}
	w.run(c, func() {
		fc := &fakeClient{}
		u := "u"
		_, err := group.AddClient("a", fc, group.ClientCredentials{Username: &u, Token: s})
		note(c.name, err)
	}, nil)

	// agreement of URL-to-group parsing with the group layer
	c = octx{name: "parse-group-name", kind: kGroup}
	w.run(c, func() {
		n := webserver.VerifC19ParseGroupName("/group/", "/group/"+s+"/")
		if n == "" {
			w.outAdd("parse/empty/" + reason)
			return
		}
		_, err := group.Add(n, nil)
		w.outAdd(fmt.Sprintf("parse/%v/%v/%s", err == nil, n == s, reason))
		if err == nil && !refGroup(n) {
			w.viol("url-parse-accepts-invalid/"+refReason(n), fmt.Sprintf("parseGroupName yields %q, which the group layer then accepts although it is invalid", n), c.name)
		}
	}, nil)
}

func (w *world) driveAll(s string) {
	w.driveGroupLayer(s)
	w.driveHTTP(s, 0, "plain")
	w.driveHTTP(s, 1, "encoded")
	if lit := encAll(s); lit != s {
		// the percent-encoded text taken literally (a client that encodes twice)
		w.driveHTTP(lit, 0, "literal")
	}
	w.sinceDeep++
	deep := w.sinceDeep >= 256
	if deep {
		w.sinceDeep = 0
	}
	if msg := w.sb.checkOutside(deep); msg != "" {
		w.viol("sentinel-touched/any", msg, "after all contexts")
		w.sb.repairOutside()
	}
}

// ---- (3) recording file names

func listDir(dir string) map[string]bool {
	m := map[string]bool{}
	ents, _ := os.ReadDir(dir)
	for _, e := range ents {
		m[e.Name()] = e.IsDir()
	}
	return m
}

func (w *world) driveRecording(s string) {
	san := ""
	if s != "" { // openDiskFile only sanitises non-empty usernames
		san = diskwriter.VerifC19Sanitise(s)
	}
	if strings.ContainsAny(san, "/\\") {
		w.viol("sanitise-keeps-separator", fmt.Sprintf("sanitise(%q) = %q still contains a path separator", s, san), "sanitise")
	}
	for _, gname := range []string{"a", "a/b"} {
		c := octx{name: "diskwriter", kind: kDisk, group: gname}
		dir := filepath.Join(w.sb.rec, gname)
		var before map[string]bool
		var name string
		var err error
		w.run(c, func() {
			g, gerr := group.Add(gname, nil)
			if gerr != nil {
				panic("sandbox group missing: " + gerr.Error())
			}
			// only the disk writer's operations are judged as kDisk
			vos.SetHook(func(vos.StepInfo) error { return nil })
			dw, derr := diskwriter.New(g)
			if derr != nil {
				panic("diskwriter.New: " + derr.Error())
			}
			before = listDir(dir)
			name, err = dw.VerifC19OpenDiskFile(s, "webm")
			dw.Close()
		}, func() {
			w.recExecs++
			after := listDir(dir)
			var created []string
			for n, isDir := range after {
				if _, ok := before[n]; !ok {
					created = append(created, n)
					if isDir {
						w.viol("recording-misplaced", fmt.Sprintf("username %q created the subdirectory %q in the recording directory", s, n), c.name)
					}
				}
			}
			if sampleInputs[s] && len(w.recSamples) < 2 {
				w.recSamples = append(w.recSamples, fmt.Sprintf("username %q in group %s -> file %q err=%v", s, gname, filepath.Base(name), err))
			}
			if err == nil {
				w.recMade++
				base := filepath.Base(name)
				if filepath.Dir(name) != dir {
					w.viol("recording-misplaced", fmt.Sprintf("username %q: the recording %q is not directly in the group's directory %s", s, w.sb.rel(name), w.sb.rel(dir)), c.name)
				} else if strings.Contains(base, "\\") {
					w.viol("recording-name-unsanitised", fmt.Sprintf("recording file %q of user %q has a path separator in its name", w.sb.rel(name), s), c.name)
				} else if len(created) != 1 || created[0] != base || !strings.Contains(base, san) {
					w.viol("recording-misplaced", fmt.Sprintf("username %q: openDiskFile reported %q but the group's directory gained %q", s, w.sb.rel(name), created), c.name)
				}
				w.recOut.Add(fmt.Sprintf("created/%v", san == s))
			} else {
				if len(created) != 0 {
					w.viol("recording-misplaced", fmt.Sprintf("username %q: openDiskFile failed (%v) but the directory gained %q", s, err, created), c.name)
				}
				w.recOut.Add("error/" + errClass(err))
			}
			// nothing else in the recordings tree may have changed
			filepath.Walk(w.sb.rec, func(p string, fi os.FileInfo, e error) error {
				if e != nil || p == dir {
					return nil
				}
				if _, ok := w.sb.inside[p]; !ok && filepath.Dir(p) != dir {
					w.viol("recording-misplaced", fmt.Sprintf("username %q created %s outside the group's own recording directory", s, w.sb.rel(p)), c.name)
				}
				return nil
			})
		})
	}
	if msg := w.sb.checkOutside(false); msg != "" {
		w.viol("sentinel-touched/diskwriter", msg, "diskwriter")
		w.sb.repairOutside()
	}
}

func errClass(err error) string {
	s := err.Error()
	if i := strings.LastIndex(s, ": "); i >= 0 {
		return s[i+2:]
	}
	return s
}

var dumpOutcomes = os.Getenv("C19_DUMP") != ""
var dumped = map[string]bool{}
var ctxTime = map[string]time.Duration{}

func (w *world) outAdd(s string) {
	w.out.Add(s)
	if dumpOutcomes && !dumped[s] {
		dumped[s] = true
		fmt.Fprintf(os.Stderr, "OUTCOME %s   (first input %q)\n", s, w.input)
	}
}

// inputs whose observed behaviour is quoted as samples in the evidence
var sampleInputs = map[string]bool{"..": true, "a/b": true, "../a": true, "a\\b/": true, "a/../b": true, "../b/a": true}

package main

import (
	"bytes"
	"fmt"
	"io/fs"
	"os"
	"path/filepath"
	"sort"
	"strings"
	"time"
)

// The sandbox is one temporary directory T:
//
//	T/groups      group.Directory
//	T/data        group.DataDirectory (config.json, var/tokens.jsonl)
//	T/recordings  diskwriter.Directory
//	T/static      webserver.StaticRoot
//	T/<anything else>  sentinels: must never be opened, created, changed,
//	                   deleted or served
//
// Sentinels sit where a traversal of at most four symbols lands
// (groups/../a.json = T/a.json, static/../a = T/a, recordings/../b/a ...).
type entry struct {
	dir     bool
	content []byte
}

type sandbox struct {
	T, groups, data, rec, static string
	config, tokens               string
	inside                       map[string]entry // absolute path -> entry
	outside                      map[string]entry
	outsideDirs                  []string
}

const (
	pwOp      = "PWMARK-op"
	pwAdmin   = "PWMARK-admin"
	sentinelM = "SENTINEL"
)

var baseMtime = time.Date(2029, 6, 1, 0, 0, 0, 0, time.UTC)

func groupJSON(descr string, extra string) string {
	return fmt.Sprintf(`{"description":%q,"allow-recording":true,%s"users":{"op":{"password":%q,"permissions":"op"}},"wildcard-user":{"password":{"type":"wildcard"},"permissions":"present"}}`+"\n",
		descr, extra, pwOp)
}

func newSandbox() (*sandbox, error) {
	parent := os.TempDir()
	if fi, err := os.Stat("/dev/shm"); err == nil && fi.IsDir() {
		if f, err := os.CreateTemp("/dev/shm", "c19probe"); err == nil {
			f.Close()
			os.Remove(f.Name())
			parent = "/dev/shm" // tmpfs: fsync of the description rewrite is free
		}
	}
	T, err := os.MkdirTemp(parent, "c19-")
	if err != nil {
		return nil, err
	}
	if r, err := filepath.EvalSymlinks(T); err == nil {
		T = r
	}
	sb := &sandbox{T: T,
		groups: filepath.Join(T, "groups"), data: filepath.Join(T, "data"),
		rec: filepath.Join(T, "recordings"), static: filepath.Join(T, "static"),
		inside: map[string]entry{}, outside: map[string]entry{}}
	sb.config = filepath.Join(sb.data, "config.json")
	sb.tokens = filepath.Join(sb.data, "var", "tokens.jsonl")

	in := func(p, content string) { sb.inside[filepath.Join(T, p)] = entry{content: []byte(content)} }
	ind := func(p string) { sb.inside[filepath.Join(T, p)] = entry{dir: true} }
	out := func(p, content string) { sb.outside[filepath.Join(T, p)] = entry{content: []byte(content)} }
	outd := func(p string) { sb.outside[filepath.Join(T, p)] = entry{dir: true} }

	ind("groups")
	in("groups/a.json", groupJSON("GROUP-a", ""))
	ind("groups/a")
	in("groups/a/b.json", groupJSON("GROUP-a/b", ""))
	in("groups/b.json", groupJSON("GROUP-b", `"auto-subgroups":true,`))
	in("groups/é.json", groupJSON("GROUP-eacute", ""))
	// traps: description files that only an unvalidated name can reach
	in("groups/a\\b.json", groupJSON("GROUP-TRAP-backslash", ""))
	in("groups/.json", groupJSON("GROUP-TRAP-empty", ""))
	in("groups/\\.json", groupJSON("GROUP-TRAP-backslash-only", ""))

	ind("data")
	in("data/config.json", fmt.Sprintf(`{"writableGroups":true,"users":{"root":{"password":%q,"permissions":"admin"}}}`+"\n", pwAdmin))
	ind("data/var")
	in("data/var/tokens.jsonl", `{"token":"tok","group":"a","permissions":["present"],"expires":"2031-01-01T00:00:00Z"}`+"\n")

	ind("recordings")
	ind("recordings/a")
	in("recordings/a/a", "REC-a-a")
	in("recordings/a/a.b", "REC-a-a.b")
	in("recordings/a/é", "REC-a-eacute")
	in("recordings/a/a\\b", "REC-a-backslashfile")
	ind("recordings/a/b")
	in("recordings/a/b/a", "REC-a/b-a")
	ind("recordings/b")
	in("recordings/b/a", "REC-b-a")
	ind("recordings/b/b")
	in("recordings/b/b/a", "REC-b/b-a")
	ind("recordings/é")
	in("recordings/é/a", "REC-eacute-a")
	ind("recordings/\\") // trap directory
	in("recordings/\\/a", "REC-TRAP-backslash-only")
	ind("recordings/a\\b") // trap directory
	in("recordings/a\\b/a", "REC-TRAP-backslash")

	ind("static")
	in("static/index.html", "STATIC-index")
	in("static/galene.html", "STATIC-galene")
	in("static/404.html", "STATIC-404")
	in("static/a", "STATIC-a")
	in("static/a.b", "STATIC-a.b")
	in("static/é", "STATIC-eacute")
	ind("static/b")
	in("static/b/index.html", "STATIC-b-index")
	in("static/b/a", "STATIC-b-a")
	ind("static/third-party")
	in("static/third-party/a", "STATIC-third-party-a")

	// sentinels
	out("a", sentinelM+"-01")
	out("a.json", groupJSON(sentinelM+"-02", ""))
	out("b.json", groupJSON(sentinelM+"-03", `"auto-subgroups":true,`))
	outd("b")
	out("b/a", sentinelM+"-04")
	out("b/a.json", groupJSON(sentinelM+"-05", ""))
	out("b/index.html", sentinelM+"-06")
	out("secret.json", groupJSON(sentinelM+"-07", ""))
	outd("outside")
	out("outside/x.json", groupJSON(sentinelM+"-08", ""))
	out("groups.json", groupJSON(sentinelM+"-09", ""))
	out("config.json", `{"users":{"root":{"password":"`+sentinelM+`-10","permissions":"admin"}}}`+"\n")
	outd("recordings-evil")
	out("recordings-evil/a", sentinelM+"-11")
	outd("static-evil")
	out("static-evil/a", sentinelM+"-12")
	outd("groups-evil")
	out("groups-evil/a.json", groupJSON(sentinelM+"-13", ""))
	out(sentinelM+"-name.txt", sentinelM+"-14")
	out("index.html", sentinelM+"-15")
	out(".json", groupJSON(sentinelM+"-16", ""))
	out("404.html", sentinelM+"-17")

	for _, m := range []map[string]entry{sb.inside, sb.outside} {
		paths := sortedKeys(m)
		for _, p := range paths {
			e := m[p]
			if e.dir {
				if err := os.MkdirAll(p, 0700); err != nil {
					return nil, err
				}
			}
		}
		for _, p := range paths {
			e := m[p]
			if !e.dir {
				if err := writeBase(p, e.content); err != nil {
					return nil, err
				}
			}
		}
	}
	for p, e := range sb.outside {
		if e.dir {
			sb.outsideDirs = append(sb.outsideDirs, p)
		}
	}
	sb.outsideDirs = append(sb.outsideDirs, T)
	sort.Strings(sb.outsideDirs)
	// directories get the base mtime too (determinism of listings/etags)
	for _, m := range []map[string]entry{sb.inside, sb.outside} {
		for p, e := range m {
			if e.dir {
				os.Chtimes(p, baseMtime, baseMtime)
			}
		}
	}
	return sb, nil
}

func sortedKeys(m map[string]entry) []string {
	ks := make([]string, 0, len(m))
	for k := range m {
		ks = append(ks, k)
	}
	sort.Strings(ks)
	return ks
}

func writeBase(p string, content []byte) error {
	if err := os.WriteFile(p, content, 0600); err != nil {
		return err
	}
	return os.Chtimes(p, baseMtime, baseMtime)
}

func (sb *sandbox) destroy() { os.RemoveAll(sb.T) }

func under(dir, p string) bool { return p == dir || strings.HasPrefix(p, dir+"/") }

// restore brings the four configured directories back to the baseline.
func (sb *sandbox) restore(roots []string) error {
	seen := map[string]bool{}
	var extra []string
	want := 0
	for p := range sb.inside {
		for _, root := range roots {
			if under(root, p) {
				want++
			}
		}
	}
	for _, root := range roots {
		err := filepath.WalkDir(root, func(p string, d fs.DirEntry, err error) error {
			if err != nil {
				return nil
			}
			e, ok := sb.inside[p]
			if !ok || e.dir != d.IsDir() {
				extra = append(extra, p)
				if d.IsDir() {
					return fs.SkipDir
				}
				return nil
			}
			seen[p] = true
			if !e.dir {
				fi, err := d.Info()
				if err != nil || fi.Size() != int64(len(e.content)) || !fi.ModTime().Equal(baseMtime) {
					return writeBase(p, e.content)
				}
			}
			return nil
		})
		if err != nil {
			return err
		}
	}
	for _, p := range extra {
		if err := os.RemoveAll(p); err != nil {
			return err
		}
	}
	if len(seen) != want || len(extra) > 0 {
		for _, p := range sortedKeys(sb.inside) {
			in := false
			for _, root := range roots {
				in = in || under(root, p)
			}
			if seen[p] || !in {
				continue
			}
			e := sb.inside[p]
			if e.dir {
				if err := os.MkdirAll(p, 0700); err != nil {
					return err
				}
			} else if err := writeBase(p, e.content); err != nil {
				return err
			}
		}
		for p, e := range sb.inside {
			if e.dir {
				os.Chtimes(p, baseMtime, baseMtime)
			}
		}
	}
	return nil
}

// checkOutside verifies that nothing outside the four directories was
// created, deleted or modified.  deep also compares the contents.
func (sb *sandbox) checkOutside(deep bool) string {
	for _, d := range sb.outsideDirs {
		ents, err := os.ReadDir(d)
		if err != nil {
			return fmt.Sprintf("sentinel directory %s unreadable: %v", sb.rel(d), err)
		}
		for _, e := range ents {
			p := filepath.Join(d, e.Name())
			if d == sb.T && (p == sb.groups || p == sb.data || p == sb.rec || p == sb.static) {
				continue
			}
			if _, ok := sb.outside[p]; !ok {
				return fmt.Sprintf("new file %s appeared outside the configured directories", sb.rel(p))
			}
		}
	}
	for p, e := range sb.outside {
		fi, err := os.Lstat(p)
		if err != nil {
			return fmt.Sprintf("sentinel %s was deleted", sb.rel(p))
		}
		if e.dir {
			if !fi.IsDir() {
				return fmt.Sprintf("sentinel directory %s was replaced", sb.rel(p))
			}
			continue
		}
		if fi.Size() != int64(len(e.content)) || !fi.ModTime().Equal(baseMtime) || !fi.Mode().IsRegular() {
			return fmt.Sprintf("sentinel %s was modified", sb.rel(p))
		}
		if deep {
			b, err := os.ReadFile(p)
			if err != nil || !bytes.Equal(b, e.content) {
				return fmt.Sprintf("sentinel %s content changed", sb.rel(p))
			}
		}
	}
	return ""
}

// repairOutside restores the sentinels after a detected violation so that
// later inputs are judged independently.
func (sb *sandbox) repairOutside() {
	for _, d := range sb.outsideDirs {
		ents, _ := os.ReadDir(d)
		for _, e := range ents {
			p := filepath.Join(d, e.Name())
			if d == sb.T && (p == sb.groups || p == sb.data || p == sb.rec || p == sb.static) {
				continue
			}
			if _, ok := sb.outside[p]; !ok {
				os.RemoveAll(p)
			}
		}
	}
	for _, p := range sortedKeys(sb.outside) {
		e := sb.outside[p]
		if e.dir {
			os.MkdirAll(p, 0700)
		} else {
			writeBase(p, e.content)
		}
	}
}

// rel makes a path stable for messages and signatures.
func (sb *sandbox) rel(p string) string {
	if under(sb.T, p) {
		return "T" + strings.TrimPrefix(p, sb.T)
	}
	return p
}

// C19 — names from clients never reach files outside their configured
// directories.
//
// Bounded exhaustive enumeration on the real code: every string of at most N
// symbols over {a, b, ., /, \, %, NUL, é, space} is used as group name,
// username, token, recordings path, static path and delete-form filename, both
// through the group layer and through the real HTTP handlers (registered by
// the real webserver.Serve on http.DefaultServeMux and driven in-process), in
// three wire forms (minimal escaping / everything percent-encoded / the
// percent-encoded text taken literally).  Every file-system operation of the
// instrumented packages is logged by vos and judged against the directory of
// its category; sentinel files outside the configured directories must stay
// untouched and unserved.
package main

import (
	"encoding/json"
	"flag"
	"fmt"
	"io"
	"log"
	"net/http"
	"net/http/httptest"
	"os"
	"path/filepath"
	"runtime/debug"
	"runtime/pprof"
	"sort"
	"strconv"
	"strings"
	"sync"
	"time"

	"github.com/jech/galene/diskwriter"
	"github.com/jech/galene/group"
	"github.com/jech/galene/token"
	"github.com/jech/galene/webserver"

	"verif/core"
	"verif/vtime"
)

var symbols = []string{"a", "b", ".", "/", "\\", "%", "\x00", "é", " "}

// ---- reference predicate of the statement

// refReason returns "" when the statement accepts name as a group name, else
// the first rule of the statement that rejects it.
func refReason(name string) string {
	if name == "" {
		return "empty"
	}
	if name[0] == '/' {
		return "absolute"
	}
	if strings.Contains(name, "\\") {
		return "backslash"
	}
	for _, c := range strings.Split(name, "/") {
		switch c {
		case "":
			return "empty-component"
		case ".":
			return "dot-component"
		case "..":
			return "dotdot-component"
		}
	}
	return ""
}

func refGroup(name string) bool { return refReason(name) == "" }
func refUser(name string) bool  { return name == "" || refGroup(name) }

// ---- enumeration

func pow9(n int) int64 {
	r := int64(1)
	for i := 0; i < n; i++ {
		r *= int64(len(symbols))
	}
	return r
}

// nth returns the idx-th string of exactly l symbols (lexicographic in the
// symbol order).
func nth(l int, idx int64) string {
	d := make([]int, l)
	for i := l - 1; i >= 0; i-- {
		d[i] = int(idx % int64(len(symbols)))
		idx /= int64(len(symbols))
	}
	var b strings.Builder
	for _, x := range d {
		b.WriteString(symbols[x])
	}
	return b.String()
}

// encAll is the wire form in which every byte that is not a letter is
// percent-encoded (so net/http's path cleaning sees no dot or slash).
func encAll(s string) string {
	var b strings.Builder
	for i := 0; i < len(s); i++ {
		c := s[i]
		if c >= 'a' && c <= 'z' {
			b.WriteByte(c)
		} else {
			fmt.Fprintf(&b, "%%%02x", c)
		}
	}
	return b.String()
}

// ---- violations (sharded: the coordinator keeps the smallest input)

type artefact struct {
	Input   string `json:"input"`
	Quoted  string `json:"quoted"`
	Context string `json:"context"`
	Index   int64  `json:"index"`
}

type collector struct {
	res   *core.Result
	shard bool
	best  map[string]int64
	vs    map[string]core.Violation
}

func (c *collector) add(sig, what, ctx, input string, index int64) {
	if old, ok := c.best[sig]; ok && old <= index {
		return
	}
	c.best[sig] = index
	c.vs[sig] = core.Violation{Signature: sig, Sub: "confine",
		What:   fmt.Sprintf("%s [context %s, input %q]", what, ctx, input),
		Replay: artefact{Input: input, Quoted: strconv.Quote(input), Context: ctx, Index: index}}
}

const shardSep = "~~"

func (c *collector) flush() {
	sigs := make([]string, 0, len(c.vs))
	for s := range c.vs {
		sigs = append(sigs, s)
	}
	sort.Strings(sigs)
	for _, s := range sigs {
		v := c.vs[s]
		if c.shard {
			v.Signature = fmt.Sprintf("%s%s%015d", s, shardSep, c.best[s])
		}
		c.res.Violate(v)
	}
}

// mergeShardViolations folds "sig~~index" violations of the shards into one
// violation per signature: the one with the smallest input index.
func mergeShardViolations(res *core.Result) {
	best := map[string]core.Violation{}
	bestIdx := map[string]string{}
	var keep []core.Violation
	for _, v := range res.Violations {
		i := strings.LastIndex(v.Signature, shardSep)
		if i < 0 {
			keep = append(keep, v)
			continue
		}
		sig, idx := v.Signature[:i], v.Signature[i+len(shardSep):]
		if old, ok := bestIdx[sig]; !ok || idx < old {
			bestIdx[sig] = idx
			v.Signature = sig
			best[sig] = v
		}
	}
	for _, v := range best {
		dup := false
		for _, k := range keep {
			if k.Signature == v.Signature {
				dup = true
			}
		}
		if !dup {
			keep = append(keep, v)
		}
	}
	sort.Slice(keep, func(i, j int) bool { return keep[i].Signature < keep[j].Signature })
	res.Violations = keep
}

// ---- world

type world struct {
	sb      *sandbox
	mux     *http.ServeMux
	col     *collector
	sockdir string

	out        core.Outcomes
	execs      int64 // driven operations (requests / calls)
	served     int64 // 2xx/303 answers
	refused    int64 // escape attempts refused by os.Root
	fsops      int64
	panics     int64
	firstPan   string
	aborted    int64 // HTTP requests whose handler panicked (net/http would drop the connection)
	firstAbort string
	recOut     core.Outcomes
	recExecs   int64
	recMade    int64
	samples    []any
	recSamples []any
	input      string
	index      int64
	sinceDeep  int
}

func newWorld(res *core.Result, shard bool) (*world, error) {
	log.SetOutput(io.Discard)
	debug.SetGCPercent(800)
	sb, err := newSandbox()
	if err != nil {
		return nil, err
	}
	vtime.SetVirtual(true)
	group.Directory = sb.groups
	group.DataDirectory = sb.data
	diskwriter.Directory = sb.rec
	token.SetStatefulFilename(sb.tokens)
	webserver.StaticRoot = sb.static
	webserver.Insecure = true
	sockdir, err := os.MkdirTemp("", "c19sock")
	if err != nil {
		return nil, err
	}
	// The real Serve registers the real routes on http.DefaultServeMux and
	// opens the static root; the listener (a unix socket nobody connects to)
	// is irrelevant, requests are fed to the mux in-process.
	if err := webserver.Serve(filepath.Join(sockdir, "s"), sb.data); err != nil {
		return nil, fmt.Errorf("webserver.Serve: %v", err)
	}
	w := &world{sb: sb, mux: http.DefaultServeMux, sockdir: sockdir,
		col: &collector{res: res, shard: shard, best: map[string]int64{}, vs: map[string]core.Violation{}}}
	// vacuity guard: the routes really are there and the sandbox is served
	for _, p := range []string{"/group/a/", "/group/a/b/.status", "/", "/b/a", "/recordings/a/a"} {
		r, _ := http.NewRequest("GET", "http://galene.test"+p, nil)
		r.SetBasicAuth("op", pwOp)
		rr := httptest.NewRecorder()
		w.mux.ServeHTTP(rr, r)
		if rr.Code != 200 {
			return nil, fmt.Errorf("sandbox self-check: GET %s answered %d", p, rr.Code)
		}
	}
	group.VerifC19ResetGroups()
	return w, nil
}

func (w *world) close() {
	webserver.Shutdown()
	w.sb.destroy()
	os.RemoveAll(w.sockdir)
}

func (w *world) viol(sig, what, ctx string) {
	w.col.add("C19/"+sig, what, ctx, w.input, w.index)
}

// ---- fake signalling client (websocket-free join)

type fakeClient struct {
	g     *group.Group
	user  string
	perms []string
}

// ---- main

func main() {
	start := time.Now()
	maxFlag := flag.Int("maxlen", 0, "override the maximal number of symbols (debugging)")
	o := core.ParseFlags(45, 780)
	res := &core.Result{Property: "C19", Tier: o.Tier,
		Technique: "bounded exhaustive enumeration of all strings over a 9-symbol alphabet (x3 wire encodings) through the real group layer, HTTP handlers (real Serve routes, in-process) and disk writer; oracle on the vos file-operation log, sentinel files, response codes/bodies and the group registry"}
	if o.Replay != "" {
		replay(o.Replay, res)
		return
	}
	maxLen := core.Pick(4, 6)
	var extra []string
	if *maxFlag > 0 {
		maxLen = *maxFlag
		extra = []string{"--maxlen", strconv.Itoa(maxLen)}
	}
	if o.Shard >= 0 {
		if pf := os.Getenv("C19_PROF"); pf != "" {
			f, _ := os.Create(pf)
			pprof.StartCPUProfile(f)
			defer pprof.StopCPUProfile()
		}
		runShard(res, o.Shard, o.Shards, maxLen)
		pprof.StopCPUProfile()
		core.Finish(res, start)
	}
	if core.Want("validators") {
		res.AddSub(validators(res, core.Pick(7, 8)))
	}
	if core.Want("confine") || core.Want("recnames") {
		core.RunShards(res, core.NCPU(), extra, nil)
		mergeShardViolations(res)
		finishSubs(res, maxLen)
	}
	res.Assume("os.Root (Go standard library) refuses every name that leaves its root; operations issued through a Root are judged by which root they use, attempts with escaping names are counted as refused and cross-checked by the sentinel files")
	res.Assume("the sandbox contains no symbolic links; Linux path semantics (filepath.Separator == '/')")
	res.Assume("in the management API the group/user name is the text between the keyword components; inputs containing \"/.\" or starting with \".\" select other endpoints and are only judged by the confinement oracles there")
	res.Assume("a panic inside an HTTP handler is judged as an unserved request (net/http recovers it and drops the connection); the operations logged before it are judged as usual")
	res.Assume("a POST /recordings/<group>/ delete authorised for one group must only remove entries of that group's own recording directory")
	core.Finish(res, start)
}

// validators: (1) validator agreement, pure functions, in the coordinator.
type vacc struct {
	total, accepted int64
	seen            [32]bool        // (validUsername, validGroupName, reference reason) combinations
	bads            map[string]vbad // shortest input per signature
}

type vbad struct{ sig, what, in string }

var reasonNames = []string{"valid", "empty", "absolute", "backslash", "empty-component", "dot-component", "dotdot-component"}

func (a *vacc) visit(s string) {
	a.total++
	g, u := group.VerifC19ValidGroupName(s), group.VerifC19ValidUsername(s)
	reason := refReason(s)
	rg := reason == ""
	ru := rg || s == ""
	if g {
		a.accepted++
	}
	if reason == "" {
		reason = "valid"
	}
	k := 0
	for i, n := range reasonNames {
		if n == reason {
			k = i
		}
	}
	if g {
		k += 8
	}
	if u {
		k += 16
	}
	a.seen[k] = true
	if g != rg {
		cls := reason
		if rg {
			cls = "valid-name-rejected"
		}
		a.bad(vbad{"validator-disagrees/group/" + cls,
			fmt.Sprintf("validGroupName(%q)=%v but the statement says %v", s, g, rg), s})
	}
	if u != ru {
		cls := reason
		if ru {
			cls = "valid-name-rejected"
		}
		a.bad(vbad{"validator-disagrees/user/" + cls,
			fmt.Sprintf("validUsername(%q)=%v but the statement says %v", s, u, ru), s})
	}
}

var symbolRank = strings.NewReplacer("a", "0", "b", "1", ".", "2", "/", "3", "\\", "4", "%", "5", "\x00", "6", "é", "7", " ", "8")

// shorter orders inputs by number of symbols, then by the symbol order.
func shorter(a, b string) bool {
	ka, kb := symbolRank.Replace(a), symbolRank.Replace(b)
	if len(ka) != len(kb) {
		return len(ka) < len(kb)
	}
	return ka < kb
}

func (a *vacc) bad(b vbad) {
	if a.bads == nil {
		a.bads = map[string]vbad{}
	}
	if old, ok := a.bads[b.sig]; !ok || shorter(b.in, old.in) {
		a.bads[b.sig] = b
	}
}

func (a *vacc) rec(s string, d, maxLen int) {
	a.visit(s)
	if d == maxLen {
		return
	}
	for _, sym := range symbols {
		a.rec(s+sym, d+1, maxLen)
	}
}

func vsample(s string) string {
	return fmt.Sprintf("validGroupName(%q)=%v validUsername=%v statement=%v", s, group.VerifC19ValidGroupName(s), group.VerifC19ValidUsername(s), refGroup(s))
}

func validators(res *core.Result, maxLen int) core.Sub {
	t0 := time.Now()
	all := &vacc{}
	all.visit("")
	for _, a := range symbols {
		all.visit(a)
	}
	var mu sync.Mutex
	var wg sync.WaitGroup
	sem := make(chan struct{}, core.NCPU())
	for _, a := range symbols {
		for _, b := range symbols {
			wg.Add(1)
			go func(p string) {
				defer wg.Done()
				sem <- struct{}{}
				defer func() { <-sem }()
				l := &vacc{}
				l.rec(p, 2, maxLen)
				mu.Lock()
				all.total += l.total
				all.accepted += l.accepted
				for k, v := range l.seen {
					all.seen[k] = all.seen[k] || v
				}
				for _, b := range l.bads {
					all.bad(b)
				}
				mu.Unlock()
			}(a + b)
		}
	}
	wg.Wait()
	var bads []vbad
	for _, b := range all.bads {
		bads = append(bads, b)
	}
	sort.Slice(bads, func(i, j int) bool { return bads[i].sig < bads[j].sig })
	for _, b := range bads {
		res.Violate(core.Violation{Signature: "C19/" + b.sig, What: b.what, Sub: "validators",
			Replay: artefact{Input: b.in, Quoted: strconv.Quote(b.in), Context: "validators"}})
	}
	nout := 0
	for _, v := range all.seen {
		if v {
			nout++
		}
	}
	return core.Sub{Name: "validators", Executions: all.total * 2, States: all.total, Outcomes: int64(nout),
		Exhaustive: true, MaxDepth: maxLen,
		Bound:   fmt.Sprintf("all %d strings of <=%d symbols over %d symbols; validGroupName and validUsername vs the statement's predicate", all.total, maxLen, len(symbols)),
		Note:    fmt.Sprintf("%d names accepted as group names", all.accepted),
		Samples: []any{vsample("a\\b"), vsample("a/./b"), vsample("a/.../b")},
		WallS:   time.Since(t0).Seconds()}
}

// ---- shards

var longLens = []int{63, 64, 65, 127, 128, 129, 200, 230, 255, 256, 300}

func lenSub(kind string, l int) string { return fmt.Sprintf("%s/len%d", kind, l) }

func runShard(res *core.Result, shard, shards, maxLen int) {
	w, err := newWorld(res, true)
	if err != nil {
		res.Fault = err.Error()
		return
	}
	defer w.close()
	doConfine, doRec := core.Want("confine"), core.Want("recnames")
	if msg := w.sb.checkOutside(true); msg != "" {
		res.Fault = "sandbox self-check: " + msg
		return
	}
	var global int64
	for l := 0; l <= maxLen; l++ {
		n := pow9(l)
		t0 := time.Now()
		e0, r0 := w.execs, w.recExecs
		var done int64
		complete := true
		w.samples, w.recSamples = nil, nil
		for i := int64(0); i < n; i++ {
			idx := global + i
			if idx%int64(shards) != int64(shard) {
				continue
			}
			if done%16 == 0 && !core.TimeLeft() {
				complete = false
				break
			}
			s := nth(l, i)
			w.input, w.index = s, idx
			if doConfine {
				w.driveAll(s)
			}
			if doRec {
				w.driveRecording(s)
			}
			done++
		}
		global += n
		if doConfine {
			res.AddSub(core.Sub{Name: lenSub("confine", l), States: done, Executions: w.execs - e0,
				Transitions: w.execs - e0, Exhaustive: complete, Samples: w.samples, WallS: time.Since(t0).Seconds()})
		}
		if doRec {
			res.AddSub(core.Sub{Name: lenSub("recnames", l), States: done, Executions: w.recExecs - r0,
				Transitions: w.recExecs - r0, Exhaustive: complete, Samples: w.recSamples, WallS: time.Since(t0).Seconds()})
		}
		if !complete {
			break
		}
	}
	if doRec && core.Want("recnames/long") {
		// long usernames: every string of 1..2 symbols embedded in a name of
		// each boundary length, at the start, before and across the 64/128/255
		// byte marks, and at the end
		t0 := time.Now()
		r0 := w.recExecs
		var done int64
		complete := true
		w.recSamples = nil
		var idx int64 = 1 << 40
		for l := 1; l <= 2; l++ {
			for i := int64(0); i < pow9(l); i++ {
				core0 := nth(l, i)
				for _, total := range longLens {
					for _, at := range []int{0, 62, 63, 126, 127, 128, 253, total - len(core0)} {
						idx++
						if idx%int64(shards) != int64(shard) || at < 0 || at+len(core0) > total {
							continue
						}
						if done%16 == 0 && !core.TimeLeft() {
							complete = false
							continue
						}
						u := strings.Repeat("u", at) + core0 + strings.Repeat("v", total-at-len(core0))
						w.input, w.index = u, idx
						w.driveRecording(u)
						done++
					}
				}
			}
		}
		res.AddSub(core.Sub{Name: "recnames/long", States: done, Executions: w.recExecs - r0, Transitions: w.recExecs - r0,
			Exhaustive: complete, Samples: w.recSamples, WallS: time.Since(t0).Seconds(),
			Bound: fmt.Sprintf("every string of 1..2 symbols x %d total lengths x 8 positions", len(longLens))})
	}
	if msg := w.sb.checkOutside(true); msg != "" {
		w.input, w.index = "", 1<<60
		w.viol("sentinel-touched/final", msg, "final deep comparison")
	}
	// totals travel in two summary subs (summed / maxed by Merge)
	if doConfine {
		res.AddSub(core.Sub{Name: "confine/totals", Exhaustive: true, Outcomes: w.out.N(),
			States: w.served, Transitions: w.refused, Executions: w.aborted, MaxDepth: int(w.panics),
			Note: w.firstPan})
		res.AddSub(core.Sub{Name: "confine/fsops/totals", Exhaustive: true, States: w.fsops})
	}
	if doRec {
		res.AddSub(core.Sub{Name: "recnames/totals", Exhaustive: true, Outcomes: w.recOut.N(), States: w.recMade})
	}
	w.col.flush()
	if dumpOutcomes {
		for k, v := range ctxTime {
			fmt.Fprintf(os.Stderr, "CTXTIME %-28s %v\n", k, v)
		}
	}
}

// finishSubs turns the per-length subs of the shards into the reported ones.
func finishSubs(res *core.Result, maxLen int) {
	var subs []core.Sub
	tot := map[string]core.Sub{}
	for _, s := range res.Subs {
		if strings.HasSuffix(s.Name, "/totals") {
			tot[strings.TrimSuffix(s.Name, "/totals")] = s
		}
	}
	for _, s := range res.Subs {
		if strings.HasSuffix(s.Name, "/totals") {
			continue
		}
		for _, kind := range []string{"confine", "recnames"} {
			if !strings.HasPrefix(s.Name, kind+"/len") {
				continue
			}
			l, _ := strconv.Atoi(strings.TrimPrefix(s.Name, kind+"/len"))
			want := pow9(l)
			if s.States != want {
				s.Exhaustive = false
			}
			t := tot[kind]
			fsops := tot["confine/fsops"].States
			s.Outcomes = t.Outcomes
			s.Bound = fmt.Sprintf("all %d strings of exactly %d symbols (%d done)", want, l, s.States)
			if kind == "confine" {
				s.Note = fmt.Sprintf("whole run: %d answers 2xx/303, %d escaping names refused by os.Root, %d requests aborted by a panic inside the handler (judged as unserved), %d panics outside HTTP handlers, %d logged file-system operations judged; distinct outcomes are over the whole run", t.States, t.Transitions, t.Executions, t.MaxDepth, fsops)
				if t.MaxDepth > 0 {
					s.Exhaustive = false
					s.Note += " first: " + t.Note
				}
			} else {
				s.Note = fmt.Sprintf("whole run: %d recording files created", t.States)
			}
			s.MaxDepth = l
		}
		subs = append(subs, s)
	}
	sort.SliceStable(subs, func(i, j int) bool { return subs[i].Name < subs[j].Name })
	res.Subs = subs
}

// ---- replay

func replay(path string, res *core.Result) {
	data, err := os.ReadFile(path)
	if err != nil {
		fmt.Println(err)
		os.Exit(2)
	}
	var a struct {
		Signature string   `json:"signature"`
		Replay    artefact `json:"replay"`
	}
	if err := json.Unmarshal(data, &a); err != nil {
		fmt.Println(err)
		os.Exit(2)
	}
	s := a.Replay.Input
	if a.Replay.Context == "validators" {
		g, u := group.VerifC19ValidGroupName(s), group.VerifC19ValidUsername(s)
		if g != refGroup(s) || u != refUser(s) {
			fmt.Printf("VIOLATION property=C19 replay=%s\n  validGroupName(%q)=%v validUsername=%v, statement: %v/%v\n", path, s, g, u, refGroup(s), refUser(s))
			os.Exit(1)
		}
		fmt.Println("replay: no violation")
		return
	}
	w, err := newWorld(res, false)
	if err != nil {
		fmt.Println(err)
		os.Exit(3)
	}
	defer w.close()
	w.input, w.index = s, a.Replay.Index
	w.driveAll(s)
	w.driveRecording(s)
	w.col.flush()
	hit := false
	for _, v := range res.Violations {
		if a.Signature == "" || v.Signature == a.Signature {
			fmt.Printf("VIOLATION property=C19 replay=%s\n  signature: %s\n  what: %s\n", path, v.Signature, v.What)
			hit = true
		}
	}
	if hit {
		w.close()
		os.Exit(1)
	}
	fmt.Printf("replay: no violation for input %q (other signatures seen: %d)\n", s, len(res.Violations))
}

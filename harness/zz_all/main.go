// Command zz_all links every instrumented galene package (compile check of
// the overlay).
package main

import (
	_ "github.com/jech/galene/diskwriter"
	_ "github.com/jech/galene/group"
	_ "github.com/jech/galene/rtpconn"
	_ "github.com/jech/galene/stats"
	_ "github.com/jech/galene/webserver"
)

func main() {}

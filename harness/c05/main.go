// C05 — the packet cache returns a stored packet byte-exactly or nothing.
//
// Sequential part (Engine A): explicit-state BFS over store/get/getAt/resize/
// resizeCond sequences on the real packetcache.Cache against a bounded FIFO
// reference.  Concurrent part (Engine B): one writer and two readers under
// the controlled scheduler with the vector-clock race monitor.
package main

import (
	"bytes"
	"encoding/json"
	"fmt"
	"os"
	"strings"
	"time"

	"github.com/jech/galene/packetcache"

	"verif/core"
	"verif/seqx"
	"verif/vrt"
)

type variant struct {
	Len    int
	Marker bool
	KF     bool
}

var variants = []variant{{1, false, false}, {1504, true, true}, {13, true, false}, {1503, false, false}}

// content of a packet is a function of (seq, variant): every byte differs
// between packets, so mixtures, truncation and padding are visible.
func content(seq uint16, v int) []byte {
	b := make([]byte, variants[v].Len)
	for i := range b {
		b[i] = byte(int(seq)*7 + v*31 + i*13 + 1)
	}
	return b
}

func contentID(b []byte) string {
	if len(b) == 0 {
		return "-"
	}
	return fmt.Sprintf("%d:%d:%d", len(b), b[0], b[len(b)-1])
}

type pkt struct {
	seq uint16
	v   int
	ts  uint32
}

type op struct {
	Kind string `json:"k"`
	Seq  uint16 `json:"seq,omitempty"`
	V    int    `json:"v,omitempty"`
	Cap  int    `json:"cap,omitempty"`
	Idx  string `json:"idx,omitempty"` // own | stale | big
}

type world struct {
	cache *packetcache.Cache
	ref   []pkt // FIFO, newest last, len <= capacity
	cap   int
	// index returned by the latest Store of each seq, and whether it is
	// still guaranteed (no resize, fewer than cap stores since)
	own     map[uint16]int
	ownOK   map[uint16]int // stores since (valid while < cap and no resize)
	alpha   *alphabet
	outcome string
}

type alphabet struct {
	seqs  []uint16
	nvar  int
	caps  []int
	init  int
	cond  bool
	getAt bool
}

func (w *world) Ops() []seqx.Op {
	var ops []seqx.Op
	for _, s := range w.alpha.seqs {
		for v := 0; v < w.alpha.nvar; v++ {
			ops = append(ops, op{Kind: "store", Seq: s, V: v})
		}
	}
	for _, s := range w.alpha.seqs {
		ops = append(ops, op{Kind: "get", Seq: s})
	}
	if w.alpha.getAt {
		for _, s := range w.alpha.seqs {
			for _, i := range []string{"own", "stale", "big"} {
				ops = append(ops, op{Kind: "getat", Seq: s, Idx: i})
			}
		}
	}
	for _, c := range w.alpha.caps {
		ops = append(ops, op{Kind: "resize", Cap: c})
	}
	if w.alpha.cond {
		for _, c := range w.alpha.caps {
			ops = append(ops, op{Kind: "resizecond", Cap: c})
		}
	}
	return ops
}

func viol(sig, what string) *core.Violation {
	return &core.Violation{Signature: "C05/" + sig, What: what}
}

// matches reports whether b is exactly the content of some reference packet
// stored under seq.
func (w *world) matches(seq uint16, b []byte) bool {
	for _, p := range w.ref {
		if p.seq == seq && bytes.Equal(b, content(p.seq, p.v)) {
			return true
		}
	}
	return false
}

func (w *world) has(seq uint16) bool {
	for _, p := range w.ref {
		if p.seq == seq {
			return true
		}
	}
	return false
}

func (w *world) checkGet(seq uint16) *core.Violation {
	buf := make([]byte, packetcache.BufSize)
	for i := range buf {
		buf[i] = 0xEE
	}
	n := w.cache.Get(seq, buf)
	if n == 0 {
		if w.has(seq) {
			return viol("recent-not-retrievable", fmt.Sprintf("Get(%d) returned nothing although it is among the %d most recently stored packets (capacity %d)", seq, len(w.ref), w.cap))
		}
		return nil
	}
	if !w.matches(seq, buf[:n]) {
		return viol("wrong-bytes", fmt.Sprintf("Get(%d) returned %d bytes that are not a packet stored under that seqno (id %s)", seq, n, contentID(buf[:n])))
	}
	for _, c := range buf[n:] {
		if c != 0xEE {
			return viol("overrun", fmt.Sprintf("Get(%d) wrote beyond the returned length %d", seq, n))
		}
	}
	// length-only query must agree
	if l := w.cache.Get(seq, nil); l != n {
		return viol("length-mismatch", fmt.Sprintf("Get(%d,nil)=%d but copy returned %d", seq, l, n))
	}
	// timestamp and marker via the internal lookup
	n2, ts, marker := w.cache.VerifGetFull(seq, buf)
	ok := false
	for _, p := range w.ref {
		if p.seq == seq && bytes.Equal(buf[:n2], content(p.seq, p.v)) && p.ts == ts && variants[p.v].Marker == marker {
			ok = true
		}
	}
	if !ok {
		return viol("wrong-meta", fmt.Sprintf("lookup of %d returned timestamp %d marker %v that do not belong to the returned bytes", seq, ts, marker))
	}
	return nil
}

func (w *world) Apply(o seqx.Op) *core.Violation {
	x := o.(op)
	w.outcome = x.Kind
	switch x.Kind {
	case "store":
		ts := uint32(x.Seq)*3 + uint32(x.V) + 1000
		_, idx := w.cache.Store(x.Seq, ts, variants[x.V].KF, variants[x.V].Marker, content(x.Seq, x.V))
		w.ref = append(w.ref, pkt{x.Seq, x.V, ts})
		if len(w.ref) > w.cap {
			w.ref = w.ref[len(w.ref)-w.cap:]
		}
		for s := range w.ownOK {
			w.ownOK[s]++
		}
		w.own[x.Seq] = int(idx)
		w.ownOK[x.Seq] = 0
		if int(idx) >= w.cap {
			return viol("index-out-of-range", fmt.Sprintf("Store returned index %d >= capacity %d", idx, w.cap))
		}
		// every packet of the reference window must be retrievable, exactly
		seen := map[uint16]bool{}
		for _, p := range w.ref {
			if seen[p.seq] {
				continue
			}
			seen[p.seq] = true
			if v := w.checkGet(p.seq); v != nil {
				return v
			}
		}
		// and GetAt with the returned index returns exactly this packet
		buf := make([]byte, packetcache.BufSize)
		n := w.cache.GetAt(x.Seq, idx, buf)
		if !bytes.Equal(buf[:n], content(x.Seq, x.V)) {
			return viol("getat-fresh", fmt.Sprintf("GetAt(%d,%d) right after Store did not return the stored packet", x.Seq, idx))
		}
		w.outcome = fmt.Sprintf("store@%d", idx)
	case "get":
		if v := w.checkGet(x.Seq); v != nil {
			return v
		}
		w.outcome = fmt.Sprintf("get:%v", w.has(x.Seq))
	case "getat":
		idx := 0
		guaranteed := false
		switch x.Idx {
		case "own":
			i, ok := w.own[x.Seq]
			if !ok {
				return nil
			}
			idx = i
			guaranteed = w.ownOK[x.Seq] >= 0 && w.ownOK[x.Seq] < w.cap
		case "stale":
			idx = (w.own[x.Seq] + 1)
		case "big":
			idx = w.cap
		}
		buf := make([]byte, packetcache.BufSize)
		n := w.cache.GetAt(x.Seq, uint16(idx), buf)
		if n > 0 && !w.matches(x.Seq, buf[:n]) {
			return viol("getat-wrong-bytes", fmt.Sprintf("GetAt(%d,%d) returned %d bytes that are not a packet stored under that seqno", x.Seq, idx, n))
		}
		if guaranteed && n == 0 {
			return viol("getat-lost", fmt.Sprintf("GetAt(%d,%d) with the index returned by Store returned nothing although the slot was neither overwritten nor resized", x.Seq, idx))
		}
		w.outcome = fmt.Sprintf("getat:%s:%v", x.Idx, n > 0)
	case "resize", "resizecond":
		did := true
		if x.Kind == "resize" {
			w.cache.Resize(x.Cap)
		} else {
			did = w.cache.ResizeCond(x.Cap)
		}
		if did {
			if w.cache.VerifCapacity() != x.Cap {
				return viol("resize-capacity", fmt.Sprintf("capacity is %d after resize to %d", w.cache.VerifCapacity(), x.Cap))
			}
			if x.Cap != w.cap {
				for s := range w.ownOK {
					w.ownOK[s] = -1 << 30
				}
			}
			w.cap = x.Cap
			if len(w.ref) > w.cap {
				w.ref = w.ref[len(w.ref)-w.cap:]
			}
		} else if w.cache.VerifCapacity() != w.cap {
			return viol("resize-capacity", "ResizeCond returned false but changed the capacity")
		}
		seen := map[uint16]bool{}
		for _, p := range w.ref {
			if seen[p.seq] {
				continue
			}
			seen[p.seq] = true
			if v := w.checkGet(p.seq); v != nil {
				v.What = "after " + x.Kind + ": " + v.What
				return v
			}
		}
		w.outcome = fmt.Sprintf("%s:%v", x.Kind, did)
	}
	return nil
}

func (w *world) Canon() string {
	var b strings.Builder
	b.WriteString(w.cache.VerifDump(contentID))
	b.WriteString("#")
	for _, p := range w.ref {
		fmt.Fprintf(&b, "%d.%d,", p.seq, p.v)
	}
	b.WriteString("#")
	for _, s := range w.alpha.seqs {
		i, ok := w.own[s]
		if ok {
			g := w.ownOK[s]
			if g < 0 {
				g = -1
			}
			if g > w.cap {
				g = w.cap
			}
			fmt.Fprintf(&b, "%d@%d/%d,", s, i, g)
		}
	}
	return b.String()
}

func (w *world) Outcome() string { return w.outcome }

func fresh(a *alphabet) func() seqx.World {
	return func() seqx.World {
		return &world{cache: packetcache.New(a.init), cap: a.init,
			own: map[uint16]int{}, ownOK: map[uint16]int{}, alpha: a}
	}
}

func configs() map[string]seqx.Config {
	cfgs := map[string]seqx.Config{}
	par := core.NCPU()
	type c struct {
		name  string
		a     alphabet
		depth int
	}
	var list []c
	for _, init := range core.Pick([]int{1, 2, 3, 4}, []int{1, 2, 3, 4, 5}) {
		list = append(list, c{fmt.Sprintf("seq/cap%d", init), alphabet{
			seqs: core.Pick([]uint16{0, 65535, 32768}, []uint16{0, 1, 65535, 32768}),
			nvar: core.Pick(2, 3), caps: core.Pick([]int{1, 2, 3, 5}, []int{1, 2, 3, 4, 5, 8}),
			init: init, cond: true, getAt: true,
		}, core.Pick(6, 8)})
	}
	// long fill: a single seq family, no resize, deep (ring wrap many times)
	list = append(list, c{"seq/fill-cap3", alphabet{
		seqs: []uint16{65534, 65535, 0, 1, 2}, nvar: 4, caps: nil, init: 3, getAt: true,
	}, core.Pick(5, 8)})
	list = append(list, c{"seq/cap65535", alphabet{
		seqs: []uint16{0, 65535}, nvar: 2, caps: []int{65534, 2}, init: 65535, cond: true, getAt: true,
	}, core.Pick(3, 4)})
	for i := range list {
		l := list[i]
		p := par
		if l.a.init > 1000 {
			p = 2
		}
		a := l.a
		cfgs[l.name] = seqx.Config{Name: l.name, Fresh: fresh(&a), MaxDepth: l.depth, Parallel: p}
	}
	return cfgs
}

func main() {
	start := time.Now()
	o := core.ParseFlags(100, 1200)
	res := &core.Result{Property: "C05", Tier: o.Tier,
		Technique: "explicit-state BFS over operation sequences on the real packetcache.Cache vs FIFO reference; preemption-bounded schedule enumeration with vector-clock race monitor for concurrent readers"}
	cfgs := configs()
	if o.Replay != "" {
		replay(o.Replay, cfgs)
		return
	}
	if o.Shard >= 0 {
		runConcurrent(res, o.Shard, o.Shards)
		core.Finish(res, start)
	}
	names := make([]string, 0, len(cfgs))
	for n := range cfgs {
		names = append(names, n)
	}
	sortStrings(names)
	for _, n := range names {
		if !core.Want(n) {
			continue
		}
		res.AddSub(seqx.Explore(cfgs[n], res))
	}
	if core.Want("conc") {
		core.RunShards(res, core.NCPU(), nil, nil)
	}
	res.Assume("packet contents are opaque to the cache (content is a function of seqno and variant); statistics fields do not influence the ring (they are omitted from the canonical key)")
	res.Assume("result buffers are BufSize long, as at every call site in rtpconn/diskwriter")
	core.Finish(res, start)
}

func sortStrings(s []string) {
	for i := range s {
		for j := i + 1; j < len(s); j++ {
			if s[j] < s[i] {
				s[i], s[j] = s[j], s[i]
			}
		}
	}
}

func replay(path string, cfgs map[string]seqx.Config) {
	data, err := os.ReadFile(path)
	if err != nil {
		fmt.Println(err)
		os.Exit(2)
	}
	var a struct {
		Signature string `json:"signature"`
		Replay    struct {
			Config  string          `json:"config"`
			Ops     []op            `json:"ops"`
			Program string          `json:"program"`
			Choices []int           `json:"choices"`
			Raw     json.RawMessage `json:"-"`
		} `json:"replay"`
	}
	if err := json.Unmarshal(data, &a); err != nil {
		fmt.Println(err)
		os.Exit(2)
	}
	if a.Replay.Program != "" {
		for _, p := range concPrograms() {
			if p.Name == a.Replay.Program {
				_, out, v := vrt.ReplayChoices(p, a.Replay.Choices)
				if v != nil {
					fmt.Printf("VIOLATION property=C05 replay=%s\n  %s\n", path, v.What)
					os.Exit(1)
				}
				fmt.Println("replay: no violation; outcome", out)
				return
			}
		}
		fmt.Println("unknown program")
		os.Exit(2)
	}
	cfg, ok := cfgs[a.Replay.Config]
	if !ok {
		fmt.Println("unknown config", a.Replay.Config)
		os.Exit(2)
	}
	ops := make([]seqx.Op, len(a.Replay.Ops))
	for i, x := range a.Replay.Ops {
		ops[i] = x
	}
	if v := seqx.Replay(cfg, ops); v != nil {
		fmt.Printf("VIOLATION property=C05 replay=%s\n  %s\n", path, v.What)
		os.Exit(1)
	}
	fmt.Println("replay: no violation")
}

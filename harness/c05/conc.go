package main

import (
	"bytes"
	"fmt"

	"github.com/jech/galene/packetcache"

	"verif/core"
	"verif/vrt"
)

type readRes struct {
	what string
	seq  uint16
	got  []byte
}

func concPrograms() []vrt.Program {
	mk := func(name string, resize int) vrt.Program {
		return vrt.Program{
			Name:       name,
			MaxPreempt: core.Pick(2, 3),
			Setup: func() ([]func(), []string, func() (string, *core.Violation)) {
				cache := packetcache.New(2)
				_, i5 := cache.Store(5, 1, false, false, content(5, 0))
				_, i6 := cache.Store(6, 2, false, true, content(6, 2))
				var results [2][]readRes
				writer := func() {
					cache.Store(5, 3, true, true, content(5, 1))
					cache.Store(7, 4, false, false, content(7, 0))
					if resize > 0 {
						cache.Resize(resize)
					}
					cache.Store(6, 5, true, true, content(6, 1))
				}
				r1 := func() {
					for _, s := range []uint16{5, 6} {
						buf := make([]byte, packetcache.BufSize)
						n := cache.Get(s, buf)
						results[0] = append(results[0], readRes{"Get", s, buf[:n]})
					}
				}
				r2 := func() {
					for _, q := range []struct {
						s uint16
						i uint16
					}{{5, i5}, {6, i6}} {
						buf := make([]byte, packetcache.BufSize)
						n := cache.GetAt(q.s, q.i, buf)
						results[1] = append(results[1], readRes{"GetAt", q.s, buf[:n]})
					}
				}
				final := func() (string, *core.Violation) {
					out := ""
					for t := range results {
						for _, r := range results[t] {
							ok := len(r.got) == 0
							for v := range variants {
								if bytes.Equal(r.got, content(r.seq, v)) {
									ok = true
								}
							}
							if !ok {
								return "", &core.Violation{
									Signature: "C05/conc/wrong-bytes/" + r.what,
									What: fmt.Sprintf("concurrent %s(%d) returned %d bytes (id %s) that are not exactly a packet stored under that seqno",
										r.what, r.seq, len(r.got), contentID(r.got)),
								}
							}
							out += fmt.Sprintf("%s%d=%s;", r.what, r.seq, contentID(r.got))
						}
					}
					// after quiescence the newest packets are there
					buf := make([]byte, packetcache.BufSize)
					if n := cache.Get(6, buf); !bytes.Equal(buf[:n], content(6, 1)) && !bytes.Equal(buf[:n], content(6, 2)) {
						return "", &core.Violation{Signature: "C05/conc/final", What: "newest packet not retrievable after quiescence"}
					}
					return out, nil
				}
				return []func(){writer, r1, r2}, []string{"writer", "reader-Get", "reader-GetAt"}, final
			},
			Classify: func(kind, info string) string { return "C05/conc/" + kind },
		}
	}
	// a reader of packets that stay among the newest throughout, while the
	// cache (wrapped, so that entries move) is grown and shrunk and one more
	// packet is stored: each lookup must return the packet, not nothing
	retained := vrt.Program{
		Name:       "conc/retained-vs-resize",
		MaxPreempt: core.Pick(2, 3),
		Setup: func() ([]func(), []string, func() (string, *core.Violation)) {
			cache := packetcache.New(4)
			for s := uint16(1); s <= 6; s++ {
				cache.Store(s, uint32(s), false, true, content(s, 0))
			}
			var got []readRes
			writer := func() {
				cache.Resize(8)
				cache.Store(7, 7, false, true, content(7, 0))
				cache.Resize(5)
			}
			reader := func() {
				// 3 and 4 sit beyond the ring's tail: growing moves them
				for _, s := range []uint16{4, 3, 6, 4} {
					buf := make([]byte, packetcache.BufSize)
					n := cache.Get(s, buf)
					got = append(got, readRes{"Get", s, buf[:n]})
				}
			}
			final := func() (string, *core.Violation) {
				out := ""
				for _, r := range got {
					if !bytes.Equal(r.got, content(r.seq, 0)) {
						return "", &core.Violation{Signature: "C05/conc/retained-not-retrievable",
							What: fmt.Sprintf("Get(%d) returned %d bytes while the cache was being resized, although packet %d stayed among the newest packets throughout (packets 3..7, capacity never below 4 before and 5 after the seventh packet)", r.seq, len(r.got), r.seq)}
					}
					out += "ok;"
				}
				return out, nil
			}
			return []func(){writer, reader}, []string{"writer+resize", "reader-Get"}, final
		},
		Classify: func(kind, info string) string { return "C05/conc/" + kind },
	}
	return []vrt.Program{mk("conc/store-vs-readers", 0), mk("conc/store-resize-vs-readers", 3), mk("conc/store-shrink-vs-readers", 1), retained}
}

func runConcurrent(res *core.Result, shard, shards int) {
	for _, p := range concPrograms() {
		if !core.Want(p.Name) {
			continue
		}
		res.AddSub(vrt.Explore(p, res, shard, shards))
	}
}

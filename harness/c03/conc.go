package main

import (
	"bytes"
	"fmt"
	"strings"

	"github.com/pion/rtcp"

	"github.com/jech/galene/rtpconn"

	"verif/core"
	"verif/fwd"
	"verif/media"
	"verif/vrt"
)

// Concurrent sub-check: in the server the subscriber's RTCP listener answers
// NACKs (gotNACK -> Reverse -> GetPacket -> cache.Get -> Write) while the
// publisher's read loop stores new packets into the same cache and forwards
// them through the same down track.  The programs below run the two real code
// paths as two controlled threads, with the NACKed packets sitting at the
// eviction boundary of the cache (the slot the next Store reuses), under every
// schedule with at most MaxPreempt preemptions.  Oracle: every packet that
// leaves under a number is byte-identical to the first one sent under that
// number, and no access to the packet being copied out races with the store
// that replaces it (vector-clock monitor on the cache's fields).

func concPrograms() []vrt.Program {
	mk := func(name string, start uint16, nacks [][]int, pubs int, resize int) vrt.Program {
		return vrt.Program{
			Name:       name,
			MaxPreempt: core.Pick(2, 3),
			MaxSteps:   20000,
			Setup: func() ([]func(), []string, func() (string, *core.Violation)) {
				vrt.TaskPolicy = func(pos string) vrt.Policy {
					if strings.Contains(pos, "nackWriter") {
						return vrt.Drop
					}
					return vrt.Queue
				}
				w := fwd.New(fwd.VP8, 4)
				w.Down.SetLayer(rtpconn.VerifLayer{Tid: 0, WantedTid: 0, MaxTid: 2})
				build := func(p int) []byte {
					b := media.VP8{Hdr: media.Hdr{Seq: start + uint16(p), TS: uint32(p) * 3000, Marker: true, PT: 96, SSRC: fwd.UpSSRC},
						X: true, I: true, M: true, PictureID: uint16(100+p) & 0x7FFF, T: true, TID: 0, S: true,
						Body: []byte{byte(p), byte(p >> 8), byte(p >> 16), 0x42}}
					return b.Bytes()
				}
				var setupErr error
				forward := func(p int) {
					buf := build(p)
					// as readLoop does: cache first, then forward
					w.Up.Cache().Store(start+uint16(p), uint32(p)*3000, false, true, buf)
					if _, err := w.Down.Write(buf); err != nil && setupErr == nil {
						setupErr = err
					}
				}
				for p := 0; p < 4; p++ {
					forward(p)
				}
				first := map[uint16]media.Sent{}
				var order []uint16
				for _, s := range w.Rec.Take() {
					first[s.Header.SequenceNumber] = s
					order = append(order, s.Header.SequenceNumber)
				}
				publisher := func() {
					for p := 4; p < 4+pubs; p++ {
						forward(p)
						if resize > 0 && p == 4 {
							w.Up.Cache().Resize(resize)
						}
					}
				}
				var bodies []func()
				names := []string{"publisher"}
				bodies = append(bodies, publisher)
				for i, l := range nacks {
					l := l
					bodies = append(bodies, func() {
						for _, k := range l {
							if k < len(order) {
								w.Down.GotNACK(&rtcp.TransportLayerNack{SenderSSRC: 1, MediaSSRC: fwd.DownSSRC,
									Nacks: []rtcp.NackPair{{PacketID: order[k]}}})
							}
						}
					})
					names = append(names, fmt.Sprintf("rtcp-listener-%d", i))
				}
				final := func() (string, *core.Violation) {
					defer w.Close()
					if setupErr != nil {
						return "", &core.Violation{Signature: "HARNESS-FAULT", What: "forwarding failed: " + setupErr.Error()}
					}
					if len(order) != 4 {
						return "", &core.Violation{Signature: "HARNESS-FAULT", What: fmt.Sprintf("setup forwarded %d packets, expected 4", len(order))}
					}
					out := ""
					for _, s := range w.Rec.Take() {
						n := s.Header.SequenceNumber
						prev, ok := first[n]
						if !ok {
							first[n] = s
							out += fmt.Sprintf("new%d;", n-order[0])
							continue
						}
						if !sameSent(prev, s) {
							what := "a different payload"
							if bytes.Equal(prev.Payload, s.Payload) {
								what = "a different header"
							}
							return "", &core.Violation{Signature: "C03/conc/nack-not-identical",
								What: fmt.Sprintf("number %d left twice with %s (source position %d first, %d then) while the publisher was storing new packets", n, what, srcPosOf(prev.Payload), srcPosOf(s.Payload))}
						}
						out += fmt.Sprintf("re%d;", n-order[0])
					}
					return out, nil
				}
				return bodies, names, final
			},
			Classify: func(kind, info string) string { return "C03/conc/" + kind },
		}
	}
	ps := []vrt.Program{
		// one listener asking for the two oldest packets while two new ones arrive
		mk("conc/nack-oldest-vs-store", 65533, [][]int{{0, 1}}, 2, 0),
		// the cache is resized between the two stores
		mk("conc/nack-oldest-vs-store-resize", 0, [][]int{{0, 1}}, 2, 8),
		mk("conc/nack-oldest-vs-store-shrink", 0, [][]int{{2, 3}}, 2, 2),
	}
	if !core.Quick() {
		// two subscribers' worth of NACK traffic (two listeners on the same down track cannot
		// happen; two threads here stand for NACK and a late retransmission request)
		ps = append(ps, mk("conc/nack-newest-vs-store", 57344, [][]int{{3, 0}}, 3, 0))
	}
	return ps
}

func runConcurrent(res *core.Result, shard, shards int) {
	fwd.Init()
	oldPolicy := vrt.TaskPolicy
	defer func() {
		vrt.TaskPolicy = oldPolicy
		vrt.SetMode(vrt.Tasks)
	}()
	for _, p := range concPrograms() {
		if !core.Want(p.Name) {
			continue
		}
		res.AddSub(vrt.Explore(p, res, shard, shards))
	}
}

// C03 — a NACK retransmits exactly the packet originally sent under that
// number, or nothing.
//
// BFS over forwarding histories (in-order, withheld, lost, late, cache
// resizes, layer switches) interleaved with NACKs for recent, never-sent,
// neighbouring and evicted numbers.  NACKs are delivered as real RTCP
// compounds to the real rtcpDownListener; retransmissions go through the real
// gotNACK / Map.Reverse / rtpUpTrack.GetPacket / packet cache / Write path and
// are compared byte for byte with the first transmission.  A pure sub-check
// explores Map/Drop/Reverse alone, deeper and with long runs.
package main

import (
	"bytes"
	"encoding/json"
	"fmt"
	"os"
	"sort"
	"strings"
	"time"

	"github.com/pion/rtcp"

	"github.com/jech/galene/packetmap"
	"github.com/jech/galene/rtpconn"

	"verif/core"
	"verif/fwd"
	"verif/media"
	"verif/seqx"
	"verif/vrt"
)

type op struct {
	Kind string `json:"k"`
	N    int    `json:"n,omitempty"`
	Tid  int    `json:"tid,omitempty"`
}

type pos struct {
	buf       []byte
	tid, sid  int
	end       bool
	delivered bool
	withheld  bool
	forwarded bool
	out       media.Sent
	sidAfter  int // selected spatial layer right after the first transmission
}

type world struct {
	vp9      bool
	w        *fwd.World
	start    uint16
	cursor   int64
	highest  int64
	info     map[int64]*pos
	withheld []int64
	sent     map[uint16]media.Sent // first transmission under each number
	srcOf    map[uint16]int64
	outs     []uint16 // outgoing numbers in order of first transmission
	frames   int
	kfNext   bool
	outcome  string
	cap      int
}

// freshLow: VP9 with a receiver that asked for low quality before the stream
// began (limitSid set, the highest spatial layer still to be learnt from the
// stream itself).
func freshLow(start uint16) func() seqx.World {
	f := fresh(true, start)
	return func() seqx.World {
		w := f().(*world)
		w.w.Down.SetLayer(rtpconn.VerifLayer{Tid: 2, WantedTid: 2, MaxTid: 2, LimitSid: true})
		return w
	}
}

func fresh(vp9 bool, start uint16) func() seqx.World {
	return func() seqx.World {
		codec := fwd.VP8
		if vp9 {
			codec = fwd.VP9
		}
		w := fwd.New(codec, 4)
		l := rtpconn.VerifLayer{Tid: 0, WantedTid: 0, MaxTid: 2}
		if vp9 {
			l = rtpconn.VerifLayer{Tid: 2, WantedTid: 2, MaxTid: 2, Sid: 0, WantedSid: 0, MaxSid: 1}
		}
		w.Down.SetLayer(l)
		go w.Down.RTCPListener()
		return &world{vp9: vp9, w: w, start: start, highest: -1, info: map[int64]*pos{},
			sent: map[uint16]media.Sent{}, srcOf: map[uint16]int64{}, cap: 4}
	}
}

func (w *world) Close() { w.w.Close() }

func (w *world) holes() []int64 {
	var h []int64
	for p := w.cursor - 1; p >= 0 && p >= w.cursor-32 && len(h) < 2; p-- {
		if i := w.info[p]; i == nil || !i.delivered {
			h = append(h, p)
		}
	}
	return h
}

// nack targets: the last 3 outgoing numbers, last+1, first-1, oldest sent,
// and the numbers next to the most recent withheld position.
func (w *world) targets() []uint16 {
	var t []uint16
	seen := map[uint16]bool{}
	add := func(s uint16) {
		if !seen[s] {
			seen[s] = true
			t = append(t, s)
		}
	}
	n := len(w.outs)
	for i := n - 1; i >= 0 && i >= n-3; i-- {
		add(w.outs[i])
	}
	if n > 0 {
		add(w.outs[n-1] + 1)
		add(w.outs[0] - 1)
		add(w.outs[0])
	} else {
		add(w.start)
	}
	if len(w.withheld) > 0 {
		p := w.withheld[len(w.withheld)-1]
		e := w.start + uint16(p) - uint16(w.withheldBefore(p))
		add(e)
		add(e - 1)
	}
	return t
}

func (w *world) Ops() []seqx.Op {
	ops := []seqx.Op{op{Kind: "fwd"}, op{Kind: "hi"}, op{Kind: "skip", N: 1}}
	for j := range w.holes() {
		ops = append(ops, op{Kind: "late", N: j})
	}
	for j := range w.targets() {
		ops = append(ops, op{Kind: "nack", N: j})
	}
	for _, c := range []int{2, 8} {
		if c != w.cap {
			ops = append(ops, op{Kind: "resize", N: c})
		}
	}
	if w.vp9 {
		ops = append(ops, op{Kind: "want", N: 0}, op{Kind: "want", N: 1}, op{Kind: "kf"})
	}
	return ops
}

func viol(sig, what string) *core.Violation {
	return &core.Violation{Signature: "C03/" + sig, What: what}
}

func (w *world) withheldBefore(p int64) int64 {
	return int64(sort.Search(len(w.withheld), func(i int) bool { return w.withheld[i] >= p }))
}

// build creates the packet(s) of source position p. In the VP9 stream every
// position is one packet; even positions are spatial layer 0 and odd ones
// spatial layer 1 of the same superframe (each a whole layer frame: B and E).
func (w *world) build(p int64, tid int) *pos {
	seq := w.start + uint16(p)
	if !w.vp9 {
		b := media.VP8{Hdr: media.Hdr{Seq: seq, TS: uint32(p) * 3000, Marker: true, PT: 96, SSRC: fwd.UpSSRC},
			X: true, I: true, M: true, PictureID: uint16(100+p) & 0x7FFF, T: true, TID: uint8(tid), S: true,
			Body: []byte{byte(p), byte(p >> 8), byte(p >> 16), 0x42}}
		return &pos{buf: b.Bytes(), tid: tid, end: true}
	}
	sid := int(p & 1)
	kf := w.kfNext
	if sid == 1 {
		w.kfNext = false
	}
	b := media.VP9{Hdr: media.Hdr{Seq: seq, TS: uint32(p/2) * 3000, Marker: sid == 1, PT: 98, SSRC: fwd.UpSSRC},
		I: true, M: true, L: true, F: true, P: !kf, PDiff: []uint8{1}, B: true, E: true,
		PictureID: uint16(100+p/2) & 0x7FFF, TID: uint8(tid), SID: uint8(sid), D: sid == 1,
		Keyframe: kf && sid == 0, Body: []byte{byte(p), byte(p >> 8), byte(p >> 16), 0x43}}
	return &pos{buf: b.Bytes(), tid: tid, sid: sid, end: true}
}

func srcPosOf(payload []byte) int64 {
	n := len(payload)
	if n < 4 {
		return -1
	}
	return int64(payload[n-4]) | int64(payload[n-3])<<8 | int64(payload[n-2])<<16
}

func sameSent(a, b media.Sent) bool {
	return a.Header.SequenceNumber == b.Header.SequenceNumber && a.Header.Marker == b.Header.Marker &&
		a.Header.Timestamp == b.Header.Timestamp && bytes.Equal(a.Payload, b.Payload)
}

func (w *world) deliver(p int64, tid int) *core.Violation {
	inf := w.info[p]
	if inf == nil {
		inf = w.build(p, tid)
		w.info[p] = inf
	}
	seq := w.start + uint16(p)
	first := !inf.delivered
	inf.delivered = true
	newest := p > w.highest
	if newest {
		w.highest = p
	}
	// as readLoop does: cache first, then forward
	w.w.Up.Cache().Store(seq, uint32(p)*3000, false, true, inf.buf)
	w.w.Rec.Take()
	_, err := w.w.Down.Write(inf.buf)
	out := w.w.Rec.Take()
	if err != nil {
		return viol("write-error", err.Error())
	}
	if len(out) == 1 {
		o := out[0]
		if first {
			inf.forwarded, inf.out = true, o
			inf.sidAfter = int(w.w.Down.Layer().Sid)
		}
		s := o.Header.SequenceNumber
		if prev, ok := w.sent[s]; ok {
			if !sameSent(prev, o) && w.srcOf[s] != p {
				// C01's business (number shared); ignore here
			}
		} else {
			w.sent[s] = o
			w.srcOf[s] = p
			w.outs = append(w.outs, s)
		}
	} else if first && newest {
		l := w.w.Down.Layer()
		if inf.tid > int(l.Tid) || inf.sid > int(l.Sid) {
			inf.withheld = true
			w.withheld = append(w.withheld, p)
			sort.Slice(w.withheld, func(i, j int) bool { return w.withheld[i] < w.withheld[j] })
		}
	}
	w.outcome = fmt.Sprintf("deliver/%v", len(out))
	return w.reverseInvariant()
}

// reverseInvariant: Reverse inverts Map for every recently forwarded number
// and never names a withheld source packet.
func (w *world) reverseInvariant() *core.Violation {
	n := len(w.outs)
	for i := n - 1; i >= 0 && i >= n-6; i-- {
		s := w.outs[i]
		p := w.srcOf[s]
		if w.highest-p > 8000 {
			continue
		}
		ok, src, _ := w.w.Down.Reverse(s)
		if !ok || src != w.start+uint16(p) {
			return viol("reverse-not-inverse", fmt.Sprintf("number %d was sent for source seqno %d but Reverse returns (%v,%d)", s, w.start+uint16(p), ok, src))
		}
	}
	for _, p := range w.withheld {
		if w.highest-p > 64 {
			continue
		}
		e := w.start + uint16(p) - uint16(w.withheldBefore(p))
		for _, s := range []uint16{e - 1, e, e + 1} {
			ok, src, _ := w.w.Down.Reverse(s)
			if ok && src == w.start+uint16(p) {
				return viol("reverse-names-withheld", fmt.Sprintf("Reverse(%d) names source seqno %d, which was withheld", s, src))
			}
		}
	}
	return nil
}

func (w *world) nack(s uint16) *core.Violation {
	pkt := &rtcp.TransportLayerNack{SenderSSRC: 1, MediaSSRC: fwd.DownSSRC, Nacks: []rtcp.NackPair{{PacketID: s}}}
	b, err := pkt.Marshal()
	if err != nil {
		panic(err)
	}
	w.w.Rec.Take()
	w.w.DownCtl.Feed(b)
	out := w.w.Rec.Take()
	w.outcome = fmt.Sprintf("nack/%d", len(out))
	if len(out) == 0 {
		return nil
	}
	if len(out) > 1 {
		return viol("nack-multiple", fmt.Sprintf("one NACK for %d produced %d packets", s, len(out)))
	}
	o := out[0]
	p := srcPosOf(o.Payload)
	inf := w.info[p]
	if inf == nil {
		return viol("nack-unknown-packet", fmt.Sprintf("NACK for %d was answered with a packet the publisher never sent", s))
	}
	if inf.withheld {
		return viol("nack-resends-withheld", fmt.Sprintf("NACK for %d was answered with source seqno %d, which was withheld from this receiver", s, w.start+uint16(p)))
	}
	if o.Header.SequenceNumber != s {
		return viol("nack-wrong-number", fmt.Sprintf("NACK for %d was answered with a packet numbered %d", s, o.Header.SequenceNumber))
	}
	if prev, ok := w.sent[s]; ok {
		if !sameSent(prev, o) {
			what := "different packet"
			if w.srcOf[s] == p {
				switch {
				case prev.Header.Marker != o.Header.Marker:
					what = "same source packet but a different marker bit"
				case !bytes.Equal(prev.Payload, o.Payload):
					what = "same source packet but a different payload (picture id)"
				}
			}
			cls := "different-packet"
			if w.srcOf[s] == p && prev.Header.Marker != o.Header.Marker {
				cls = "marker-differs-after-layer-switch"
				if inf.forwarded && inf.sidAfter == int(w.w.Down.Layer().Sid) {
					// the selection is what it was when the packet was
					// first sent: not the known recomputation defect
					cls = "marker-differs-without-layer-switch"
				}
			}
			return viol("nack-not-identical/"+cls, fmt.Sprintf("NACK for %d: retransmission is not identical to the original transmission: %s", s, what))
		}
		return nil
	}
	// never sent under s: only acceptable if s is the number this source
	// packet is entitled to
	e := w.start + uint16(p) - uint16(w.withheldBefore(p))
	if e != s {
		return viol("nack-never-sent", fmt.Sprintf("NACK for never-sent number %d was answered with source seqno %d, whose number is %d", s, w.start+uint16(p), e))
	}
	w.sent[s] = o
	w.srcOf[s] = p
	w.outs = append(w.outs, s)
	return nil
}

func (w *world) Apply(x seqx.Op) *core.Violation {
	o := x.(op)
	switch o.Kind {
	case "fwd", "hi":
		p := w.cursor
		w.cursor++
		tid := 0
		if o.Kind == "hi" {
			tid = 1
			if w.vp9 {
				tid = 0 // in the VP9 stream "hi" is just the next packet
			}
		}
		return w.deliver(p, tid)
	case "skip":
		w.cursor += int64(o.N)
		w.outcome = "skip"
	case "late":
		h := w.holes()
		if o.N < len(h) {
			return w.deliver(h[o.N], 0)
		}
	case "nack":
		t := w.targets()
		if o.N < len(t) {
			return w.nack(t[o.N])
		}
	case "resize":
		w.w.Up.Cache().Resize(o.N)
		w.cap = o.N
		w.outcome = "resize"
	case "want":
		l := w.w.Down.Layer()
		l.WantedSid = uint8(o.N)
		w.w.Down.SetLayer(l)
		w.outcome = "want"
	case "kf":
		if w.cursor&1 == 0 {
			w.kfNext = true
		}
		w.outcome = "kf"
	}
	return nil
}

func (w *world) Canon() string {
	var b strings.Builder
	b.WriteString(w.w.Down.MapState())
	fmt.Fprintf(&b, "#L%v#k%v#c%d", w.w.Down.Layer(), w.kfNext, w.cursor)
	b.WriteString(w.w.Up.Cache().VerifDump(func(x []byte) string { return fmt.Sprint(srcPosOf(x)) }))
	for p := w.cursor - 1; p >= 0 && p >= w.cursor-8; p-- {
		i := w.info[p]
		if i == nil {
			b.WriteString("|-")
			continue
		}
		fmt.Fprintf(&b, "|%v%v%v%d", i.delivered, i.withheld, i.forwarded, i.out.Header.SequenceNumber)
	}
	ss := make([]int, 0, len(w.sent))
	for s := range w.sent {
		ss = append(ss, int(s))
	}
	sort.Ints(ss)
	fmt.Fprintf(&b, "#%v", ss)
	return b.String()
}

func (w *world) Outcome() string { return w.outcome }

// ---------------------------------------------------------------------------
// pure Map/Drop/Reverse world with long runs

type anchor struct {
	out, src uint16
	at       int64
}

type pureWorld struct {
	// anchors: numbers sent just before a long run, which a receiver may
	// still ask for after it
	anchors  []anchor
	m        packetmap.Map
	start    uint16
	cursor   int64
	outs     map[int64]uint16 // position -> number (recent)
	withheld map[int64]bool
	nops     int
	long     bool
	macro    bool
	outcome  string
}

func (w *pureWorld) Ops() []seqx.Op {
	ops := []seqx.Op{op{Kind: "fwd"}, op{Kind: "hi"}, op{Kind: "skip", N: 1}, op{Kind: "late"}}
	if w.nops < 2 {
		for _, n := range []int{8192, 16385, 32767, 32769, 65530} {
			ops = append(ops, op{Kind: "burst", N: n})
		}
		ops = append(ops, op{Kind: "alt", N: 130})
		// long runs of withheld packets (the interval table is forgotten on the way)
		for _, n := range []int{16400, 20000} {
			ops = append(ops, op{Kind: "hiburst", N: n})
		}
	}
	return ops
}

func (w *pureWorld) one(p int64, hi bool) *core.Violation {
	seq := w.start + uint16(p)
	if hi && w.m.Drop(seq, uint16(p)) {
		w.withheld[p] = true
		return nil
	}
	ok, s, _ := w.m.Map(seq, uint16(p))
	if !ok {
		return nil
	}
	w.outs[p] = s
	rok, rs, _ := w.m.Reverse(s)
	if !rok || rs != seq {
		return viol("reverse-not-inverse", fmt.Sprintf("Map(%d)=%d but Reverse(%d)=(%v,%d)", seq, s, s, rok, rs))
	}
	return nil
}

func (w *pureWorld) check() *core.Violation {
	// a number sent before a long run still names its own source packet, or nothing
	for _, a := range w.anchors {
		if w.cursor-a.at > 30000 {
			continue
		}
		if rok, rs, _ := w.m.Reverse(a.out); rok && rs != a.src {
			return viol("reverse-names-other-packet", fmt.Sprintf("number %d was sent for source %d; after a run of withheld packets Reverse(%d) names source %d, which was never sent under that number", a.out, a.src, a.out, rs))
		}
	}
	// every recently mapped number still reverses to its source; no number
	// near a withheld position reverses to it
	for p := w.cursor - 1; p >= 0 && p >= w.cursor-6; p-- {
		if s, ok := w.outs[p]; ok {
			rok, rs, _ := w.m.Reverse(s)
			if !rok || rs != w.start+uint16(p) {
				return viol("reverse-not-inverse", fmt.Sprintf("source %d was mapped to %d but Reverse now returns (%v,%d)", w.start+uint16(p), s, rok, rs))
			}
		}
		if w.withheld[p] {
			for d := -2; d <= 2; d++ {
				// candidate numbers around where it would have been
				for q := p - 3; q <= p+3; q++ {
					if s, ok := w.outs[q]; ok {
						rok, rs, _ := w.m.Reverse(s + uint16(d))
						if rok && rs == w.start+uint16(p) {
							return viol("reverse-names-withheld", fmt.Sprintf("Reverse(%d) names withheld source %d", s+uint16(d), rs))
						}
					}
				}
			}
		}
	}
	return nil
}

func (w *pureWorld) Apply(x seqx.Op) *core.Violation {
	v := w.apply(x)
	if v != nil {
		if w.long {
			v.Signature += "/after-run>=32767"
		} else {
			v.Signature += "/short-history"
		}
	}
	return v
}

func (w *pureWorld) apply(x seqx.Op) *core.Violation {
	o := x.(op)
	w.nops++
	w.macro = false
	w.outcome = o.Kind
	switch o.Kind {
	case "fwd", "hi":
		p := w.cursor
		w.cursor++
		if v := w.one(p, o.Kind == "hi"); v != nil {
			return v
		}
	case "skip":
		w.cursor++
	case "late":
		for p := w.cursor - 1; p >= 0 && p >= w.cursor-8; p-- {
			if _, ok := w.outs[p]; !ok && !w.withheld[p] {
				if v := w.one(p, false); v != nil {
					return v
				}
				break
			}
		}
	case "burst":
		w.macro = true
		if o.N >= 32767 {
			w.long = true
		}
		for i := 0; i < o.N; i++ {
			p := w.cursor
			w.cursor++
			if v := w.one(p, false); v != nil {
				return v
			}
		}
		w.gc()
	case "hiburst":
		w.macro = true
		w.long = true
		// remember the last number sent before the run
		for p := w.cursor - 1; p >= 0 && p >= w.cursor-4; p-- {
			if s, ok := w.outs[p]; ok {
				w.anchors = append(w.anchors, anchor{s, w.start + uint16(p), w.cursor})
				break
			}
		}
		for i := 0; i < o.N; i++ {
			p := w.cursor
			w.cursor++
			if v := w.one(p, true); v != nil {
				return v
			}
			if i&1023 == 1023 {
				w.gc()
			}
		}
		w.gc()
	case "alt":
		w.macro = true
		for i := 0; i < 2*o.N; i++ {
			p := w.cursor
			w.cursor++
			if v := w.one(p, i&1 == 1); v != nil {
				return v
			}
		}
		w.gc()
	}
	return w.check()
}

func (w *pureWorld) gc() {
	for p := range w.outs {
		if w.cursor-p > 64 {
			delete(w.outs, p)
		}
	}
	for p := range w.withheld {
		if w.cursor-p > 64 {
			delete(w.withheld, p)
		}
	}
}

func (w *pureWorld) Canon() string {
	var b strings.Builder
	b.WriteString(w.m.VerifState())
	fmt.Fprintf(&b, "#%d", w.cursor)
	for p := w.cursor - 1; p >= 0 && p >= w.cursor-8; p-- {
		s, ok := w.outs[p]
		fmt.Fprintf(&b, "|%v%d%v", ok, s, w.withheld[p])
	}
	if w.nops < 2 {
		fmt.Fprintf(&b, "#n%d", w.nops)
	}
	return b.String()
}

func (w *pureWorld) Outcome() string  { return w.outcome }
func (w *pureWorld) Checkpoint() bool { return w.macro }
func (w *pureWorld) Clone() seqx.World {
	n := &pureWorld{start: w.start, cursor: w.cursor, outs: map[int64]uint16{}, withheld: map[int64]bool{},
		nops: w.nops, long: w.long, anchors: append([]anchor(nil), w.anchors...)}
	n.m.VerifCopyFrom(&w.m)
	for k, v := range w.outs {
		n.outs[k] = v
	}
	for k, v := range w.withheld {
		n.withheld[k] = v
	}
	return n
}

// ---------------------------------------------------------------------------

type cfgDesc struct {
	kind  string
	start uint16
}

func allConfigs() []cfgDesc {
	var cs []cfgDesc
	for _, s := range core.Pick([]uint16{65533, 0, 57344}, []uint16{65533, 0, 1, 57343, 57344, 32767, 8191}) {
		cs = append(cs, cfgDesc{"vp8", s})
	}
	for _, s := range core.Pick([]uint16{65533}, []uint16{65533, 0}) {
		cs = append(cs, cfgDesc{"vp9", s})
	}
	for _, s := range core.Pick([]uint16{65533}, []uint16{65533, 0}) {
		cs = append(cs, cfgDesc{"vp9low", s})
	}
	for _, s := range core.Pick([]uint16{0, 65533, 8191, 57344}, []uint16{0, 1, 65533, 8191, 8192, 57343, 57344, 32767, 32768}) {
		cs = append(cs, cfgDesc{"pure", s})
	}
	return cs
}

func cfgFor(c cfgDesc) seqx.Config {
	name := fmt.Sprintf("%s/start%d", c.kind, c.start)
	switch c.kind {
	case "vp8":
		return seqx.Config{Name: name, Fresh: fresh(false, c.start), MaxDepth: core.Pick(5, 7), Parallel: 1}
	case "vp9":
		return seqx.Config{Name: name, Fresh: fresh(true, c.start), MaxDepth: core.Pick(5, 7), Parallel: 1}
	case "vp9low":
		return seqx.Config{Name: name, Fresh: freshLow(c.start), MaxDepth: core.Pick(4, 6), Parallel: 1}
	}
	s := c.start
	return seqx.Config{Name: name, Fresh: func() seqx.World {
		return &pureWorld{start: s, outs: map[int64]uint16{}, withheld: map[int64]bool{}}
	}, MaxDepth: core.Pick(6, 8), Parallel: 1}
}

func main() {
	t0 := time.Now()
	o := core.ParseFlags(90, 1200)
	res := &core.Result{Property: "C03", Tier: o.Tier,
		Technique: "explicit-state BFS over forwarding histories interleaved with NACKs, delivered as RTCP to the real rtcpDownListener; retransmissions compared byte for byte with the first transmission; preemption-bounded schedule enumeration (vector-clock race monitor) of gotNACK against the publisher storing and forwarding at the cache's eviction boundary"}
	if o.Replay != "" {
		replay(o.Replay)
		return
	}
	if o.Shard < 0 {
		core.RunShards(res, core.NCPU(), nil, nil)
		res.Assume("the publisher's packets enter the cache as readLoop stores them (Store then Write); cache capacity starts at 4 so eviction is reachable; upstream NACKs scheduled on a cache miss are outside this property (C06)")
		res.Assume("VP9 layer requests (wantedSid) are set through the accessor, mirroring what adjustLayer decides; the switch itself is performed by the real Write at a keyframe")
		core.Finish(res, t0)
	}
	agg := map[string]*core.Sub{}
	for i, c := range allConfigs() {
		if i%o.Shards != o.Shard || !core.Want(c.kind) {
			continue
		}
		s := seqx.Explore(cfgFor(c), res)
		a := agg[c.kind]
		if a == nil {
			s.Name = c.kind
			s.Note = ""
			agg[c.kind] = &s
			continue
		}
		a.States += s.States
		a.Transitions += s.Transitions
		a.Executions += s.Executions
		a.Exhaustive = a.Exhaustive && s.Exhaustive
		if s.Outcomes > a.Outcomes {
			a.Outcomes = s.Outcomes
		}
	}
	for _, k := range []string{"vp8", "vp9", "vp9low", "pure"} {
		if a := agg[k]; a != nil {
			res.AddSub(*a)
		}
	}
	if core.Want("conc") {
		runConcurrent(res, o.Shard, o.Shards)
	}
	core.Finish(res, t0)
}

func replay(path string) {
	data, err := os.ReadFile(path)
	if err != nil {
		fmt.Println(err)
		os.Exit(2)
	}
	var a struct {
		Replay struct {
			Config  string `json:"config"`
			Ops     []op   `json:"ops"`
			Program string `json:"program"`
			Choices []int  `json:"choices"`
		} `json:"replay"`
	}
	if err := json.Unmarshal(data, &a); err != nil {
		fmt.Println(err)
		os.Exit(2)
	}
	if a.Replay.Program != "" {
		fwd.Init()
		for _, p := range concPrograms() {
			if p.Name == a.Replay.Program {
				_, out, v := vrt.ReplayChoices(p, a.Replay.Choices)
				if v != nil {
					fmt.Printf("VIOLATION property=C03 replay=%s\n  %s\n", path, v.What)
					os.Exit(1)
				}
				fmt.Println("replay: no violation; outcome", out)
				return
			}
		}
		fmt.Println("unknown program")
		os.Exit(2)
	}
	parts := strings.SplitN(a.Replay.Config, "/start", 2)
	var start int
	fmt.Sscanf(parts[1], "%d", &start)
	ops := make([]seqx.Op, len(a.Replay.Ops))
	for i, x := range a.Replay.Ops {
		ops[i] = x
	}
	if v := seqx.Replay(cfgFor(cfgDesc{parts[0], uint16(start)}), ops); v != nil {
		fmt.Printf("VIOLATION property=C03 replay=%s\n  %s\n", path, v.What)
		os.Exit(1)
	}
	fmt.Println("replay: no violation")
}

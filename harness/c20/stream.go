package main

import (
	"bytes"
	"fmt"
	"sort"
	"time"

	"github.com/pion/rtp"
	"github.com/pion/rtp/codecs"

	"verif/media"
)

// ---------------------------------------------------------------------------
// stream configurations

const (
	vRate = 90000
	aRate = 48000
	vTick = 2970 // 33 ms at 90 kHz
	aTick = 960  // 20 ms at 48 kHz
	vDur  = 33 * time.Millisecond
	aDur  = 20 * time.Millisecond
	// capture instant of video frame 0 on the virtual clock (offset from
	// vtime.Base)
	cap0 = 2 * time.Second
	// a jump of more than 2^31 ticks between two video frames (the "2^31
	// timestamp excursion"): 2^31+90000 ticks = 23861.8.. s; a multiple of 90
	// so that capture instants stay on the millisecond grid
	jumpTicks = uint32(1<<31) + 90000 - (uint32(1<<31) % 90)
)

var dims = [][2]int{{640, 480}, {320, 240}}

// VF is one video frame of a configuration.
type VF struct {
	Sz  []int `json:"sz"`            // pattern bytes per packet (after the mandatory codec header of the frame's first packet)
	Key bool  `json:"key,omitempty"` // keyframe
	Dim int   `json:"dim,omitempty"` // index into dims (keyframes)
}

// Config is one stream (one connection: a video and/or an audio track).
type Config struct {
	Name  string `json:"name"`
	Codec string `json:"codec,omitempty"` // "", vp8, vp9, h264
	V     []VF   `json:"v,omitempty"`
	A     []int  `json:"a,omitempty"`    // audio frame sizes
	AOff  int    `json:"aoff,omitempty"` // capture offset of audio frame 0 relative to video frame 0, ms
	VTS0  uint32 `json:"vts0,omitempty"`
	ATS0  uint32 `json:"ats0,omitempty"`
	VSeq0 uint16 `json:"vseq0,omitempty"`
	ASeq0 uint16 `json:"aseq0,omitempty"`
	// Jump: index of the video frame before which the RTP timestamp (and the
	// capture instant) jumps by jumpTicks; 0 = no jump.
	Jump int `json:"jump,omitempty"`
	// Pre-roll macro (video): PreN frames of 2 packets (the first of PreF0
	// packets) delivered by a fixed macro that keeps the sample builder's
	// buffer non-empty (the first packet of every frame overtakes the last
	// packet of the previous one), so that the ring advances instead of
	// being reset.  The last packet of the last pre-roll frame is left to the
	// explored history.
	PreN  int `json:"pren,omitempty"`
	PreF0 int `json:"pref0,omitempty"`
	// PreKeyLost: the last packet of the pre-roll's keyframe (pre-roll frame
	// 0) is lost for good, so that the first keyframe seen never completes
	// and the recording has to start at a later keyframe.
	PreKeyLost bool `json:"prekeylost,omitempty"`
	// Pre-roll macro (audio only): PreA packets in order with every PreALoss-th
	// one lost, which keeps the audio builder's buffer non-empty.
	PreA     int `json:"prea,omitempty"`
	PreALoss int `json:"prealoss,omitempty"`
	// Viewer: the recorder shares the publisher's writer with a viewer that
	// comes first: every video packet buffer is handed to a real
	// rtpDownTrack (below the top temporal layer, one packet withheld, so that
	// it renumbers what it forwards) and then, the same buffer, to the
	// recorder -- as rtpWriterLoop does.
	Viewer bool `json:"viewer,omitempty"`
}

const (
	trA = 0
	trV = 1
)

type pkt struct {
	G       int // global pattern seed
	Track   int
	Frame   int // frame index within the track
	Pos     int // position within the frame
	Seq     uint16
	TS      uint32
	Marker  bool
	KF      bool // first packet of a keyframe
	Raw     []byte
	Pay     []byte        // RTP payload
	Cap     time.Duration // capture instant
	Pre     bool          // belongs to a pre-roll frame
	Macro   bool          // delivered by the pre-roll macro (not by the explored history)
	PreLost bool          // pre-roll packet that is lost (audio pre-roll)
}

type frame struct {
	Track int
	Idx   int
	Pk    []int // indices into stream.pk
	Data  []byte
	TS    uint32
	Cap   time.Duration
	Key   bool
	W, H  int
}

type stream struct {
	cfg  *Config
	pk   []pkt      // all packets of both tracks in capture order (video before audio on ties)
	fr   [2][]frame // per track
	free []int      // indices of the packets left to the explored history (capture order)
	pre  []int      // macro delivery order of the pre-roll packets
}

func (c *Config) hasVideo() bool { return len(c.V) > 0 || c.PreN > 0 }
func (c *Config) hasAudio() bool { return len(c.A) > 0 || c.PreA > 0 }

// pattern returns n non-zero bytes that depend on every bit of g; byte 0 is
// unique for g < 255.
func pattern(g, n int) []byte {
	b := make([]byte, n)
	x := uint64(g)*0x9E3779B97F4A7C15 + 0x1234567
	for i := range b {
		x ^= x >> 31
		x *= 0xBF58476D1CE4E5B9
		x ^= x >> 29
		b[i] = byte(1 + x%255)
	}
	if n > 0 {
		b[0] = byte(1 + (g*53)%255)
	}
	if n > 2 {
		b[1] = byte(1 + (g/255)%255)
	}
	return b
}

func vp8Payload(first, key bool, dim int, pid uint16, body []byte) []byte {
	d := byte(0x80) // X
	if first {
		d |= 0x10 // S, partition 0
	}
	b := []byte{d, 0x80, 0x80 | byte(pid>>8)&0x7F, byte(pid)}
	if first {
		if key {
			w, h := dims[dim][0], dims[dim][1]
			b = append(b, 0x10, 0x00, 0x00, 0x9d, 0x01, 0x2a, byte(w), byte(w>>8), byte(h), byte(h>>8))
		} else {
			b = append(b, 0x11)
		}
	}
	return append(b, body...)
}

func vp9Payload(first, last, key bool, dim int, pid uint16, body []byte) []byte {
	d := byte(0x80) // I
	if !key {
		d |= 0x40 // P
	}
	if first {
		d |= 0x08 // B
	}
	if last {
		d |= 0x04 // E
	}
	if first && key {
		d |= 0x02 // V
	}
	b := []byte{d, 0x80 | byte(pid>>8)&0x7F, byte(pid)}
	if first && key {
		w, h := dims[dim][0], dims[dim][1]
		// N_S=0, Y=1, G=0, one resolution
		b = append(b, 0x10, byte(w>>8), byte(w), byte(h>>8), byte(h))
	}
	if first {
		if key {
			b = append(b, 0x82) // frame marker 10, profile 0, show_existing 0, frame_type 0
		} else {
			b = append(b, 0x86)
		}
	}
	return append(b, body...)
}

// h264Payload: a single NAL unit packet for one-packet frames, FU-A fragments
// otherwise.  NAL type 7 (SPS) marks a keyframe for galene.
func h264Payload(pos, n int, key bool, body []byte) []byte {
	typ := byte(1)
	if key {
		typ = 7
	}
	if n == 1 {
		return append([]byte{0x60 | typ}, body...)
	}
	fu := typ
	if pos == 0 {
		fu |= 0x80
	}
	if pos == n-1 {
		fu |= 0x40
	}
	return append([]byte{0x60 | 28, fu}, body...)
}

func depacketizer(codec string) rtp.Depacketizer {
	switch codec {
	case "vp8":
		return &codecs.VP8Packet{}
	case "vp9":
		return &codecs.VP9Packet{}
	case "h264":
		return &codecs.H264Packet{}
	}
	return &codecs.OpusPacket{}
}

func maxLate(track int) uint16 {
	if track == trA {
		return 32
	}
	return 256
}

func buildStream(c *Config) (*stream, error) {
	st := &stream{cfg: c}
	g := 0
	var vpk, apk []pkt
	// ---- video
	if c.hasVideo() {
		var frames []VF
		for i := 0; i < c.PreN; i++ {
			n := 2
			if i == 0 && c.PreF0 > 0 {
				n = c.PreF0
			}
			sz := make([]int, n)
			for j := range sz {
				sz[j] = 3
			}
			frames = append(frames, VF{Sz: sz, Key: i == 0})
		}
		frames = append(frames, c.V...)
		seq := c.VSeq0
		ts := c.VTS0
		capt := cap0
		for fi, f := range frames {
			if c.Jump > 0 && fi == c.PreN+c.Jump {
				ts += jumpTicks - vTick
				capt += time.Duration(jumpTicks-vTick) / 90 * time.Millisecond
			}
			fr := frame{Track: trV, Idx: fi, TS: ts, Cap: capt, Key: f.Key}
			if f.Key && c.Codec != "h264" {
				fr.W, fr.H = dims[f.Dim][0], dims[f.Dim][1]
			}
			for pi, sz := range f.Sz {
				seed := g
				if fi < c.PreN {
					seed = 1000 + g
				}
				body := pattern(seed, sz)
				var pay []byte
				first, last := pi == 0, pi == len(f.Sz)-1
				switch c.Codec {
				case "vp8":
					pay = vp8Payload(first, f.Key, f.Dim, uint16(100+fi), body)
				case "vp9":
					pay = vp9Payload(first, last, f.Key, f.Dim, uint16(100+fi), body)
				case "h264":
					pay = h264Payload(pi, len(f.Sz), f.Key, body)
				default:
					return nil, fmt.Errorf("unknown codec %q", c.Codec)
				}
				raw := append(media.Hdr{Seq: seq, TS: ts, Marker: last, PT: 96, SSRC: 0x1111}.Bytes(), pay...)
				vpk = append(vpk, pkt{G: seed, Track: trV, Frame: fi, Pos: pi, Seq: seq, TS: ts, Marker: last,
					KF: f.Key && first, Raw: raw, Pay: pay, Cap: capt, Pre: fi < c.PreN,
					PreLost: c.PreKeyLost && c.PreN > 1 && fi == 0 && last})
				g++
				seq++
			}
			st.fr[trV] = append(st.fr[trV], fr)
			ts += vTick
			capt += vDur
		}
	}
	// ---- audio
	if c.hasAudio() {
		var sizes []int
		for i := 0; i < c.PreA; i++ {
			sizes = append(sizes, 3)
		}
		sizes = append(sizes, c.A...)
		seq := c.ASeq0
		ts := c.ATS0
		capt := cap0 + time.Duration(c.AOff)*time.Millisecond
		if c.PreN > 0 {
			// audio starts with the tail of the video stream
			capt += time.Duration(c.PreN-1) * vDur
		}
		for fi, sz := range sizes {
			seed := g
			if fi < c.PreA {
				seed = 1000 + g
			}
			pay := pattern(seed, sz)
			raw := append(media.Hdr{Seq: seq, TS: ts, Marker: false, PT: 111, SSRC: 0x2222}.Bytes(), pay...)
			p := pkt{G: seed, Track: trA, Frame: fi, Seq: seq, TS: ts, Raw: raw, Pay: pay, Cap: capt, Pre: fi < c.PreA}
			if p.Pre && c.PreALoss > 0 && fi%c.PreALoss == c.PreALoss-1 {
				p.PreLost = true
			}
			apk = append(apk, p)
			st.fr[trA] = append(st.fr[trA], frame{Track: trA, Idx: fi, TS: ts, Cap: capt, Key: true})
			g++
			seq++
			ts += aTick
			capt += aDur
		}
	}
	// ---- merge in capture order (stable: video first on ties)
	st.pk = append(append([]pkt{}, vpk...), apk...)
	sort.SliceStable(st.pk, func(i, j int) bool { return st.pk[i].Cap < st.pk[j].Cap })
	for i, p := range st.pk {
		f := &st.fr[p.Track][p.Frame]
		f.Pk = append(f.Pk, i)
	}
	// ---- expected frames: an independent depacketisation of what is SENT
	for t := 0; t < 2; t++ {
		codec := c.Codec
		if t == trA {
			codec = "opus"
		}
		seen := map[string]int{}
		for i := range st.fr[t] {
			f := &st.fr[t][i]
			d := depacketizer(codec)
			var data []byte
			for _, pi := range f.Pk {
				var rp rtp.Packet
				if err := rp.Unmarshal(st.pk[pi].Raw); err != nil {
					return nil, fmt.Errorf("own packet does not parse: %v", err)
				}
				if !bytes.Equal(rp.Payload, st.pk[pi].Pay) {
					return nil, fmt.Errorf("own packet: payload mismatch")
				}
				b, err := d.Unmarshal(rp.Payload)
				if err != nil {
					return nil, fmt.Errorf("own packet does not depacketise: %v", err)
				}
				data = append(data, b...)
			}
			f.Data = data
			if j, dup := seen[string(data)]; dup {
				return nil, fmt.Errorf("frames %d and %d of track %d have equal content", j, i, t)
			}
			seen[string(data)] = i
		}
	}
	// ---- pre-roll macro order and the packets left to the history
	var lastOfPrev = -1
	for i, p := range st.pk {
		switch {
		case p.Track == trV && p.Pre:
			f := st.fr[trV][p.Frame]
			lastFrame := p.Frame == c.PreN-1
			isLast := p.Pos == len(f.Pk)-1
			if isLast {
				if lastFrame {
					st.free = append(st.free, i)
				} else {
					lastOfPrev = i // delivered after the first packet of the next frame
				}
				continue
			}
			st.pre = append(st.pre, i)
			if p.Pos == 0 && lastOfPrev >= 0 {
				st.pre = append(st.pre, lastOfPrev)
				lastOfPrev = -1
			}
		case p.Track == trA && p.Pre:
			st.pre = append(st.pre, i)
		default:
			st.free = append(st.free, i)
		}
	}
	for _, i := range st.pre {
		st.pk[i].Macro = true
	}
	return st, nil
}

func (st *stream) describe() string {
	c := st.cfg
	s := c.Name + ":"
	if c.hasVideo() {
		s += " " + c.Codec + "["
		for i, f := range c.V {
			if i > 0 {
				s += " "
			}
			if f.Key {
				s += fmt.Sprintf("K%d", f.Dim)
			}
			s += fmt.Sprint(f.Sz)
		}
		s += fmt.Sprintf("] ts0=%d seq0=%d", c.VTS0, c.VSeq0)
	}
	if c.hasAudio() {
		s += fmt.Sprintf(" opus%v ts0=%d seq0=%d aoff=%dms", c.A, c.ATS0, c.ASeq0, c.AOff)
	}
	if c.PreN > 0 {
		f0 := c.PreF0
		if f0 == 0 {
			f0 = 2
		}
		s += fmt.Sprintf(" preroll=%d frames of 2 packets (the first of %d)", c.PreN, f0)
	}
	if c.PreKeyLost {
		s += ", last packet of the pre-roll keyframe lost for good"
	}
	if c.PreA > 0 {
		s += fmt.Sprintf(" audio-preroll=%d packets, every %dth lost", c.PreA, c.PreALoss)
	}
	if c.Jump > 0 {
		s += fmt.Sprintf(" ts-jump>2^31 before frame %d", c.Jump)
	}
	return s
}

// pname names a packet for reports: v2.1 = video frame 2, packet 1.
func (st *stream) pname(i int) string {
	p := st.pk[i]
	t := "a"
	if p.Track == trV {
		t = "v"
	}
	fi := p.Frame
	n := len(st.fr[p.Track][p.Frame].Pk)
	if p.Track == trV {
		fi -= st.cfg.PreN
	} else {
		fi -= st.cfg.PreA
	}
	if n == 1 {
		return fmt.Sprintf("%s%d", t, fi)
	}
	return fmt.Sprintf("%s%d.%d", t, fi, p.Pos)
}

// macroAfter counts the packets of the same track that the pre-roll macro
// delivers after packet i (in sending order).
func (st *stream) macroAfter(i int) int {
	n := 0
	for j := i + 1; j < len(st.pk); j++ {
		if st.pk[j].Track == st.pk[i].Track && st.pk[j].Macro && !st.pk[j].PreLost {
			n++
		}
	}
	return n
}

package main

import (
	"reflect"

	"github.com/jech/samplebuilder"
	"github.com/pion/rtp"
)

// The reference pipeline is used ONLY to name the class of a violation the
// oracle has already established (a block that is not a sent frame, a frame
// that is missing): the packet sequence that entered the recorder, as
// observed at the seam (every Write and every successful GetPacket, in
// order), is fed to a FRESH instance of the real pinned dependency
// (jech/samplebuilder + pion's depacketiser, public API).  If the dependency
// alone produces the same corrupted sample, or never produces the frame, the
// defect is in the dependency; if it produces the intact frame and the file
// does not contain it, the recorder lost it.  Ring positions and the
// builder's notion of "late" are read from the reference instance by
// reflection.

type pushEv struct {
	pkt       int  // index into stream.pk
	fromCache bool // handed out by GetPacket
	step      int  // history step (-1 pre-roll)
}

// pushOrder reconstructs the sequence of packets that entered the recorder
// for a track: every Write, and every successful GetPacket at the step it
// happened (before that step's own packet).
func pushOrder(st *stream, h *History, o *obs, t int) []pushEv {
	bySeq := map[uint16]int{}
	for i, p := range st.pk {
		if p.Track == t {
			bySeq[p.Seq] = i
		}
	}
	var order []pushEv
	for _, i := range st.pre {
		if st.pk[i].Track == t && !st.pk[i].PreLost {
			order = append(order, pushEv{i, false, -1})
		}
	}
	gets := o.tracks[t].gets
	gi := 0
	for gi < len(gets) && gets[gi].step < 0 {
		gi++
	}
	for si, s := range h.Steps {
		if s.K != "w" || st.pk[s.P].Track != t {
			continue
		}
		for gi < len(gets) && gets[gi].step <= si {
			if gets[gi].n > 0 {
				if i, ok := bySeq[gets[gi].seq]; ok {
					order = append(order, pushEv{i, true, si})
				}
			}
			gi++
		}
		order = append(order, pushEv{s.P, false, si})
	}
	return order
}

type refSample struct {
	data    []byte
	ts      uint32 // RTP timestamp the builder reports for the sample
	first   int    // packet index (stream.pk) at the builder's tail when the sample was popped, -1
	tailIdx int    // ring index of the tail
	ringLen int
	at      int // index into the push sequence after which it was popped (len = forced at the end)
	forced  bool
}

type refRun struct {
	samples   []refSample
	late      []bool // per push: dropped by the builder as late
	dupNewest []bool // per push: a copy of the newest packet held in the (non-empty) buffer
	newestSeq []uint16
	order     []pushEv
}

type sbView struct{ v reflect.Value }

func (s sbView) u(name string) uint64 { return s.v.FieldByName(name).Uint() }
func (s sbView) b(name string) bool   { return s.v.FieldByName(name).Bool() }
func (s sbView) n() int               { return s.v.FieldByName("packets").Len() }
func (s sbView) seqAt(i int) (uint16, bool) {
	p := s.v.FieldByName("packets").Index(i).FieldByName("packet")
	if p.IsNil() {
		return 0, false
	}
	return uint16(p.Elem().FieldByName("Header").FieldByName("SequenceNumber").Uint()), true
}

// reference runs the observed push sequence through a fresh builder.  With
// padded set, packets that came from the cache carry the rest of the
// 1504-byte fetch buffer, as the recorder under test hands them over.
func reference(st *stream, order []pushEv, t int, padded bool) *refRun {
	codec := st.cfg.Codec
	rate := uint32(vRate)
	if t == trA {
		codec, rate = "opus", aRate
	}
	bySeq := map[uint16]int{}
	for i, p := range st.pk {
		if p.Track == t {
			bySeq[p.Seq] = i
		}
	}
	sb := samplebuilder.New(maxLate(t), depacketizer(codec), rate)
	view := sbView{reflect.ValueOf(sb).Elem()}
	r := &refRun{order: order, late: make([]bool, len(order)), dupNewest: make([]bool, len(order)), newestSeq: make([]uint16, len(order))}
	pop := func(at int, force bool) bool {
		first, tail := -1, int(view.u("tail"))
		if view.u("head") != view.u("tail") {
			if s, ok := view.seqAt(tail); ok {
				if i, ok := bySeq[s]; ok {
					first = i
				}
			}
		}
		var data []byte
		var got bool
		var ts uint32
		if force {
			s, x := sb.ForcePopWithTimestamp()
			if s != nil {
				data, got, ts = s.Data, true, x
			}
		} else {
			s, x := sb.PopWithTimestamp()
			if s != nil {
				data, got, ts = s.Data, true, x
			}
		}
		if !got {
			return false
		}
		// a forced pop may have dropped incomplete frames first; then
		// "first" names the dropped one.  Recover the owner from the data
		// when possible (done by the caller via content).
		r.samples = append(r.samples, refSample{data: data, ts: ts, first: first, tailIdx: tail, ringLen: view.n(), at: at, forced: force})
		return true
	}
	for k, ev := range order {
		raw := append([]byte(nil), st.pk[ev.pkt].Raw...)
		if padded && ev.fromCache {
			raw = append(raw, make([]byte, 1504-len(raw))...)
		}
		var p rtp.Packet
		if p.Unmarshal(raw) != nil {
			continue
		}
		seq := p.SequenceNumber
		if view.b("lastSeqnoValid") {
			last := uint16(view.u("lastSeqno"))
			if (last-seq)&0x8000 == 0 && last-seq <= maxLate(t) {
				r.late[k] = true
			}
		}
		if !r.late[k] && view.u("head") != view.u("tail") {
			hd := int(view.u("head"))
			prev := hd - 1
			if prev < 0 {
				prev = view.n() - 1
			}
			if s, ok := view.seqAt(prev); ok {
				r.newestSeq[k] = s
				if s == seq {
					r.dupNewest[k] = true
				}
			}
		}
		sb.Push(&p)
		for pop(k, false) {
		}
	}
	for pop(len(order), true) {
	}
	return r
}

package main

import (
	"bytes"
	"errors"
	"fmt"
	"io"
	"strings"
	"time"

	"github.com/at-wat/ebml-go"
	"github.com/at-wat/ebml-go/webm"
	"github.com/jech/samplebuilder"
	"github.com/pion/rtp"

	"verif/core"
)

type container struct {
	Header  webm.EBMLHeader `ebml:"EBML"`
	Segment webm.Segment    `ebml:"Segment"`
}

type block struct {
	file  int
	track int // trA / trV
	time  int64
	key   bool
	data  []byte
	frame int // matched frame index, -1
}

type verdict struct {
	viol    []core.Violation
	outcome string
	blocks  []block
}

func (v *verdict) add(sig, what string) {
	for _, x := range v.viol {
		if x.Signature == "C20/"+sig {
			return
		}
	}
	v.viol = append(v.viol, core.Violation{Signature: "C20/" + sig, What: what})
}

var codecID = map[string]string{"vp8": "V_VP8", "vp9": "V_VP9", "h264": "V_MPEG4/ISO/AVC"}

// histClass names the perturbations a history contains.
func histClass(st *stream, h *History) string {
	var reorder, dup, cached, lost, sr bool
	seen := map[int]bool{}
	last := -1
	for _, s := range h.Steps {
		switch s.K {
		case "w":
			if seen[s.P] {
				dup = true
			} else if s.P < last {
				reorder = true
			}
			seen[s.P] = true
			if s.P > last {
				last = s.P
			}
		case "c":
			cached = true
			if s.P < last {
				reorder = true
			}
			if s.P > last {
				last = s.P
			}
		case "x":
			lost = true
		case "sr":
			sr = true
		}
	}
	var l []string
	if reorder {
		l = append(l, "reordered")
	}
	if dup {
		l = append(l, "duplicate")
	}
	if cached {
		l = append(l, "cache-gap")
	}
	if lost {
		l = append(l, "lost")
	}
	if sr {
		l = append(l, "sender-report")
	}
	if len(l) == 0 {
		return "in-order"
	}
	return strings.Join(l, "+")
}

// check is the oracle: it compares what is on disk with what was sent.
func check(st *stream, h *History, o *obs) *verdict {
	v := &verdict{}
	c := st.cfg
	class := histClass(st, h)
	if c.PreN > 0 || c.PreA > 0 {
		class = "after-preroll+" + class
	}
	if o.panicV != nil {
		v.add("panic/"+class, fmt.Sprintf("panic in the recorder: %v\n%s", o.panicV, tailStr(o.panicSt, 1500)))
		v.outcome = "panic"
		return v
	}
	if o.pushErr != nil {
		v.add("push-error/"+class, fmt.Sprintf("PushConn/New failed: %v", o.pushErr))
		v.outcome = "pusherr"
		return v
	}

	// ------------------------------------------------------------------
	// what entered the recorder (observed at the seam) and what was
	// available to it
	np := len(st.pk)
	pushed := make([]bool, np)    // written, or handed out by GetPacket
	pushStep := make([]int, np)   // step at which it entered
	recovered := make([]bool, np) // first copy came from the cache
	avail := make([]bool, np)     // written, or recoverable from the cache
	availStep := make([]int, np)
	allWritten := true
	bySeq := [2]map[uint16]int{{}, {}}
	for i, p := range st.pk {
		bySeq[p.Track][p.Seq] = i
		pushStep[i], availStep[i] = 1<<30, 1<<30
		if o.wstep[i] >= 0 || (p.Macro && !p.PreLost) {
			pushed[i], avail[i] = true, true
			pushStep[i], availStep[i] = o.wstep[i], o.wstep[i]
		} else {
			allWritten = false
		}
	}
	for t := 0; t < 2; t++ {
		if o.tracks[t] == nil {
			continue
		}
		for _, g := range o.tracks[t].gets {
			i, ok := bySeq[t][g.seq]
			if !ok || g.n == 0 {
				continue
			}
			// a successful fetch at a step before (or at) the packet's own
			// first Write: the first copy the recorder has is the cache's
			if !pushed[i] || g.step <= pushStep[i] {
				recovered[i] = true
				pushed[i] = true
				if g.step < pushStep[i] {
					pushStep[i] = g.step
				}
			}
		}
	}
	// recoverable: stored in the cache, and the recorder has seen (been
	// written) a packet of the track before it and one after it, the later
	// of the two being written when the packet was already in the cache.
	for i, p := range st.pk {
		if avail[i] || o.cstep[i] < 0 {
			continue
		}
		lo, hi := 1<<30, 1<<30
		for j, q := range st.pk {
			if q.Track != p.Track {
				continue
			}
			ws := o.wstep[j]
			if q.Macro && !q.PreLost {
				ws = -1
			} else if ws < 0 {
				continue
			}
			d := int16(q.Seq - p.Seq)
			if d < 0 && ws < lo {
				lo = ws
			}
			if d > 0 && ws < hi && ws >= o.cstep[i] {
				// the first packet after it written once it is in the cache
				hi = ws
			}
		}
		// a later packet written BEFORE the store does not help unless an
		// even later write follows; hi already honours ws >= cstep
		if lo < 1<<30 && hi < 1<<30 {
			noticed := hi
			if lo > noticed {
				noticed = lo
			}
			avail[i] = true
			availStep[i] = noticed
		}
	}
	allAvail := true
	for i := range st.pk {
		if !avail[i] {
			allAvail = false
		}
	}

	// ------------------------------------------------------------------
	// parse the files
	var blocks []block
	type finfo struct {
		w, h   int
		nblock int
	}
	var finfos []finfo
	wantExt, wantDoc := ".webm", "webm"
	if c.Codec == "h264" {
		wantExt, wantDoc = ".mkv", "matroska"
	}
	for fi, f := range o.files {
		if !f.closed {
			v.add("file-not-closed/"+h.End, fmt.Sprintf("%s: no close of the file was observed by the time %s returned", f.name, h.End))
		} else if f.writesAfter > 0 {
			v.add("write-after-close/"+h.End, fmt.Sprintf("%s: %d writes after the close", f.name, f.writesAfter))
		}
		if !strings.HasSuffix(f.name, wantExt) {
			v.add("container/extension", fmt.Sprintf("%s: expected extension %s", f.name, wantExt))
		}
		var doc container
		err := ebml.Unmarshal(bytes.NewReader(f.data), &doc)
		if err != nil && !errors.Is(err, io.EOF) {
			v.add("container/malformed-ebml", fmt.Sprintf("%s (%d bytes) does not parse: %v", f.name, len(f.data), err))
			finfos = append(finfos, finfo{})
			continue
		}
		hd := doc.Header
		if hd.DocType != wantDoc || hd.EBMLVersion != 1 || hd.EBMLReadVersion != 1 {
			v.add("container/header", fmt.Sprintf("%s: EBML header %+v, expected DocType %s", f.name, hd, wantDoc))
		}
		if doc.Segment.Info.TimecodeScale != 1000000 {
			v.add("container/timecode-scale", fmt.Sprintf("%s: TimecodeScale %d, block times are written in ms", f.name, doc.Segment.Info.TimecodeScale))
		}
		// declared tracks: audio first (if any), then video
		var want []string
		if c.hasAudio() {
			want = append(want, "A_OPUS")
		}
		if c.hasVideo() {
			want = append(want, codecID[c.Codec])
		}
		te := doc.Segment.Tracks.TrackEntry
		trackOf := map[uint64]int{}
		info := finfo{}
		ok := len(te) == len(want)
		for i := 0; ok && i < len(te); i++ {
			e := te[i]
			if e.CodecID != want[i] || e.TrackNumber != uint64(i+1) {
				ok = false
				break
			}
			if want[i] == "A_OPUS" {
				trackOf[e.TrackNumber] = trA
				if e.TrackType != 2 || e.Audio == nil || e.Audio.SamplingFrequency != aRate || e.Audio.Channels != 2 || e.Video != nil {
					ok = false
				}
			} else {
				trackOf[e.TrackNumber] = trV
				if e.TrackType != 1 || e.Video == nil || e.Audio != nil {
					ok = false
				} else {
					info.w, info.h = int(e.Video.PixelWidth), int(e.Video.PixelHeight)
				}
			}
		}
		if !ok {
			v.add("container/tracks", fmt.Sprintf("%s declares tracks %+v, expected %v (audio 48000 Hz 2 channels, video with pixel dimensions)", f.name, describeTracks(te), want))
		}
		for _, cl := range doc.Segment.Cluster {
			if len(cl.BlockGroup) > 0 {
				v.add("container/blockgroup", f.name+": unexpected BlockGroup")
			}
			for _, b := range cl.SimpleBlock {
				tr, known := trackOf[b.TrackNumber]
				if !known {
					v.add("container/block-of-undeclared-track", fmt.Sprintf("%s: block of track %d", f.name, b.TrackNumber))
					continue
				}
				if len(b.Data) != 1 {
					v.add("container/laced-block", fmt.Sprintf("%s: block with %d frames", f.name, len(b.Data)))
					continue
				}
				blocks = append(blocks, block{file: fi, track: tr, time: int64(cl.Timecode) + int64(b.Timecode),
					key: b.Keyframe, data: b.Data[0], frame: -1})
				info.nblock++
			}
		}
		finfos = append(finfos, info)
	}

	// ------------------------------------------------------------------
	// every block is exactly one sent frame; no repeats; order; timestamps
	present := [2]map[int]int{{}, {}} // frame -> block index
	for t := 0; t < 2; t++ {
		byData := map[string]int{}
		for i, f := range st.fr[t] {
			byData[string(f.Data)] = i
		}
		lastFrame, lastTime, lastFile := -1, int64(0), -1
		for bi := range blocks {
			b := &blocks[bi]
			if b.track != t {
				continue
			}
			fi, ok := byData[string(b.data)]
			if !ok {
				sig, what := explainBlock(st, h, o, t, b, recovered, class)
				v.add(sig, what)
			} else {
				b.frame = fi
				f := st.fr[t][fi]
				if prev, dup := present[t][fi]; dup {
					v.add("frame-written-twice/"+class, fmt.Sprintf("%s is written twice (blocks %d and %d of the recording)", st.fname(t, fi), prev, bi))
				} else {
					present[t][fi] = bi
					if fi < lastFrame {
						v.add("frame-out-of-order/"+class, fmt.Sprintf("%s is written after %s", st.fname(t, fi), st.fname(t, lastFrame)))
					}
					lastFrame = fi
				}
				if t == trV && b.key != f.Key {
					v.add(fmt.Sprintf("keyframe-flag/%s", class), fmt.Sprintf("%s (keyframe=%v) is written with keyframe flag %v", st.fname(t, fi), f.Key, b.key))
				}
				if t == trA && !b.key {
					v.add("keyframe-flag/audio", fmt.Sprintf("%s written without the keyframe flag", st.fname(t, fi)))
				}
			}
			if b.file == lastFile && b.time < lastTime {
				v.add("timestamp-decreases/"+class, fmt.Sprintf("track %s: block time %d ms follows %d ms in %s", tname(t), b.time, lastTime, o.files[b.file].name))
			}
			lastTime, lastFile = b.time, b.file
		}
	}

	// per file: the first video block is a keyframe and the declared
	// dimensions are that keyframe's
	if c.hasVideo() {
		for fi := range o.files {
			first := true
			for _, b := range blocks {
				if b.file != fi || b.track != trV || b.frame < 0 {
					continue
				}
				f := st.fr[trV][b.frame]
				if first && !f.Key {
					v.add("file-starts-without-keyframe/"+class, fmt.Sprintf("%s: first video block is %s, not a keyframe", o.files[fi].name, st.fname(trV, b.frame)))
				}
				first = false
				if f.Key && fi < len(finfos) && (finfos[fi].w != f.W || finfos[fi].h != f.H) {
					v.add("container/video-dimensions/"+class, fmt.Sprintf("%s declares %dx%d but contains keyframe %s of %dx%d",
						o.files[fi].name, finfos[fi].w, finfos[fi].h, st.fname(trV, b.frame), f.W, f.H))
				}
			}
		}
	}

	// ------------------------------------------------------------------
	// completeness / flush
	//
	// K: the first video keyframe (sending order) all of whose packets were
	// available.  Video frames from K on whose packets were all available
	// must be present.  Audio frames (when there is video) must be present
	// if they entered the recorder after every available video packet up to
	// and including K had entered it and nothing up to K was unavailable.
	frameAvail := func(t, fi int) (bool, int, bool) {
		all, step, viaCache := true, -1, false
		for _, pi := range st.fr[t][fi].Pk {
			if !avail[pi] {
				all = false
				continue
			}
			if availStep[pi] > step {
				step = availStep[pi]
			}
			if o.wstep[pi] < 0 && !(st.pk[pi].Macro && !st.pk[pi].PreLost) {
				viaCache = true
			}
		}
		return all, step, viaCache
	}
	missClass := func(viaCache bool) string {
		switch {
		case viaCache:
			return "recoverable-from-cache"
		case allWritten:
			return "every-packet-written"
		case allAvail:
			return "every-packet-available"
		default:
			return "held-behind-gap"
		}
	}
	k := -1
	kReady := -1
	lossBeforeK := false
	if c.hasVideo() {
		for fi, f := range st.fr[trV] {
			all, _, _ := frameAvail(trV, fi)
			if f.Key && all {
				k = fi
				break
			}
		}
		if k >= 0 {
			for fi := 0; fi <= k; fi++ {
				for _, pi := range st.fr[trV][fi].Pk {
					if !avail[pi] {
						lossBeforeK = true
					} else if availStep[pi] > kReady {
						kReady = availStep[pi]
					}
				}
			}
			split := ""
			for fi := k; fi < len(st.fr[trV]); fi++ {
				f := st.fr[trV][fi]
				if fi > k && f.Key && (f.W != st.fr[trV][k].W || f.H != st.fr[trV][k].H) && split == "" {
					split = "dimension-change"
				}
				if c.Jump > 0 && fi >= c.PreN+c.Jump && split == "" {
					split = "timestamp-excursion"
				}
				all, _, viaCache := frameAvail(trV, fi)
				if !all {
					continue
				}
				if _, ok := present[trV][fi]; !ok && !explained(st, blocks, trV, fi) {
					cl := missClass(viaCache)
					if split != "" {
						cl = "after-file-split/" + split + "/" + cl
					}
					v.add("frame-missing/"+cl+"/"+class, fmt.Sprintf("%s is not in the recording although all its packets %s and it follows the first keyframe %s",
						st.fname(trV, fi), map[bool]string{true: "were written to the recorder or were in the cache when the gap was noticed", false: "were written to the recorder"}[viaCache],
						st.fname(trV, k)))
				}
			}
		}
	}
	if c.hasAudio() {
		for fi := range st.fr[trA] {
			all, step, viaCache := frameAvail(trA, fi)
			if !all {
				continue
			}
			if c.hasVideo() {
				if k < 0 || lossBeforeK || step <= kReady {
					continue
				}
			}
			if _, ok := present[trA][fi]; !ok && !explained(st, blocks, trA, fi) {
				cl := missClass(viaCache)
				v.add("frame-missing/audio/"+cl+"/"+class, fmt.Sprintf("%s is not in the recording although it reached the recorder%s",
					st.fname(trA, fi), map[bool]string{true: " after the first video keyframe was complete", false: ""}[c.hasVideo()]))
			}
		}
	}

	// ------------------------------------------------------------------
	// audio and video share one origin: within a file, (block time -
	// capture instant) is the same for audio and video blocks up to the
	// arrival jitter of the history plus ms truncation.
	if c.hasAudio() && c.hasVideo() {
		tol := int64(o.maxDelay/time.Millisecond) + 3
		for _, a := range blocks {
			if a.track != trA || a.frame < 0 {
				continue
			}
			for _, b := range blocks {
				if b.track != trV || b.frame < 0 || b.file != a.file {
					continue
				}
				fa, fv := st.fr[trA][a.frame], st.fr[trV][b.frame]
				want := int64((fa.Cap - fv.Cap) / time.Millisecond)
				got := a.time - b.time
				if d := got - want; d > tol || d < -tol {
					v.add("av-offset/"+class, fmt.Sprintf("%s at %d ms and %s at %d ms differ by %d ms in the file, their capture instants by %d ms (tolerance %d ms = largest arrival delay %v + 3 ms truncation)",
						st.fname(trA, a.frame), a.time, st.fname(trV, b.frame), b.time, got, want, tol, o.maxDelay))
				}
			}
		}
	}

	// ------------------------------------------------------------------
	// outcome (distinct-outcome counter)
	var ob strings.Builder
	fmt.Fprintf(&ob, "f%d", len(o.files))
	for t := 0; t < 2; t++ {
		if o.tracks[t] == nil {
			continue
		}
		fmt.Fprintf(&ob, "|%s:", tname(t))
		for _, b := range blocks {
			if b.track == t {
				fmt.Fprintf(&ob, "%d.%d@%d,", b.file, b.frame, b.time)
			}
		}
		fmt.Fprintf(&ob, "k%dg%d", o.tracks[t].kfReq, len(o.tracks[t].gets))
	}
	for _, x := range v.viol {
		ob.WriteString("!" + x.Signature)
	}
	v.outcome = ob.String()
	v.blocks = blocks
	return v
}

// explained: a missing frame whose (corrupted) content is in the recording
// has already been reported by the byte-identity rule.
func explained(st *stream, blocks []block, t, fi int) bool {
	f := st.fr[t][fi]
	first := st.pk[f.Pk[0]]
	d := depacketizer(map[bool]string{true: "opus", false: st.cfg.Codec}[t == trA])
	head, err := d.Unmarshal(first.Pay)
	if err != nil || len(head) == 0 {
		return false
	}
	for _, b := range blocks {
		if b.track == t && b.frame < 0 && bytes.HasPrefix(b.data, head) {
			return true
		}
	}
	return false
}

func tname(t int) string {
	if t == trA {
		return "audio"
	}
	return "video"
}

func (st *stream) fname(t, fi int) string {
	f := st.fr[t][fi]
	rel := fi
	if t == trV {
		rel -= st.cfg.PreN
	} else {
		rel -= st.cfg.PreA
	}
	s := fmt.Sprintf("%s frame %d", tname(t), rel)
	if rel < 0 {
		s = fmt.Sprintf("%s pre-roll frame %d", tname(t), fi)
	}
	if f.Key && t == trV {
		s += " (keyframe)"
	}
	return s
}

func describeTracks(te []webm.TrackEntry) string {
	var l []string
	for _, e := range te {
		s := fmt.Sprintf("#%d %s type %d", e.TrackNumber, e.CodecID, e.TrackType)
		if e.Audio != nil {
			s += fmt.Sprintf(" audio %v Hz %d ch", e.Audio.SamplingFrequency, e.Audio.Channels)
		}
		if e.Video != nil {
			s += fmt.Sprintf(" video %dx%d", e.Video.PixelWidth, e.Video.PixelHeight)
		}
		l = append(l, s)
	}
	return strings.Join(l, "; ")
}

func tailStr(s string, n int) string {
	if len(s) > n {
		return s[len(s)-n:]
	}
	return s
}

// ---------------------------------------------------------------------------
// a block that is not a sent frame: name the failing class

// pushOrder reconstructs, from what the seam observed, the sequence of
// packets that entered the recorder for a track: every Write, and every
// successful GetPacket at the step it happened (before that step's Write).
func pushOrder(st *stream, h *History, o *obs, t int) []int {
	bySeq := map[uint16]int{}
	for i, p := range st.pk {
		if p.Track == t {
			bySeq[p.Seq] = i
		}
	}
	var order []int
	for _, i := range st.pre {
		if st.pk[i].Track == t && !st.pk[i].PreLost {
			order = append(order, i)
		}
	}
	gets := o.tracks[t].gets
	gi := 0
	for gi < len(gets) && gets[gi].step < 0 {
		gi++
	}
	for si, s := range h.Steps {
		if s.K != "w" || st.pk[s.P].Track != t {
			continue
		}
		for gi < len(gets) && gets[gi].step <= si {
			if gets[gi].n > 0 {
				if i, ok := bySeq[gets[gi].seq]; ok {
					order = append(order, i)
				}
			}
			gi++
		}
		order = append(order, s.P)
	}
	return order
}

// referenceSamples feeds the observed push sequence to a fresh instance of
// the real sample builder (the pinned dependency, public API) and returns
// what IT produces.  Used only to attribute a truncated frame: if the
// dependency alone produces the same truncated sample, the defect is there.
func referenceSamples(st *stream, order []int, t int) [][]byte {
	codec := st.cfg.Codec
	rate := uint32(vRate)
	if t == trA {
		codec, rate = "opus", aRate
	}
	sb := samplebuilder.New(maxLate(t), depacketizer(codec), rate)
	var out [][]byte
	for _, i := range order {
		var p rtp.Packet
		if p.Unmarshal(append([]byte(nil), st.pk[i].Raw...)) != nil {
			continue
		}
		sb.Push(&p)
		for {
			s, _ := sb.PopWithTimestamp()
			if s == nil {
				break
			}
			out = append(out, s.Data)
		}
	}
	for {
		s, _ := sb.ForcePopWithTimestamp()
		if s == nil {
			break
		}
		out = append(out, s.Data)
	}
	return out
}

func explainBlock(st *stream, h *History, o *obs, t int, b *block, recovered []bool, class string) (string, string) {
	codec := st.cfg.Codec
	if t == trA {
		codec = "opus"
	}
	// candidate frame: the one whose first packet's content starts the block
	cand := -1
	for fi, f := range st.fr[t] {
		d := depacketizer(codec)
		head, err := d.Unmarshal(st.pk[f.Pk[0]].Pay)
		if err == nil && len(head) > 0 && bytes.HasPrefix(b.data, head) {
			cand = fi
			break
		}
	}
	desc := fmt.Sprintf("block of %d bytes at %d ms (track %s) is not byte-identical to any frame that was sent", len(b.data), b.time, tname(t))
	if cand < 0 {
		return "frame-bytes-differ/unknown-content/" + class, desc
	}
	f := st.fr[t][cand]
	desc += fmt.Sprintf("; it starts like %s (%d bytes, %d packets)", st.fname(t, cand), len(f.Data), len(f.Pk))
	// (1) packets that came from the cache carry the rest of the 1504-byte
	// fetch buffer
	anyRec := false
	{
		d := depacketizer(codec)
		var alt []byte
		for _, pi := range f.Pk {
			raw := st.pk[pi].Raw
			pay := st.pk[pi].Pay
			if recovered[pi] {
				anyRec = true
				pay = append(append([]byte(nil), pay...), make([]byte, 1504-len(raw))...)
			}
			x, err := d.Unmarshal(pay)
			if err != nil {
				alt = nil
				break
			}
			alt = append(alt, x...)
		}
		if anyRec && alt != nil && bytes.Equal(alt, b.data) {
			n := 0
			for _, pi := range f.Pk {
				if recovered[pi] {
					n++
				}
			}
			return "frame-bytes-differ/cache-recovered-packet", desc + fmt.Sprintf(": the content of each of its %d packet(s) recovered from the cache is followed by the zero bytes of the rest of the 1504-byte fetch buffer (%d bytes too long)", n, len(b.data)-len(f.Data))
		}
	}
	// (2) truncated at a packet boundary
	{
		d := depacketizer(codec)
		var pre []byte
		for n, pi := range f.Pk {
			x, err := d.Unmarshal(st.pk[pi].Pay)
			if err != nil {
				break
			}
			pre = append(pre, x...)
			if n < len(f.Pk)-1 && bytes.Equal(pre, b.data) {
				// who truncated it?
				order := pushOrder(st, h, o, t)
				ref := referenceSamples(st, order, t)
				byDep := false
				for _, s := range ref {
					if bytes.Equal(s, b.data) {
						byDep = true
					}
				}
				inOrder := true
				pos := map[int]int{}
				for k, pi := range order {
					if _, ok := pos[pi]; !ok {
						pos[pi] = k
					}
				}
				for k := 1; k < len(f.Pk); k++ {
					if pos[f.Pk[k]] < pos[f.Pk[k-1]] {
						inOrder = false
					}
				}
				shape := "frame-packets-in-order"
				if !inOrder {
					shape = "frame-packets-reordered"
				}
				if st.cfg.PreN > 0 || st.cfg.PreA > 0 {
					shape = "after-preroll/" + shape
				}
				what := desc + fmt.Sprintf(": it is the first %d of its %d packets, the rest is discarded", n+1, len(f.Pk))
				if byDep {
					return "frame-truncated/samplebuilder-ring-wrap/" + shape, what + "; a fresh jech/samplebuilder fed the same packet sequence (the Writes and cache fetches observed at the seam) emits the same truncated sample, so the loss happens inside the dependency"
				}
				return "frame-truncated/recorder/" + shape, what + "; a fresh jech/samplebuilder fed the same packet sequence emits the complete frame"
			}
		}
	}
	if anyRec {
		return "frame-bytes-differ/cache-recovered-packet-other/" + class, desc + "; the frame contains a packet recovered from the cache but the block is not explained by trailing fetch-buffer bytes"
	}
	return "frame-bytes-differ/other/" + class, desc
}

package main

import (
	"verif/vtime"

	"bytes"
	"errors"
	"fmt"
	"io"
	"strings"
	"time"

	"github.com/at-wat/ebml-go"
	"github.com/at-wat/ebml-go/webm"

	"verif/core"
)

type container struct {
	Header  webm.EBMLHeader `ebml:"EBML"`
	Segment webm.Segment    `ebml:"Segment"`
}

type block struct {
	file  int
	track int // trA / trV
	time  int64
	key   bool
	data  []byte
	frame int // matched frame index, -1
	owner int // frame a corrupted block is attributed to, -1
}

type verdict struct {
	viol    []core.Violation
	outcome string
	blocks  []block
}

func (v *verdict) add(sig, what string) {
	for _, x := range v.viol {
		if x.Signature == "C20/"+sig {
			return
		}
	}
	v.viol = append(v.viol, core.Violation{Signature: "C20/" + sig, What: what})
}

var codecID = map[string]string{"vp8": "V_VP8", "vp9": "V_VP9", "h264": "V_MPEG4/ISO/AVC"}

// histClass names the perturbations a history contains (used for the
// signature of violations that no known root-cause class explains).
func histClass(st *stream, h *History) string {
	var reorder, dup, cached, lost, sr bool
	seen := map[int]bool{}
	last := -1
	for _, s := range h.Steps {
		switch s.K {
		case "w":
			if seen[s.P] {
				dup = true
			} else if s.P < last {
				reorder = true
			}
			seen[s.P] = true
			if s.P > last {
				last = s.P
			}
		case "c":
			cached = true
			if s.P < last {
				reorder = true
			}
			if s.P > last {
				last = s.P
			}
		case "x":
			lost = true
		case "sr":
			sr = true
		}
	}
	var l []string
	if reorder {
		l = append(l, "reordered")
	}
	if dup {
		l = append(l, "duplicate")
	}
	if cached {
		l = append(l, "cache-gap")
	}
	if lost {
		l = append(l, "lost")
	}
	if sr {
		l = append(l, "sender-report")
	}
	s := "in-order"
	if len(l) > 0 {
		s = strings.Join(l, "+")
	}
	if st.cfg.PreN > 0 || st.cfg.PreA > 0 {
		s = "after-preroll+" + s
	}
	return s
}

// ---------------------------------------------------------------------------
// the analysis context of one execution

type ctx struct {
	st    *stream
	h     *History
	o     *obs
	v     *verdict
	class string

	pushed               []bool // written, or handed out by GetPacket
	recovered            []bool // the first copy the recorder got came from the cache
	avail                []bool // written, or recoverable from the cache
	availStep            []int
	allWritten, allAvail bool

	order [2][]pushEv
	refs  [2][2]*refRun
	haveO [2]bool

	openedAtStop bool               // a file was created while the recorder was being stopped
	usedRef      [2][2]map[int]bool // reference samples already matched with a block
	present      [2]map[int]int     // frame -> block index (intact)
	corrupt      [2]map[int]bool    // frame -> a corrupted block is attributed to it
}

func (c *ctx) pushOrder(t int) []pushEv {
	if !c.haveO[t] {
		c.order[t] = pushOrder(c.st, c.h, c.o, t)
		c.haveO[t] = true
	}
	return c.order[t]
}

func (c *ctx) ref(t int, padded bool) *refRun {
	i := 0
	if padded {
		i = 1
	}
	if c.refs[t][i] == nil {
		c.refs[t][i] = reference(c.st, c.pushOrder(t), t, padded)
	}
	return c.refs[t][i]
}

func (c *ctx) codec(t int) string {
	if t == trA {
		return "opus"
	}
	return c.st.cfg.Codec
}

// frameOfSample attributes a reference sample to a frame of the track by the
// RTP timestamp the builder reports for it.
func (c *ctx) frameOfSample(t int, r *refRun, si int) int {
	ts := r.samples[si].ts
	for fi, f := range c.st.fr[t] {
		if f.TS == ts {
			return fi
		}
	}
	return -1
}

// depack depacketises the first n packets of a frame; packets that came from
// the cache are followed by the rest of the fetch buffer when padded.
func (c *ctx) depack(t, fi, n int, padded bool) ([]byte, bool) {
	f := c.st.fr[t][fi]
	d := depacketizer(c.codec(t))
	var out []byte
	for k := 0; k < n; k++ {
		pi := f.Pk[k]
		pay := c.st.pk[pi].Pay
		if padded && c.recovered[pi] {
			pay = append(append([]byte(nil), pay...), make([]byte, 1504-len(c.st.pk[pi].Raw))...)
		}
		x, err := d.Unmarshal(pay)
		if err != nil {
			return nil, false
		}
		out = append(out, x...)
	}
	return out, true
}

func (c *ctx) hasRecovered(t, fi int) bool {
	for _, pi := range c.st.fr[t][fi].Pk {
		if c.recovered[pi] {
			return true
		}
	}
	return false
}

// refSampleOf returns the reference sample that belongs to frame fi, or -1.
func (c *ctx) refSampleOf(t, fi int) int {
	r := c.ref(t, false)
	for si := range r.samples {
		if c.frameOfSample(t, r, si) == fi {
			return si
		}
	}
	return -1
}

// overtaken: when the builder released keyframe fi, the last keyframe packet
// that had reached the recorder belonged to another frame (a later keyframe,
// or a duplicate of an earlier one).
func (c *ctx) overtaken(fi int) bool {
	si := c.refSampleOf(trV, fi)
	if si < 0 {
		return false
	}
	r := c.ref(trV, false)
	at := r.samples[si].at
	last := -1
	for k, ev := range r.order {
		if k > at {
			break
		}
		if c.st.pk[ev.pkt].KF {
			last = c.st.pk[ev.pkt].Frame
		}
	}
	return last >= 0 && last != fi
}

// splitBefore names the event between the first keyframe k and frame fi
// (inclusive) that makes the recorder start a new file.
func (c *ctx) splitBefore(k, fi int) string {
	cfg := c.st.cfg
	fr := c.st.fr[trV]
	for k < len(fr) && !fr[k].Key {
		k++
	}
	if k >= len(fr) {
		return ""
	}
	pw, ph := fr[k].W, fr[k].H
	for x := k + 1; x <= fi && x < len(fr); x++ {
		if cfg.Jump > 0 && x == cfg.PreN+cfg.Jump {
			return "timestamp-excursion"
		}
		if fr[x].Key {
			if fr[x].W != pw || fr[x].H != ph {
				return "dimension-change"
			}
			pw, ph = fr[x].W, fr[x].H
		}
	}
	return ""
}

func seqLE(a, b uint16) bool { return (b-a)&0x8000 == 0 }

// droppedByBuilder names why the dependency never released a frame all of
// whose packets it was given.
func (c *ctx) droppedByBuilder(t, fi int) string {
	r := c.ref(t, false)
	f := c.st.fr[t][fi]
	firstSeq := c.st.pk[f.Pk[0]].Seq
	for k := range r.order {
		if r.dupNewest[k] && seqLE(firstSeq, r.newestSeq[k]) {
			return "duplicate-of-newest-buffered-packet"
		}
	}
	for k, ev := range r.order {
		if r.late[k] && c.st.pk[ev.pkt].Track == t && c.st.pk[ev.pkt].Frame == fi {
			return "packet-late-for-released-frame"
		}
	}
	return "other/" + c.class
}

func (c *ctx) allPushed(t, fi int) bool {
	for _, pi := range c.st.fr[t][fi].Pk {
		if !c.pushed[pi] {
			return false
		}
	}
	return true
}

// whyMissingVideo: the class of a video frame that had to be recorded and is
// not (k = first available keyframe).
func (c *ctx) whyMissingVideo(k, fi int) string {
	if !c.allPushed(trV, fi) {
		return "not-fetched-from-cache"
	}
	if c.refSampleOf(trV, fi) < 0 {
		return "dropped-by-samplebuilder/" + c.droppedByBuilder(trV, fi)
	}
	// the dependency releases it: the recorder dropped it.  Governing
	// keyframe: the last keyframe <= fi that the dependency released.
	g := -1
	for x := fi; x >= 0; x-- {
		if c.st.fr[trV][x].Key && c.refSampleOf(trV, x) >= 0 {
			g = x
			break
		}
	}
	if g >= 0 && c.overtaken(g) {
		return "keyframe-overtaken"
	}
	if s := c.splitBefore(k, fi); s != "" {
		return "after-file-split/" + s
	}
	if g >= 0 {
		r := c.ref(trV, false)
		sg := r.samples[c.refSampleOf(trV, g)]
		if sg.forced && c.openedAtStop {
			return "file-opened-during-stop"
		}
		// a sender report reached the recorder between the arrival of the
		// keyframe's first packet and its release by the builder
		lo, hi := 1<<30, len(c.h.Steps)
		for _, ev := range r.order {
			if c.st.pk[ev.pkt].Track == trV && c.st.pk[ev.pkt].Frame == g && c.st.pk[ev.pkt].KF && ev.step < lo {
				lo = ev.step
			}
		}
		if !sg.forced && sg.at < len(r.order) {
			hi = r.order[sg.at].step
		}
		for si, st := range c.h.Steps {
			if st.K == "sr" && si > lo && si <= hi {
				return "sender-report-before-keyframe-released"
			}
		}
	}
	// the keyframe it depends on was itself lost to the dependency
	for x := fi - 1; x >= k; x-- {
		if !c.st.fr[trV][x].Key {
			continue
		}
		if x == g {
			break
		}
		if c.allPushed(trV, x) && c.refSampleOf(trV, x) < 0 {
			return "after-keyframe-dropped-by-samplebuilder/" + c.droppedByBuilder(trV, x)
		}
	}
	return "dropped-by-recorder/" + c.class
}

// ---------------------------------------------------------------------------

// check is the oracle: it compares what is on disk with what was sent.
func check(st *stream, h *History, o *obs) *verdict {
	v := &verdict{}
	cfg := st.cfg
	c := &ctx{st: st, h: h, o: o, v: v, class: histClass(st, h)}
	class := c.class
	if o.panicV != nil {
		v.add("panic/"+class, fmt.Sprintf("panic in the recorder: %v\n%s", o.panicV, tailStr(o.panicSt, 1500)))
		v.outcome = "panic"
		return v
	}
	if o.pushErr != nil {
		v.add("push-error/"+class, fmt.Sprintf("PushConn/New failed: %v", o.pushErr))
		v.outcome = "pusherr"
		return v
	}

	// ------------------------------------------------------------------
	// what entered the recorder (observed at the seam) and what was
	// available to it
	np := len(st.pk)
	c.pushed = make([]bool, np)
	c.recovered = make([]bool, np)
	c.avail = make([]bool, np)
	c.availStep = make([]int, np)
	pushStep := make([]int, np)
	c.allWritten = true
	bySeq := [2]map[uint16]int{{}, {}}
	const inf = 1 << 30
	ws := func(i int) int { // step of the first write; -1 macro; inf never
		p := st.pk[i]
		if p.Macro {
			if p.PreLost {
				return inf
			}
			return -1
		}
		if o.wstep[i] < 0 {
			return inf
		}
		return o.wstep[i]
	}
	for i, p := range st.pk {
		bySeq[p.Track][p.Seq] = i
		pushStep[i], c.availStep[i] = inf, inf
		if w := ws(i); w < inf {
			c.pushed[i], c.avail[i] = true, true
			pushStep[i], c.availStep[i] = w, w
		} else if !(p.Macro && p.PreLost) {
			c.allWritten = false
		}
	}
	maxDelay := o.maxDelay
	for t := 0; t < 2; t++ {
		if o.tracks[t] == nil {
			continue
		}
		for _, g := range o.tracks[t].gets {
			i, ok := bySeq[t][g.seq]
			if !ok || g.n == 0 {
				continue
			}
			// a successful fetch not later than the packet's own first
			// Write: the first copy the recorder has is the cache's
			if !c.pushed[i] || g.step <= pushStep[i] {
				c.recovered[i] = true
				c.pushed[i] = true
				if g.step < pushStep[i] {
					pushStep[i] = g.step
				}
				if d := g.at - st.pk[i].Cap; d > maxDelay {
					maxDelay = d
				}
			}
		}
	}
	// recoverable: the packet is in the cache at the moment the gap is
	// noticed, i.e. when the first packet after it is written to the
	// recorder, a packet before it having been written earlier.
	for i, p := range st.pk {
		if c.avail[i] || o.cstep[i] < 0 {
			continue
		}
		lo, hi := inf, inf
		for j, q := range st.pk {
			if q.Track != p.Track || j == i {
				continue
			}
			w := ws(j)
			if w == inf {
				continue
			}
			d := int16(q.Seq - p.Seq)
			if d < 0 && w < lo {
				lo = w
			}
			if d > 0 && w < hi {
				hi = w
			}
		}
		if hi < inf && lo < hi && o.cstep[i] < hi {
			c.avail[i] = true
			c.availStep[i] = hi
		}
	}
	c.allAvail = true
	for i, p := range st.pk {
		if !c.avail[i] && !(p.Macro && p.PreLost) {
			c.allAvail = false
		}
	}

	// ------------------------------------------------------------------
	// parse the files
	var blocks []block
	type finfo struct {
		w, h   int
		nblock int
	}
	var finfos []finfo
	wantExt, wantDoc := ".webm", "webm"
	if cfg.Codec == "h264" {
		wantExt, wantDoc = ".mkv", "matroska"
	}
	stopStamp := vtime.Base.Add(o.endAt).Format("2006-01-02T15:04:05.000")
	for _, f := range o.files {
		if ts, _ := parseRecName(f.name); ts == stopStamp {
			c.openedAtStop = true
		}
	}
	for fi, f := range o.files {
		fcl := h.End
		if ts, _ := parseRecName(f.name); ts == stopStamp {
			fcl = "opened-during-stop"
		}
		if !f.closed {
			v.add("file-not-closed/"+fcl, fmt.Sprintf("%s: no close of the file was observed by the time %s returned", f.name, h.End))
		} else if f.writesAfter > 0 {
			v.add("write-after-close/"+h.End, fmt.Sprintf("%s: %d writes after the close", f.name, f.writesAfter))
		}
		if !strings.HasSuffix(f.name, wantExt) {
			v.add("container/extension", fmt.Sprintf("%s: expected extension %s", f.name, wantExt))
		}
		var doc container
		err := ebml.Unmarshal(bytes.NewReader(f.data), &doc)
		if err != nil && !errors.Is(err, io.EOF) {
			v.add("container/malformed-ebml", fmt.Sprintf("%s (%d bytes) does not parse: %v", f.name, len(f.data), err))
			finfos = append(finfos, finfo{})
			continue
		}
		hd := doc.Header
		if hd.DocType != wantDoc || hd.EBMLVersion != 1 || hd.EBMLReadVersion != 1 {
			v.add("container/header", fmt.Sprintf("%s: EBML header %+v, expected DocType %s", f.name, hd, wantDoc))
		}
		if doc.Segment.Info.TimecodeScale != 1000000 {
			v.add("container/timecode-scale", fmt.Sprintf("%s: TimecodeScale %d, block times are written in ms", f.name, doc.Segment.Info.TimecodeScale))
		}
		// declared tracks: audio first (if any), then video
		var want []string
		if cfg.hasAudio() {
			want = append(want, "A_OPUS")
		}
		if cfg.hasVideo() {
			want = append(want, codecID[cfg.Codec])
		}
		te := doc.Segment.Tracks.TrackEntry
		trackOf := map[uint64]int{}
		info := finfo{}
		ok := len(te) == len(want)
		for i := 0; ok && i < len(te); i++ {
			e := te[i]
			if e.CodecID != want[i] || e.TrackNumber != uint64(i+1) {
				ok = false
				break
			}
			if want[i] == "A_OPUS" {
				trackOf[e.TrackNumber] = trA
				if e.TrackType != 2 || e.Audio == nil || e.Audio.SamplingFrequency != aRate || e.Audio.Channels != 2 || e.Video != nil {
					ok = false
				}
			} else {
				trackOf[e.TrackNumber] = trV
				if e.TrackType != 1 || e.Video == nil || e.Audio != nil {
					ok = false
				} else {
					info.w, info.h = int(e.Video.PixelWidth), int(e.Video.PixelHeight)
				}
			}
		}
		if !ok {
			v.add("container/tracks", fmt.Sprintf("%s declares tracks %+v, expected %v (audio 48000 Hz 2 channels, video with pixel dimensions)", f.name, describeTracks(te), want))
		}
		if len(doc.Segment.Cluster) == 0 {
			v.add("container/not-finalised/"+fcl, f.name+": no cluster at all (the writer appends a final cluster when it is closed)")
		}
		for _, cl := range doc.Segment.Cluster {
			if len(cl.BlockGroup) > 0 {
				v.add("container/blockgroup", f.name+": unexpected BlockGroup")
			}
			for _, b := range cl.SimpleBlock {
				tr, known := trackOf[b.TrackNumber]
				if !known {
					v.add("container/block-of-undeclared-track", fmt.Sprintf("%s: block of track %d", f.name, b.TrackNumber))
					continue
				}
				if len(b.Data) != 1 {
					v.add("container/laced-block", fmt.Sprintf("%s: block with %d frames", f.name, len(b.Data)))
					continue
				}
				blocks = append(blocks, block{file: fi, track: tr, time: int64(cl.Timecode) + int64(b.Timecode),
					key: b.Keyframe, data: b.Data[0], frame: -1, owner: -1})
				info.nblock++
			}
		}
		finfos = append(finfos, info)
	}

	// ------------------------------------------------------------------
	// every block is exactly one sent frame; no repeats; order; timestamps
	c.present = [2]map[int]int{{}, {}}
	c.corrupt = [2]map[int]bool{{}, {}}
	for t := 0; t < 2; t++ {
		byData := map[string]int{}
		for i, f := range st.fr[t] {
			byData[string(f.Data)] = i
		}
		lastFrame, lastTime, lastFile := -1, int64(0), -1
		for bi := range blocks {
			b := &blocks[bi]
			if b.track != t {
				continue
			}
			fi, ok := byData[string(b.data)]
			if !ok {
				c.explainBlock(t, b)
				if b.owner >= 0 {
					c.corrupt[t][b.owner] = true
				}
			} else {
				b.frame = fi
				f := st.fr[t][fi]
				if prev, dup := c.present[t][fi]; dup {
					v.add("frame-written-twice/"+class, fmt.Sprintf("%s is written twice (blocks %d and %d of the recording)", st.fname(t, fi), prev, bi))
				} else {
					c.present[t][fi] = bi
					if fi < lastFrame {
						v.add("frame-out-of-order/"+class, fmt.Sprintf("%s is written after %s", st.fname(t, fi), st.fname(t, lastFrame)))
					}
					lastFrame = fi
				}
				if t == trV && b.key != f.Key {
					if f.Key {
						cl := "other/" + class
						if c.overtaken(fi) {
							cl = "keyframe-overtaken"
						} else if s := c.splitBefore(0, fi); s != "" {
							cl = "after-file-split/" + s
						}
						v.add("keyframe-flag/"+cl, fmt.Sprintf("%s is written without the keyframe flag", st.fname(t, fi)))
					} else {
						v.add("keyframe-flag/delta-flagged-key/"+class, fmt.Sprintf("%s is written with the keyframe flag", st.fname(t, fi)))
					}
				}
				if t == trA && !b.key {
					v.add("keyframe-flag/audio", fmt.Sprintf("%s written without the keyframe flag", st.fname(t, fi)))
				}
			}
			if b.file == lastFile && b.time < lastTime {
				tcl := class
				for _, s := range h.Steps {
					if s.K == "sr" {
						tcl = "after-sender-report"
					}
				}
				v.add("timestamp-decreases/"+tcl, fmt.Sprintf("track %s: block time %d ms follows %d ms in %s", tname(t), b.time, lastTime, o.files[b.file].name))
			}
			lastTime, lastFile = b.time, b.file
		}
	}

	// ------------------------------------------------------------------
	// the first available keyframe
	frameAvail := func(t, fi int) (bool, int, bool) {
		all, step, viaCache := true, -1, false
		for _, pi := range st.fr[t][fi].Pk {
			if !c.avail[pi] {
				all = false
				continue
			}
			if c.availStep[pi] > step {
				step = c.availStep[pi]
			}
			if ws(pi) == inf {
				viaCache = true
			}
		}
		return all, step, viaCache
	}
	k := -1
	kReady := -1
	lossBeforeK := false
	if cfg.hasVideo() {
		// the connection's first keyframe: among the keyframes all of whose
		// packets were available, the one whose first packet reached the
		// recorder first (sending order on ties)
		best := inf + 1
		for fi, f := range st.fr[trV] {
			all, _, _ := frameAvail(trV, fi)
			if f.Key && all {
				if s := c.availStep[f.Pk[0]]; s < best {
					k, best = fi, s
				}
			}
		}
	}

	// per file: the first video block is a keyframe and the declared
	// dimensions are those of the keyframes it contains
	if cfg.hasVideo() {
		for fi := range o.files {
			first := true
			for _, b := range blocks {
				if b.file != fi || b.track != trV {
					continue
				}
				if b.frame < 0 {
					first = false // a corrupted block, reported above
					continue
				}
				f := st.fr[trV][b.frame]
				if first && !f.Key {
					g := -1
					for x := b.frame; x >= 0; x-- {
						if st.fr[trV][x].Key {
							g = x
							break
						}
					}
					cl := "other/" + class
					if s := c.splitBefore(maxInt(k, 0), b.frame); k >= 0 && s != "" {
						cl = "after-file-split/" + s
					} else if g >= 0 && c.overtaken(g) {
						cl = "keyframe-overtaken"
					}
					v.add("file-starts-without-keyframe/"+cl, fmt.Sprintf("%s: the first video block is %s, not a keyframe", o.files[fi].name, st.fname(trV, b.frame)))
				}
				first = false
				if f.Key && fi < len(finfos) && (finfos[fi].w != f.W || finfos[fi].h != f.H) {
					cl := "other/" + class
					if c.overtaken(b.frame) {
						cl = "keyframe-overtaken"
					} else if s := c.splitBefore(0, b.frame); s != "" {
						cl = "after-file-split/" + s
					}
					v.add("container/video-dimensions/"+cl, fmt.Sprintf("%s declares %dx%d but contains keyframe %s of %dx%d",
						o.files[fi].name, finfos[fi].w, finfos[fi].h, st.fname(trV, b.frame), f.W, f.H))
				}
			}
		}
	}

	// ------------------------------------------------------------------
	// completeness / flush
	//
	// k: the first video keyframe (sending order) all of whose packets were
	// available.  Video frames from k on whose packets were all available
	// must be present.  Audio frames (when there is video) must be present
	// if they entered the recorder after every available video packet up to
	// and including k had entered it and nothing up to k was unavailable.
	avText := func(viaCache bool) string {
		if viaCache {
			return "were written to the recorder or were in the cache when the gap was noticed"
		}
		return "were written to the recorder"
	}
	if cfg.hasVideo() && k >= 0 {
		for fi := 0; fi <= k; fi++ {
			for _, pi := range st.fr[trV][fi].Pk {
				if !c.avail[pi] {
					// a pre-roll packet lost so long ago that the sample
					// builder has given up on its frame (the ring holds
					// 2*256 packets) and on the gap (256 packets) no
					// longer delays anything
					if p := st.pk[pi]; p.Macro && p.PreLost && st.macroAfter(pi) >= 3*256+2 {
						continue
					}
					lossBeforeK = true
				} else if c.availStep[pi] > kReady {
					kReady = c.availStep[pi]
				}
			}
		}
		for fi := k; fi < len(st.fr[trV]); fi++ {
			all, _, viaCache := frameAvail(trV, fi)
			if !all {
				continue
			}
			if _, ok := c.present[trV][fi]; ok || c.corrupt[trV][fi] {
				continue
			}
			why := c.whyMissingVideo(k, fi)
			v.add("frame-missing/"+why, fmt.Sprintf("%s is not in the recording although all its packets %s and it is not before the first keyframe (%s)",
				st.fname(trV, fi), avText(viaCache), st.fname(trV, k)))
		}
	}
	if cfg.hasAudio() {
		for fi := range st.fr[trA] {
			all, step, viaCache := frameAvail(trA, fi)
			if !all {
				continue
			}
			if cfg.hasVideo() {
				if k < 0 || lossBeforeK || step <= kReady {
					continue
				}
				// the file's time zero is the first keyframe; tracks are
				// aligned by arrival instants, so an audio frame captured
				// within the arrival jitter after the keyframe may map
				// before time zero and is then legitimately left out
				if st.fr[trA][fi].Cap-st.fr[trV][k].Cap <= maxDelay+3*time.Millisecond {
					continue
				}
			}
			if _, ok := c.present[trA][fi]; ok || c.corrupt[trA][fi] {
				continue
			}
			why := ""
			switch {
			case !c.allPushed(trA, fi):
				why = "not-fetched-from-cache"
			case c.refSampleOf(trA, fi) < 0:
				why = "dropped-by-samplebuilder/" + c.droppedByBuilder(trA, fi)
			case cfg.hasVideo():
				_, kPresent := c.present[trV][k]
				switch {
				case !kPresent && !c.corrupt[trV][k]:
					why = "first-keyframe-" + c.whyMissingVideo(k, k)
				case c.splitBefore(k, len(st.fr[trV])-1) != "":
					why = "after-file-split/" + c.splitBefore(k, len(st.fr[trV])-1)
				case c.overtaken(k):
					why = "keyframe-overtaken"
				default:
					why = "dropped-by-recorder/" + class
				}
			default:
				why = "dropped-by-recorder/" + class
			}
			v.add("frame-missing/audio/"+why, fmt.Sprintf("%s is not in the recording although it %s%s",
				st.fname(trA, fi), map[bool]string{true: "was in the cache when the gap was noticed", false: "was written to the recorder"}[viaCache],
				map[bool]string{true: " after the first video keyframe was complete", false: ""}[cfg.hasVideo()]))
		}
	}

	// ------------------------------------------------------------------
	// audio and video share one origin: within a file, (block time -
	// capture instant) is the same for audio and video blocks up to the
	// arrival jitter of the history plus ms truncation.
	if cfg.hasAudio() && cfg.hasVideo() {
		tol := int64(maxDelay/time.Millisecond) + 3
		// Once a sender report has been received for both tracks, the two
		// origins are tied to the publisher's clock and no longer to arrival
		// instants: in a first file that was created after both reports,
		// only the two millisecond truncations (and one RTP tick of
		// rounding) remain.
		exact := false
		if len(o.files) > 0 && o.files[0].openStep >= 0 {
			first := [2]int{-1, -1}
			for si, s := range h.Steps {
				if s.K == "sr" && first[s.P] < 0 {
					first[s.P] = si
				}
			}
			exact = first[trA] >= 0 && first[trV] >= 0 && first[trA] < o.files[0].openStep && first[trV] < o.files[0].openStep
		}
		if exact {
			for _, a := range blocks {
				if a.track != trA || a.frame < 0 || a.file != 0 {
					continue
				}
				for _, b := range blocks {
					if b.track != trV || b.frame < 0 || b.file != 0 {
						continue
					}
					fa, fv := st.fr[trA][a.frame], st.fr[trV][b.frame]
					want := int64((fa.Cap - fv.Cap) / time.Millisecond)
					got := a.time - b.time
					if d := got - want; d > 2 || d < -2 {
						v.add("av-offset/after-sender-reports-for-both-tracks", fmt.Sprintf("%s at %d ms and %s at %d ms differ by %d ms in the file, their capture instants by %d ms, although sender reports for both tracks (which tie both RTP clocks to the publisher's clock exactly) had been received before the file was created (tolerance 2 ms: truncation to ms of both block times)",
							st.fname(trA, a.frame), a.time, st.fname(trV, b.frame), b.time, got, want))
					}
				}
			}
		}
		for _, a := range blocks {
			if a.track != trA || a.frame < 0 {
				continue
			}
			for _, b := range blocks {
				if b.track != trV || b.frame < 0 || b.file != a.file {
					continue
				}
				fa, fv := st.fr[trA][a.frame], st.fr[trV][b.frame]
				want := int64((fa.Cap - fv.Cap) / time.Millisecond)
				got := a.time - b.time
				if d := got - want; d > tol || d < -tol {
					v.add("av-offset/"+class, fmt.Sprintf("%s at %d ms and %s at %d ms differ by %d ms in the file, their capture instants by %d ms (tolerance %d ms = largest arrival delay %v + 3 ms truncation)",
						st.fname(trA, a.frame), a.time, st.fname(trV, b.frame), b.time, got, want, tol, maxDelay))
				}
			}
		}
	}

	// ------------------------------------------------------------------
	// outcome (distinct-outcome counter)
	var ob strings.Builder
	fmt.Fprintf(&ob, "f%d", len(o.files))
	for t := 0; t < 2; t++ {
		if o.tracks[t] == nil {
			continue
		}
		fmt.Fprintf(&ob, "|%s:", tname(t))
		for _, b := range blocks {
			if b.track == t {
				if b.frame >= 0 && b.frame < cfg.PreN+cfg.PreA-1 {
					continue // pre-roll frames: not part of the outcome
				}
				fmt.Fprintf(&ob, "%d.%d@%d,", b.file, b.frame, b.time)
			}
		}
		fmt.Fprintf(&ob, "k%dg%d", o.tracks[t].kfReq, len(o.tracks[t].gets))
	}
	for _, x := range v.viol {
		ob.WriteString("!" + strings.TrimPrefix(x.Signature, "C20/"))
	}
	v.outcome = ob.String()
	v.blocks = blocks
	return v
}

func maxInt(a, b int) int {
	if a > b {
		return a
	}
	return b
}

func tname(t int) string {
	if t == trA {
		return "audio"
	}
	return "video"
}

func (st *stream) fname(t, fi int) string {
	f := st.fr[t][fi]
	rel := fi
	if t == trV {
		rel -= st.cfg.PreN
	} else {
		rel -= st.cfg.PreA
	}
	s := fmt.Sprintf("%s frame %d", tname(t), rel)
	if rel < 0 {
		s = fmt.Sprintf("%s pre-roll frame %d", tname(t), fi)
	}
	if f.Key && t == trV {
		s += " (keyframe)"
	}
	return s
}

func describeTracks(te []webm.TrackEntry) string {
	var l []string
	for _, e := range te {
		s := fmt.Sprintf("#%d %s type %d", e.TrackNumber, e.CodecID, e.TrackType)
		if e.Audio != nil {
			s += fmt.Sprintf(" audio %v Hz %d ch", e.Audio.SamplingFrequency, e.Audio.Channels)
		}
		if e.Video != nil {
			s += fmt.Sprintf(" video %dx%d", e.Video.PixelWidth, e.Video.PixelHeight)
		}
		l = append(l, s)
	}
	return strings.Join(l, "; ")
}

func tailStr(s string, n int) string {
	if len(s) > n {
		return s[len(s)-n:]
	}
	return s
}

// ---------------------------------------------------------------------------
// a block that is not a sent frame: name the failing class

func (c *ctx) explainBlock(t int, b *block) {
	st, v := c.st, c.v
	desc := fmt.Sprintf("block of %d bytes at %d ms (track %s) is not byte-identical to any frame that was sent", len(b.data), b.time, tname(t))
	const s8 = "frame-bytes-differ/cache-recovered-packet"
	s8what := func(fi int) string {
		n := 0
		for _, pi := range st.fr[t][fi].Pk {
			if c.recovered[pi] {
				n++
			}
		}
		return fmt.Sprintf("%s: it is %s (%d bytes) in which the content of each of the %d packet(s) recovered from the cache is followed by the zero bytes of the rest of the 1504-byte fetch buffer", desc, st.fname(t, fi), len(st.fr[t][fi].Data), n)
	}
	// (1) the whole frame, packets from the cache carrying the rest of the
	// fetch buffer
	for fi := range st.fr[t] {
		if !c.hasRecovered(t, fi) {
			continue
		}
		if alt, ok := c.depack(t, fi, len(st.fr[t][fi].Pk), true); ok && bytes.Equal(alt, b.data) {
			b.owner = fi
			v.add(s8, s8what(fi))
			return
		}
	}
	// (2) the dependency alone produces this sample from the packets the
	// recorder was given; (3) it does so from the packets as the recorder
	// parsed them (cache packets with the rest of the fetch buffer)
	anyCache := false
	for _, ev := range c.pushOrder(t) {
		if ev.fromCache {
			anyCache = true
		}
	}
	for _, padded := range []bool{false, true} {
		if padded && !anyCache {
			break
		}
		r := c.ref(t, padded)
		pi := 0
		if padded {
			pi = 1
		}
		if c.usedRef[t][pi] == nil {
			c.usedRef[t][pi] = map[int]bool{}
		}
		for si, s := range r.samples {
			if c.usedRef[t][pi][si] || !bytes.Equal(s.data, b.data) {
				continue
			}
			c.usedRef[t][pi][si] = true
			fi := c.frameOfSample(t, r, si)
			b.owner = fi
			if fi < 0 {
				break
			}
			f := st.fr[t][fi]
			if padded {
				v.add(s8, s8what(fi)+" (and the frame is damaged by the sample builder in addition)")
			}
			// truncated at a packet boundary?
			trunc := 0
			for n := 1; n < len(f.Pk); n++ {
				if alt, ok := c.depack(t, fi, n, padded); ok && bytes.Equal(alt, b.data) {
					trunc = n
				}
			}
			// were the frame's packets given to the builder in order?
			pos := map[int]int{}
			for k, ev := range r.order {
				if _, ok := pos[ev.pkt]; !ok {
					pos[ev.pkt] = k
				}
			}
			shape := "frame-packets-in-order"
			for k := 1; k < len(f.Pk); k++ {
				if pos[f.Pk[k]] < pos[f.Pk[k-1]] {
					shape = "frame-packets-reordered"
				}
			}
			if st.cfg.PreN > 0 || st.cfg.PreA > 0 {
				shape = "after-preroll/" + shape
			}
			where := ""
			if !s.forced {
				where = fmt.Sprintf(" (the frame starts at index %d of the builder's ring of %d)", s.tailIdx, s.ringLen)
			}
			dep := "; a fresh jech/samplebuilder fed the packet sequence observed at the seam (every Write and every cache fetch, in order) emits the same sample, so the damage happens inside the dependency"
			if trunc > 0 {
				v.add("frame-truncated/samplebuilder-ring-wrap/"+shape, fmt.Sprintf("%s: it is the first %d of the %d packets of %s, the rest is discarded%s%s",
					desc, trunc, len(f.Pk), st.fname(t, fi), where, dep))
			} else {
				v.add("frame-bytes-differ/samplebuilder/"+c.codec(t)+"-depacketiser-state-carried-over", fmt.Sprintf("%s: it belongs to %s (%d bytes)%s%s",
					desc, st.fname(t, fi), len(f.Data), where, dep))
			}
			return
		}
	}
	// (4) unexplained
	cand := -1
	for fi, f := range st.fr[t] {
		d := depacketizer(c.codec(t))
		head, err := d.Unmarshal(st.pk[f.Pk[0]].Pay)
		if err == nil && len(head) > 0 && bytes.HasPrefix(b.data, head) {
			cand = fi
			break
		}
	}
	if cand >= 0 {
		b.owner = cand
		desc += fmt.Sprintf("; it starts like %s (%d bytes, %d packets)", st.fname(t, cand), len(st.fr[t][cand].Data), len(st.fr[t][cand].Pk))
		if c.hasRecovered(t, cand) {
			v.add("frame-bytes-differ/cache-recovered-packet-other/"+c.class, desc+"; the frame contains a packet recovered from the cache but the block is not explained by trailing fetch-buffer bytes")
			return
		}
	}
	v.add("frame-bytes-differ/other/"+c.class, desc)
}

package main

import (
	"fmt"
	"github.com/jech/galene/rtpconn"
	"os"
	"path/filepath"
	"runtime/debug"
	"sort"
	"strings"
	"time"
	"verif/fwd"
	"verif/media"

	"github.com/pion/webrtc/v4"

	"github.com/jech/galene/conn"
	"github.com/jech/galene/diskwriter"
	"github.com/jech/galene/group"
	"github.com/jech/galene/packetcache"
	"github.com/jech/galene/rtptime"

	"verif/vos"
	"verif/vtime"
)

// ---------------------------------------------------------------------------
// histories

// Step is one event of a delivery history.
//
//	w  the packet is received by the server: stored in the publisher's cache
//	   (as readLoop does) and written to the recorder
//	c  the packet is received by the server (stored in the cache) but NOT
//	   written to the recorder (the writer dropped it)
//	x  the packet is lost before the server (neither cache nor recorder)
//	sr a sender report for track P (0 audio, 1 video) reaches the recorder
type Step struct {
	K string `json:"k"`
	P int    `json:"p"`
}

type History struct {
	Steps []Step `json:"steps"`
	End   string `json:"end"` // close | leave | replaced
}

// pubSkew is the offset of the publisher's NTP clock from the server's.
const pubSkew = 1234567 * time.Microsecond

// ---------------------------------------------------------------------------
// the harness side of the seam: conn.Up / conn.UpTrack

type upConn struct {
	id     string
	locals []conn.Down
	dels   int
}

func (u *upConn) AddLocal(d conn.Down) error { u.locals = append(u.locals, d); return nil }
func (u *upConn) DelLocal(d conn.Down) bool {
	u.dels++
	for i, l := range u.locals {
		if l == d {
			u.locals = append(u.locals[:i], u.locals[i+1:]...)
			return true
		}
	}
	return false
}
func (u *upConn) Id() string             { return u.id }
func (u *upConn) Label() string          { return "camera" }
func (u *upConn) User() (string, string) { return "uid", "u" }

type getRec struct {
	step int
	seq  uint16
	n    uint16
	at   time.Duration // virtual instant of the fetch
}

type upTrack struct {
	kind   webrtc.RTPCodecType
	codec  webrtc.RTPCodecCapability
	cache  *packetcache.Cache
	local  conn.DownTrack
	adds   int
	dels   int
	kfReq  int
	gets   []getRec
	curStp int
	curNow time.Duration
}

func (t *upTrack) AddLocal(d conn.DownTrack) error { t.local = d; t.adds++; return nil }
func (t *upTrack) DelLocal(d conn.DownTrack) bool {
	t.dels++
	return true
}
func (t *upTrack) Kind() webrtc.RTPCodecType        { return t.kind }
func (t *upTrack) Label() string                    { return "" }
func (t *upTrack) Codec() webrtc.RTPCodecCapability { return t.codec }
func (t *upTrack) GetPacket(seqno uint16, result []byte, nack bool) uint16 {
	n := t.cache.Get(seqno, result)
	t.gets = append(t.gets, getRec{t.curStp, seqno, n, t.curNow})
	return n
}
func (t *upTrack) RequestKeyframe() error { t.kfReq++; return nil }

func newUpTrack(track int, codec string) *upTrack {
	if track == trA {
		return &upTrack{kind: webrtc.RTPCodecTypeAudio,
			codec: webrtc.RTPCodecCapability{MimeType: "audio/opus", ClockRate: aRate, Channels: 2},
			cache: packetcache.New(24)}
	}
	mime := map[string]string{"vp8": "video/VP8", "vp9": "video/VP9", "h264": "video/H264"}[codec]
	return &upTrack{kind: webrtc.RTPCodecTypeVideo,
		codec: webrtc.RTPCodecCapability{MimeType: mime, ClockRate: vRate},
		cache: packetcache.New(128)}
}

// ---------------------------------------------------------------------------
// environment (one per process)

type env struct {
	root   string
	recDir string // <recordings>/<group>
	g      *group.Group
}

const groupName = "c20"

func newEnv() (*env, error) {
	// a memory file system when there is one: every history creates, reads
	// and deletes its recording files
	base := ""
	if fi, err := os.Stat("/dev/shm"); err == nil && fi.IsDir() {
		base = "/dev/shm"
	}
	root, err := os.MkdirTemp(base, "c20-")
	if err != nil && base != "" {
		root, err = os.MkdirTemp("", "c20-")
	}
	if err != nil {
		return nil, err
	}
	e := &env{root: root}
	groups := filepath.Join(root, "groups")
	rec := filepath.Join(root, "recordings")
	for _, d := range []string{groups, rec, filepath.Join(root, "data")} {
		if err := os.MkdirAll(d, 0700); err != nil {
			return nil, err
		}
	}
	if err := os.WriteFile(filepath.Join(groups, groupName+".json"), []byte(`{"users":{}}`), 0600); err != nil {
		return nil, err
	}
	group.Directory = groups
	group.DataDirectory = filepath.Join(root, "data")
	diskwriter.Directory = rec
	e.recDir = filepath.Join(rec, groupName)
	g, err := group.Add(groupName, nil)
	if err != nil {
		return nil, fmt.Errorf("group.Add: %v", err)
	}
	e.g = g
	return e, nil
}

func (e *env) close() { os.RemoveAll(e.root) }

// ---------------------------------------------------------------------------
// observation of one execution

type fileObs struct {
	name string
	data []byte
	// from the file-system log
	closed      bool
	writesAfter int // writes logged after the close
	// history step during which the file was created (-1: pre-roll macro,
	// len(steps): while stopping, -2: unknown)
	openStep int
}

type obs struct {
	files   []fileObs
	tracks  [2]*upTrack
	up      *upConn
	pushErr error
	panicV  any
	panicSt string
	// per packet
	wstep        []int           // step of the first Write, -1
	cstep        []int           // step at which it was stored in the cache, -1
	arrive       []time.Duration // arrival instant of the first Write
	maxDelay     time.Duration
	endAt        time.Duration
	ring         [2][3]int // head, tail, size after the pre-roll macro
	ringOK       bool
	ringEnd      [2][3]int
	openAfterEnd int
	// history step during which each logged file-system operation happened
	fsStep []int
}

func parseRecName(n string) (string, int) {
	// <timestamp>-u[-NN].<ext>
	base := strings.TrimSuffix(n, filepath.Ext(n))
	i := strings.Index(base, "-u")
	if i < 0 {
		return base, 0
	}
	ts, rest := base[:i], base[i+2:]
	c := 0
	if strings.HasPrefix(rest, "-") {
		fmt.Sscanf(rest[1:], "%d", &c)
	}
	return ts, c
}

// newViewer builds the viewer of Config.Viewer: a real down track at temporal
// layer 0 that has forwarded one packet and withheld the next, numbered just
// before the stream's first packet.
func newViewer(c *Config) *fwd.World {
	w := fwd.New(fwd.VP8, 0)
	w.Down.SetLayer(rtpconn.VerifLayer{Tid: 0, WantedTid: 0, MaxTid: 1})
	for i, tid := range []uint8{0, 1} {
		p := media.VP8{Hdr: media.Hdr{Seq: c.VSeq0 - 2 + uint16(i), TS: c.VTS0 - 6000 + uint32(i)*3000, Marker: true, PT: 96, SSRC: fwd.UpSSRC},
			X: true, I: true, M: true, PictureID: uint16(10 + i), T: true, TID: tid, S: true, Keyframe: i == 0, Body: []byte{1, 2, 3}}
		w.Down.Write(p.Bytes())
	}
	w.Rec.Take()
	return w
}

func (e *env) run(st *stream, h *History) (o *obs) {
	c := st.cfg
	var viewer *fwd.World
	if c.Viewer {
		viewer = newViewer(c)
		defer viewer.Close()
	}
	o = &obs{wstep: make([]int, len(st.pk)), cstep: make([]int, len(st.pk)), arrive: make([]time.Duration, len(st.pk))}
	for i := range o.wstep {
		o.wstep[i], o.cstep[i] = -1, -1
	}
	vtime.SetVirtual(true)
	rtptime.VerifSetEpoch(vtime.Base.Add(-time.Hour))
	curStep := -1
	vos.SetHook(func(vos.StepInfo) error { o.fsStep = append(o.fsStep, curStep); return nil })
	defer vos.SetHook(nil)

	var dw *diskwriter.Client
	defer func() {
		if r := recover(); r != nil {
			o.panicV = r
			o.panicSt = string(debug.Stack())
		}
		if dw != nil {
			func() {
				defer func() { recover() }()
				dw.Close()
			}()
		}
		e.collect(o)
	}()

	now := cap0 - 500*time.Millisecond
	vtime.Set(now)
	var err error
	dw, err = diskwriter.New(e.g)
	if err != nil {
		o.pushErr = err
		return
	}
	o.up = &upConn{id: "conn1"}
	var tracks []conn.UpTrack
	if c.hasVideo() {
		o.tracks[trV] = newUpTrack(trV, c.Codec)
		tracks = append(tracks, o.tracks[trV])
	}
	if c.hasAudio() {
		o.tracks[trA] = newUpTrack(trA, "")
		tracks = append(tracks, o.tracks[trA])
	}
	if err := dw.PushConn(e.g, o.up.id, o.up, tracks, ""); err != nil {
		o.pushErr = err
		return
	}
	for _, t := range o.tracks {
		if t != nil && t.local == nil {
			o.pushErr = fmt.Errorf("no disk track handed to AddLocal")
			return
		}
	}

	write := func(i, step int) {
		p := &st.pk[i]
		if p.Cap > now {
			now = p.Cap
		}
		vtime.Set(now)
		t := o.tracks[p.Track]
		t.curStp, t.curNow = step, now
		t.cache.Store(p.Seq, p.TS, p.KF, p.Marker, p.Raw)
		if o.cstep[i] < 0 {
			o.cstep[i] = step
		}
		if o.wstep[i] < 0 {
			o.wstep[i] = step
			o.arrive[i] = now
		}
		// every copy counts: a late duplicate can be the packet that
		// establishes a track's origin
		if d := now - p.Cap; d > o.maxDelay {
			o.maxDelay = d
		}
		buf := append([]byte(nil), p.Raw...) // the recorder must copy
		if viewer != nil && t.kind == webrtc.RTPCodecTypeVideo {
			viewer.Down.Write(buf)
			viewer.Rec.Take()
		}
		t.local.Write(buf)
		for j := range buf {
			buf[j] = 0xEE // the caller reuses its buffer
		}
	}

	// pre-roll macro
	for _, i := range st.pre {
		if st.pk[i].PreLost {
			continue
		}
		write(i, -1)
	}
	if len(st.pre) > 0 {
		for t := 0; t < 2; t++ {
			if o.tracks[t] != nil {
				hd, tl, sz, ok := diskwriter.VerifC20Ring(o.tracks[t].local)
				o.ring[t] = [3]int{hd, tl, sz}
				o.ringOK = ok
			}
		}
	}

	trace := func(si int) {
		if os.Getenv("C20_TRACE") == "" {
			return
		}
		for t := 0; t < 2; t++ {
			if o.tracks[t] != nil {
				or, ok, wr, loc, rem := diskwriter.VerifC20Origin(o.tracks[t].local)
				fmt.Printf("    after step %d: %s origin=%d valid=%v writer=%v originLocal=%d originRemote=%x\n", si, tname(t), int32(or), ok, wr, loc, rem)
			}
		}
	}
	trace(-1)
	for si, s := range h.Steps {
		curStep = si
		if si > 0 {
			trace(si - 1)
		}
		switch s.K {
		case "w":
			write(s.P, si)
		case "c":
			p := &st.pk[s.P]
			if p.Cap > now {
				now = p.Cap
			}
			vtime.Set(now)
			o.tracks[p.Track].cache.Store(p.Seq, p.TS, p.KF, p.Marker, p.Raw)
			if o.cstep[s.P] < 0 {
				o.cstep[s.P] = si
			}
		case "x":
			p := &st.pk[s.P]
			if p.Cap > now {
				now = p.Cap
			}
			vtime.Set(now)
		case "sr":
			t := o.tracks[s.P]
			if t == nil {
				continue
			}
			t.curStp = si
			ntp := rtptime.TimeToNTP(vtime.Base.Add(now).Add(pubSkew))
			t.local.SetTimeOffset(ntp, st.rtpAt(s.P, now))
		}
	}
	for t := 0; t < 2; t++ {
		if o.tracks[t] != nil {
			hd, tl, sz, _ := diskwriter.VerifC20Ring(o.tracks[t].local)
			o.ringEnd[t] = [3]int{hd, tl, sz}
		}
	}
	now += 40 * time.Millisecond
	vtime.Set(now)
	o.endAt = now
	curStep = len(h.Steps)
	for _, t := range o.tracks {
		if t != nil {
			t.curStp = len(h.Steps)
		}
	}
	switch h.End {
	case "leave":
		if err := dw.PushConn(e.g, o.up.id, nil, nil, ""); err != nil {
			o.pushErr = err
		}
	case "replaced":
		// the publisher replaced the stream and closed the replacement before
		// it was ever announced: the only notification is the deletion of the
		// replacement, which names the recorded stream in its replace field
		if err := dw.PushConn(e.g, "replacement-of-"+o.up.id, nil, nil, o.up.id); err != nil {
			o.pushErr = err
		}
	default:
		dw.Close()
	}
	// what is on disk NOW is what the property is about
	e.snapshot(o)
	return o
}

// rtpAt is the publisher's RTP clock of a track at a virtual instant.
func (st *stream) rtpAt(track int, now time.Duration) uint32 {
	fr := st.fr[track]
	if len(fr) == 0 {
		return 0
	}
	f := fr[0]
	for _, x := range fr {
		if x.Cap <= now {
			f = x
		}
	}
	rate := int64(vRate)
	if track == trA {
		rate = aRate
	}
	d := int64(now - f.Cap)
	return f.TS + uint32(d*rate/int64(time.Second))
}

// snapshot reads the recording directory and the file-system log right after
// the stop / departure returned.
func (e *env) snapshot(o *obs) {
	ents, _ := os.ReadDir(e.recDir)
	type nf struct {
		name string
		ts   string
		c    int
	}
	var l []nf
	for _, en := range ents {
		ts, c := parseRecName(en.Name())
		l = append(l, nf{en.Name(), ts, c})
	}
	sort.Slice(l, func(i, j int) bool {
		if l[i].ts != l[j].ts {
			return l[i].ts < l[j].ts
		}
		return l[i].c < l[j].c
	})
	log := vos.Log()
	for _, f := range l {
		data, _ := os.ReadFile(filepath.Join(e.recDir, f.name))
		fo := fileObs{name: f.name, data: data, openStep: -2}
		suffix := "//" + f.name
		for _, s := range log {
			if !strings.HasSuffix(s.Path, suffix) {
				continue
			}
			if fo.openStep == -2 && strings.Contains(s.Op, "openfile") && s.N-1 < len(o.fsStep) {
				fo.openStep = o.fsStep[s.N-1]
			}
			switch s.Op {
			case "close":
				fo.closed = true
				fo.writesAfter = 0
			case "write":
				if fo.closed {
					fo.writesAfter++
				}
			}
		}
		o.files = append(o.files, fo)
	}
}

// collect removes the recording files (after the final clean-up Close).
func (e *env) collect(o *obs) {
	ents, _ := os.ReadDir(e.recDir)
	for _, en := range ents {
		os.Remove(filepath.Join(e.recDir, en.Name()))
	}
}

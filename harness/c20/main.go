// C20 — recordings contain exactly the frames that were sent, in order, intact.
//
// Bounded exhaustive enumeration of delivery histories on the REAL recorder
// (diskwriter.Client driven through its public API: New, PushConn with harness
// conn.Up/conn.UpTrack, the disk track handed to AddLocal driven by
// Write/SetTimeOffset, Close / publisher departure), with a real
// packetcache.Cache behind GetPacket, on the virtual clock.  After every
// history the files are parsed back with ebml-go's reader and compared with
// the frames the harness sent (depacketised independently with pion's
// depacketisers).
//
// Histories, for each stream configuration (codec, frame/packet shapes,
// payload sizes, timestamp/seqno starts incl. wrap, keyframe positions and
// dimensions, audio/video, pre-roll macro that moves the sample builder's
// ring to its end):
//
//	perm  every permutation with displacement <= 2 (3 thorough)
//	dup   every single duplication (original at slot i, copy before slot j)
//	gap   every choice of one or two packets not written to the recorder,
//	      each either stored in the cache (recoverable) or lost
//	sr    a sender report at every position (every pair of positions for
//	      audio+video)
//
// each ending by Close or by the departure of the publisher; thorough adds
// products of the families over reordered bases.
package main

import (
	"encoding/json"
	"fmt"
	"io"
	"log"
	"os"
	"runtime"
	"runtime/debug"
	"runtime/pprof"
	"sort"
	"strings"
	"time"

	"verif/core"
)

// ---------------------------------------------------------------------------
// configurations

const (
	tsWrapV = uint32(1<<32 - 2*vTick - 5)
	tsWrapA = uint32(1<<32 - 2*aTick - 3)
)

func k(dim int, sz ...int) VF { return VF{Sz: sz, Key: true, Dim: dim} }
func d(sz ...int) VF          { return VF{Sz: sz} }

// witnessConfigs: the smallest streams, enumerated completely in the
// coordinator, so that the reported witness of every finding that shows on
// them is the shortest one.
func witnessConfigs() []*Config {
	return []*Config{
		{Name: "w-vp8-1x2", Codec: "vp8", V: []VF{k(0, 1, 1)}},
		{Name: "w-vp8-2x1", Codec: "vp8", V: []VF{k(0, 1), d(1)}},
		{Name: "w-opus-2", A: []int{1, 1}},
		{Name: "w-opus-3", A: []int{1, 1, 1}},
		{Name: "w-vp8-3x1", Codec: "vp8", V: []VF{k(0, 1), d(1), d(1)}},
		{Name: "w-vp8-1+2", Codec: "vp8", V: []VF{k(0, 1), d(1, 1)}},
		{Name: "w-vp8-2+1", Codec: "vp8", V: []VF{k(0, 1, 1), d(1)}},
		{Name: "w-vp8-2+2", Codec: "vp8", V: []VF{k(0, 1, 1), d(1, 1)}},
		{Name: "w-vp8-kk", Codec: "vp8", V: []VF{k(0, 1), k(0, 1), d(1)}},
		{Name: "w-vp8-dim", Codec: "vp8", V: []VF{k(0, 1), k(1, 1), d(1)}},
		{Name: "w-vp8-dim4", Codec: "vp8", V: []VF{k(0, 1), d(1), k(1, 1), d(1)}},
		{Name: "w-vp8+opus", Codec: "vp8", V: []VF{k(0, 1), d(1)}, A: []int{1, 1}, AOff: 5},
		{Name: "w-vp8+opus-2key", Codec: "vp8", V: []VF{k(0, 1, 1), k(0, 1)}, A: []int{1, 1}, AOff: 5},
		{Name: "w-vp8-jump", Codec: "vp8", V: []VF{k(0, 1), d(1), d(1)}, Jump: 1},
		{Name: "w-vp8-pre512", Codec: "vp8", PreN: 257, V: []VF{d(1)}},
		{Name: "w-vp8-2+2-behind-viewer", Codec: "vp8", V: []VF{k(0, 1, 1), d(1, 1)}, Viewer: true},
	}
}

func configs() []*Config {
	q := []*Config{
		{Name: "vp8-a", Codec: "vp8", V: []VF{k(0, 1200, 1), d(2), d(1, 1200, 2), d(1)}},
		{Name: "vp8-wrap", Codec: "vp8", V: []VF{k(0, 2, 1), d(1, 2), d(1200), d(1, 1)}, VTS0: tsWrapV, VSeq0: 65530},
		{Name: "vp8-2key", Codec: "vp8", V: []VF{k(0, 1), d(2), d(1200), k(0, 1), d(2), d(1)}},
		{Name: "opus", A: []int{1, 2, 1200, 1, 2, 1}, ATS0: tsWrapA, ASeq0: 65533},
		{Name: "vp8+opus", Codec: "vp8", V: []VF{k(0, 2, 1), d(1), d(1, 1)}, A: []int{1, 2, 1200, 1}, AOff: 5, ATS0: tsWrapA, VSeq0: 65533},
		{Name: "vp8+opus-early-audio", Codec: "vp8", V: []VF{k(0, 1, 1), d(1), d(1)}, A: []int{1, 1, 1, 1}, AOff: -25, VTS0: tsWrapV},
		{Name: "vp8+opus-2key", Codec: "vp8", V: []VF{k(0, 1, 1), d(1), k(0, 1), d(1)}, A: []int{1, 1, 1, 1}, AOff: 7, VTS0: tsWrapV, ATS0: tsWrapA},
		{Name: "vp8-dims", Codec: "vp8", V: []VF{k(0, 1), d(1), k(1, 1), d(1), k(1, 1), d(1)}},
		{Name: "vp8-latekey", Codec: "vp8", V: []VF{d(1), d(1, 1), k(0, 1, 1), d(1)}},
		{Name: "vp8-pre510", Codec: "vp8", PreN: 256, V: []VF{d(1, 1), d(1, 1, 1), d(1)}},
		{Name: "vp8-pre511", Codec: "vp8", PreN: 256, PreF0: 3, V: []VF{d(1, 1, 1), d(1, 1), d(1)}},
		{Name: "vp8-pre512", Codec: "vp8", PreN: 257, V: []VF{d(1, 1), d(1, 1, 1), d(1)}},
		{Name: "opus-pre", PreA: 94, PreALoss: 31, A: []int{1, 1, 1, 1, 1, 1}},
		{Name: "vp8+opus-lostkey", Codec: "vp8", PreN: 400, PreKeyLost: true, V: []VF{k(0, 1), d(1), d(1)}, A: []int{1, 1, 1, 1, 1}, AOff: 5},
		{Name: "vp8-a-behind-viewer", Codec: "vp8", V: []VF{k(0, 1200, 1), d(2), d(1, 1200, 2), d(1)}, Viewer: true},
		{Name: "vp9", Codec: "vp9", V: []VF{k(0, 1, 2), d(1), d(1200, 1)}},
		{Name: "h264", Codec: "h264", V: []VF{k(0, 2, 2), d(2), d(2, 1200, 2)}},
	}
	q = append(q, sizeConfigs()...)
	if core.Quick() {
		return q
	}
	t := []*Config{
		{Name: "vp8-pre509", Codec: "vp8", PreN: 255, PreF0: 3, V: []VF{d(1, 1, 1), d(1, 1), d(1)}},
		{Name: "vp8-pre508", Codec: "vp8", PreN: 255, V: []VF{d(2, 1200), d(1, 1, 1), d(1)}, VSeq0: 65000, VTS0: tsWrapV},
		{Name: "vp8-6f", Codec: "vp8", V: []VF{k(0, 1, 2, 1200), d(1), d(2, 1), d(1200), k(0, 1, 1), d(2)}, VTS0: tsWrapV, VSeq0: 65530},
		{Name: "vp8-3x3", Codec: "vp8", V: []VF{k(0, 1, 1, 1), d(2, 2, 2), d(1200, 1, 2)}},
		{Name: "vp8-seq0", Codec: "vp8", V: []VF{k(0, 1), d(1, 1), d(1), d(1, 1)}, VSeq0: 65535},
		{Name: "vp9-6f", Codec: "vp9", V: []VF{k(0, 2, 1), d(1), d(1, 1200), k(0, 1), d(2), d(1, 1)}, VTS0: tsWrapV, VSeq0: 65530},
		{Name: "vp9-dims", Codec: "vp9", V: []VF{k(0, 1), d(1), k(1, 1), d(1), k(1, 1), d(1)}},
		{Name: "h264-6f", Codec: "h264", V: []VF{k(0, 2), d(2, 2), d(1200), k(0, 2, 1, 2), d(2), d(2)}, VTS0: tsWrapV, VSeq0: 65530},
		{Name: "vp9+opus", Codec: "vp9", V: []VF{k(0, 1, 1), d(1), d(2)}, A: []int{1, 1, 2, 1}, AOff: 5, VSeq0: 65534},
		{Name: "h264+opus", Codec: "h264", V: []VF{k(0, 2, 2), d(2), d(2)}, A: []int{1, 1, 2, 1}, AOff: 5},
		{Name: "vp8+opus-6f", Codec: "vp8", V: []VF{k(0, 1, 1), d(1), d(1), k(0, 1), d(1)}, A: []int{1, 1, 1, 1, 1, 1}, AOff: 7, ATS0: tsWrapA, VTS0: tsWrapV},
		{Name: "vp8-jump", Codec: "vp8", V: []VF{k(0, 1), d(1), d(1), k(0, 1), d(1)}, Jump: 2},
		{Name: "vp8+opus-dims", Codec: "vp8", V: []VF{k(0, 1), d(1), k(1, 1), d(1), k(1, 1)}, A: []int{1, 1, 1, 1, 1, 1, 1}, AOff: 5},
		{Name: "vp8+opus-pre510", Codec: "vp8", PreN: 256, V: []VF{d(1, 1), d(1)}, A: []int{1, 1, 1}, AOff: 5},
		{Name: "opus-pre2", PreA: 82, PreALoss: 19, A: []int{1, 1, 1, 1, 1, 1}, ASeq0: 65500},
	}
	return append(q, t...)
}

// ---------------------------------------------------------------------------
// enumeration

// perms calls f for every permutation p of 0..n-1 with |p[k]-k| <= d
// (p[k] = the packet delivered in slot k), identity first.
func perms(n, d int, f func(p []int) bool) bool {
	p := make([]int, n)
	used := make([]bool, n)
	var rec func(k int) bool
	rec = func(k int) bool {
		if k == n {
			return f(p)
		}
		// the packet k-d must go now if it is still unused
		lo, hi := k-d, k+d
		if lo < 0 {
			lo = 0
		}
		if hi > n-1 {
			hi = n - 1
		}
		if k-d >= 0 && !used[k-d] {
			hi = k - d
		}
		// natural order first
		cand := []int{}
		if k >= lo && k <= hi {
			cand = append(cand, k)
		}
		for x := lo; x <= hi; x++ {
			if x != k {
				cand = append(cand, x)
			}
		}
		for _, x := range cand {
			if used[x] {
				continue
			}
			used[x] = true
			p[k] = x
			if !rec(k + 1) {
				return false
			}
			used[x] = false
		}
		return true
	}
	return rec(0)
}

type plan struct {
	permD    int // perm family window
	dupBaseD int // window of the base orders of the dup family (0 = in order only)
	dupSpan  int // the copy is inserted at most this many slots after the original (0 = anywhere later)
	gapBaseD int
	gapMax   int // 1 or 2 packets
	srBaseD  int
	srPairs  bool
}

func planFor(st *stream, witness bool) plan {
	n := len(st.free)
	pre := st.cfg.PreN > 0 || st.cfg.PreA > 0
	switch {
	case witness:
		p := plan{permD: 3, dupBaseD: 1, gapBaseD: 1, gapMax: 2, srBaseD: 1, srPairs: true}
		if n <= 5 {
			p.srBaseD = 2
		}
		return p
	case strings.HasPrefix(st.cfg.Name, "sz-"):
		return plan{permD: 2, dupBaseD: 0, gapBaseD: 0, gapMax: 2, srBaseD: 0, srPairs: false}
	case core.Quick() && pre:
		return plan{permD: 2, gapMax: 2, srPairs: true}
	case core.Quick():
		p := plan{permD: 2, dupBaseD: 1, gapBaseD: 1, gapMax: 2, srBaseD: 1, srPairs: true}
		if st.cfg.hasAudio() && st.cfg.hasVideo() && n <= 8 {
			p.srBaseD = 2 // sender reports of two tracks interact with arrival jitter
		}
		return p
	case pre:
		return plan{permD: 3, dupBaseD: 2, gapBaseD: 2, gapMax: 2, srBaseD: 1, srPairs: true}
	case n <= 8:
		return plan{permD: 3, dupBaseD: 2, gapBaseD: 2, gapMax: 2, srBaseD: 2, srPairs: true}
	case n <= 10:
		return plan{permD: 3, dupBaseD: 2, dupSpan: 4, gapBaseD: 2, gapMax: 2, srBaseD: 1, srPairs: true}
	default:
		return plan{permD: 3, dupBaseD: 1, dupSpan: 4, gapBaseD: 1, gapMax: 2, srBaseD: 1, srPairs: true}
	}
}

// sizeConfigs: the full product of payload sizes {1,2,1200} over every packet
// of a two-frame stream, times timestamp and seqno starts.
func sizeConfigs() []*Config {
	var l []*Config
	sizes := []int{1, 2, 1200}
	codecs := []string{"vp8"}
	if !core.Quick() {
		codecs = []string{"vp8", "vp9", "h264"}
	}
	for _, codec := range codecs {
		for _, a := range sizes {
			for _, b := range sizes {
				for _, c := range sizes {
					for _, e := range sizes {
						for wi, w := range [][2]uint32{{0, 0}, {uint32(tsWrapV + vTick), 65534}} {
							sz := func(x int) int {
								if codec == "h264" && x == 1 {
									return 3 // a NAL unit packet of 1 byte is not a partition head for pion
								}
								return x
							}
							l = append(l, &Config{Name: fmt.Sprintf("sz-%s-%d-%d-%d-%d-%d", codec, a, b, c, e, wi), Codec: codec,
								V: []VF{k(0, sz(a), sz(b)), d(sz(c), sz(e))}, VTS0: w[0], VSeq0: uint16(w[1])})
						}
					}
				}
			}
		}
	}
	for _, a := range sizes {
		for _, b := range sizes {
			for _, c := range sizes {
				l = append(l, &Config{Name: fmt.Sprintf("sz-opus-%d-%d-%d", a, b, c), A: []int{a, b, c}, ATS0: uint32(tsWrapA + aTick), ASeq0: 65534})
			}
		}
	}
	return l
}

type emitFn func(fam string, h *History) bool

// enumerate generates every history of the plan for a stream.
func enumerate(st *stream, pl plan, emit emitFn) bool {
	n := len(st.free)
	ends := []string{"close", "leave", "replaced"}
	base := func(p []int) []Step {
		s := make([]Step, n)
		for k, x := range p {
			s[k] = Step{"w", st.free[x]}
		}
		return s
	}
	out := func(fam string, steps []Step) bool {
		for _, e := range ends {
			h := &History{Steps: append([]Step(nil), steps...), End: e}
			if !emit(fam, h) {
				return false
			}
		}
		return true
	}
	// ---- perm
	if !perms(n, pl.permD, func(p []int) bool { return out("perm", base(p)) }) {
		return false
	}
	// ---- dup
	if !perms(n, pl.dupBaseD, func(p []int) bool {
		b := base(p)
		for i := 0; i < n; i++ {
			for j := i + 1; j <= n; j++ {
				if pl.dupSpan > 0 && j-i > pl.dupSpan {
					break
				}
				s := make([]Step, 0, n+1)
				s = append(s, b[:j]...)
				s = append(s, b[i])
				s = append(s, b[j:]...)
				if !out("dup", s) {
					return false
				}
			}
		}
		return true
	}) {
		return false
	}
	// ---- gap
	if !perms(n, pl.gapBaseD, func(p []int) bool {
		b := base(p)
		for i := 0; i < n; i++ {
			for _, mi := range []string{"c", "x"} {
				s := append([]Step(nil), b...)
				s[i].K = mi
				if !out("gap", s) {
					return false
				}
				if pl.gapMax < 2 {
					continue
				}
				for j := i + 1; j < n; j++ {
					for _, mj := range []string{"c", "x"} {
						s2 := append([]Step(nil), s...)
						s2[j].K = mj
						if !out("gap", s2) {
							return false
						}
					}
				}
			}
		}
		return true
	}) {
		return false
	}
	// ---- sr
	var tracks []int
	if st.cfg.hasAudio() {
		tracks = append(tracks, trA)
	}
	if st.cfg.hasVideo() {
		tracks = append(tracks, trV)
	}
	ins := func(b []Step, at int, tr int) []Step {
		s := make([]Step, 0, len(b)+1)
		s = append(s, b[:at]...)
		s = append(s, Step{"sr", tr})
		s = append(s, b[at:]...)
		return s
	}
	if !perms(n, pl.srBaseD, func(p []int) bool {
		b := base(p)
		for _, tr := range tracks {
			for at := 0; at <= n; at++ {
				if !out("sr", ins(b, at, tr)) {
					return false
				}
			}
		}
		if pl.srPairs {
			// two sender reports: one per track (audio+video) or two of the
			// same track
			for _, t1 := range tracks {
				for _, t2 := range tracks {
					if len(tracks) == 2 && t1 == t2 {
						continue
					}
					for a1 := 0; a1 <= n; a1++ {
						for a2 := a1; a2 <= n; a2++ {
							s := ins(ins(b, a2, t2), a1, t1)
							if !out("sr", s) {
								return false
							}
						}
					}
				}
			}
		}
		return true
	}) {
		return false
	}
	return true
}

// ---------------------------------------------------------------------------

func (st *stream) hstring(h *History) string {
	var l []string
	for _, s := range h.Steps {
		switch s.K {
		case "w":
			l = append(l, st.pname(s.P))
		case "c":
			l = append(l, "("+st.pname(s.P)+" not written, in cache)")
		case "x":
			l = append(l, "("+st.pname(s.P)+" lost)")
		case "sr":
			l = append(l, "[SR "+tname(s.P)+"]")
		}
	}
	return strings.Join(l, " ") + " ; " + h.End
}

var profStop = func() {}

type replayArt struct {
	Config  *Config  `json:"config"`
	History *History `json:"history"`
}

type found struct {
	v    core.Violation
	size int
}

type runner struct {
	e       *env
	res     *core.Result
	subs    map[string]*core.Sub
	outs    map[string]*core.Outcomes
	best    map[string]found
	stopped bool
}

func newRunner(e *env, res *core.Result) *runner {
	return &runner{e: e, res: res, subs: map[string]*core.Sub{}, outs: map[string]*core.Outcomes{}, best: map[string]found{}}
}

func (r *runner) sub(name string) *core.Sub {
	s := r.subs[name]
	if s == nil {
		s = &core.Sub{Name: name, Exhaustive: true}
		r.subs[name] = s
		r.outs[name] = &core.Outcomes{}
	}
	return s
}

func (r *runner) one(subName string, st *stream, h *History) *verdict {
	o := r.e.run(st, h)
	v := check(st, h, o)
	s := r.sub(subName)
	s.Executions++
	s.Transitions += int64(len(h.Steps) + len(st.pre))
	r.outs[subName].Add(st.cfg.Name + "#" + v.outcome)
	if len(s.Samples) < 2 && (s.Executions == 3 || s.Executions == 40) {
		s.Samples = append(s.Samples, fmt.Sprintf("%s | %s => %s", st.describe(), st.hstring(h), tailStr(v.outcome, 160)))
	}
	if (st.cfg.PreN > 0 || st.cfg.PreA > 0) && o.ringOK && s.Note == "" {
		s.Note = fmt.Sprintf("ring after pre-roll (head,tail,len): %s audio=%v video=%v", st.cfg.Name, o.ring[trA], o.ring[trV])
	}
	for _, x := range v.viol {
		size := len(h.Steps)*1000 + len(st.pk)
		if b, ok := r.best[x.Signature]; ok && b.size <= size {
			continue
		}
		x.Sub = subName
		x.What = x.What + " | stream " + st.describe() + " | history: " + st.hstring(h)
		x.Replay = replayArt{st.cfg, h}
		r.best[x.Signature] = found{x, size}
	}
	return v
}

func (r *runner) flush() {
	var sigs []string
	for s := range r.best {
		sigs = append(sigs, s)
	}
	sort.Strings(sigs)
	for _, s := range sigs {
		r.res.Violate(r.best[s].v)
	}
	var names []string
	for n := range r.subs {
		names = append(names, n)
	}
	sort.Strings(names)
	for _, n := range names {
		s := r.subs[n]
		s.Outcomes = r.outs[n].N()
		r.res.AddSub(*s)
	}
}

func subName(c *Config, fam string) string {
	if c.PreN > 0 || c.PreA > 0 {
		return "preroll"
	}
	if strings.HasPrefix(c.Name, "sz-") {
		return "sizes"
	}
	return fam
}

func boundText(sub string) string {
	d := core.Pick(2, 3)
	base := core.Pick("in-order and displacement-1 bases", "bases of displacement <= 2 (1 for streams of more than 10 packets)")
	common := fmt.Sprintf("%d stream configurations (3-6 frames x 1-3 packets, payloads 1/2/1200, ts start 0 / 2^32-eps, seq start 0 / 6553x, VP8/VP9/H264/opus, audio+video, dimension change, ts jump > 2^31); Close and departure; ", len(configs()))
	switch sub {
	case "perm":
		return common + fmt.Sprintf("every permutation with displacement <= %d", d)
	case "dup":
		return common + "every single duplication (original in slot i, copy before slot j>i) over " + base
	case "gap":
		return common + "every choice of 1 or 2 packets not written to the recorder, each in the cache or lost, over " + base
	case "sr":
		return common + "a sender report at every position, every pair of positions (both orders of the two tracks), over " + base
	case "preroll":
		return "all four families after a pre-roll macro that leaves the video builder's ring at 508..512 of 513 (audio: head 63 / tail 62 of 65) with a non-empty buffer"
	case "sizes":
		return "full product of payload sizes {1,2,1200}^4 (opus ^3) x ts/seq start (0 / wrapping inside the stream) on a 2-frame stream; permutations (displacement <= 2), duplications, 1-2 gaps (cached/lost), sender reports"
	}
	return ""
}

func main() {
	t0 := time.Now()
	o := core.ParseFlags(40, 780)
	log.SetOutput(io.Discard)
	// the recorder's container writer hands every block through three
	// goroutines: on one P the hand-offs are direct (4x faster than with
	// cross-thread wake-ups); fresh 190 KB caches per history make the GC the
	// other cost.
	runtime.GOMAXPROCS(1)
	debug.SetGCPercent(800)
	if pf := os.Getenv("C20_PROF"); pf != "" && o.Shard >= 0 {
		f, _ := os.Create(pf)
		pprof.StartCPUProfile(f)
		defer pprof.StopCPUProfile()
		profStop = pprof.StopCPUProfile
	}
	res := &core.Result{Property: "C20", Tier: o.Tier,
		Technique: "bounded exhaustive enumeration of delivery histories on the real diskwriter (public API, real packetcache behind GetPacket, virtual clock); every history's files parsed back with ebml-go and compared with the frames sent"}
	if o.Replay != "" {
		replay(o.Replay)
		return
	}
	e, err := newEnv()
	if err != nil {
		res.Fault = err.Error()
		core.Finish(res, t0)
	}

	if o.Shard < 0 {
		// coordinator: the witness pass (smallest streams, complete, in
		// process) first, so that its shortest witnesses win the
		// de-duplication by signature; then the shards.
		if core.Want("witness") {
			r := newRunner(e, res)
			for _, c := range witnessConfigs() {
				st, err := buildStream(c)
				if err != nil {
					res.Fault = c.Name + ": " + err.Error()
					break
				}
				enumerate(st, planFor(st, true), func(fam string, h *History) bool {
					r.one("witness", st, h)
					return true
				})
			}
			if s := r.subs["witness"]; s != nil {
				s.Bound = "the smallest streams (1-6 packets, 1-3 frames, one or two tracks), all four families, permutations with displacement <= 3, in the coordinator process: shortest witnesses"
			}
			r.flush()
		}
		e.close()
		core.RunShards(res, core.NCPU(), nil, func(shard int, output string) *core.Violation {
			// a panic on one of the container writer's goroutines kills the
			// process (it would kill the server as well)
			if strings.Contains(output, "panic:") || strings.Contains(output, "fatal error:") {
				return &core.Violation{Signature: "C20/process-crash", Sub: "shard",
					What: "the process running the recorder died: " + tailStr(output, 2500)}
			}
			return nil
		})
		// measured: where the pre-roll macros leave the builders' rings
		if core.Want("preroll") {
			var notes []string
			e2, err := newEnv()
			if err == nil {
				for _, c := range configs() {
					if c.PreN == 0 && c.PreA == 0 {
						continue
					}
					st, err := buildStream(c)
					if err != nil {
						continue
					}
					var steps []Step
					for _, i := range st.free {
						steps = append(steps, Step{"w", i})
					}
					o := e2.run(st, &History{Steps: steps, End: "close"})
					t := trV
					if c.PreA > 0 {
						t = trA
					}
					notes = append(notes, fmt.Sprintf("%s head=%d tail=%d of %d", c.Name, o.ring[t][0], o.ring[t][1], o.ring[t][2]))
				}
				e2.close()
			}
			for i := range res.Subs {
				if res.Subs[i].Name == "preroll" {
					res.Subs[i].Note = "measured ring position of the sample builder after the pre-roll macro (buffer non-empty): " + strings.Join(notes, "; ")
				}
			}
		}
		res.Assume("a packet that was not written to the recorder is 'recoverable from the cache' when it is in the publisher's cache (stored as readLoop stores it) at the moment the gap is noticed, i.e. when the first packet after it is written to the recorder, a packet of the track before it having been written earlier; a leading or trailing unwritten packet is not noticeable and not demanded")
		res.Assume("arrival instants: the packet in slot k arrives at max(previous arrival, its capture instant), so no packet arrives before it was captured; the audio/video offset tolerance is the largest arrival delay of the history (every copy of a packet, and cache fetches at the instant of the fetch) + 3 ms (ms truncation of two block times and one tick of origin rounding)")
		res.Assume("the connection's first keyframe is, among the keyframes all of whose packets were available, the one whose first packet reached the recorder first; video frames sent before it are legitimately absent")
		res.Assume("audio frames that entered the recorder before the first video keyframe was completely delivered, or that were captured less than the tolerance after it, are legitimately absent (the file's time zero is the keyframe); when a packet at or before that keyframe never becomes available no audio frame is demanded")
		res.Assume("the cache holds exactly the packets the server received before: a reordered packet is not in the cache when the gap it leaves is noticed")
		res.Assume("H264 frames are single NAL unit packets or FU-A fragment groups (what pion's depacketiser and the sample builder delimit as one sample); access units made of several NAL unit packets are outside the alphabet")
		core.Finish(res, t0)
	}

	// shard
	r := newRunner(e, res)
	idx := 0
	if os.Getenv("C20_COUNT") != "" {
		// planning aid: count the histories per configuration and family
		tot := map[string]int{}
		for _, c := range configs() {
			st, err := buildStream(c)
			if err != nil {
				fmt.Println(c.Name, err)
				continue
			}
			cnt := map[string]int{}
			enumerate(st, planFor(st, false), func(fam string, h *History) bool { cnt[fam]++; tot[subName(c, fam)]++; return true })
			fmt.Printf("%-24s n=%-3d %v\n", c.Name, len(st.free), cnt)
		}
		fmt.Println("total", tot)
		os.Exit(0)
	}
	for _, c := range configs() {
		if f := os.Getenv("C20_CFG"); f != "" && !strings.Contains(c.Name, f) {
			continue
		}
		st, err := buildStream(c)
		if err != nil {
			res.Fault = c.Name + ": " + err.Error()
			break
		}
		pl := planFor(st, false)
		ok := enumerate(st, pl, func(fam string, h *History) bool {
			idx++
			sn := subName(c, fam)
			if idx%o.Shards != o.Shard || !core.Want(sn) {
				return true
			}
			if idx&0x3F == 0 && !core.TimeLeft() {
				return false
			}
			r.one(sn, st, h)
			return true
		})
		if !ok {
			for _, s := range r.subs {
				s.Exhaustive = false
			}
			// subs not started yet are incomplete too
			for _, n := range []string{"perm", "dup", "gap", "sr", "preroll", "sizes"} {
				r.sub(n).Exhaustive = false
			}
			break
		}
	}
	for _, s := range r.subs {
		s.Bound = boundText(s.Name)
	}
	r.flush()
	e.close()
	profStop()
	core.Finish(res, t0)
}

func replay(path string) {
	data, err := os.ReadFile(path)
	if err != nil {
		fmt.Println(err)
		os.Exit(2)
	}
	var a struct {
		Signature string    `json:"signature"`
		Replay    replayArt `json:"replay"`
	}
	if err := json.Unmarshal(data, &a); err != nil || a.Replay.Config == nil || a.Replay.History == nil {
		fmt.Println("not a C20 replay artefact", err)
		os.Exit(2)
	}
	e, err := newEnv()
	if err != nil {
		fmt.Println(err)
		os.Exit(3)
	}
	defer e.close()
	st, err := buildStream(a.Replay.Config)
	if err != nil {
		fmt.Println(err)
		os.Exit(3)
	}
	o := e.run(st, a.Replay.History)
	v := check(st, a.Replay.History, o)
	fmt.Printf("stream  %s\nhistory %s\noutcome %s\n", st.describe(), st.hstring(a.Replay.History), v.outcome)
	for _, f := range o.files {
		fmt.Printf("file %s %d bytes closed=%v\n", f.name, len(f.data), f.closed)
	}
	for _, b := range v.blocks {
		fr := "??"
		if b.frame >= 0 {
			pre := a.Replay.Config.PreN
			if b.track == trA {
				pre = a.Replay.Config.PreA
			}
			if b.frame < pre-2 {
				continue
			}
			fr = st.fname(b.track, b.frame)
		} else if b.owner >= 0 {
			fr = "?? (damaged " + st.fname(b.track, b.owner) + ")"
		}
		fmt.Printf("  block file=%d %s t=%dms key=%v len=%d -> %s\n", b.file, tname(b.track), b.time, b.key, len(b.data), fr)
	}
	for t := 0; t < 2; t++ {
		if o.tracks[t] != nil {
			var gl []string
			for _, g := range o.tracks[t].gets {
				if g.step >= 0 {
					gl = append(gl, fmt.Sprintf("step %d: seq %d -> %d bytes", g.step, g.seq, g.n))
				}
			}
			fmt.Printf("  track %s: keyframe requests %d, GetPacket %v, ring (head,tail,len) after pre-roll %v, at end %v\n", tname(t), o.tracks[t].kfReq, gl, o.ring[t], o.ringEnd[t])
		}
	}
	if len(v.viol) > 0 {
		for _, x := range v.viol {
			fmt.Printf("VIOLATION property=C20 replay=%s\n  signature: %s\n  what: %s\n", path, x.Signature, x.What)
		}
		e.close()
		os.Exit(1)
	}
	fmt.Println("replay: no violation")
}

package main

import (
	"encoding/json"
	"errors"
	"fmt"
	"os"
	"path/filepath"

	"github.com/jech/galene/group"

	"verif/core"
	"verif/vos"
	"verif/vrt"
	"verif/vtime"
)

// Concurrent sub-check for the clause "updating a group definition never
// removes or alters the stored passwords, users or keys it does not address":
// the admin API serves requests concurrently, so an update of the definition
// runs against updates of a user, a password or the keys of the same group.
// The real group-layer functions the API handlers call run as controlled
// threads (every lock and every file-system step is a scheduling point), under
// every schedule with at most MaxPreempt preemptions.  Oracle: every update
// that was acknowledged (returned nil) is in the file at the end; an update
// of the definition may be refused (tag mismatch), never applied over
// somebody else's acknowledged change.

const concGroup = `{"displayName":"before","users":{"alice":{"password":"pa","permissions":"op"},"bob":{"password":"pb","permissions":"present"}},"authKeys":[{"kty":"oct","alg":"HS256","k":"b2xkLWtleS1tYXRlcmlhbC0wMTIzNDU2Nzg5YWJjZGU","kid":"old"}]}`

type concOther struct {
	name string
	run  func() error
	// present reports whether the acknowledged effect is in the stored definition
	present func(d map[string]any) bool
}

func concOthers() []concOther {
	users := func(d map[string]any) map[string]any { u, _ := d["users"].(map[string]any); return u }
	pw := func(d map[string]any, user string) string {
		u, _ := users(d)[user].(map[string]any)
		switch p := u["password"].(type) {
		case string:
			return p
		case map[string]any:
			k, _ := p["key"].(string)
			return k
		}
		return ""
	}
	plain := func(s string) group.Password { return group.Password{Type: "plain", Key: &s} }
	return []concOther{
		{"create-user", func() error {
			p, _ := group.NewPermissions("present")
			return group.UpdateUser("g", "carol", false, "", &group.UserDescription{Permissions: p})
		}, func(d map[string]any) bool { _, ok := users(d)["carol"]; return ok }},
		{"set-password", func() error { return group.SetUserPassword("g", "bob", false, plain("new-pb")) },
			func(d map[string]any) bool { return pw(d, "bob") == "new-pb" }},
		{"delete-user", func() error {
			_, etag, err := group.GetSanitisedUser("g", "bob", false)
			if err != nil {
				return err
			}
			return group.DeleteUser("g", "bob", false, etag)
		}, func(d map[string]any) bool { _, ok := users(d)["bob"]; return !ok }},
		{"set-keys", func() error {
			return group.SetKeys("g", []map[string]any{{"kty": "oct", "alg": "HS256", "k": "bmV3LWtleS1tYXRlcmlhbC0wMTIzNDU2Nzg5YWJjZGU", "kid": "new"}})
		}, func(d map[string]any) bool {
			ks, _ := d["authKeys"].([]any)
			if len(ks) != 1 {
				return false
			}
			k, _ := ks[0].(map[string]any)
			return k["kid"] == "new"
		}},
	}
}

func concPrograms() []vrt.Program {
	var ps []vrt.Program
	for _, other := range concOthers() {
		other := other
		ps = append(ps, vrt.Program{
			Name:       "conc/update-definition-vs-" + other.name,
			MaxPreempt: core.Pick(2, 3),
			MaxSteps:   20000,
			Setup: func() ([]func(), []string, func() (string, *core.Violation)) {
				dir := concDir()
				vtime.SetVirtual(true)
				vos.SetHook(nil)
				vos.SetLogicalMtime(true)
				group.Directory = dir
				group.VerifReset()
				os.RemoveAll(dir)
				os.MkdirAll(dir, 0700)
				data := filepath.Join(filepath.Dir(dir), "data")
				os.MkdirAll(data, 0700)
				group.DataDirectory = data
				if err := os.WriteFile(filepath.Join(data, "config.json"), []byte(`{"writableGroups":true}`), 0600); err != nil {
					panic(err)
				}
				file := filepath.Join(dir, "g.json")
				if err := os.WriteFile(file, []byte(concGroup), 0600); err != nil {
					panic(err)
				}
				vos.Stamp(file)
				var errA, errB error
				ranA, ranB := false, false
				a := func() {
					d, etag, err := group.GetSanitisedDescription("g")
					if err != nil {
						errA = err
						return
					}
					d.DisplayName = "after"
					errA = group.UpdateDescription("g", etag, d)
					ranA = true
				}
				b := func() { errB = other.run(); ranB = true }
				final := func() (string, *core.Violation) {
					if !ranA || !ranB {
						return "", &core.Violation{Signature: "HARNESS-FAULT", What: fmt.Sprint("a thread did not finish: ", errA, errB)}
					}
					// an update that returned an error was not acknowledged and
					// promises nothing (a tag mismatch is the expected refusal;
					// whether other errors are justified is the sequential
					// sub-checks' business)
					_ = errors.Is
					data, err := os.ReadFile(file)
					if err != nil {
						return "", &core.Violation{Signature: "C17/conc/definition-file-missing", What: err.Error()}
					}
					var d map[string]any
					if err := json.Unmarshal(data, &d); err != nil {
						return "", &core.Violation{Signature: "C17/conc/definition-file-corrupt", What: err.Error()}
					}
					if errB == nil && !other.present(d) {
						return "", &core.Violation{Signature: "C17/conc/update-definition-reverts/" + other.name,
							What: fmt.Sprintf("%s was acknowledged, but after a concurrent update of the group definition (result: %v) the stored definition no longer has it: %s", other.name, errA, data)}
					}
					if errA == nil && d["displayName"] != "after" {
						return "", &core.Violation{Signature: "C17/conc/definition-update-lost/" + other.name,
							What: fmt.Sprintf("the update of the definition was acknowledged but is not in the file after a concurrent %s: %s", other.name, data)}
					}
					um, _ := d["users"].(map[string]any)
					if _, ok := um["alice"]; !ok {
						return "", &core.Violation{Signature: "C17/conc/unaddressed-user-lost",
							What: "user alice, whom neither update addresses, is no longer in the stored definition: " + string(data)}
					}
					return fmt.Sprint(errA == nil, errB == nil), nil
				}
				return []func(){a, b}, []string{"update-definition", other.name}, final
			},
			Classify: func(kind, info string) string { return "C17/conc/" + kind },
		})
	}
	return ps
}

var concDirName string

func concDir() string {
	if concDirName == "" {
		d, err := os.MkdirTemp("", "c17conc")
		if err != nil {
			panic(err)
		}
		concDirName = filepath.Join(d, "groups")
	}
	return concDirName
}

func runConcurrent(res *core.Result, shard, shards int) {
	defer func() {
		if concDirName != "" {
			os.RemoveAll(filepath.Dir(concDirName))
		}
		vos.SetLogicalMtime(false)
		vrt.SetMode(vrt.Passthrough)
	}()
	for _, p := range concPrograms() {
		if !core.Want(p.Name) {
			continue
		}
		res.AddSub(vrt.Explore(p, res, shard, shards))
	}
}

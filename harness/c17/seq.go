package main

import (
	"bytes"
	"encoding/json"
	"fmt"
	"os"
	"path/filepath"
	"sort"
	"strings"

	"golang.org/x/crypto/bcrypt"

	"verif/core"
	"verif/seqx"
)

// ---- reference model of one group definition

type urec struct {
	Pw   any `json:"pw"`   // canonical password record (map) or nil
	Perm any `json:"perm"` // permissions as written (string or array) or nil
}

type model struct {
	Exists bool            `json:"exists"`
	Other  map[string]any  `json:"other"` // every field but users, wildcard-user, authKeys
	Users  map[string]urec `json:"users"`
	Wild   *urec           `json:"wild"`
	Keys   any             `json:"keys"`
}

func (m *model) clone() *model {
	b, _ := json.Marshal(m)
	n := &model{}
	d := json.NewDecoder(bytes.NewReader(b))
	d.UseNumber()
	if err := d.Decode(n); err != nil {
		panic(err)
	}
	if n.Users == nil {
		n.Users = map[string]urec{}
	}
	if n.Other == nil {
		n.Other = map[string]any{}
	}
	return n
}

func isZero(v any) bool {
	switch x := v.(type) {
	case nil:
		return true
	case string:
		return x == ""
	case bool:
		return !x
	case json.Number:
		return x.String() == "0"
	case float64:
		return x == 0
	case int:
		return x == 0
	case []any:
		return len(x) == 0
	case map[string]any:
		return len(x) == 0
	}
	return false
}

func dropZero(m map[string]any) map[string]any {
	out := map[string]any{}
	for k, v := range m {
		if !isZero(v) {
			out[k] = v
		}
	}
	return out
}

// canonPw maps the two spellings of a password record to one.
func canonPw(v any) any {
	switch x := v.(type) {
	case nil:
		return nil
	case string:
		return map[string]any{"type": "plain", "key": x}
	case map[string]any:
		m := dropZero(x)
		if len(m) == 0 {
			return nil
		}
		return m
	}
	return v
}

func canonUser(v any) urec {
	m, _ := v.(map[string]any)
	return urec{Pw: canonPw(m["password"]), Perm: m["permissions"]}
}

func generic(b []byte) (any, error) {
	d := json.NewDecoder(bytes.NewReader(b))
	d.UseNumber()
	var v any
	err := d.Decode(&v)
	return v, err
}

// parseGroup reads a group file the way galene understands it: users,
// wildcard user and keys, the obsolete op/presenter/other lists folded into
// users, everything else verbatim.
func parseGroup(b []byte) (*model, error) {
	v, err := generic(b)
	if err != nil {
		return nil, err
	}
	top, ok := v.(map[string]any)
	if !ok {
		return nil, fmt.Errorf("group file is not a JSON object")
	}
	m := &model{Exists: true, Other: map[string]any{}, Users: map[string]urec{}}
	if us, ok := top["users"].(map[string]any); ok {
		for n, u := range us {
			m.Users[n] = canonUser(u)
		}
	}
	if w, ok := top["wildcard-user"]; ok && w != nil {
		u := canonUser(w)
		m.Wild = &u
	}
	for _, leg := range [][2]string{{"op", "op"}, {"presenter", "present"}, {"other", "message"}} {
		l, ok := top[leg[0]].([]any)
		if !ok {
			continue
		}
		for _, e := range l {
			em, _ := e.(map[string]any)
			name, _ := em["username"].(string)
			pw := canonPw(em["password"])
			if em["password"] == nil {
				pw = map[string]any{"type": "wildcard"}
			}
			u := urec{Pw: pw, Perm: leg[1]}
			if name == "" {
				if m.Wild == nil {
					m.Wild = &u
				}
			} else if _, dup := m.Users[name]; !dup {
				m.Users[name] = u
			}
		}
	}
	if k, ok := top["authKeys"]; ok && !isZero(k) {
		m.Keys = k
	}
	for k, v := range top {
		switch k {
		case "users", "wildcard-user", "authKeys", "op", "presenter", "other":
		default:
			if !isZero(v) {
				m.Other[k] = v
			}
		}
	}
	return m, nil
}

func jsonEq(a, b any) bool {
	x, _ := json.Marshal(a)
	y, _ := json.Marshal(b)
	return bytes.Equal(x, y)
}

// diff names the first component in which disk differs from want, and
// whether that component is the one the operation addressed.
// part says what of an addressed user the operation wrote: "perm"
// (PUT of a user definition: the password must be carried over), "pw"
// (password endpoints: the permissions must be carried over) or "all".
func diff(want, disk *model, addressed, part string) (string, string) {
	if want.Exists != disk.Exists {
		return "group-file", fmt.Sprintf("group file exists=%v, expected %v", disk.Exists, want.Exists)
	}
	if !want.Exists {
		return "", ""
	}
	if !jsonEq(want.Other, disk.Other) {
		a, _ := json.Marshal(want.Other)
		b, _ := json.Marshal(disk.Other)
		return "other-fields", fmt.Sprintf("expected %s, on disk %s", a, b)
	}
	names := map[string]bool{}
	for n := range want.Users {
		names[n] = true
	}
	for n := range disk.Users {
		names[n] = true
	}
	sorted := make([]string, 0, len(names))
	for n := range names {
		sorted = append(sorted, n)
	}
	sort.Strings(sorted)
	for _, n := range sorted {
		w, wok := want.Users[n]
		d, dok := disk.Users[n]
		comp := "users"
		if "user:"+n == addressed {
			comp = "addressed"
		}
		if wok != dok {
			return comp, fmt.Sprintf("user %q present on disk=%v, expected %v", n, dok, wok)
		}
		if !jsonEq(w.Pw, d.Pw) {
			a, _ := json.Marshal(w.Pw)
			b, _ := json.Marshal(d.Pw)
			return pick(comp == "addressed" && part != "perm", comp, "user-password"), fmt.Sprintf("password of user %q: expected %s, on disk %s", n, a, b)
		}
		if !jsonEq(w.Perm, d.Perm) {
			a, _ := json.Marshal(w.Perm)
			b, _ := json.Marshal(d.Perm)
			return pick(comp == "addressed" && part != "pw", comp, "user-permissions"), fmt.Sprintf("permissions of user %q: expected %s, on disk %s", n, a, b)
		}
	}
	if !jsonEq(want.Wild, disk.Wild) {
		a, _ := json.Marshal(want.Wild)
		b, _ := json.Marshal(disk.Wild)
		detail := fmt.Sprintf("wildcard user: expected %s, on disk %s", a, b)
		switch {
		case addressed != "wild":
			return "wildcard-user", detail
		case want.Wild != nil && disk.Wild != nil && part == "perm" && !jsonEq(want.Wild.Pw, disk.Wild.Pw):
			return "wildcard-password", detail
		case want.Wild != nil && disk.Wild != nil && part == "pw" && !jsonEq(want.Wild.Perm, disk.Wild.Perm):
			return "wildcard-permissions", detail
		}
		return "addressed", detail
	}
	if !jsonEq(want.Keys, disk.Keys) {
		a, _ := json.Marshal(want.Keys)
		b, _ := json.Marshal(disk.Keys)
		return pick(addressed == "keys", "addressed", "keys"), fmt.Sprintf("authKeys: expected %s, on disk %s", a, b)
	}
	return "", ""
}

// ---- the world

const sq = "sqmk" // the group under update
const sqFile = "groups/" + sq + ".json"

type seqFixture struct {
	mk       markers
	files    map[string][]byte
	adm      *cred
	known    map[string]bool // bcrypt hashes of the fixture
	baseHash string          // hash of everything but the group file
	pbkdf2   map[string]any  // record used by pwput variant 1
	keysets  [][]any
}

type seqState struct {
	file  []byte // content of the group file, nil if absent
	m     *model
	canon string
}

type seqShared struct {
	sb     *sandbox
	fx     *seqFixture
	init   *seqState
	byPath map[string]*seqState
	states map[string]*seqState // by canon
	shard  int
	shards int
	// statistics
	refused int64
	reqs    int64
}

type seqWorld struct {
	sh      *seqShared
	path    string
	depth   int
	st      *seqState
	outcome string
}

const (
	uA    = "ua"   // plain password, role op
	uB    = "ub"   // pbkdf2 password, never addressed
	uC    = "uc"   // bcrypt password, array permissions
	uNew  = "unew" // not in the fixture
	uNone = "EMPTY"
)

func buildSeqFixture() *seqFixture {
	f := &seqFixture{files: map[string][]byte{}, known: map[string]bool{}}
	pf := &fixture{}
	srv := userFx{Name: "root", Pw: f.mk.secret("server-password", mk("sq.srv.pw"))}
	f.adm = &cred{Name: "server-admin", Basic: true, User: srv.Name, Pw: srv.Pw, Global: true}
	f.files["data/config.json"] = mustJSON(map[string]any{
		"writableGroups": true,
		"users":          map[string]any{srv.Name: map[string]any{"password": srv.Pw, "permissions": "admin"}},
	})
	pw := func(form, tag string) any {
		v := pf.pwForm(form, mk("sq.pw."+tag), "sq."+tag)
		if m, ok := v.(map[string]any); ok && m["type"] == "bcrypt" {
			f.known[m["key"].(string)] = true
		}
		return v
	}
	x, y := ecPoint(sq)
	hk := b64(sum32("hmac:" + sq))
	f.mk.secret("hmac-key", hk)
	f.mk.secret("ec-key", x)
	f.mk.secret("ec-key", y)
	d := map[string]any{
		"displayName":     "sq display",
		"description":     "sq description",
		"contact":         "sq@example.org",
		"comment":         "sq comment",
		"max-clients":     7,
		"max-history-age": 3600,
		"public":          true,
		"allow-recording": true,
		"autolock":        true,
		"codecs":          []string{"vp8", "opus"},
		"authPortal":      "https://portal.example/",
		"expires":         "2032-01-01T00:00:00Z",
		"users": map[string]any{
			uA: map[string]any{"password": pw("plain", "ua"), "permissions": "op"},
			uB: map[string]any{"password": pw("pbkdf2", "ub"), "permissions": "present"},
			uC: map[string]any{"password": pw("bcrypt", "uc"), "permissions": []string{"message", "caption"}},
			"": map[string]any{"password": pw("plain", "empty"), "permissions": "observe"},
		},
		"presenter":     []any{map[string]any{"username": "uleg", "password": pw("plain", "uleg")}},
		"wildcard-user": map[string]any{"password": pw("pbkdf2", "wild"), "permissions": "observe"},
		"authKeys": []any{
			map[string]any{"kty": "oct", "alg": "HS256", "k": hk, "kid": "k1"},
			map[string]any{"kty": "EC", "alg": "ES256", "crv": "P-256", "x": x, "y": y, "kid": "k2"},
		},
	}
	f.files[sqFile] = mustJSON(d)
	f.files["groups/other.json"] = mustJSON(map[string]any{
		"displayName": "other",
		"users":       map[string]any{"ox": map[string]any{"password": pw("plain", "ox"), "permissions": "op"}},
	})
	f.files["data/tokens.jsonl"] = []byte(`{"token":"sqtok","group":"` + sq + `","permissions":["present"],"expires":"` + tm(2031) + `"}` + "\n")
	f.mk.list = append(f.mk.list, pf.mk.list...)

	// what the updates write
	f.pbkdf2, _ = pbkdf2Record("c17-seq-pbkdf2", "sq.new")
	f.mk.secret("pbkdf2-hash", f.pbkdf2["key"].(string))
	f.mk.secret("plain-password", seqNewPw)
	f.mk.secret("plain-password", seqPostPw)
	x2, y2 := ecPoint(sq + ".2")
	k2 := b64(sum32("hmac:" + sq + ".2"))
	k3 := b64(append(sum32("hmac:"+sq+".3"), sum32("hmac:" + sq + ".4")[:16]...))
	for _, s := range []string{x2, y2, k2, k3} {
		f.mk.secret("new-key", s)
	}
	f.keysets = [][]any{
		{map[string]any{"kty": "oct", "alg": "HS256", "k": k2, "kid": "n1"}},
		{map[string]any{"kty": "EC", "alg": "ES256", "crv": "P-256", "x": x2, "y": y2},
			map[string]any{"kty": "oct", "alg": "HS384", "k": k3, "kid": "n3"}},
	}
	return f
}

const seqPostDepth = 3 // thorough: POST letters only at positions 1..3

const (
	seqNewPw  = "c17-seq-new-password"
	seqPostPw = "c17-seq-posted-password"
)

var seqRoles = []any{"present", []any{"op", "record"}}
var seqWildRoles = []any{"message", []any{"present"}}

func newSeqShared(shard, shards int) *seqShared {
	sh := &seqShared{sb: newSandbox(), fx: buildSeqFixture(), byPath: map[string]*seqState{},
		states: map[string]*seqState{}, shard: shard, shards: shards}
	sh.sb.bind()
	sh.sb.restore(sh.fx.files)
	sh.fx.baseHash = sh.sb.treeHash(sqFile)
	m, err := parseGroup(sh.fx.files[sqFile])
	if err != nil {
		panic(err)
	}
	sh.init = &seqState{file: sh.fx.files[sqFile], m: m}
	sh.init.canon = sh.canon(m)
	return sh
}

// canon is the normalised JSON of the on-disk definition; hashes produced
// by the POST endpoint (random salt, verified when written) are replaced by
// a placeholder.
func (sh *seqShared) canon(m *model) string {
	c := m.clone()
	fix := func(u *urec) {
		if p, ok := u.Pw.(map[string]any); ok && p["type"] == "bcrypt" {
			if k, _ := p["key"].(string); !sh.fx.known[k] {
				p["key"] = "BCRYPT(" + seqPostPw + ")"
			}
		}
	}
	for n, u := range c.Users {
		fix(&u)
		c.Users[n] = u
	}
	if c.Wild != nil {
		fix(c.Wild)
	}
	b, _ := json.Marshal(c)
	return string(b)
}

func (w *seqWorld) Canon() string   { return w.st.canon }
func (w *seqWorld) Outcome() string { return w.outcome }

func (w *seqWorld) Ops() []seqx.Op {
	m := w.st.m
	var ops []string
	if !m.Exists {
		ops = append(ops, "creategroup")
	} else {
		ops = append(ops, "desc:dnA", "desc:mc9", "desc:mc0")
		for _, u := range []string{uA, uC, uNew, uNone} {
			for r := range seqRoles {
				if u == uNone && r > 0 {
					continue
				}
				ops = append(ops, fmt.Sprintf("user:%s:%d", u, r))
			}
		}
		has := func(u string) bool { _, ok := m.Users[pick(u == uNone, "", u)]; return ok }
		for _, u := range []string{uA, uC, uNew, uNone} {
			if has(u) {
				ops = append(ops, "deluser:"+u)
			}
		}
		for r := range seqWildRoles {
			ops = append(ops, fmt.Sprintf("wild:%d", r))
		}
		if m.Wild != nil {
			ops = append(ops, "delwild")
		}
		for _, u := range []string{uA, uC, uNew, uNone} {
			if has(u) {
				ops = append(ops, "pwput:"+u+":0")
			}
		}
		// the POST endpoint costs two bcrypt runs at cost 8 per execution
		// (hash + verification): in the thorough tier it is not applied as
		// the last letter of a maximal-depth sequence
		post := core.Quick() || w.depth < seqPostDepth
		if has(uA) {
			ops = append(ops, "pwput:"+uA+":1", "pwdel:"+uA)
			if post {
				ops = append(ops, "pwpost:"+uA)
			}
		}
		if has(uC) {
			ops = append(ops, "pwdel:"+uC)
		}
		if m.Wild != nil {
			ops = append(ops, "wpwput", "wpwdel")
			if !core.Quick() && post {
				ops = append(ops, "wpwpost")
			}
		}
		ops = append(ops, "keysput:0", "keysput:1")
		if m.Keys != nil {
			ops = append(ops, "keysdel")
		}
		ops = append(ops, "delgroup")
	}
	var out []seqx.Op
	for i, o := range ops {
		if w.depth == 0 && w.sh.shards > 1 && i%w.sh.shards != w.sh.shard {
			continue
		}
		out = append(out, o)
	}
	return out
}

func (sh *seqShared) req(method, path, ctype, body, im, inm string) (reqSpec, response) {
	rs := reqSpec{Method: method, Path: apiRoot + "/.groups/" + sq + path, Cred: sh.fx.adm.Name,
		CType: ctype, Body: body, IfMatch: im, IfNoneMatch: inm}
	sh.reqs++
	return rs, do(rs, sh.fx.adm)
}

func userURL(u string) string {
	if u == uNone {
		return "/.empty-user"
	}
	return "/.users/" + u
}

func jstr(v any) string {
	b, _ := json.Marshal(v)
	return string(b)
}

func opKind(op string) string {
	if i := strings.Index(op, ":"); i >= 0 {
		return op[:i]
	}
	return op
}

func (w *seqWorld) Apply(o seqx.Op) *core.Violation {
	op, ok := o.(string)
	if !ok {
		op = fmt.Sprint(o)
	}
	sh := w.sh
	key := w.path + "/" + op
	w.path = key
	w.depth++
	if st, ok := sh.byPath[key]; ok {
		w.st = st // this transition was executed before (clean): reuse its result
		return nil
	}
	viol := func(sig, what string) *core.Violation {
		return &core.Violation{Signature: "C17/" + sig, What: what + " (after " + strings.TrimPrefix(key, "/") + ")"}
	}

	// materialise the source state
	sh.sb.write(sqFile, w.st.file)
	want := w.st.m.clone()
	kind := opKind(op)
	arg := strings.Split(op, ":")
	var trace []string
	var secretHit *core.Violation
	run := func(method, path, ctype, body, im, inm string) response {
		rs, r := sh.req(method, path, ctype, body, im, inm)
		trace = append(trace, describe(rs, &r))
		vis := r.visible(method)
		for _, m := range sh.fx.mk.list {
			if m.Secret && bytes.Contains(vis, []byte(m.Val)) && secretHit == nil {
				secretHit = viol("secret-in-response/seq-"+kind+"/"+m.Kind,
					fmt.Sprintf("a response contains a stored secret (%s %q): %s", m.Kind, m.Val, describe(rs, &r)))
			}
		}
		return r
	}
	panicked := func(r response) *core.Violation {
		if r.Panic == "" {
			return nil
		}
		return viol("panic/seq-"+kind, "the handler panicked: "+r.Panic+"\n"+r.Stack)
	}
	ok2 := func(r response) bool { return r.Status == 200 || r.Status == 201 || r.Status == 204 }
	// conditional write: GET the tag, then write with If-Match / If-None-Match
	cond := func(url, method, ctype, body string) (response, *core.Violation) {
		g := run("GET", url, "", "", "", "")
		if v := panicked(g); v != nil {
			return g, v
		}
		im, inm := "", ""
		if g.Status == 200 {
			im = g.Header.Get("ETag")
		} else {
			inm = "*"
		}
		if method == "DELETE" && im == "" {
			return g, nil
		}
		r := run(method, url, ctype, body, im, inm)
		return r, panicked(r)
	}

	addressed, part := "", "all"
	var r response
	var v *core.Violation
	var postedUser *urec
	switch kind {
	case "desc":
		g := run("GET", "", "", "", "", "")
		if v = panicked(g); v != nil {
			return v
		}
		cur, err := generic(g.Body)
		body, _ := cur.(map[string]any)
		if g.Status != 200 || err != nil || body == nil {
			r = g
			break
		}
		switch arg[1] {
		case "dnA":
			body["displayName"] = "display name A"
		case "mc9":
			body["max-clients"] = 9
		case "mc0":
			delete(body, "max-clients")
		}
		r = run("PUT", "", "application/json", jstr(body), g.Header.Get("ETag"), "")
		if v = panicked(r); v != nil {
			return v
		}
		addressed = "other"
		if ok2(r) {
			want.Other = dropZero(body)
		}
	case "creategroup":
		body := map[string]any{"displayName": "recreated", "max-clients": 2}
		r = run("PUT", "", "application/json", jstr(body), "", "*")
		if v = panicked(r); v != nil {
			return v
		}
		addressed = "group"
		if ok2(r) {
			want = &model{Exists: true, Other: body, Users: map[string]urec{}}
		}
	case "delgroup":
		r, v = cond("", "DELETE", "", "")
		if v != nil {
			return v
		}
		addressed = "group"
		if ok2(r) {
			want = &model{Users: map[string]urec{}, Other: map[string]any{}}
		}
	case "user", "deluser":
		u := arg[1]
		name := pick(u == uNone, "", u)
		addressed = "user:" + name
		if kind == "user" {
			part = "perm"
			var ri int
			fmt.Sscanf(arg[2], "%d", &ri)
			role := seqRoles[ri]
			r, v = cond(userURL(u), "PUT", "application/json", jstr(map[string]any{"permissions": role}))
			if v != nil {
				return v
			}
			if ok2(r) {
				old := want.Users[name]
				want.Users[name] = urec{Pw: old.Pw, Perm: role}
			}
		} else {
			r, v = cond(userURL(u), "DELETE", "", "")
			if v != nil {
				return v
			}
			if ok2(r) {
				delete(want.Users, name)
			}
		}
	case "wild", "delwild":
		addressed = "wild"
		if kind == "wild" {
			part = "perm"
			var ri int
			fmt.Sscanf(arg[1], "%d", &ri)
			role := seqWildRoles[ri]
			r, v = cond("/.wildcard-user", "PUT", "application/json", jstr(map[string]any{"permissions": role}))
			if v != nil {
				return v
			}
			if ok2(r) {
				var pw any
				if want.Wild != nil {
					pw = want.Wild.Pw
				}
				want.Wild = &urec{Pw: pw, Perm: role}
			}
		} else {
			r, v = cond("/.wildcard-user", "DELETE", "", "")
			if v != nil {
				return v
			}
			if ok2(r) {
				want.Wild = nil
			}
		}
	case "pwput", "pwpost", "pwdel", "wpwput", "wpwpost", "wpwdel":
		url := "/.wildcard-user/.password"
		name := ""
		wild := strings.HasPrefix(kind, "w")
		part = "pw"
		if !wild {
			url = userURL(arg[1]) + "/.password"
			name = pick(arg[1] == uNone, "", arg[1])
			addressed = "user:" + name
		} else {
			addressed = "wild"
		}
		var newPw any
		switch strings.TrimPrefix(kind, "w") {
		case "pwput":
			if len(arg) > 2 && arg[2] == "1" {
				r = run("PUT", url, "application/json", jstr(sh.fx.pbkdf2), "", "")
				newPw = canonPw(jsonRound(sh.fx.pbkdf2))
			} else {
				r = run("PUT", url, "application/json", jstr(seqNewPw), "", "")
				newPw = canonPw(seqNewPw)
			}
		case "pwpost":
			r = run("POST", url, "text/plain", seqPostPw, "", "")
			postedUser = &urec{}
		case "pwdel":
			r = run("DELETE", url, "", "", "", "")
			newPw = nil
		}
		if v = panicked(r); v != nil {
			return v
		}
		if ok2(r) && postedUser == nil {
			if wild {
				want.Wild = &urec{Pw: newPw, Perm: want.Wild.Perm}
			} else {
				want.Users[name] = urec{Pw: newPw, Perm: want.Users[name].Perm}
			}
		}
	case "keysput":
		var ki int
		fmt.Sscanf(arg[1], "%d", &ki)
		r = run("PUT", "/.keys", "application/jwk-set+json", jstr(map[string]any{"keys": sh.fx.keysets[ki]}), "", "")
		if v = panicked(r); v != nil {
			return v
		}
		addressed = "keys"
		if ok2(r) {
			want.Keys = jsonRound(sh.fx.keysets[ki])
		}
	case "keysdel":
		r = run("DELETE", "/.keys", "", "", "", "")
		if v = panicked(r); v != nil {
			return v
		}
		addressed = "keys"
		if ok2(r) {
			want.Keys = nil
		}
	default:
		panic("unknown op " + op)
	}
	if secretHit != nil {
		return secretHit
	}
	if !ok2(r) {
		sh.refused++
	}

	// read back
	file, err := os.ReadFile(filepath.Join(sh.sb.root, sqFile))
	disk := &model{Users: map[string]urec{}, Other: map[string]any{}}
	if err == nil {
		disk, err = parseGroup(file)
		if err != nil {
			return viol("update-clobbers/"+kind+"/unparsable", "the group file no longer parses: "+err.Error()+"; "+strings.Join(trace, "; "))
		}
	} else {
		file = nil
	}
	// a hash written by the POST endpoint: verify it, then adopt it
	if postedUser != nil && ok2(r) && disk.Exists {
		var got *urec
		if addressed == "wild" {
			got = disk.Wild
		} else if u, ok := disk.Users[strings.TrimPrefix(addressed, "user:")]; ok {
			got = &u
		}
		good := false
		if got != nil {
			if p, ok := got.Pw.(map[string]any); ok && p["type"] == "bcrypt" && len(p) == 2 {
				k, _ := p["key"].(string)
				good = bcrypt.CompareHashAndPassword([]byte(k), []byte(seqPostPw)) == nil
			}
		}
		if !good {
			return viol("update-not-applied/"+kind, "POST of a password answered 2xx but the stored record does not verify the posted password; "+strings.Join(trace, "; "))
		}
		if addressed == "wild" {
			want.Wild = &urec{Pw: got.Pw, Perm: want.Wild.Perm}
		} else {
			n := strings.TrimPrefix(addressed, "user:")
			want.Users[n] = urec{Pw: got.Pw, Perm: want.Users[n].Perm}
		}
	}
	if comp, detail := diff(want, disk, addressed, part); comp != "" {
		if comp == "addressed" || (comp == "other-fields" && addressed == "other") || (comp == "group-file" && addressed == "group") {
			return viol("update-not-applied/"+kind, "the update was answered "+fmt.Sprint(r.Status)+" but the addressed item is not as requested: "+detail+"; "+strings.Join(trace, "; "))
		}
		return viol("update-clobbers/"+kind+"/"+comp, "an update changed something it does not address: "+detail+"; "+strings.Join(trace, "; "))
	}
	if h := sh.sb.treeHash(sqFile); h != sh.fx.baseHash {
		return viol("update-clobbers/"+kind+"/other-files", "an update changed files other than the addressed group's: "+sh.sb.listTree()+"; "+strings.Join(trace, "; "))
	}

	c := sh.canon(disk)
	st, ok := sh.states[c]
	if !ok {
		st = &seqState{file: file, m: disk, canon: c}
		sh.states[c] = st
	}
	sh.byPath[key] = st
	w.st = st
	w.outcome = fmt.Sprintf("%s:%d", kind, r.Status)
	return nil
}

func jsonRound(v any) any {
	b, _ := json.Marshal(v)
	g, _ := generic(b)
	return g
}

func seqConfig(sh *seqShared) seqx.Config {
	return seqx.Config{
		Name:     "update-sequences",
		MaxDepth: core.Pick(3, 4),
		Parallel: 1,
		Fresh: func() seqx.World {
			return &seqWorld{sh: sh, st: sh.init}
		},
	}
}

func runSeq(res *core.Result, shard, shards int) {
	sh := newSeqShared(shard, shards)
	defer sh.sb.close()
	sub := seqx.Explore(seqConfig(sh), res)
	sub.Bound += fmt.Sprintf(", %d-letter alphabet of valid admin updates", len((&seqWorld{sh: &seqShared{fx: sh.fx, shards: 1}, st: sh.init}).Ops()))
	if !core.Quick() {
		sub.Bound += fmt.Sprintf(" (password POST letters at positions <=%d only)", seqPostDepth)
	}
	sub.Note = strings.TrimSpace(sub.Note + fmt.Sprintf(" %d HTTP requests, %d updates answered non-2xx (model unchanged)", sh.reqs, sh.refused))
	res.AddSub(sub)
}

// C17 — the admin API acts only for administrators and never reveals secrets.
//
// Two bounded exhaustive explorations of the real webserver.apiHandler,
// called in-process on httptest recorders over a sandbox of marker-bearing
// group files, a server configuration and a stateful token file:
//
//   - authz-product: the full Cartesian product method x endpoint shape of
//     the router x credential x content-type variant.  Insufficient
//     credentials must be refused (401, or 404 for shapes the router does not
//     have) without effect (tree hash) and without disclosure (markers); no
//     response contains a secret marker; data of a group only reaches those
//     who administer it; every request gets a response (no panic).
//   - update-sequences: BFS over valid administrator updates (conditional
//     PUT/DELETE of group, users, wildcard user, passwords, keys) against a
//     reference model of the group definition: whatever an update does not
//     address is unchanged on disk.
//
// Everything under test is package-level state, so the work is sharded
// across processes, each with its own sandbox.
package main

import (
	"encoding/json"
	"fmt"
	"io"
	"log"
	"os"
	"strings"
	"time"

	"verif/core"
	"verif/seqx"
	"verif/vrt"
)

func main() {
	start := time.Now()
	o := core.ParseFlags(40, 780)
	log.SetOutput(io.Discard) // galene logs refused logins etc.
	res := &core.Result{Property: "C17", Tier: o.Tier,
		Technique: "full Cartesian product of method x router shape x credential on the real apiHandler (in-process, marker fixture, tree hashes); explicit-state BFS over valid admin update sequences vs a reference model of the group definition; preemption-bounded schedule enumeration of a definition update against concurrent user/password/key updates"}
	initProcess()
	if o.Replay != "" {
		replay(o.Replay)
		return
	}
	if o.Shard < 0 {
		core.RunShards(res, core.NCPU(), nil, nil)
		keepWeakest(res)
		res.Assume("requests reach apiHandler directly (httptest), i.e. after net/http's own path cleaning; bodies of HEAD responses are not inspected (net/http discards them)")
		res.Assume("a group's administrator counts as administrator of every name below it (galene resolves subgroups to the parent's definition); a scoped admin token without includeSubgroups only for its exact group; a user addressing .users/<self>/.password with the current password is authorised for that resource")
		res.Assume("the virtual clock stands at 2030-01-01 (stateful tokens); cryptographic tokens are validated by the JWT library against the real clock and are issued around it")
		core.Finish(res, start)
	}
	if core.Want("authz-product") {
		runAuthz(res, o.Shard, o.Shards)
	}
	if core.Want("update-sequences") && res.Fault == "" {
		runSeq(res, o.Shard, o.Shards)
	}
	if core.Want("conc") && res.Fault == "" {
		runConcurrent(res, o.Shard, o.Shards) // last: switches the process to the scheduler
	}
	core.Finish(res, start)
}

func replay(path string) {
	data, err := os.ReadFile(path)
	if err != nil {
		fmt.Println(err)
		os.Exit(2)
	}
	var a struct {
		Signature string `json:"signature"`
		Replay    struct {
			Sub     string   `json:"sub"`
			Request reqSpec  `json:"request"`
			Config  string   `json:"config"`
			Ops     []string `json:"ops"`
			Program string   `json:"program"`
			Choices []int    `json:"choices"`
		} `json:"replay"`
	}
	if err := json.Unmarshal(data, &a); err != nil {
		fmt.Println(err)
		os.Exit(2)
	}
	if a.Replay.Program != "" {
		for _, p := range concPrograms() {
			if p.Name == a.Replay.Program {
				_, out, v := vrt.ReplayChoices(p, a.Replay.Choices)
				if v != nil {
					fmt.Printf("VIOLATION property=C17 replay=%s\n  signature: %s\n  %s\n", path, v.Signature, v.What)
					os.Exit(1)
				}
				fmt.Println("replay: no violation; outcome", out)
				return
			}
		}
		fmt.Println("unknown program")
		os.Exit(2)
	}
	if a.Replay.Sub == "authz-product" {
		vs := replayAuthz(a.Replay.Request)
		for _, v := range vs {
			if v.Signature == a.Signature || familyOf(v.Signature) == familyOf(a.Signature) {
				fmt.Printf("VIOLATION property=C17 replay=%s\n  signature: %s\n  what: %s\n", path, v.Signature, v.What)
				os.Exit(1)
			}
		}
		if len(vs) > 0 {
			fmt.Printf("VIOLATION property=C17 replay=%s\n  signature: %s\n  what: %s\n", path, vs[0].Signature, vs[0].What)
			os.Exit(1)
		}
		fmt.Println("replay: no violation")
		return
	}
	if a.Replay.Config == "update-sequences" {
		sh := newSeqShared(0, 1)
		defer sh.sb.close()
		ops := make([]seqx.Op, len(a.Replay.Ops))
		for i, x := range a.Replay.Ops {
			ops[i] = x
		}
		if v := seqx.Replay(seqConfig(sh), ops); v != nil {
			fmt.Printf("VIOLATION property=C17 replay=%s\n  signature: %s\n  what: %s\n", path, v.Signature, v.What)
			sh.sb.close()
			os.Exit(1)
		}
		fmt.Println("replay: no violation")
		return
	}
	fmt.Println("not a C17 replay artefact")
	os.Exit(2)
}

func familyOf(sig string) string {
	p := strings.Split(sig, "/")
	if len(p) > 2 {
		return strings.Join(p[:2], "/")
	}
	return sig
}
